#!/bin/sh
# Offline setup: warm the Go build cache by building the harness against /repo
# and check that TLC is present. Nothing is fetched.
set -e
cd "$(dirname "$0")"
export GOFLAGS=-mod=mod GOPROXY=off GOSUMDB=off GOTOOLCHAIN=local CGO_ENABLED=0
GO=/root/go/pkg/mod/golang.org/toolchain@v0.0.1-go1.24.3.linux-amd64/bin/go
[ -x "$GO" ] || GO=$(command -v go1.26.8 || command -v go)
cp /repo/go.sum harness/go.sum
mkdir -p .build evidence
(cd harness && "$GO" build -tags verif -o ../.build/vh ./cmd/vh)
[ -f /opt/veriftools/tla/tla2tools.jar ] && command -v java >/dev/null || { echo "TLC missing"; exit 1; }
python3 lib/manifest_gen.py >/dev/null
echo "setup ok"
