// Package codecd drives the real key / value codecs of semadb for property
// C19 and logs facts for spec/KeyCodecTrace.tla. It computes no verdict: it
// generates inputs (model values lifted to the real width, anchors, seeded
// random values), calls the real functions and writes down what they returned,
// next to what Go's own comparison operators say about the inputs.
//
// Words are logged as big-endian byte lists ("patterns"), keys and encodings
// as the byte lists the real code returned.
package codecd

import (
	"bytes"
	"cmp"
	"context"
	"encoding/binary"
	"fmt"
	"math"
	"math/rand"
	"path/filepath"
	"sort"
	"strings"

	_ "github.com/blevesearch/bleve/v2/analysis/analyzer/standard"
	"github.com/blevesearch/bleve/v2/registry"
	"github.com/google/uuid"
	"github.com/semafind/semadb/conversion"
	"github.com/semafind/semadb/diskstore"
	"github.com/semafind/semadb/models"
	"github.com/semafind/semadb/shard/index/inverted"
	"github.com/semafind/semadb/shard/index/text"
	"github.com/semafind/semadb/shard/pointstore"

	"verif/harness/trace"
)

type M = trace.M

// Opts selects what is exercised and how much.
type Opts struct {
	Seed    int64
	Parts   map[string]bool // i64 f64 u64 str fixed words text scan
	IntW    int             // width of the integer model whose values are lifted
	FloatEB int             // exponent / mantissa bits of the mini-float model
	FloatMB int
	Batch   int // values per batch
	Random  int // seeded random values added to every pool
	RandB   int // random batches per pool
	Queries int // range queries per filled bucket
	BigVecs int // how many long vectors are logged in full
	Dir     string
}

type Driver struct {
	O     Opts
	R     *rand.Rand
	TW    *trace.Writer
	Stats map[string]int // what was exercised (for the evidence file)
}

func New(o Opts, tw *trace.Writer) *Driver {
	return &Driver{O: o, R: rand.New(rand.NewSource(o.Seed)), TW: tw, Stats: map[string]int{}}
}

func ints(b []byte) []int {
	out := make([]int, len(b))
	for i, x := range b {
		out[i] = int(x)
	}
	return out
}

func pat64(u uint64) []int {
	var b [8]byte
	binary.BigEndian.PutUint64(b[:], u)
	return ints(b[:])
}

func pat32(u uint32) []int {
	var b [4]byte
	binary.BigEndian.PutUint32(b[:], u)
	return ints(b[:])
}

// ---------------------------------------------------------------------------
// the real sortable codec, per type

type kindOps[T inverted.Invertable] struct {
	name string
	pat  func(T) []int
	rel  func(a, b T) int // Go's own comparison operators
}

func relOf[T cmp.Ordered](a, b T) int {
	switch {
	case a < b:
		return -1
	case a > b:
		return 1
	case a == b:
		return 0
	}
	return 9 // unordered (NaN): never generated
}

var opsI64 = kindOps[int64]{"i64", func(v int64) []int { return pat64(uint64(v)) }, relOf[int64]}
var opsU64 = kindOps[uint64]{"u64", func(v uint64) []int { return pat64(v) }, relOf[uint64]}
var opsF64 = kindOps[float64]{"f64", func(v float64) []int { return pat64(math.Float64bits(v)) }, relOf[float64]}
var opsStr = kindOps[string]{"str", func(v string) []int { return ints([]byte(v)) }, relOf[string]}

func enc[T inverted.Invertable](v T) (k []byte, e int) {
	defer func() {
		if r := recover(); r != nil {
			k, e = nil, 1
		}
	}()
	k, err := inverted.VerifToByteSortable(v)
	if err != nil {
		return nil, 1
	}
	return k, 0
}

func dec[T inverted.Invertable](k []byte) (v T, e int) {
	defer func() {
		if r := recover(); r != nil {
			e = 1
		}
	}()
	if err := inverted.VerifFromByteSortable(k, &v); err != nil {
		return v, 1
	}
	return v, 0
}

// one value: pattern, real key, what the real decoder makes of the real key
func fact[T inverted.Invertable](o kindOps[T], v T) (M, []byte) {
	k, e := enc(v)
	m := M{"p": o.pat(v), "k": ints(k), "e": e}
	if e == 0 {
		d, de := dec[T](append([]byte(nil), k...))
		m["d"] = o.pat(d)
		m["de"] = de
	} else {
		m["d"] = []int{}
		m["de"] = 1
	}
	return m, k
}

func emitBatch[T inverted.Invertable](d *Driver, o kindOps[T], vs []T, why string) {
	n := len(vs)
	vals := make([]M, n)
	keys := make([][]byte, n)
	for i, v := range vs {
		vals[i], keys[i] = fact(o, v)
	}
	vrel := make([][]int, 0, n)
	krel := make([][]int, 0, n)
	for i := 0; i < n-1; i++ {
		vr := make([]int, 0, n-i-1)
		kr := make([]int, 0, n-i-1)
		for j := i + 1; j < n; j++ {
			vr = append(vr, o.rel(vs[i], vs[j]))
			kr = append(kr, bytes.Compare(keys[i], keys[j]))
		}
		vrel = append(vrel, vr)
		krel = append(krel, kr)
	}
	d.Stats["values_"+o.name] += n
	d.Stats["pairs_"+o.name] += n * (n - 1) / 2
	d.TW.Emit("Batch", M{"kind": o.name, "why": why, "vals": vals, "vrel": vrel, "krel": krel})
}

// batches over a pool: chunks in generation order (families of lifted model
// values side by side), windows over the pool sorted by Go's own order
// (overlapping by one: every neighbouring pair of the whole pool is judged,
// the rest follows by transitivity), and seeded random batches.
func batches[T inverted.Invertable](d *Driver, o kindOps[T], pool []T) {
	B := d.O.Batch
	for i := 0; i < len(pool); i += B {
		emitBatch(d, o, pool[i:min(i+B, len(pool))], "chunk")
	}
	sorted := append([]T(nil), pool...)
	sort.SliceStable(sorted, func(i, j int) bool { return o.rel(sorted[i], sorted[j]) < 0 })
	for i := 0; i < len(sorted)-1; i += B - 1 {
		emitBatch(d, o, sorted[i:min(i+B, len(sorted))], "window")
	}
	for b := 0; b < d.O.RandB; b++ {
		vs := make([]T, B)
		for i := range vs {
			vs[i] = pool[d.R.Intn(len(pool))]
		}
		emitBatch(d, o, vs, "random")
	}
}

// ---------------------------------------------------------------------------
// pools: model values lifted to 64 bits

// IntPool lifts every value of the W-bit two's complement model: sign
// extended, top aligned with 0 / 1 / random fill, middle aligned, anchored at
// both ends of the int64 range; plus fixed anchors and random patterns.
func (d *Driver) IntPool() []int64 {
	W := d.O.IntW
	lo, hi := -(int64(1) << (W - 1)), int64(1)<<(W-1)-1
	sh := uint(64 - W)
	fill := uint64(1)<<sh - 1
	var pool []int64
	for m := lo; m <= hi; m++ {
		top := uint64(m) << sh
		pool = append(pool,
			m,
			int64(top),
			int64(top|fill),
			int64(top|(d.R.Uint64()&fill)),
			m<<28,
			m<<28|int64(d.R.Uint64()&(1<<28-1)),
			math.MinInt64+(m-lo),
			math.MaxInt64-(hi-m))
	}
	pool = append(pool, 0, 1, -1, 2, -2, math.MinInt64, math.MinInt64+1, math.MaxInt64, math.MaxInt64-1,
		1<<31, 1<<31-1, -(1 << 31), -(1<<31)-1, 1<<32, 1<<32-1, -(1 << 32), 1<<53, 1<<53+1, -(1 << 53), 1<<62, -(1 << 62),
		255, 256, -255, -256, -257, 65535, 65536, 0x0100000000000000, 0x00ffffffffffffff, -0x0100000000000000)
	for i := 0; i < d.O.Random; i++ {
		x := int64(d.R.Uint64())
		switch d.R.Intn(3) {
		case 0:
			x >>= uint(d.R.Intn(64)) // all magnitudes
		case 1:
			x = int64(uint64(x) & 0xff00ff00ff00ff00) // zero bytes inside
		}
		pool = append(pool, x)
	}
	return pool
}

func (d *Driver) UintPool() []uint64 {
	W := d.O.IntW
	sh := uint(64 - W)
	fill := uint64(1)<<sh - 1
	var pool []uint64
	for m := uint64(0); m < uint64(1)<<W; m++ {
		pool = append(pool, m, m<<sh, m<<sh|fill, m<<sh|(d.R.Uint64()&fill), math.MaxUint64-m)
	}
	pool = append(pool, 0, 1, math.MaxUint64, 1<<63, 1<<63-1, 1<<32, 1<<32-1, 255, 256, 0xff00000000000000, 0x00ffffffffffffff)
	for i := 0; i < d.O.Random; i++ {
		pool = append(pool, d.R.Uint64()>>uint(d.R.Intn(64)))
	}
	return pool
}

// FloatPool lifts every non-NaN value of the mini-float model (1 sign bit, EB
// exponent bits, MB mantissa bits): zero / subnormal exponent stays 0, the
// all-ones exponent (infinities) becomes 2047, normal exponents are placed
// around the bias, at the bottom, at the top and proportionally; mantissas are
// top aligned with 0 / 1 / random fill, kept in the low bits and put under a
// run of ones. NaNs are never produced.
func (d *Driver) FloatPool() []float64 {
	EB, MB := d.O.FloatEB, d.O.FloatMB
	emax := 1<<EB - 1
	bias := 1<<(EB-1) - 1
	msh := uint(52 - MB)
	mfill := uint64(1)<<msh - 1
	var pool []float64
	for s := uint64(0); s < 2; s++ {
		for e := 0; e <= emax; e++ {
			for m := uint64(0); m < uint64(1)<<MB; m++ {
				if e == emax && m != 0 {
					continue // NaN of the model
				}
				var exps []uint64
				switch e {
				case 0:
					exps = []uint64{0}
				case emax:
					exps = []uint64{2047}
				default:
					prop := uint64(e * 2047 / emax)
					exps = []uint64{uint64(1023 + e - bias), uint64(e), uint64(2047 - (emax - e)), prop}
				}
				mants := []uint64{m << msh, m<<msh | mfill, m<<msh | (d.R.Uint64() & mfill), m, (uint64(1)<<52 - uint64(1)<<MB) | m}
				for _, ex := range exps {
					for _, mt := range mants {
						if ex == 2047 {
							mt = 0
						}
						pool = append(pool, math.Float64frombits(s<<63|ex<<52|mt))
						if ex == 2047 {
							break
						}
					}
				}
			}
		}
	}
	negZero := math.Copysign(0, -1)
	anch := []float64{0, negZero, 1, -1, math.MaxFloat64, -math.MaxFloat64, math.SmallestNonzeroFloat64, -math.SmallestNonzeroFloat64,
		math.Inf(1), math.Inf(-1), 2.2250738585072014e-308, -2.2250738585072014e-308, // smallest normal
		math.Float64frombits(0x000fffffffffffff), math.Float64frombits(0x800fffffffffffff), // largest subnormal
		math.Nextafter(1, 2), math.Nextafter(1, 0), math.Nextafter(-1, -2), math.Nextafter(-1, 0), 0.5, -0.5, 2, -2, 1e-300, -1e-300, 1e300, -1e300,
		9007199254740992, 9007199254740993, -9223372036854775808, 18446744073709551615, 0.1, -0.1, math.Pi, -math.E,
		math.Float64frombits(0x7fefffffffffffff), math.Float64frombits(0xffefffffffffffff), math.Float64frombits(0x0000000000000001), math.Float64frombits(0x8000000000000001),
		math.Float64frombits(0x00ff00ff00ff00ff), math.Float64frombits(0x80ff00ff00ff00ff), math.Float64frombits(0x7f00000000000000), math.Float64frombits(0xff00000000000000)}
	pool = append(pool, anch...)
	for i := 0; i < d.O.Random; i++ {
		var f float64
		for {
			bits := d.R.Uint64()
			if d.R.Intn(3) == 0 { // small exponents / subnormals
				bits &^= uint64(0x7fe) << 52
			}
			f = math.Float64frombits(bits)
			if f == f {
				break
			}
		}
		pool = append(pool, f)
	}
	return pool
}

// StrPool: every string of the 3-letter model up to length 3 under three
// monotone letter-to-byte maps (prefix related strings, 0x00 and 0xff bytes,
// invalid UTF-8), fixed anchors, long strings with long common prefixes,
// seeded random byte strings.
func (d *Driver) StrPool() []string {
	maps := [][]byte{{0x00, 0x61, 0xff}, {'a', 'b', 'c'}, {0x7f, 0x80, 0xfe}}
	var model [][]int
	model = append(model, []int{})
	for l, from := 1, 0; l <= 3; l++ {
		to := len(model)
		for _, s := range model[from:to] {
			for x := 0; x < 3; x++ {
				model = append(model, append(append([]int(nil), s...), x))
			}
		}
		from = to
	}
	var pool []string
	for _, mp := range maps {
		for _, s := range model {
			b := make([]byte, len(s))
			for i, x := range s {
				b[i] = mp[x]
			}
			pool = append(pool, string(b))
		}
	}
	long := bytes.Repeat([]byte("semadb-"), 40)
	pool = append(pool, "", "a", "A", "aa", "ab", "a\x00", "a\x00b", "a\xff", "b", "é", "e", "f", "日本語", "日本", "zebra", "Zebra", "zebr",
		"\xf0\x9f\x98\x80", "\xff", "\xff\xff", "\x00", "\x00\x00", string(long), string(long)+"a", string(long)+"\x00", string(long[:len(long)-1]),
		"0", "00", "1", "10", "2", "9", "t", "s", "ts", "d", "n", "p")
	for i := 0; i < d.O.Random; i++ {
		b := make([]byte, d.R.Intn(12))
		for j := range b {
			if d.R.Intn(2) == 0 {
				b[j] = []byte{0, 1, 'a', 'b', 0x7f, 0x80, 0xfe, 0xff}[d.R.Intn(8)]
			} else {
				b[j] = byte(d.R.Intn(256))
			}
		}
		pool = append(pool, string(b))
	}
	return pool
}

// ---------------------------------------------------------------------------
// buckets filled with real keys, scanned by the real backends

func pick[T any](r *rand.Rand, pool []T, n int) []T {
	out := make([]T, n)
	for i := range out {
		out[i] = pool[r.Intn(len(pool))]
	}
	return out
}

func (d *Driver) open(be, name string) (diskstore.DiskStore, error) {
	if be == "mem" {
		return diskstore.Open("")
	}
	return diskstore.Open(filepath.Join(d.O.Dir, name+".bbolt"))
}

type visited struct {
	k []byte
	d []int
}

func scanFacts[T inverted.Invertable](o kindOps[T], vs []visited) ([][]int, [][]int) {
	got := make([][]int, len(vs))
	dc := make([][]int, len(vs))
	for i, v := range vs {
		got[i] = ints(v.k)
		dc[i] = v.d
	}
	return got, dc
}

func scans[T inverted.Invertable](d *Driver, o kindOps[T], pool, must []T, be string, round int) error {
	db, err := d.open(be, fmt.Sprintf("scan-%s-%d", o.name, round))
	if err != nil {
		return err
	}
	defer db.Close()
	table := append(append([]T(nil), must...), pick(d.R, pool, d.O.Batch-len(must))...)
	vals := make([]M, len(table))
	err = db.Write(func(bm diskstore.BucketManager) error {
		b, err := bm.Get("c19")
		if err != nil {
			return err
		}
		for i, v := range table {
			k, e := enc(v)
			if e != 0 {
				// a value of the quantified domain that the encoder refuses: for the spec to judge (no action
				// of KeyCodecTrace.tla explains it), not a driver failure
				d.TW.Emit("EncodeRefused", M{"fn": o.name, "p": o.pat(v), "what": fmt.Sprintf("%v", v)})
				return nil
			}
			ok := 1
			if err := b.Put(k, conversion.Uint64ToBytes(uint64(i))); err != nil {
				ok = 0
			}
			vals[i] = M{"p": o.pat(v), "k": ints(k), "ok": ok}
		}
		return nil
	})
	if err != nil {
		return err
	}
	d.Stats["buckets_"+be]++
	d.TW.Emit("Fill", M{"be": be, "kind": o.name, "vals": vals})
	bound := func(v T) []M {
		k, _ := enc(v)
		return []M{{"p": o.pat(v), "k": ints(k)}}
	}
	visit := func(acc *[]visited) func(k, v []byte) error {
		return func(k, v []byte) error {
			kk := append([]byte(nil), k...)
			x, de := dec[T](kk)
			if de != 0 {
				return fmt.Errorf("decode of visited key failed")
			}
			*acc = append(*acc, visited{kk, o.pat(x)})
			return nil
		}
	}
	return db.Read(func(bm diskstore.BucketManager) error {
		b, err := bm.Get("c19")
		if err != nil {
			return err
		}
		for q := 0; q < d.O.Queries; q++ {
			// bounds from the table (hits on stored keys) and from the pool (between them)
			var src []T
			if d.R.Intn(2) == 0 {
				src = table
			} else {
				src = pool
			}
			lo, hi := src[d.R.Intn(len(src))], pool[d.R.Intn(len(pool))]
			if o.rel(lo, hi) > 0 && d.R.Intn(4) != 0 {
				lo, hi = hi, lo
			}
			shape := q % 3 // both bounds, only lower, only upper
			incl := d.R.Intn(2)
			var start, end []byte
			ev := M{"incl": incl, "lo": []M{}, "hi": []M{}}
			if shape != 2 {
				start, _ = enc(lo)
				ev["lo"] = bound(lo)
			}
			if shape != 1 {
				end, _ = enc(hi)
				ev["hi"] = bound(hi)
			}
			var acc []visited
			e := 0
			if err := b.RangeScan(start, end, incl == 1, visit(&acc)); err != nil {
				e = 1
			}
			ev["got"], ev["dec"] = scanFacts(o, acc)
			ev["err"] = e
			d.Stats["range_scans"]++
			d.TW.Emit("Range", ev)
		}
		if o.name == "str" {
			for q := 0; q < d.O.Queries; q++ {
				s := any(src2(d.R, table, pool)).(string)
				if len(s) > 0 && d.R.Intn(3) != 0 {
					s = s[:d.R.Intn(len(s)+1)]
				}
				v := any(s).(T)
				k, _ := enc(v)
				var acc []visited
				e := 0
				if err := b.PrefixScan(k, visit(&acc)); err != nil {
					e = 1
				}
				ev := M{"q": M{"p": o.pat(v), "k": ints(k)}, "err": e}
				ev["got"], ev["dec"] = scanFacts(o, acc)
				d.Stats["prefix_scans"]++
				d.TW.Emit("Prefix", ev)
			}
		}
		return nil
	})
}

func src2[T any](r *rand.Rand, a, b []T) T {
	if r.Intn(3) != 0 {
		return a[r.Intn(len(a))]
	}
	return b[r.Intn(len(b))]
}

// ---------------------------------------------------------------------------
// node / point keys

type fixedObj struct {
	t  string
	id uint64
	uu uuid.UUID
	s  byte
}

func (d *Driver) Fixed() {
	suffixes := []byte{'i', 'd', 'v', 'q', 'e', 'n', 'p', 's', 't', 0, 1, 0xff}
	var ids []uint64
	W := uint(d.O.IntW)
	for m := uint64(0); m < 1<<W; m++ {
		ids = append(ids, m, m<<(64-W), m<<(64-W)|(1<<(64-W)-1), math.MaxUint64-m, m<<32|m)
	}
	ids = append(ids, 'n', 'p', 'i', 0x6e00000000000000, 0x69, 0x6900000000000000, 0x0101010101010101)
	for i := 0; i < d.O.Random; i++ {
		ids = append(ids, d.R.Uint64()>>uint(d.R.Intn(64)))
	}
	var uus []uuid.UUID
	for i := 0; i < len(ids); i++ {
		var u uuid.UUID
		switch i % 5 {
		case 0:
			d.R.Read(u[:])
		case 1: // a uuid that spells a node key: 'n' + id + suffix ...
			k := conversion.NodeKey(ids[i], suffixes[i%len(suffixes)])
			copy(u[:], k)
		case 2: // ... or starts with the id bytes
			binary.LittleEndian.PutUint64(u[:], ids[i])
			u[8] = suffixes[i%len(suffixes)]
		case 3:
			for j := range u {
				u[j] = byte(0xff * (i / 5 % 2))
			}
			u[15-i%16] = byte(i)
		case 4:
			binary.BigEndian.PutUint64(u[8:], ids[i])
		}
		uus = append(uus, u)
	}
	// neighbours that differ in the first / last / one middle byte only
	for i := 0; i+3 < len(uus); i += 4 {
		uus[i+1] = uus[i]
		uus[i+1][15] ^= 1 << uint(i%8)
		uus[i+2] = uus[i]
		uus[i+2][0] ^= 0x80
		uus[i+3] = uus[i]
		uus[i+3][1+i%14]++
	}
	var pool []fixedObj
	for i, id := range ids {
		pool = append(pool, fixedObj{t: "node", id: id, s: suffixes[i%len(suffixes)]}, fixedObj{t: "node", id: id, s: suffixes[(i+1)%len(suffixes)]},
			fixedObj{t: "point", uu: uus[i], s: suffixes[i%len(suffixes)]}, fixedObj{t: "point", uu: uus[i], s: 'i'})
	}
	B := d.O.Batch
	emit := func(objs []fixedObj) {
		out := make([]M, len(objs))
		for i, o := range objs {
			var k []byte
			var idb []int
			if o.t == "node" {
				k = conversion.NodeKey(o.id, o.s)
				idb = pat64(o.id)
			} else {
				k = pointstore.PointKey(o.uu, o.s)
				idb = ints(o.uu[:])
			}
			probes := []M{}
			for _, s := range []byte{o.s, 'i', 'd', suffixes[d.R.Intn(len(suffixes))], byte(d.R.Intn(256))} {
				id, ok := conversion.NodeIdFromKey(k, s)
				b := 0
				if ok {
					b = 1
				}
				probes = append(probes, M{"s": int(s), "ok": b, "id": pat64(id)})
			}
			out[i] = M{"t": o.t, "id": idb, "s": int(o.s), "k": ints(k), "probes": probes}
		}
		d.Stats["fixed_keys"] += len(out)
		d.Stats["fixed_pairs"] += len(out) * (len(out) - 1) / 2
		d.TW.Emit("Fixed", M{"objs": out})
	}
	for i := 0; i < len(pool); i += B {
		emit(pool[i:min(i+B, len(pool))])
	}
	for b := 0; b < d.O.RandB; b++ {
		emit(pick(d.R, pool, B)) // with repetitions: equal objects must give equal keys
	}
}

// ---------------------------------------------------------------------------
// value layouts: float32 vectors, edge lists, uint64, single float32

var f32classes = []uint32{
	0x00000000, 0x80000000, // zeros
	0x3f800000, 0xbf800000, 0x7f7fffff, 0xff7fffff, 0x00800000, 0x80800000, // normal: 1, -1, max, min normal
	0x00000001, 0x80000001, 0x007fffff, 0x807fffff, // subnormal
	0x7f800000, 0xff800000, // infinities
	0x7fc00000, 0xffc00000, 0x7fc00001, 0x7fa00000, 0x7f800001, 0xffffffff, 0x7fffffff, 0xff800001, // quiet / signalling NaNs with payloads
	0x01020304, 0x04030201, 0xff00ff00, 0x00ff00ff, // byte-order tell-tales
}

func (d *Driver) f32bits(i int) uint32 {
	switch d.R.Intn(3) {
	case 0:
		return f32classes[(i+d.R.Intn(len(f32classes)))%len(f32classes)]
	case 1:
		return d.R.Uint32()
	}
	return uint32(i)*0x01010101 + 0x00010203
}

func (d *Driver) Words() {
	lens := []int{1, 2, 3, 4, 5, 7, 8, 9, 15, 16, 17, 31, 32, 33, 63, 64, 65, 100, 127, 128, 129, 255, 256, 257, 300, 511, 512, 513, 768, 1000, 1023, 1024,
		1025, 1536, 2047, 2048, 2049, 3000, 4095, 4096}
	for i := 0; i < d.O.Random/4; i++ {
		lens = append(lens, 1+d.R.Intn(4096))
	}
	// long vectors are logged in full too, but only some of them: 1024, 4095, 4096
	// always, BigVecs more drawn with the seed
	keep := map[int]bool{1024: true, 4095: true, 4096: true}
	var long []int
	for _, n := range lens {
		if n > 520 && !keep[n] {
			long = append(long, n)
		}
	}
	d.R.Shuffle(len(long), func(i, j int) { long[i], long[j] = long[j], long[i] })
	for _, n := range long[:min(d.O.BigVecs, len(long))] {
		keep[n] = true
	}
	for li, n := range lens {
		if n > 520 && !keep[n] {
			continue
		}
		// float32 vector
		bits := make([]uint32, n)
		vec := make([]float32, n)
		for i := range vec {
			if n == len(f32classes) || li == 0 {
				bits[i] = f32classes[i%len(f32classes)]
			} else {
				bits[i] = d.f32bits(i)
			}
			vec[i] = math.Float32frombits(bits[i])
		}
		in := make([]int, 0, 4*n)
		for _, b := range bits {
			in = append(in, pat32(b)...)
		}
		encd := conversion.Float32ToBytes(vec)
		enccopy := append([]byte(nil), encd...)
		// decode from a buffer at an arbitrary alignment, as bbolt hands out
		off := li % 4
		buf := make([]byte, len(enccopy)+8)
		copy(buf[off:], enccopy)
		back := conversion.BytesToFloat32(buf[off : off+len(enccopy)])
		out := make([]int, 0, 4*len(back))
		for _, f := range back {
			out = append(out, pat32(math.Float32bits(f))...)
		}
		d.Stats["vectors"]++
		d.Stats["vector_elems"] += n
		d.TW.Emit("Words", M{"fn": "f32vec", "w": 4, "n": n, "off": off, "inp": in, "bytes": ints(enccopy), "outp": out})
		// edge list
		if n <= 130 || n == 4096 || n == 1024 || (n > 520 && li%3 == 0) {
			edges := make([]uint64, n)
			ein := make([]int, 0, 8*n)
			for i := range edges {
				switch d.R.Intn(4) {
				case 0:
					edges[i] = uint64(i)
				case 1:
					edges[i] = d.R.Uint64()
				case 2:
					edges[i] = math.MaxUint64 - uint64(i)
				case 3:
					edges[i] = 0x0102030405060708
				}
				ein = append(ein, pat64(edges[i])...)
			}
			eb := conversion.EdgeListToBytes(edges)
			eback := conversion.BytesToEdgeList(append([]byte(nil), eb...))
			eout := make([]int, 0, 8*n)
			for _, e := range eback {
				eout = append(eout, pat64(e)...)
			}
			d.Stats["edge_lists"]++
			d.TW.Emit("Words", M{"fn": "edges", "w": 8, "n": n, "off": 0, "inp": ein, "bytes": ints(eb), "outp": eout})
		}
	}
	// every float32 class as a vector of one and through the single-value codec
	var sin, sb, sout []int
	for _, b := range f32classes {
		sin = append(sin, pat32(b)...)
		e := conversion.SingleFloat32ToBytes(math.Float32frombits(b))
		sb = append(sb, ints(e)...)
		sout = append(sout, pat32(math.Float32bits(conversion.BytesToSingleFloat32(e)))...)
		one := conversion.Float32ToBytes([]float32{math.Float32frombits(b)})
		one = append([]byte(nil), one...)
		back := conversion.BytesToFloat32(one)
		o := []int{}
		for _, f := range back {
			o = append(o, pat32(math.Float32bits(f))...)
		}
		d.TW.Emit("Words", M{"fn": "f32vec", "w": 4, "n": 1, "off": 0, "inp": pat32(b), "bytes": ints(one), "outp": o})
	}
	d.TW.Emit("Words", M{"fn": "f32", "w": 4, "n": len(f32classes), "off": 0, "inp": sin, "bytes": sb, "outp": sout})
	// uint64 values (node ids, counters)
	us := d.UintPool()
	for i := 0; i < len(us); i += 64 {
		var uin, ub, uout []int
		chunk := us[i:min(i+64, len(us))]
		for _, u := range chunk {
			uin = append(uin, pat64(u)...)
			e := conversion.Uint64ToBytes(u)
			ub = append(ub, ints(e)...)
			uout = append(uout, pat64(conversion.BytesToUint64(e))...)
		}
		d.TW.Emit("Words", M{"fn": "u64", "w": 8, "n": len(chunk), "off": 0, "inp": uin, "bytes": ub, "outp": uout})
	}
}

// ---------------------------------------------------------------------------
// text index keys (termKey / documentKey are unexported): a real text index
// writes into a bucket, the bucket's keys are listed

var analysers = registry.NewCache()

func termsOf(s string) [][]int {
	an, err := analysers.AnalyzerNamed("standard")
	if err != nil {
		panic(err)
	}
	seen := map[string]bool{}
	out := [][]int{}
	for _, t := range an.Analyze([]byte(s)) {
		if !seen[string(t.Term)] {
			seen[string(t.Term)] = true
			out = append(out, ints(t.Term))
		}
	}
	return out
}

var vocab = []string{"semadb", "tests", "test", "ts", "st", "ss", "tt", "sts", "tst", "dddddddd", "d", "dog", "toys", "tips", "s3", "t1000", "_numDocuments",
	"numdocuments", "café", "naïve", "日本語", "straße", "x", "zz", "tots", "this", "the", "trees", "vector", "search", "graph", "0", "42", "1e9",
	"supercalifragilisticexpialidocious", "a-b", "it's", "t's", "vectors", "toolbox",
	// unbroken runs longer than any "reasonable" key bound, telling each other apart only at the far end
	strings.Repeat("x", 254), strings.Repeat("x", 255) + "a", strings.Repeat("x", 255) + "b", strings.Repeat("x", 256) + "a", strings.Repeat("q", 1000) + "1", strings.Repeat("q", 1000) + "2"}

// the document id whose key would spell the key of a 7-letter term if the two
// key kinds were told apart by nothing but their first byte
func idSpelling(term string) uint64 {
	return binary.LittleEndian.Uint64([]byte(term + "s"))
}

func (d *Driver) TextKeys(be string, round int) error {
	db, err := d.open(be, fmt.Sprintf("text-%d", round))
	if err != nil {
		return err
	}
	defer db.Close()
	ndocs := 4 + d.R.Intn(12)
	idPool := []uint64{0, 1, 2, 100, 255, 256, 1 << 32, 1<<63 - 1, 1 << 63, math.MaxUint64, math.MaxUint64 - 1, 0x6464646464646464, 0x7300000000000074}
	used := map[uint64]bool{idSpelling("vectors"): true, idSpelling("toolbox"): true}
	docs := []text.Document{{Id: idSpelling("vectors"), Text: "toolbox of vectors"}, {Id: idSpelling("toolbox"), Text: "semadb"}}
	ndocs += 2
	for len(docs) < ndocs {
		var id uint64
		if d.R.Intn(3) == 0 {
			id = d.R.Uint64() >> uint(d.R.Intn(64))
		} else {
			id = idPool[d.R.Intn(len(idPool))]
		}
		if used[id] {
			continue
		}
		used[id] = true
		nw := d.R.Intn(7)
		txt := ""
		for w := 0; w < nw; w++ {
			txt += vocab[d.R.Intn(len(vocab))] + []string{" ", ", ", ". ", "  "}[d.R.Intn(4)]
		}
		docs = append(docs, text.Document{Id: id, Text: txt})
	}
	var keys [][]int
	err = db.Write(func(bm diskstore.BucketManager) error {
		b, err := bm.Get("text")
		if err != nil {
			return err
		}
		idx, err := text.NewIndexText(b, models.IndexTextParameters{Analyser: "standard"})
		if err != nil {
			return err
		}
		ch := make(chan text.Document)
		errC := idx.InsertUpdateDelete(context.Background(), ch)
		for _, doc := range docs {
			ch <- doc
		}
		close(ch)
		if err := <-errC; err != nil {
			return err
		}
		return b.ForEach(func(k, v []byte) error {
			keys = append(keys, ints(k))
			return nil
		})
	})
	if err != nil {
		return err
	}
	dl := make([]M, len(docs))
	for i, doc := range docs {
		dl[i] = M{"id": pat64(doc.Id), "terms": termsOf(doc.Text)}
	}
	d.Stats["text_buckets"]++
	d.Stats["text_keys"] += len(keys)
	d.TW.Emit("TextKeys", M{"be": be, "docs": dl, "keys": keys})
	return nil
}

// ---------------------------------------------------------------------------

func (d *Driver) Run() error {
	p := d.O.Parts
	backends := []string{"mem", "file"}
	if p["i64"] {
		pool := d.IntPool()
		d.TW.Emit("Note", M{"what": "i64 pool", "n": len(pool), "model_bits": d.O.IntW})
		batches(d, opsI64, pool)
		if p["scan"] {
			for r, be := range backends {
				if err := scans(d, opsI64, pool, []int64{0, -1, 1, math.MinInt64, math.MaxInt64}, be, r); err != nil {
					return err
				}
			}
		}
	}
	if p["u64"] {
		pool := d.UintPool()
		d.TW.Emit("Note", M{"what": "u64 pool", "n": len(pool), "model_bits": d.O.IntW})
		batches(d, opsU64, pool)
		if p["scan"] {
			for r, be := range backends {
				if err := scans(d, opsU64, pool, []uint64{0, 1, math.MaxUint64}, be, r); err != nil {
					return err
				}
			}
		}
	}
	if p["f64"] {
		pool := d.FloatPool()
		d.TW.Emit("Note", M{"what": "f64 pool", "n": len(pool), "model_eb": d.O.FloatEB, "model_mb": d.O.FloatMB})
		batches(d, opsF64, pool)
		if p["scan"] {
			must := []float64{0, math.Copysign(0, -1), math.Inf(-1), math.Inf(1), math.SmallestNonzeroFloat64, -math.SmallestNonzeroFloat64, math.MaxFloat64, -math.MaxFloat64}
			for r, be := range backends {
				for rr := 0; rr < 2; rr++ {
					if err := scans(d, opsF64, pool, must[rr*2:], be, r*2+rr); err != nil {
						return err
					}
				}
			}
		}
	}
	if p["str"] {
		pool := d.StrPool()
		d.TW.Emit("Note", M{"what": "str pool", "n": len(pool)})
		batches(d, opsStr, pool)
		if p["scan"] {
			for r, be := range backends {
				for rr := 0; rr < 2; rr++ {
					must := []string{"", "a", "ab", "abc", "b", "a\x00", "a\xff", "\xff"}
					if rr == 1 {
						must = must[1:] // a bucket without the empty string
					}
					if err := scans(d, opsStr, pool, must, be, r*2+rr); err != nil {
						return err
					}
				}
			}
		}
	}
	if p["fixed"] {
		d.Fixed()
	}
	if p["words"] {
		d.Words()
	}
	if p["text"] {
		for r := 0; r < 1+d.O.RandB/2; r++ {
			for _, be := range backends {
				if err := d.TextKeys(be, r); err != nil {
					return err
				}
			}
		}
	}
	return nil
}
