// Package mgrd replays TLC-generated behaviours of ShardMgr.tla on a real
// cluster.ShardManager through the hook-H3 yield points and records the
// property-level events (opened / closed / run / remove / return / stuck) for
// validation by MgrMonitor.tla ("drive, then validate").
package mgrd

import (
	"bufio"
	"encoding/json"
	"fmt"
	"math/rand"
	"os"
	"path/filepath"
	"sort"
	"strings"
	"sync"
	"time"

	"github.com/semafind/semadb/cluster"
	"github.com/semafind/semadb/models"
	"github.com/semafind/semadb/shard"

	"verif/harness/gate"
	"verif/harness/trace"
)

type M = trace.M

type Step struct {
	Act string
	Arg int
}

type Opts struct {
	StepTimeout time.Duration // how long a released actor may take to reach its next gate
	Backups     bool
	BackupFail  bool // with Backups: the shard directory sits so deep that the backup file name exceeds PATH_MAX (the copy fails)
}

type replay struct {
	tw    *trace.Writer
	sched *gate.Sched
	sm    *cluster.ShardManager
	root  string
	col   models.Collection
	opts  Opts

	mu        sync.Mutex
	lsIdx     map[any]int
	timers    map[int]*time.Timer
	pendingLS []int          // opened, cleanup goroutine has not registered its timer yet
	lsOf      map[string]int // request actor -> ls index it obtained
	actors    []string
	delRound  int
	drift     []string
	timedOut  bool
}

const shardID = "s1"

// idx returns the index of a loadedShard of this replay (0 = not ours: a
// straggler goroutine of an earlier behaviour).
// confirmStuck: every call that did not return is parked on a lock (mutex, file
// lock) or, observed twice two seconds apart, on the same channel operation.
func (rp *replay) confirmStuck(pending []string) (string, map[string]string, bool) {
	dump := gate.Dump()
	info := gate.BlockedOnLock(dump, rp.sched.GoIDs())
	blocked, onChan := true, false
	for _, a := range pending {
		switch {
		case strings.Contains(info[a], "sync.") || strings.Contains(info[a], "flock"):
		case strings.Contains(info[a], "chan send") || strings.Contains(info[a], "chan receive"):
			onChan = true
		default:
			blocked = false
		}
	}
	if blocked && onChan {
		time.Sleep(2 * time.Second)
		dump2 := gate.Dump()
		info2 := gate.BlockedOnLock(dump2, rp.sched.GoIDs())
		for _, a := range pending {
			if info2[a] != info[a] {
				blocked = false
			}
		}
		dump = dump2
	}
	return dump, info, blocked
}

func (rp *replay) idx(key any) int {
	rp.mu.Lock()
	defer rp.mu.Unlock()
	return rp.lsIdx[key]
}

func (rp *replay) register(key any) int {
	rp.mu.Lock()
	defer rp.mu.Unlock()
	i := len(rp.lsIdx) + 1
	rp.lsIdx[key] = i
	return i
}

func (rp *replay) hookYield(label string, key any) {
	if label != "ev.opened" && label != "req.lockStore" && label != "del.lockStore" && label != "del.remove" {
		if rp.idx(key) == 0 {
			return
		}
	}
	switch label {
	case "ev.opened":
		if rp.sched.Actor() == "" {
			return
		}
		i := rp.register(key)
		rp.mu.Lock()
		rp.pendingLS = append(rp.pendingLS, i)
		rp.mu.Unlock()
		rp.tw.Emit("Opened", M{"ls": i})
	case "ev.closed":
		by := "cl"
		if strings.HasPrefix(rp.sched.Actor(), "del") {
			by = "del"
		}
		rp.tw.Emit("Closed", M{"ls": rp.idx(key), "by": by})
	case "cl.fired", "cl.lockStore":
		rp.sched.Yield(fmt.Sprintf("cl%d", rp.idx(key)), label)
	case "req.lockStore":
		if a := rp.sched.Actor(); a != "" {
			rp.sched.Yield(a, label)
		}
	case "req.rlock":
		if a := rp.sched.Actor(); a != "" {
			i := rp.idx(key)
			rp.mu.Lock()
			rp.lsOf[a] = i
			rp.mu.Unlock()
			rp.sched.Yield(a, label)
		}
	case "del.lockStore", "del.lockLs":
		if a := rp.sched.Actor(); a != "" {
			rp.sched.Yield(a, label)
		}
	case "del.remove":
		if a := rp.sched.Actor(); a != "" {
			rp.sched.Yield(a, label)
			rp.tw.Emit("Remove", M{})
		}
	}
}

func (rp *replay) hookTimer(dir string, t *time.Timer) *time.Timer {
	if !strings.HasPrefix(dir, rp.root) {
		return t
	}
	t.Stop()
	nt := time.NewTimer(time.Hour)
	rp.mu.Lock()
	i := 0
	if len(rp.pendingLS) > 0 {
		i = rp.pendingLS[0]
		rp.pendingLS = rp.pendingLS[1:]
	}
	rp.mu.Unlock()
	rp.sched.Bind(fmt.Sprintf("cl%d", i))
	rp.mu.Lock()
	rp.timers[i] = nt
	rp.mu.Unlock()
	return nt
}

func (rp *replay) timerOf(i int) *time.Timer {
	deadline := time.Now().Add(rp.opts.StepTimeout)
	for {
		rp.mu.Lock()
		t := rp.timers[i]
		rp.mu.Unlock()
		if t != nil || time.Now().After(deadline) {
			return t
		}
		time.Sleep(100 * time.Microsecond)
	}
}

func (rp *replay) request(name string) {
	rp.actors = append(rp.actors, name)
	r := name
	rp.sched.Go(name, func() {
		ran := false
		err := rp.sm.DoWithShard(rp.col, shardID, func(s *shard.Shard) error {
			ran = true
			rp.mu.Lock()
			ls := rp.lsOf[r]
			rp.mu.Unlock()
			_, e0 := s.Info()
			rp.tw.Emit("RunEnter", M{"r": r, "ls": ls, "ok": b2i(e0 == nil)})
			rp.sched.Yield(r, "req.run")
			_, e1 := s.Info() // touches storage: a shard closed under us shows here
			rp.tw.Emit("RunExit", M{"r": r, "ls": ls, "ok": b2i(e1 == nil)})
			return nil
		})
		rp.tw.Emit("Return", M{"r": r, "ok": b2i(err == nil), "ran": b2i(ran)})
	})
}

func (rp *replay) deleter() string {
	rp.delRound++
	name := fmt.Sprintf("del%d", rp.delRound)
	rp.actors = append(rp.actors, name)
	rp.sched.Go(name, func() {
		_, err := rp.sm.DeleteCollectionShards(rp.col)
		rp.tw.Emit("DelReturn", M{"ok": b2i(err == nil)})
	})
	return name
}

func b2i(b bool) int {
	if b {
		return 1
	}
	return 0
}

func (rp *replay) note(format string, a ...any) {
	rp.drift = append(rp.drift, fmt.Sprintf(format, a...))
}

// expect waits for the actor to be parked at one of the labels (or "done").
func (rp *replay) expect(actor string, want ...string) string {
	var w string
	if strings.HasPrefix(actor, "cl") {
		w = rp.sched.WaitSpawned(actor, rp.opts.StepTimeout)
	} else {
		w = rp.sched.Wait(actor, rp.opts.StepTimeout)
	}
	for _, x := range want {
		if w == x {
			return w
		}
	}
	rp.note("%s: expected %v, observed %q", actor, want, w)
	if w == "" {
		// neither parked nor finished within the bound: stop following the plan,
		// let everything run and see whether every call returns
		rp.timedOut = true
	}
	return w
}

// step performs one spec action on the real manager.
func (rp *replay) step(st Step, started map[string]bool) {
	switch st.Act {
	case "ReqLoad":
		r := fmt.Sprintf("r%d", st.Arg)
		if !started[r] {
			started[r] = true
			rp.request(r)
		}
		rp.expect(r, "@req.lockStore")
		rp.sched.Release(r)
		rp.expect(r, "@req.rlock", "done")
	case "ReqRLock":
		r := fmt.Sprintf("r%d", st.Arg)
		if rp.sched.Where(r) == "@req.rlock" {
			rp.sched.Release(r)
			rp.expect(r, "@req.run", "done")
		} else {
			rp.note("%s: not at req.rlock for ReqRLock (%q)", r, rp.sched.Where(r))
		}
	case "ReqDone":
		r := fmt.Sprintf("r%d", st.Arg)
		if rp.sched.Where(r) == "@req.run" {
			rp.sched.Release(r)
		}
		rp.expect(r, "done")
	case "ClTimer":
		t := rp.timerOf(st.Arg)
		if t == nil {
			rp.note("cl%d: no timer registered", st.Arg)
			return
		}
		// the goroutine may be busy re-arming the timer after a touch (it then
		// overrides our firing): fire again until it takes the timer branch
		a := fmt.Sprintf("cl%d", st.Arg)
		deadline := time.Now().Add(rp.opts.StepTimeout)
		for {
			t.Reset(0)
			if w := rp.sched.WaitSpawned(a, 20*time.Millisecond); w != "" || time.Now().After(deadline) {
				break
			}
		}
		rp.expect(a, "@cl.fired")
	case "ClLockReq":
		a := fmt.Sprintf("cl%d", st.Arg)
		if rp.sched.Where(a) == "@cl.fired" {
			rp.sched.Release(a)
			time.Sleep(300 * time.Microsecond) // let it reach ls.mu.Lock()
		} else {
			rp.note("%s: not at cl.fired (%q)", a, rp.sched.Where(a))
		}
	case "ClLock":
		// implicit: the goroutine acquires the lock as soon as it can
	case "ClClose":
		rp.expect(fmt.Sprintf("cl%d", st.Arg), "@cl.lockStore", "done")
	case "ClUnstore":
		a := fmt.Sprintf("cl%d", st.Arg)
		if rp.sched.Where(a) == "@cl.lockStore" {
			rp.sched.Release(a)
		}
		rp.expect(a, "done")
	case "DelStart":
		d := rp.deleter()
		rp.expect(d, "@del.lockStore")
		rp.sched.Release(d)
		rp.expect(d, "@del.lockLs", "@del.remove", "done")
	case "DelLockReq":
		d := fmt.Sprintf("del%d", rp.delRound)
		if rp.sched.Where(d) == "@del.lockLs" {
			rp.sched.Release(d)
			time.Sleep(300 * time.Microsecond)
		} else {
			rp.note("%s: not at del.lockLs (%q)", d, rp.sched.Where(d))
		}
	case "DelLock":
		rp.expect(fmt.Sprintf("del%d", rp.delRound), "@del.remove")
	case "DelRemove":
		d := fmt.Sprintf("del%d", rp.delRound)
		if rp.sched.Where(d) == "@del.remove" {
			rp.sched.Release(d)
		}
		rp.expect(d, "done")
	case "DelUnlock":
		rp.expect(fmt.Sprintf("del%d", rp.delRound), "done")
	default:
		rp.note("unknown action %s", st.Act)
	}
}

// Replay runs one behaviour on a fresh shard manager.
func Replay(bno int, steps []Step, root string, tw *trace.Writer, opts Opts) (drift []string, stuck bool) {
	dir := filepath.Join(root, fmt.Sprintf("b%d", bno))
	os.RemoveAll(dir)
	defer os.RemoveAll(dir)
	if opts.Backups && opts.BackupFail {
		// the shard file path ends up 4085
		// characters long (fine), the backup name is 18 characters longer (ENAMETOOLONG)
		want := 4085 - (len(filepath.Join("x", cluster.USERCOLSDIR, "u", "c", shardID, "sharddb.bbolt")) - 1)
		for len(dir) < want-201 {
			dir = filepath.Join(dir, strings.Repeat("p", 200))
		}
		if pad := want - len(dir) - 1; pad > 0 {
			dir = filepath.Join(dir, strings.Repeat("q", pad))
		}
		defer os.RemoveAll(filepath.Join(root, fmt.Sprintf("b%d", bno)))
	}
	rp := &replay{root: dir, tw: tw, sched: gate.New(), opts: opts, lsIdx: map[any]int{}, timers: map[int]*time.Timer{}, lsOf: map[string]int{}}
	rp.sm = cluster.NewShardManager(cluster.ShardManagerConfig{RootDir: dir, ShardTimeout: 3600, MaxCacheSize: -1})
	rp.col = models.Collection{UserId: "u", Id: "c", Replicas: 1, IndexSchema: models.IndexSchema{},
		UserPlan: models.UserPlan{Name: "verif", MaxCollections: 1, MaxCollectionPointCount: 1000, MaxPointSize: 1000}}
	if opts.Backups {
		rp.col.UserPlan.ShardBackupFrequency = 1
		rp.col.UserPlan.ShardBackupCount = 2
	}
	cluster.VerifYield = rp.hookYield
	cluster.VerifTimer = rp.hookTimer
	defer func() { cluster.VerifYield = nil; cluster.VerifTimer = nil }()
	acts := make([]string, len(steps))
	for i, s := range steps {
		acts[i] = fmt.Sprintf("%s(%d)", s.Act, s.Arg)
	}
	tw.Emit("NewBehaviour", M{"b": bno, "steps": acts, "backups": b2i(opts.Backups)})
	started := map[string]bool{}
	for _, st := range steps {
		rp.step(st, started)
		if rp.timedOut {
			break
		}
	}
	// the behaviour is over: let everything run freely; every call must return
	rp.sched.FreeRun()
	pending := rp.sched.AllDone(rp.actors, 3*rp.opts.StepTimeout+2*time.Second)
	if len(pending) > 0 {
		dump, info, blocked := rp.confirmStuck(pending)
		who := []string{}
		for _, a := range pending {
			who = append(who, a+": "+info[a])
		}
		sort.Strings(who)
		tw.Emit("Stuck", M{"who": who, "confirmed": b2i(blocked)})
		os.WriteFile(filepath.Join(root, fmt.Sprintf("stuck-b%d.dump", bno)), []byte(dump), 0644)
		return rp.drift, true
	}
	// afterwards a new request must be able to load the shard again
	probeDone := make(chan error, 1)
	go func() {
		probeDone <- rp.sm.DoWithShard(rp.col, shardID, func(s *shard.Shard) error { _, e := s.Info(); return e })
	}()
	select {
	case err := <-probeDone:
		tw.Emit("Probe", M{"ok": b2i(err == nil)})
	case <-time.After(5 * time.Second):
		tw.Emit("Probe", M{"ok": 0, "timeout": 1})
	}
	// an open that fails leaves nothing behind: a shard whose file cannot be opened (a directory sits in
	// its place) gives a clean error, and once the file is repaired the next request loads it
	if !opts.BackupFail {
		const sick = "shard-sick"
		bad := filepath.Join(dir, cluster.USERCOLSDIR, rp.col.UserId, rp.col.Id, sick, "sharddb.bbolt")
		ask := func() (bool, bool) {
			done := make(chan error, 1)
			go func() {
				done <- rp.sm.DoWithShard(rp.col, sick, func(s *shard.Shard) error { _, e := s.Info(); return e })
			}()
			select {
			case err := <-done:
				return err == nil, false
			case <-time.After(5 * time.Second):
				return false, true
			}
		}
		if err := os.MkdirAll(bad, 0o755); err == nil {
			first, to1 := ask()
			os.RemoveAll(bad)
			second, to2 := ask()
			tw.Emit("OpenFail", M{"first": b2i(first), "second": b2i(second), "timeout": b2i(to1 || to2)})
		}
	}
	// unload whatever is still loaded so that files and goroutines are released
	rp.mu.Lock()
	for _, t := range rp.timers {
		t.Reset(0)
	}
	rp.mu.Unlock()
	time.Sleep(2 * time.Millisecond)
	return rp.drift, false
}

// Stress runs free concurrency (no gates) on a fresh manager: nReq goroutines
// issuing requests, a deleter, idle timers with random short durations. It
// reaches interleavings inside regions that have no yield point; the events
// are validated by the same monitor.
func Stress(round int, seed int64, root string, tw *trace.Writer, opts Opts) (stuck bool) {
	dir := filepath.Join(root, fmt.Sprintf("s%d", round))
	os.RemoveAll(dir)
	defer os.RemoveAll(dir)
	rng := rand.New(rand.NewSource(seed))
	var rngMu sync.Mutex
	rnd := func(n int) int { rngMu.Lock(); defer rngMu.Unlock(); return rng.Intn(n) }
	rp := &replay{root: dir, tw: tw, sched: gate.New(), opts: opts, lsIdx: map[any]int{}, timers: map[int]*time.Timer{}, lsOf: map[string]int{}}
	rp.sched.FreeRun()
	rp.sm = cluster.NewShardManager(cluster.ShardManagerConfig{RootDir: dir, ShardTimeout: 3600, MaxCacheSize: -1})
	rp.col = models.Collection{UserId: "u", Id: "c", Replicas: 1, IndexSchema: models.IndexSchema{},
		UserPlan: models.UserPlan{Name: "verif", MaxCollections: 1, MaxCollectionPointCount: 1000, MaxPointSize: 1000}}
	cluster.VerifYield = rp.hookYield
	cluster.VerifTimer = func(d string, t *time.Timer) *time.Timer {
		nt := rp.hookTimer(d, t)
		if nt != t {
			nt.Reset(time.Duration(rnd(4000)) * time.Microsecond)
		}
		return nt
	}
	defer func() { cluster.VerifYield = nil; cluster.VerifTimer = nil }()
	tw.Emit("NewBehaviour", M{"b": round, "steps": []string{"stress"}, "backups": 0})
	nReq := 3 + rnd(5)
	for i := 1; i <= nReq; i++ {
		name := fmt.Sprintf("r%d", i)
		rp.actors = append(rp.actors, name)
		delay := time.Duration(rnd(1500)) * time.Microsecond
		rp.sched.Go(name, func() {
			time.Sleep(delay)
			ran := false
			err := rp.sm.DoWithShard(rp.col, shardID, func(s *shard.Shard) error {
				ran = true
				rp.mu.Lock()
				ls := rp.lsOf[name]
				rp.mu.Unlock()
				_, e0 := s.Info()
				rp.tw.Emit("RunEnter", M{"r": name, "ls": ls, "ok": b2i(e0 == nil)})
				time.Sleep(time.Duration(rnd(800)) * time.Microsecond)
				_, e1 := s.Info()
				rp.tw.Emit("RunExit", M{"r": name, "ls": ls, "ok": b2i(e1 == nil)})
				return nil
			})
			rp.tw.Emit("Return", M{"r": name, "ok": b2i(err == nil), "ran": b2i(ran)})
		})
	}
	for d := 0; d < 1+rnd(2); d++ {
		delay := time.Duration(rnd(2500)) * time.Microsecond
		name := fmt.Sprintf("del%d", d+1)
		rp.actors = append(rp.actors, name)
		rp.sched.Go(name, func() {
			time.Sleep(delay)
			_, err := rp.sm.DeleteCollectionShards(rp.col)
			rp.tw.Emit("DelReturn", M{"ok": b2i(err == nil)})
		})
	}
	pending := rp.sched.AllDone(rp.actors, 4*time.Second)
	if len(pending) > 0 {
		dump, info, blocked := rp.confirmStuck(pending)
		who := []string{}
		for _, a := range pending {
			who = append(who, a+": "+info[a])
		}
		sort.Strings(who)
		tw.Emit("Stuck", M{"who": who, "confirmed": b2i(blocked)})
		os.WriteFile(filepath.Join(root, fmt.Sprintf("stuck-s%d.dump", round)), []byte(dump), 0644)
		return true
	}
	// afterwards new requests can load the shard again (a request that meets an
	// unload in progress gets a clean error: retry for a while)
	probeDone := make(chan error, 1)
	go func() {
		var err error
		for i := 0; i < 400; i++ {
			err = rp.sm.DoWithShard(rp.col, shardID, func(s *shard.Shard) error { _, e := s.Info(); return e })
			if err == nil {
				break
			}
			time.Sleep(2 * time.Millisecond)
		}
		probeDone <- err
	}()
	select {
	case err := <-probeDone:
		tw.Emit("Probe", M{"ok": b2i(err == nil)})
	case <-time.After(8 * time.Second):
		tw.Emit("Probe", M{"ok": 0, "timeout": 1})
	}
	rp.mu.Lock()
	for _, t := range rp.timers {
		t.Reset(0)
	}
	rp.mu.Unlock()
	time.Sleep(3 * time.Millisecond)
	return false
}

// ReadBehaviours reads one JSON array of [action, arg] pairs per line.
func ReadBehaviours(path string) ([][]Step, error) {
	f, err := os.Open(path)
	if err != nil {
		return nil, err
	}
	defer f.Close()
	var out [][]Step
	sc := bufio.NewScanner(f)
	sc.Buffer(make([]byte, 1<<20), 1<<24)
	for sc.Scan() {
		line := strings.TrimSpace(sc.Text())
		if line == "" {
			continue
		}
		var raw [][]any
		if err := json.Unmarshal([]byte(line), &raw); err != nil {
			return nil, err
		}
		steps := make([]Step, len(raw))
		for i, p := range raw {
			steps[i] = Step{Act: p[0].(string), Arg: int(p[1].(float64))}
		}
		out = append(out, steps)
	}
	return out, sc.Err()
}
