package main

import (
	"encoding/json"
	"flag"
	"fmt"
	"os"

	"verif/harness/routed"
	"verif/harness/trace"
)

func init() {
	register("routing", cmdRouting)
	register("routing-peer", cmdRoutingPeer)
}

// cmdRoutingPeer is "another node": it answers routing questions read from stdin with its own
// copy of the real function.
func cmdRoutingPeer(args []string) {
	if err := routed.ServePeer(os.Stdin, os.Stdout); err != nil {
		fmt.Fprintln(os.Stderr, "routing-peer:", err)
		os.Exit(2)
	}
}

// cmdRouting drives the real cluster.RendezvousHash (property C13).
func cmdRouting(args []string) {
	fs := flag.NewFlagSet("routing", flag.ExitOnError)
	out := fs.String("out", "trace.ndjson", "trace output")
	_ = fs.String("dir", os.TempDir(), "scratch directory (unused)")
	seed := fs.Int64("seed", 1, "seed")
	keys := fs.Int("keys", 2500, "number of keys of this run (approximate)")
	run := fs.Int("run", 0, "index of this run (selects which set sizes get a wide scenario)")
	runs := fs.Int("runs", 4, "number of runs the set sizes are spread over")
	narrow := fs.Int("narrow", 8, "keys per narrow scenario")
	wideMul := fs.Int("wide-mul", 40, "a wide scenario over n servers has wide-mul * n keys")
	maxSize := fs.Int("max-size", 16, "largest server set")
	universe := fs.Int("universe", 20, "server names per universe")
	limbs := fs.Int("limbs", 2, "keys per scenario whose raw scores are logged and that are also routed by the peer process")
	noPeer := fs.Bool("no-peer", false, "do not start the second process")
	fs.Parse(args)
	if *universe <= *maxSize {
		fmt.Fprintln(os.Stderr, "universe must be larger than max-size")
		os.Exit(2)
	}
	tw, err := trace.NewWriter(*out)
	if err != nil {
		fmt.Fprintln(os.Stderr, err)
		os.Exit(2)
	}
	var peer *routed.Peer
	if !*noPeer {
		exe, err := os.Executable()
		if err == nil {
			peer, err = routed.StartPeer(exe, "routing-peer")
		}
		if err != nil {
			fmt.Fprintln(os.Stderr, "cannot start the peer process:", err)
			os.Exit(2)
		}
	}
	st, err := routed.Run(routed.Opts{Seed: *seed, Keys: *keys, Run: *run, Runs: *runs, Narrow: *narrow, WideMul: *wideMul,
		MaxSize: *maxSize, Universe: *universe, Limbs: *limbs, Peer: peer}, tw)
	tw.Close()
	if peer != nil {
		peer.Close()
	}
	if err != nil {
		fmt.Fprintln(os.Stderr, "driver error:", err)
		os.Exit(2)
	}
	b, _ := json.Marshal(st)
	fmt.Println(string(b))
}
