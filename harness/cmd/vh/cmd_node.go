package main

import (
	"flag"
	"strings"

	"verif/harness/clusterd"
)

func init() { register("node", cmdNode) }

func cmdNode(args []string) {
	fs := flag.NewFlagSet("node", flag.ExitOnError)
	root := fs.String("root", "", "data directory")
	port := fs.Int("port", 0, "rpc port")
	servers := fs.String("servers", "", "comma separated server list")
	maxShardPoints := fs.Int64("maxshardpoints", 1000, "per-shard point maximum")
	sync := fs.Bool("sync", false, "run the start-up synchronisation")
	onDemand := fs.Bool("ondemand", false, "run the synchronisation whenever a line 'sync' arrives on stdin")
	fs.Parse(args)
	clusterd.RunNodeMain(*root, *port, strings.Split(*servers, ","), *maxShardPoints, *sync, *onDemand)
}
