package main

import (
	"encoding/json"
	"flag"
	"fmt"
	"os"
	"runtime/pprof"

	"github.com/rs/zerolog"

	"verif/harness/apid"
	"verif/harness/trace"
)

func init() { register("api", cmdApi) }

// vh api: the mutation catalogue of spec/ApiCat.tla (written by TLC) and seeded random bodies against the real
// HTTP handler chain of semadb, in process or against a server child process, for spec/ApiTrace.tla (C18).
// vh api -serve: the server child process.
func cmdApi(args []string) {
	fs := flag.NewFlagSet("api", flag.ExitOnError)
	serve := fs.Bool("serve", false, "run the real HTTP server (child process of a driver run)")
	port := fs.Int("port", 0, "-serve: port to listen on")
	aslimit := fs.Int("aslimit", 12, "address-space limit (GiB) of the server child process: an attacker-sized allocation fails at once")
	cat := fs.String("catalogue", "", "ndjson catalogue written by TLC (Api.tla)")
	mode := fs.String("mode", "inproc", "inproc (httptest on the full handler chain) | child (server child process)")
	part := fs.Int("part", 0, "run every of-th selected case starting at this one")
	of := fs.Int("of", 1, "number of parts")
	risky := fs.Int("risky", 0, "run the catalogue cases with this risk flag (2: none)")
	nrand := fs.Int("rand", 0, "number of seeded random bodies / byte-level mutations")
	seed := fs.Int64("seed", 1, "seed")
	only := fs.String("only", "", "debugging: run only these case ids")
	verbose := fs.Bool("v", false, "print every case to stderr")
	logs := fs.Bool("log", false, "debugging: let the server log errors (recovered panics with their stack) to stderr")
	out := fs.String("out", "trace.ndjson", "trace output")
	dir := fs.String("dir", os.TempDir(), "scratch directory for database files")
	prof := fs.String("cpuprofile", "", "debugging: write a CPU profile")
	fs.Parse(args)
	if *prof != "" {
		pf, _ := os.Create(*prof)
		pprof.StartCPUProfile(pf)
		defer pprof.StopCPUProfile()
	}
	if *logs {
		zerolog.SetGlobalLevel(zerolog.ErrorLevel)
	}
	if *serve {
		if err := apid.Serve(*dir, *port, *aslimit); err != nil {
			fmt.Fprintln(os.Stderr, "server:", err)
			os.Exit(2)
		}
		return
	}
	tw, err := trace.NewWriter(*out)
	if err != nil {
		fmt.Fprintln(os.Stderr, err)
		os.Exit(2)
	}
	defer tw.Close()
	d, err := apid.New(apid.Opts{Catalogue: *cat, Mode: *mode, Part: *part, Of: *of, Risky: *risky, Rand: *nrand, Seed: *seed,
		Dir: *dir, Only: *only, Verbose: *verbose, ASLimitGB: *aslimit}, tw)
	if err != nil {
		fmt.Fprintln(os.Stderr, "driver error:", err)
		os.Exit(2)
	}
	err = d.Run()
	d.Close()
	if err != nil {
		tw.Close()
		fmt.Fprintln(os.Stderr, "driver error:", err)
		os.Exit(2)
	}
	d.Stats["lines"] = tw.N
	js, _ := json.Marshal(d.Stats)
	fmt.Println(string(js))
}
