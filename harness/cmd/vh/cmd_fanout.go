package main

import (
	"flag"
	"fmt"
	"os"
	"time"

	"verif/harness/clusterd"
	"verif/harness/trace"
)

func init() { register("fanout", cmdFanout) }

func cmdFanout(args []string) {
	fs := flag.NewFlagSet("fanout", flag.ExitOnError)
	out := fs.String("out", "trace.ndjson", "trace output")
	dir := fs.String("dir", os.TempDir(), "scratch directory")
	seed := fs.Int64("seed", 1, "seed")
	hist := fs.Int("hist", 3, "histories")
	batches := fs.Int("batches", 14, "batches per history")
	servers := fs.Int("servers", 3, "number of servers")
	maxShard := fs.Int64("maxshard", 4, "per-shard point maximum")
	mux := fs.Int("mux", 0, "before each history: the fresh-connection probe on a collection of this many points")
	soak := fs.Int("soak-ms", 0, "after each history: small update requests back to back for this many milliseconds")
	wide := fs.Bool("wide", false, "90 ids, update requests of 40-100 points")
	kill := fs.Bool("kill", false, "the last server is a child process that is killed in the middle of the history")
	fs.Parse(args)
	tw, err := trace.NewWriter(*out)
	if err != nil {
		fmt.Fprintln(os.Stderr, err)
		os.Exit(2)
	}
	defer tw.Close()
	exe, _ := os.Executable()
	for h := 0; h < *hist; h++ {
		o := clusterd.FanOpts{Servers: *servers, MaxShard: *maxShard, Batches: *batches, KillOne: *kill, Exe: exe, KillAfter: *batches / 2, Wide: *wide, Soak: time.Duration(*soak) * time.Millisecond, Mux: *mux}
		if err := clusterd.RunFanout(h, *seed*1000+int64(h), *dir, tw, o); err != nil {
			fmt.Fprintln(os.Stderr, "driver error:", err)
			os.Exit(2)
		}
		tw.Flush()
	}
	fmt.Printf("{\"lines\":%d}\n", tw.N)
}
