package main

import (
	"encoding/json"
	"flag"
	"fmt"
	"os"
	"strings"

	"verif/harness/codecd"
	"verif/harness/trace"
)

func init() { register("codec", cmdCodec) }

// vh codec: facts about the real key / value codecs for spec/KeyCodecTrace.tla (C19).
func cmdCodec(args []string) {
	fs := flag.NewFlagSet("codec", flag.ExitOnError)
	parts := fs.String("parts", "i64,u64,f64,str,fixed,words,text,scan", "comma separated: i64 u64 f64 str fixed words text scan")
	seed := fs.Int64("seed", 1, "seed")
	intW := fs.Int("intw", 5, "width of the integer model whose values are lifted to 64 bits")
	eb := fs.Int("eb", 3, "exponent bits of the mini-float model")
	mb := fs.Int("mb", 2, "mantissa bits of the mini-float model")
	batch := fs.Int("batch", 32, "values per batch / keys per bucket")
	random := fs.Int("random", 200, "seeded random values per pool")
	randB := fs.Int("randbatches", 8, "random batches per pool")
	queries := fs.Int("queries", 30, "range (and prefix) queries per filled bucket")
	bigVecs := fs.Int("bigvecs", 4, "vectors longer than 520 elements exercised besides 1024, 4095 and 4096 (drawn with the seed)")
	out := fs.String("out", "trace.ndjson", "trace output")
	dir := fs.String("dir", os.TempDir(), "scratch directory for database files")
	fs.Parse(args)
	tw, err := trace.NewWriter(*out)
	if err != nil {
		fmt.Fprintln(os.Stderr, err)
		os.Exit(2)
	}
	defer tw.Close()
	ps := map[string]bool{}
	for _, p := range strings.Split(*parts, ",") {
		ps[strings.TrimSpace(p)] = true
	}
	d := codecd.New(codecd.Opts{Seed: *seed, Parts: ps, IntW: *intW, FloatEB: *eb, FloatMB: *mb, Batch: *batch, Random: *random,
		RandB: *randB, Queries: *queries, BigVecs: *bigVecs, Dir: *dir}, tw)
	if err := d.Run(); err != nil {
		fmt.Fprintln(os.Stderr, "driver error:", err)
		os.Exit(2)
	}
	d.Stats["lines"] = tw.N
	js, _ := json.Marshal(d.Stats)
	fmt.Println(string(js))
}
