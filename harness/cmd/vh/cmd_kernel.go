package main

import (
	"encoding/json"
	"flag"
	"fmt"
	"math/rand"
	"os"
	"os/exec"
	"sort"
	"strconv"
	"strings"

	"verif/harness/kd"
	"verif/harness/trace"
)

func init() { register("kernel", cmdKernel) }

// parseLens: comma separated tokens
//
//	A-B        every length A..B
//	A-B@M+R    the lengths in A..B with n mod M = R
//	edges      every n <= 4096 with n mod 32 in {31, 0, 1}
//	wedges     every n <= 4096 with n mod 64 in {63, 0, 1}
//	rand:K     K lengths drawn from 1..4096
func parseLens(spec string, rng *rand.Rand) ([]int, error) {
	set := map[int]bool{}
	for _, tok := range strings.Split(spec, ",") {
		tok = strings.TrimSpace(tok)
		switch {
		case tok == "":
		case tok == "edges" || tok == "wedges":
			m := 32
			if tok == "wedges" {
				m = 64
			}
			for n := 1; n <= 4096; n++ {
				if r := n % m; r == m-1 || r == 0 || r == 1 {
					set[n] = true
				}
			}
		case strings.HasPrefix(tok, "rand:"):
			k, err := strconv.Atoi(tok[5:])
			if err != nil {
				return nil, err
			}
			for i := 0; i < k; i++ {
				set[1+rng.Intn(4096)] = true
			}
		default:
			mod, res := 1, 0
			if at := strings.Index(tok, "@"); at >= 0 {
				mr := strings.Split(tok[at+1:], "+")
				if len(mr) != 2 {
					return nil, fmt.Errorf("bad length token %q", tok)
				}
				var err error
				if mod, err = strconv.Atoi(mr[0]); err != nil || mod < 1 {
					return nil, fmt.Errorf("bad length token %q", tok)
				}
				if res, err = strconv.Atoi(mr[1]); err != nil {
					return nil, fmt.Errorf("bad length token %q", tok)
				}
				tok = tok[:at]
			}
			ab := strings.Split(tok, "-")
			if len(ab) != 2 {
				return nil, fmt.Errorf("bad length token %q", tok)
			}
			a, err1 := strconv.Atoi(ab[0])
			b, err2 := strconv.Atoi(ab[1])
			if err1 != nil || err2 != nil || a < 1 || b > 4096 {
				return nil, fmt.Errorf("bad length token %q", tok)
			}
			for n := a; n <= b; n++ {
				if n%mod == res {
					set[n] = true
				}
			}
		}
	}
	var out []int
	for n := range set {
		out = append(out, n)
	}
	sort.Ints(out)
	return out, nil
}

// vh kernel -mode float|bits|sym -impl dispatch|pure -lens ... -per K -seed S -out trace -dir scratch
//
// -impl pure re-executes the driver with GODEBUG=cpu.avx2=off so that package
// distance keeps its pure-Go loops (golang.org/x/sys/cpu honours the setting
// before distance's init runs); the Meta line records which implementation
// the dispatcher really returned.
func cmdKernel(args []string) {
	fs := flag.NewFlagSet("kernel", flag.ExitOnError)
	mode := fs.String("mode", "float", "float|bits|sym")
	impl := fs.String("impl", "dispatch", "dispatch (whatever the CPU selects) | pure (force the Go loops)")
	lens := fs.String("lens", "1-320", "vector lengths (see parseLens)")
	per := fs.Int("per", 2, "cases per length")
	seed := fs.Int64("seed", 1, "seed")
	out := fs.String("out", "trace.ndjson", "trace output")
	_ = fs.String("dir", os.TempDir(), "scratch directory (unused)")
	fs.Parse(args)

	if *impl == "pure" && os.Getenv("VH_KERNEL_CHILD") == "" {
		exe, err := os.Executable()
		if err != nil {
			fmt.Fprintln(os.Stderr, err)
			os.Exit(2)
		}
		c := exec.Command(exe, os.Args[1:]...)
		gd := "cpu.avx2=off"
		if old := os.Getenv("GODEBUG"); old != "" {
			gd = old + "," + gd
		}
		c.Env = append(os.Environ(), "GODEBUG="+gd, "VH_KERNEL_CHILD=1")
		c.Stdout, c.Stderr = os.Stdout, os.Stderr
		if err := c.Run(); err != nil {
			if ee, ok := err.(*exec.ExitError); ok {
				os.Exit(ee.ExitCode())
			}
			fmt.Fprintln(os.Stderr, err)
			os.Exit(2)
		}
		return
	}

	short, full := kd.Impl()
	if *impl == "pure" && short != "pure" {
		fmt.Fprintln(os.Stderr, "kernel: could not force the pure-Go implementation, dispatcher returns", full)
		os.Exit(2)
	}
	rng := rand.New(rand.NewSource(*seed*7919 + 13))
	ls, err := parseLens(*lens, rng)
	if err != nil || len(ls) == 0 {
		fmt.Fprintln(os.Stderr, "kernel: bad -lens:", err)
		os.Exit(2)
	}
	tw, err := trace.NewWriter(*out)
	if err != nil {
		fmt.Fprintln(os.Stderr, err)
		os.Exit(2)
	}
	defer tw.Close()
	direct := short == "asm"
	tw.Emit("Meta", trace.M{"mode": *mode, "want": *impl, "impl": short, "fn": full, "direct": direct, "seed": int(*seed)})
	st := kd.NewStats()
	fz := &kd.FuzzStats{}
	switch *mode {
	case "float":
		err = kd.RunFloat(tw, *seed, kd.FloatOpts{Lens: ls, Per: *per, Direct: direct}, st)
	case "bits":
		err = kd.RunBits(tw, *seed, kd.BitOpts{Lens: ls, Per: *per}, st)
	case "sym":
		err = kd.RunSym(tw, *seed, ls, *per, direct, st, fz)
	default:
		err = fmt.Errorf("unknown mode %s", *mode)
	}
	if err != nil {
		tw.Flush()
		fmt.Fprintln(os.Stderr, "driver error:", err)
		os.Exit(2)
	}
	tw.Flush()
	res, _ := json.Marshal(map[string]any{"lines": tw.N, "cases": st.Cases, "results": st.Results, "guarded": st.Guarded,
		"lengths": len(st.Lengths), "kinds": st.Kinds, "impl": short, "retries": st.Retries,
		"fuzz_cases": fz.Cases, "fuzz_outliers": fz.Outliers, "fuzz_max_ratio_permille": int(fz.MaxRatio * 1000), "fuzz_sample": fz.Sample})
	fmt.Println(string(res))
}
