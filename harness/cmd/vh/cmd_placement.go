package main

import (
	"flag"
	"fmt"
	"os"
	"time"

	"verif/harness/placed"
	"verif/harness/trace"
)

func init() { register("placement", cmdPlacement) }

// vh placement -mode enum|random|e2e ... -out trace -dir scratch   (property C15)
func cmdPlacement(args []string) {
	fs := flag.NewFlagSet("placement", flag.ExitOnError)
	mode := fs.String("mode", "enum", "enum|random|e2e")
	out := fs.String("out", "trace.ndjson", "trace output")
	dir := fs.String("dir", os.TempDir(), "scratch directory")
	seed := fs.Int64("seed", 1, "seed")
	existing := fs.Int("existing", 3, "enum: existing shards 0..k")
	fill := fs.Int("fill", 3, "enum: shard fill 0..f")
	allFills := fs.Bool("all-fills", false, "enum: count and size of a shard vary independently")
	pts := fs.Int("pts", 5, "enum: batch of 0..n points")
	zmax := fs.Int("zmax", 6, "enum: size limits 1..z")
	cmax := fs.Int("cmax", 3, "enum: count limits 1..c")
	part := fs.Int("part", 0, "enum: emit only cases whose number mod -of equals this")
	of := fs.Int("of", 1, "enum: number of parts")
	n := fs.Int("n", 1000, "random: number of inputs")
	hists := fs.Int("hist", 4, "e2e: histories")
	steps := fs.Int("steps", 40, "e2e: steps per history")
	hang := fs.Int("hang-s", 30, "e2e: seconds after which an insert request is reported as not returning")
	big := fs.Bool("big", false, "e2e: thousand-point batches")
	fs.Parse(args)
	tw, err := trace.NewWriter(*out)
	if err != nil {
		fmt.Fprintln(os.Stderr, err)
		os.Exit(2)
	}
	switch *mode {
	case "enum":
		placed.Enumerate(tw, placed.EnumOpts{Existing: *existing, Fill: *fill, Pts: *pts, ZMax: *zmax, CMax: *cmax,
			AllFills: *allFills, Part: *part, Of: *of})
	case "random":
		placed.Random(tw, *seed, *n)
	case "e2e":
		if err := placed.RunE2E(tw, placed.E2EOpts{Hang: time.Duration(*hang) * time.Second, Seed: *seed, Hists: *hists, Steps: *steps, Dir: *dir, Big: *big}); err != nil {
			tw.Close()
			fmt.Fprintln(os.Stderr, "placement e2e:", err)
			os.Exit(3)
		}
	default:
		fmt.Fprintln(os.Stderr, "unknown mode", *mode)
		os.Exit(2)
	}
	if err := tw.Close(); err != nil {
		fmt.Fprintln(os.Stderr, err)
		os.Exit(2)
	}
}
