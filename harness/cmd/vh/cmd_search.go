package main

import (
	"flag"
	"fmt"
	"os"

	"verif/harness/sd"
	"verif/harness/trace"
)

func init() { register("search", cmdSearch) }

// cmdSearch drives property C06: random write histories on a real shard with
// random composite search requests (query tree, select, sort, offset, limit)
// after every batch. Events: those of ShardTrace.tla plus Search / SearchRob
// (SearchTrace.tla).
func cmdSearch(args []string) {
	fs := flag.NewFlagSet("search", flag.ExitOnError)
	cfgName := fs.String("config", "kitchen", "configuration name")
	seed := fs.Int64("seed", 1, "seed")
	hist := fs.Int("hist", 3, "number of histories")
	batches := fs.Int("batches", 12, "batches per history")
	per := fs.Int("per", 12, "judged requests after every batch")
	rob := fs.Int("rob", 1, "robustness requests after every batch")
	out := fs.String("out", "trace.ndjson", "trace output")
	dir := fs.String("dir", os.TempDir(), "scratch directory for database files")
	cache := fs.Int64("cache", -1, "shared cache size (-1 unlimited, 0 off)")
	mem := fs.Bool("mem", false, "in-memory backend")
	maxBatch := fs.Int("maxbatch", 0, "largest random batch (0 = 5)")
	nids := fs.Int("nids", 0, "size of the id universe (0 = configuration default)")
	fs.Parse(args)
	cfg, ok := sd.Configs[*cfgName]
	if !ok {
		fmt.Fprintln(os.Stderr, "unknown config", *cfgName)
		os.Exit(2)
	}
	cfg.CacheSize = *cache
	cfg.Mem = *mem
	if *nids > 0 {
		cfg.NIDs = *nids
	}
	tw, err := trace.NewWriter(*out)
	if err != nil {
		fmt.Fprintln(os.Stderr, err)
		os.Exit(2)
	}
	defer tw.Close()
	for h := 0; h < *hist; h++ {
		r := sd.NewRunner(cfg, *seed*1000+int64(h), tw, *dir)
		if err := r.RunSearchHistory(h, sd.SearchOpts{Batches: *batches, PerBatch: *per, Rob: *rob, MaxBatch: *maxBatch}); err != nil {
			fmt.Fprintln(os.Stderr, "driver error:", err)
			os.Exit(2)
		}
		tw.Flush()
	}
	fmt.Printf("{\"lines\":%d}\n", tw.N)
}
