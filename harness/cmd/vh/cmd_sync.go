package main

import (
	"flag"
	"fmt"
	"os"

	"verif/harness/clusterd"
	"verif/harness/trace"
)

func init() { register("sync", cmdSync) }

func cmdSync(args []string) {
	fs := flag.NewFlagSet("sync", flag.ExitOnError)
	out := fs.String("out", "trace.ndjson", "trace output")
	dir := fs.String("dir", os.TempDir(), "scratch directory")
	seed := fs.Int64("seed", 1, "seed")
	oldN := fs.Int("old", 1, "servers before the change")
	kind := fs.String("kind", "grow", "grow | shrink | replace")
	fault := fs.String("fault", "", "role:chunk:mode (send|recv|phase : k : exit|fail)")
	big := fs.Bool("big", false, "synthetic shard files around the chunk size")
	sep := fs.Bool("seproot", false, "shard files in a directory of their own")
	n := fs.Int("n", 1, "scenarios")
	fs.Parse(args)
	tw, err := trace.NewWriter(*out)
	if err != nil {
		fmt.Fprintln(os.Stderr, err)
		os.Exit(2)
	}
	defer tw.Close()
	exe, _ := os.Executable()
	for i := 0; i < *n; i++ {
		o := clusterd.SyncOpts{Exe: exe, OldN: *oldN, NewKind: *kind, Fault: *fault, BigFiles: *big, SepRoot: *sep}
		if err := clusterd.RunSync(i, *seed*1000+int64(i), *dir, tw, o); err != nil {
			fmt.Fprintln(os.Stderr, "driver error:", err)
			os.Exit(2)
		}
		tw.Flush()
	}
	fmt.Printf("{\"lines\":%d}\n", tw.N)
}
