package main

import (
	"encoding/json"
	"flag"
	"fmt"
	"os"

	"verif/harness/tenantd"
	"verif/harness/trace"
)

func init() { register("tenancy", cmdTenancy) }

// vh tenancy -seed N -hist H -steps S -conc C -first K -pairs all|normal|dot -out trace -dir scratch   (property C16)
func cmdTenancy(args []string) {
	fs := flag.NewFlagSet("tenancy", flag.ExitOnError)
	out := fs.String("out", "trace.ndjson", "trace output")
	dir := fs.String("dir", os.TempDir(), "scratch directory")
	seed := fs.Int64("seed", 1, "seed")
	hists := fs.Int("hist", 4, "histories (each on a fresh node, with the next user pair of the catalogue)")
	steps := fs.Int("steps", 60, "random requests per history after the scripted prologue")
	conc := fs.Int("conc", 0, "requests per user in the concurrent phase that ends a history (0 = none)")
	first := fs.Int("first", 0, "index of the first user pair")
	pairs := fs.String("pairs", "all", "all|normal|dot")
	users := fs.String("users", "", "\"A|B\": run this pair of user ids only (experiments)")
	fs.Parse(args)
	tw, err := trace.NewWriter(*out)
	if err != nil {
		fmt.Fprintln(os.Stderr, err)
		os.Exit(2)
	}
	st, err := tenantd.Run(tw, tenantd.Opts{Seed: *seed, Hists: *hists, Steps: *steps, Conc: *conc, First: *first, Pairs: *pairs, Users: *users, Dir: *dir})
	if cerr := tw.Close(); cerr != nil && err == nil {
		err = cerr
	}
	if err != nil {
		fmt.Fprintln(os.Stderr, "tenancy:", err)
		os.Exit(3)
	}
	b, _ := json.Marshal(st)
	fmt.Println(string(b))
}
