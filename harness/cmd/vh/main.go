// vh is the verification harness: drivers that exercise the real semadb
// packages and write ndjson traces for the TLA+ trace specifications.
package main

import (
	"flag"
	"fmt"
	"os"

	"github.com/rs/zerolog"

	"verif/harness/sd"
	"verif/harness/trace"
)

func main() {
	zerolog.SetGlobalLevel(zerolog.Disabled)
	if len(os.Args) < 2 {
		fmt.Fprintln(os.Stderr, "usage: vh <command> [flags]")
		os.Exit(2)
	}
	switch os.Args[1] {
	case "shard":
		cmdShard(os.Args[2:])
	default:
		fmt.Fprintln(os.Stderr, "unknown command", os.Args[1])
		os.Exit(2)
	}
}

func cmdShard(args []string) {
	fs := flag.NewFlagSet("shard", flag.ExitOnError)
	mode := fs.String("mode", "crud", "crud|filter|rank|cache|graph")
	cfgName := fs.String("config", "scalars", "configuration name")
	seed := fs.Int64("seed", 1, "seed")
	hist := fs.Int("hist", 5, "number of histories")
	batches := fs.Int("batches", 30, "batches per history")
	out := fs.String("out", "trace.ndjson", "trace output")
	dir := fs.String("dir", os.TempDir(), "scratch directory for database files")
	cache := fs.Int64("cache", -1, "shared cache size (-1 unlimited, 0 off)")
	mem := fs.Bool("mem", false, "in-memory backend")
	panelEvery := fs.Int("panel-every", 1, "run the filter panel after every k-th batch")
	sample := fs.Int("sample", 0, "sample size of the leaf panel (0 = all)")
	rank := fs.Int("rank", 6, "ranking queries per ranking property after every batch")
	insertOnly := fs.Bool("insert-only", false, "insert batches only")
	maxBatch := fs.Int("maxbatch", 0, "largest random batch (0 = 5)")
	nids := fs.Int("nids", 0, "size of the id universe (0 = configuration default)")
	fs.Parse(args)
	cfg, ok := sd.Configs[*cfgName]
	if !ok {
		fmt.Fprintln(os.Stderr, "unknown config", *cfgName)
		os.Exit(2)
	}
	cfg.CacheSize = *cache
	cfg.Mem = *mem
	tw, err := trace.NewWriter(*out)
	if err != nil {
		fmt.Fprintln(os.Stderr, err)
		os.Exit(2)
	}
	defer tw.Close()
	if *nids > 0 {
		cfg.NIDs = *nids
	}
	opts := sd.HistOpts{Batches: *batches, Sample: *sample, InsertOnly: *insertOnly, MaxBatch: *maxBatch}
	switch *mode {
	case "crud":
		opts.GetAll = true
	case "filter":
		opts.GetAll = true
		opts.FilterEvery = *panelEvery
	case "rank":
		opts.Rank = *rank
	case "cache":
		opts.GetAll = true
		opts.Rank = *rank
		opts.FilterEvery = *panelEvery
		opts.Cold = true
		if opts.Sample == 0 {
			opts.Sample = 60
		}
	case "graph":
		opts.Graph = true
		opts.Rank = *rank
	default:
		fmt.Fprintln(os.Stderr, "unknown mode", *mode)
		os.Exit(2)
	}
	for h := 0; h < *hist; h++ {
		r := sd.NewRunner(cfg, *seed*1000+int64(h), tw, *dir)
		if err := r.RunHistory(h, opts); err != nil {
			fmt.Fprintln(os.Stderr, "driver error:", err)
			os.Exit(2)
		}
	}
	fmt.Printf("{\"lines\":%d}\n", tw.N)
}
