// vh is the verification harness: drivers that exercise the real semadb
// packages and write ndjson traces for the TLA+ trace specifications.
package main

import (
	"encoding/json"
	"flag"
	"fmt"
	"os"
	"time"

	"github.com/rs/zerolog"

	"verif/harness/mgrd"
	"verif/harness/sd"
	"verif/harness/trace"
)

func main() {
	zerolog.SetGlobalLevel(zerolog.Disabled)
	if len(os.Args) < 2 {
		fmt.Fprintln(os.Stderr, "usage: vh <command> [flags]")
		os.Exit(2)
	}
	if fn, ok := commands[os.Args[1]]; ok {
		fn(os.Args[2:])
		return
	}
	fmt.Fprintln(os.Stderr, "unknown command", os.Args[1])
	os.Exit(2)
}

// commands is the sub-command registry; files cmd_*.go add to it from init().
var commands = map[string]func(args []string){}

func register(name string, fn func(args []string)) { commands[name] = fn }

func init() {
	register("shard", cmdShard)
	register("mgr", cmdMgr)
	register("killchild", cmdKillChild)
}

func cmdShard(args []string) {
	fs := flag.NewFlagSet("shard", flag.ExitOnError)
	mode := fs.String("mode", "crud", "crud|filter|rank|cache|graph|fault|conc")
	other := fs.Bool("other", false, "conc mode: write load on a second shard sharing the cache manager")
	cold := fs.Bool("cold", false, "conc mode: reopen the shard before the searchers start")
	readers := fs.Int("readers", 4, "searcher goroutines in conc mode")
	maxFaults := fs.Int("max-faults", 10, "fault points per batch in fault mode (0 = all)")
	kills := fs.Int("kills", 2, "kill points per batch in fault mode (besides pre/post commit)")
	cfgName := fs.String("config", "scalars", "configuration name")
	seed := fs.Int64("seed", 1, "seed")
	hist := fs.Int("hist", 5, "number of histories")
	batches := fs.Int("batches", 30, "batches per history")
	out := fs.String("out", "trace.ndjson", "trace output")
	dir := fs.String("dir", os.TempDir(), "scratch directory for database files")
	cache := fs.Int64("cache", -1, "shared cache size (-1 unlimited, 0 off)")
	mem := fs.Bool("mem", false, "in-memory backend")
	panelEvery := fs.Int("panel-every", 1, "run the filter panel after every k-th batch")
	sample := fs.Int("sample", 0, "sample size of the leaf panel (0 = all)")
	rank := fs.Int("rank", 6, "ranking queries per ranking property after every batch")
	insertOnly := fs.Bool("insert-only", false, "insert batches only")
	maxBatch := fs.Int("maxbatch", 0, "largest random batch (0 = 5)")
	nids := fs.Int("nids", 0, "size of the id universe (0 = configuration default)")
	repeatUpd := fs.Bool("repeat-upd", false, "update batches may name a point twice")
	slowGet := fs.Int("slowget-us", 0, "every storage read inside a write transaction takes this many microseconds")
	schedFile := fs.String("behaviours", "", "sched mode: file with one ShardCache.tla behaviour per line")
	bfreq := fs.Int("backup-freq", 1, "backup mode: minimum age in seconds of the newest backup before another one is taken")
	bcount := fs.Int("backup-count", 2, "backup mode: number of backups kept")
	fs.Parse(args)
	cfg, ok := sd.Configs[*cfgName]
	if !ok {
		fmt.Fprintln(os.Stderr, "unknown config", *cfgName)
		os.Exit(2)
	}
	cfg.CacheSize = *cache
	cfg.Mem = *mem
	cfg.RepeatUpd = *repeatUpd
	tw, err := trace.NewWriter(*out)
	if err != nil {
		fmt.Fprintln(os.Stderr, err)
		os.Exit(2)
	}
	defer tw.Close()
	if *nids > 0 {
		cfg.NIDs = *nids
	}
	opts := sd.HistOpts{Batches: *batches, Sample: *sample, InsertOnly: *insertOnly, MaxBatch: *maxBatch}
	switch *mode {
	case "crud":
		opts.GetAll = true
	case "filter":
		opts.GetAll = true
		opts.FilterEvery = *panelEvery
		opts.Wide = 3000
	case "rank":
		opts.Rank = *rank
	case "cache":
		opts.GetAll = true
		opts.Rank = *rank
		opts.FilterEvery = *panelEvery
		opts.Cold = true
		if opts.Sample == 0 {
			opts.Sample = 60
		}
	case "graph":
		opts.Graph = true
		opts.Rank = *rank
	case "fault", "conc", "backup", "sched":
	default:
		fmt.Fprintln(os.Stderr, "unknown mode", *mode)
		os.Exit(2)
	}
	if *mode == "conc" {
		for h := 0; h < *hist; h++ {
			r := sd.NewRunner(cfg, *seed*1000+int64(h), tw, *dir)
			r.SlowGet = time.Duration(*slowGet) * time.Microsecond
			if err := r.RunConcHistory(h, sd.ConcOpts{Batches: *batches, Readers: *readers, Rank: *rank, Cold: *cold, MaxBatch: *maxBatch, Other: *other}); err != nil {
				fmt.Fprintln(os.Stderr, "driver error:", err)
				os.Exit(2)
			}
			tw.Flush()
		}
		fmt.Printf("{\"lines\":%d}\n", tw.N)
		return
	}
	if *mode == "sched" {
		behs, err := sd.ReadSchedBehaviours(*schedFile)
		if err != nil {
			fmt.Fprintln(os.Stderr, "driver error:", err)
			os.Exit(2)
		}
		r := sd.NewRunner(cfg, *seed*1000, tw, *dir)
		r.MaxBatch = *maxBatch
		drifted, err := r.RunSchedBehaviours(behs, 1500*time.Millisecond)
		tw.Flush()
		if err != nil {
			fmt.Fprintln(os.Stderr, "driver error:", err)
			os.Exit(2)
		}
		fmt.Printf("{\"lines\":%d,\"behaviours\":%d,\"drifted\":%d}\n", tw.N, len(behs), drifted)
		return
	}
	if *mode == "backup" {
		for h := 0; h < *hist; h++ {
			r := sd.NewRunner(cfg, *seed*1000+int64(h), tw, *dir)
			r.MaxBatch = *maxBatch
			if err := r.RunBackupHistory(h, *bfreq, *bcount, *batches); err != nil {
				fmt.Fprintln(os.Stderr, "driver error:", err)
				os.Exit(2)
			}
			tw.Flush()
		}
		fmt.Printf("{\"lines\":%d}\n", tw.N)
		return
	}
	if *mode == "fault" {
		exe, _ := os.Executable()
		for h := 0; h < *hist; h++ {
			r := sd.NewRunner(cfg, *seed*1000+int64(h), tw, *dir)
			fo := sd.FaultOpts{Batches: *batches, MaxFaults: *maxFaults, Kills: *kills, Exe: exe, Rank: *rank, Sample: *sample, MaxBatch: *maxBatch, BigInsert: *insertOnly}
			if err := r.RunFaultHistory(h, fo); err != nil {
				fmt.Fprintln(os.Stderr, "driver error:", err)
				os.Exit(2)
			}
		}
		fmt.Printf("{\"lines\":%d}\n", tw.N)
		return
	}
	for h := 0; h < *hist; h++ {
		r := sd.NewRunner(cfg, *seed*1000+int64(h), tw, *dir)
		r.SlowGet = time.Duration(*slowGet) * time.Microsecond
		if err := r.RunHistory(h, opts); err != nil {
			fmt.Fprintln(os.Stderr, "driver error:", err)
			os.Exit(2)
		}
	}
	fmt.Printf("{\"lines\":%d}\n", tw.N)
}

func cmdMgr(args []string) {
	fs := flag.NewFlagSet("mgr", flag.ExitOnError)
	beh := fs.String("behaviours", "", "file with one behaviour (JSON array of [action,arg]) per line")
	out := fs.String("out", "trace.ndjson", "trace output")
	dir := fs.String("dir", os.TempDir(), "scratch directory")
	backups := fs.Bool("backups", false, "enable shard backups on unload")
	backupFail := fs.Bool("backupfail", false, "with -backups: every backup copy fails (file name too long)")
	stepMs := fs.Int("step-ms", 1500, "timeout per step in ms")
	stress := fs.Int("stress", 0, "number of free-running stress rounds after the behaviours")
	seed := fs.Int64("seed", 1, "seed of the stress rounds")
	fs.Parse(args)
	var bs [][]mgrd.Step
	var err error
	if *beh != "" {
		bs, err = mgrd.ReadBehaviours(*beh)
		if err != nil {
			fmt.Fprintln(os.Stderr, err)
			os.Exit(2)
		}
	}
	tw, err := trace.NewWriter(*out)
	if err != nil {
		fmt.Fprintln(os.Stderr, err)
		os.Exit(2)
	}
	defer tw.Close()
	drifted, stuck := 0, 0
	var driftSamples []string
	for i, b := range bs {
		d, st := mgrd.Replay(i, b, *dir, tw, mgrd.Opts{StepTimeout: time.Duration(*stepMs) * time.Millisecond, Backups: *backups, BackupFail: *backupFail})
		if len(d) > 0 {
			drifted++
			if len(driftSamples) < 5 {
				driftSamples = append(driftSamples, fmt.Sprintf("b%d: %v", i, d))
			}
		}
		if st {
			stuck++
		}
	}
	for i := 0; i < *stress; i++ {
		if mgrd.Stress(i, *seed*100000+int64(i), *dir, tw, mgrd.Opts{StepTimeout: time.Duration(*stepMs) * time.Millisecond}) {
			stuck++
		}
	}
	tw.Flush()
	res, _ := json.Marshal(map[string]any{"behaviours": len(bs), "stress_rounds": *stress, "drifted": drifted, "stuck": stuck, "lines": tw.N, "drift_samples": driftSamples})
	fmt.Println(string(res))
}

func cmdKillChild(args []string) {
	fs := flag.NewFlagSet("killchild", flag.ExitOnError)
	cfgName := fs.String("config", "kitchen", "configuration name")
	cache := fs.Int64("cache", -1, "shared cache size")
	db := fs.String("db", "", "database file")
	batch := fs.String("batch", "", "batch file")
	killAt := fs.Int64("killat", 0, "kill at the k-th storage operation")
	killWhen := fs.String("killwhen", "", "pre | post commit")
	fs.Parse(args)
	cfg, ok := sd.Configs[*cfgName]
	if !ok {
		fmt.Fprintln(os.Stderr, "unknown config", *cfgName)
		os.Exit(2)
	}
	cfg.CacheSize = *cache
	if err := sd.KillChild(cfg, *db, *batch, *killAt, *killWhen); err != nil {
		fmt.Fprintln(os.Stderr, "killchild:", err)
		os.Exit(4)
	}
}
