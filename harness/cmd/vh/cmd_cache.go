package main

import (
	"encoding/json"
	"flag"
	"fmt"
	"os"
	"time"

	"verif/harness/cached"
	"verif/harness/trace"
)

func init() { register("cachemgr", cmdCacheMgr) }

func cmdCacheMgr(args []string) {
	fs := flag.NewFlagSet("cachemgr", flag.ExitOnError)
	beh := fs.String("behaviours", "", "file with one behaviour per line")
	out := fs.String("out", "trace.ndjson", "trace output")
	dir := fs.String("dir", os.TempDir(), "scratch directory")
	maxSize := fs.Int64("maxsize", -1, "cache manager size limit")
	stepMs := fs.Int("step-ms", 1000, "timeout per step in ms")
	stress := fs.Int("stress", 0, "instead of behaviours: free-running rounds with every transaction on parallel goroutines")
	seed := fs.Int64("seed", 1, "seed of the stress rounds")
	stages := fs.Int("stages", 0, "instead of behaviours: run the stage scenarios (a transaction on several goroutines) this many times")
	fs.Parse(args)
	tw, err := trace.NewWriter(*out)
	if err != nil {
		fmt.Fprintln(os.Stderr, err)
		os.Exit(2)
	}
	defer tw.Close()
	if *stress > 0 {
		stuck := 0
		for i := 0; i < *stress; i++ {
			if cached.StageStress(i, *seed*100000+int64(i), tw, cached.Opts{StepTimeout: time.Duration(*stepMs) * time.Millisecond, MaxSize: *maxSize}, *dir) {
				stuck++
				break
			}
		}
		tw.Flush()
		res, _ := json.Marshal(map[string]any{"behaviours": *stress, "drifted": 0, "stuck": stuck, "lines": tw.N, "drift_samples": []string{}})
		fmt.Println(string(res))
		return
	}
	if *stages > 0 {
		stuck := 0
		for i := 0; i < *stages; i++ {
			for _, v := range []string{"prune", "commit"} {
				if cached.StageScenario(i, v, tw, cached.Opts{StepTimeout: time.Duration(*stepMs) * time.Millisecond, MaxSize: *maxSize}, *dir) {
					stuck++
				}
			}
		}
		tw.Flush()
		res, _ := json.Marshal(map[string]any{"behaviours": 2 * *stages, "drifted": 0, "stuck": stuck, "lines": tw.N, "drift_samples": []string{}})
		fmt.Println(string(res))
		return
	}
	bs, err := cached.ReadBehaviours(*beh)
	if err != nil {
		fmt.Fprintln(os.Stderr, err)
		os.Exit(2)
	}
	drifted, stuck := 0, 0
	var samples []string
	for i, b := range bs {
		d, st := cached.Replay(i, b, tw, cached.Opts{StepTimeout: time.Duration(*stepMs) * time.Millisecond, MaxSize: *maxSize}, *dir)
		if len(d) > 0 {
			drifted++
			if len(samples) < 5 {
				samples = append(samples, fmt.Sprintf("b%d: %v", i, d))
			}
		}
		if st {
			stuck++
		}
	}
	tw.Flush()
	res, _ := json.Marshal(map[string]any{"behaviours": len(bs), "drifted": drifted, "stuck": stuck, "lines": tw.N, "drift_samples": samples})
	fmt.Println(string(res))
}
