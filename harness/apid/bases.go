package apid

import "fmt"

// Req is one HTTP request before encoding.
type Req struct {
	Method string
	Ver    string // "v1" | "v2"
	Path   string // after the version prefix, {col} is replaced by Col
	User   string
	Plan   string
	Col    string
	Body   *N // nil = no body
	// envelope overrides (set by envelope mutations)
	NoUser, NoPlan bool
	CT             string // "" = default of the encoding, "-" = none
	RawPath        string // complete path override
	RawBody        []byte // complete body override (HasRaw)
	HasRaw         bool
}

var epShape = map[string][2]string{
	"ping":   {"GET", "/ping"},
	"list":   {"GET", "/collections"},
	"create": {"POST", "/collections"},
	"get":    {"GET", "/collections/{col}"},
	"delcol": {"DELETE", "/collections/{col}"},
	"insert": {"POST", "/collections/{col}/points"},
	"update": {"PUT", "/collections/{col}/points"},
	"delpts": {"DELETE", "/collections/{col}/points"},
	"search": {"POST", "/collections/{col}/points/search"},
}

func qVamana(prop string, vec *N) *N {
	return Obj("property", Str(prop), "vectorVamana", Obj("vector", vec, "operator", Str("near"), "searchSize", Int(75), "limit", Int(5), "weight", FltV(1)))
}
func qFlat(prop string, vec *N) *N {
	return Obj("property", Str(prop), "vectorFlat", Obj("vector", vec, "operator", Str("near"), "limit", Int(5), "weight", FltV(1)))
}
func qText() *N {
	return Obj("property", Str("txt"), "text", Obj("value", Str("quick fox"), "operator", Str("containsAny"), "limit", Int(5), "weight", FltV(1)))
}
func qString() *N {
	return Obj("property", Str("str"), "string", Obj("value", Str("alpha"), "operator", Str("equals"), "endValue", Str("zz")))
}
func qInteger(prop string) *N {
	return Obj("property", Str(prop), "integer", Obj("value", Int(5), "operator", Str("greaterThan"), "endValue", Int(100)))
}
func qFloat() *N {
	return Obj("property", Str("flt"), "float", Obj("value", Flt(1.5), "operator", Str("greaterThanOrEquals"), "endValue", Flt(100.5)))
}
func searchTail(q *N) *N {
	return Obj("query", q, "select", Strs("str", "num", "nest.n"), "sort", Arr(Obj("property", Str("num"), "descending", Bool(true))),
		"offset", Int(0), "limit", Int(5))
}
func search(q *N) *N { return Obj("query", q, "limit", Int(10)) }

// Base returns the valid request named (ep, var) of the catalogue.
func Base(ep, vr, user, col string) (*Req, error) {
	if len(ep) < 4 {
		return nil, fmt.Errorf("bad endpoint %q", ep)
	}
	ver, op := ep[:2], ep[3:]
	sh, ok := epShape[op]
	if !ok {
		return nil, fmt.Errorf("unknown endpoint %q", ep)
	}
	r := &Req{Method: sh[0], Ver: ver, Path: sh[1], User: user, Plan: UserPlan[user], Col: col}
	tag := colTag(user, col)
	key := ep + ":" + vr
	switch key {
	case "v2.ping:ping", "v1.ping:ping", "v2.list:list", "v1.list:list", "v1.list:mixeduser", "v2.get:get", "v1.get:get",
		"v1.get:novec", "v1.get:flatvec", "v2.delcol:delcol", "v1.delcol:delcol", "v1.delcol:flatvec":
		// no body
	case "v2.create:kitchen":
		sc := kitchenSchema()
		sc.Del("nest.n")
		sc.Del("flt")
		sc.O = append(sc.O, KV{"pq", Obj("type", Str("vectorFlat"), "vectorFlat", Obj("vectorSize", Int(8), "distanceMetric", Str("euclidean"),
			"quantizer", Obj("type", Str("product"), "product", Obj("numCentroids", Int(16), "numSubVectors", Int(2), "triggerThreshold", Int(1000)))))})
		bq := vamana(8, "cosine")
		bq.Get("vectorVamana").O = append(bq.Get("vectorVamana").O, KV{"quantizer", Obj("type", Str("binary"),
			"binary", Obj("triggerThreshold", Int(100), "distanceMetric", Str("hamming")))})
		sc.O = append(sc.O, KV{"bq", bq})
		r.Body = Obj("id", Str("newcol"), "indexSchema", sc)
	case "v2.create:noschema":
		r.Body = Obj("id", Str("newcol"))
	case "v2.create:quotafull":
		r.Body = Obj("id", Str("second"), "indexSchema", Obj("num", Obj("type", Str("integer"))))
	case "v1.create:create":
		r.Body = Obj("id", Str("newv1"), "vectorSize", Int(4), "distanceMetric", Str("euclidean"))
	case "v2.insert:kitchen":
		p0 := kitchenPoint(20)
		p0.Set("_id", Str(freshID(tag, 0)))
		p1 := Obj("vec", Floats(9, 9, 9, 9), "num", Int64(77))
		r.Body = Obj("points", Arr(p0, p1))
	case "v2.insert:edge":
		r.Body = Obj("points", Arr(Obj("_id", Str(freshID(tag, 0)), "one", Floats(3.5), "max", bigVec(4096, 5))))
	case "v2.insert:quant":
		r.Body = Obj("points", Arr(Obj("_id", Str(freshID(tag, 0)), "h", bigVec(16, 2), "g", Floats(51.5, -0.12))))
	case "v2.insert:stray":
		r.Body = Obj("points", Arr(Obj("_id", Str(freshID(tag, 0)), "emb", Floats(0.5, 1.5))))
	case "v2.insert:quotafull":
		r.Body = Obj("points", Arr(Obj("_id", Str(freshID(tag, 0)), "str", Str("x"))))
	case "v2.insert:toolarge":
		r.Body = Obj("points", Arr(Obj("_id", Str(seedID(tag, 0)), "pad", Str(repeat("p", 150)))))
	case "v2.update:kitchen":
		r.Body = Obj("points", Arr(Obj("_id", Str(seedID(tag, 0)), "vec", Floats(4, 3, 2, 1), "flat", Floats(3, 2, 1), "txt", Str("lazy dog"),
			"str", Str("Omega"), "num", Int64(-5), "flt", Flt(2.25), "tags", Strs("u", "common"), "nest", Obj("n", Int64(99)),
			"deep", Obj("a", Obj("b", Int64(7))), "extra", Obj("k", Str("_delete")), "newfield", Int(1))))
	case "v2.update:grow":
		r.Body = Obj("points", Arr(Obj("_id", Str(seedID(tag, 0)), "pad", Str(repeat("p", 80)))))
	case "v2.delpts:kitchen", "v1.delpts:delpts":
		r.Body = Obj("ids", Strs(seedID(tag, 1)))
	case "v1.delpts:novec":
		r.Body = Obj("ids", Strs(seedID(tag, 1)))
	case "v2.search:vamana":
		r.Body = searchTail(qVamana("vec", Floats(1, 2, 0.5, 1)))
	case "v2.search:flat":
		r.Body = search(qFlat("flat", Floats(1, 2, 2)))
	case "v2.search:text":
		r.Body = search(qText())
	case "v2.search:string":
		r.Body = searchTail(qString())
	case "v2.search:strrange":
		r.Body = search(Obj("property", Str("str"), "string", Obj("value", Str("b"), "operator", Str("inRange"), "endValue", Str("g"))))
	case "v2.search:strrangebad":
		r.Body = search(Obj("property", Str("str"), "string", Obj("value", Str("g"), "operator", Str("inRange"), "endValue", Str("b"))))
	case "v2.search:strrangeeq":
		r.Body = search(Obj("property", Str("str"), "string", Obj("value", Str("g"), "operator", Str("inRange"), "endValue", Str("g"))))
	case "v2.search:integer":
		r.Body = search(qInteger("num"))
	case "v2.search:intrangebad":
		r.Body = search(Obj("property", Str("num"), "integer", Obj("value", Int(50), "operator", Str("inRange"), "endValue", Int(10))))
	case "v2.search:nested":
		r.Body = search(qInteger("nest.n"))
	case "v2.search:float":
		r.Body = search(qFloat())
	case "v2.search:fltrangebad":
		r.Body = search(Obj("property", Str("flt"), "float", Obj("value", Flt(5.5), "operator", Str("inRange"), "endValue", Flt(5.5))))
	case "v2.search:strarr":
		r.Body = search(Obj("property", Str("tags"), "stringArray", Obj("value", Strs("t1", "common"), "operator", Str("containsAll"))))
	case "v2.search:idstr":
		r.Body = search(Obj("property", Str("_id"), "string", Obj("value", Str(seedID(tag, 2)), "operator", Str("equals"))))
	case "v2.search:idarr":
		r.Body = search(Obj("property", Str("_id"), "stringArray", Obj("value", Strs(seedID(tag, 2), seedID(tag, 3)), "operator", Str("containsAny"))))
	case "v2.search:and":
		r.Body = search(Obj("property", Str("_and"), "_and", Arr(qString(), qInteger("num"))))
	case "v2.search:or":
		r.Body = search(Obj("property", Str("_or"), "_or", Arr(qVamana("vec", Floats(1, 2, 0.5, 1)), qText())))
	case "v2.search:vamfilter":
		q := qVamana("vec", Floats(1, 2, 0.5, 1))
		q.Get("vectorVamana").O = append(q.Get("vectorVamana").O, KV{"filter", qInteger("num")})
		r.Body = search(q)
	case "v2.search:vamfiltervec":
		q := qVamana("vec", Floats(1, 2, 0.5, 1))
		q.Get("vectorVamana").O = append(q.Get("vectorVamana").O, KV{"filter", qFlat("flat", Floats(1, 2, 2))})
		r.Body = search(q)
	case "v2.search:flatfilter":
		q := qFlat("flat", Floats(1, 2, 2))
		q.Get("vectorFlat").O = append(q.Get("vectorFlat").O, KV{"filter", qString()})
		r.Body = search(q)
	case "v2.search:flatfiltervec":
		q := qFlat("flat", Floats(1, 2, 2))
		q.Get("vectorFlat").O = append(q.Get("vectorFlat").O, KV{"filter", qVamana("vec", Floats(1, 2, 0.5, 1))})
		r.Body = search(q)
	case "v2.search:textfiltervec":
		q := qText()
		q.Get("text").O = append(q.Get("text").O, KV{"filter", qFlat("flat", Floats(1, 2, 2))})
		r.Body = search(q)
	case "v2.search:andvec":
		r.Body = search(Obj("property", Str("_and"), "_and", Arr(qFlat("flat", Floats(1, 2, 2)), qVamana("vec", Floats(1, 2, 0.5, 1)))))
	case "v2.search:edge1":
		r.Body = search(qVamana("one", Floats(0.7)))
	case "v2.search:edgemax":
		r.Body = search(qFlat("max", bigVec(4096, 3)))
	case "v2.search:ham":
		r.Body = search(qFlat("h", bigVec(16, 1)))
	case "v2.search:geo":
		r.Body = search(qFlat("g", Floats(55.95, -3.19)))
	case "v2.search:onv1col":
		r.Body = search(qVamana("vector", Floats(1, 1, 1, 1)))
	case "v1.insert:insert", "v1.insert:novec":
		r.Body = Obj("points", Arr(Obj("id", Str(freshID(tag, 0)), "vector", Floats(7, 7, 7, 7), "metadata", Obj("name", Str("new"), "k", Arr(Int(1), Obj("z", Null()))))))
	case "v1.insert:downgraded":
		// within BASIC (the plan at creation), beyond TINY (the plan of this request): point size 100
		r.Body = Obj("points", Arr(Obj("id", Str(freshID(tag, 0)), "vector", Floats(7, 7, 7, 7), "metadata", Obj("pad", Str(repeat("p", 150))))))
	case "v1.insert:downquota":
		// 2 points stored, TINY allows 3 per collection
		r.Body = Obj("points", Arr(Obj("id", Str(freshID(tag, 0)), "vector", Floats(7, 7, 7, 7)), Obj("id", Str(freshID(tag, 1)), "vector", Floats(6, 6, 6, 6))))
	case "v1.update:update", "v1.update:novec":
		r.Body = Obj("points", Arr(Obj("id", Str(seedID(tag, 0)), "vector", Floats(8, 8, 8, 8), "metadata", Obj("name", Str("changed")))))
	case "v1.search:search", "v1.search:novec":
		r.Body = Obj("vector", Floats(1, 1, 0.5, 0.25), "limit", Int(5))
	default:
		return nil, fmt.Errorf("no base request %q", key)
	}
	return r, nil
}

func repeat(s string, n int) string {
	b := make([]byte, 0, len(s)*n)
	for i := 0; i < n; i++ {
		b = append(b, s...)
	}
	return string(b)
}
