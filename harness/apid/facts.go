package apid

import (
	"bytes"
	"encoding/binary"
	"encoding/json"
	"math"
	"strings"
)

// Facts are abstracted properties of a request body, computed with code that
// is independent of semadb (a small MessagePack walker, encoding/json). They
// let the trace specification recognise the exact signature of a known
// finding on a random body; they are inputs, not verdicts.
type Facts struct {
	NonFinite bool // a float that is NaN / Inf / beyond what float32 distances survive
	DupKey    bool // some map holds the same string key twice (MessagePack)
	BigClaim  bool // an array / map header announces >= 2^20 elements, more than bytes remain (MessagePack)
	Depth     int  // nesting depth reached
	SelScalar bool // a "select" path descends below a stored number or string of the seeded points
	BigOffset bool // "offset" + "limit" does not fit an int64
}

func extreme(f float64) bool {
	return math.IsNaN(f) || math.IsInf(f, 0) || math.Abs(f) > 1e15 || (f != 0 && math.Abs(f) < 1e-30)
}

type mpFrame struct {
	left  int
	isMap bool
	isKey bool
	keys  map[string]bool
}

// mpWalk walks one MessagePack value without recursion and without trusting announced lengths.
func mpWalk(b []byte, f *Facts) {
	var st []mpFrame
	pos := 0
	done := func() {
		for len(st) > 0 {
			top := &st[len(st)-1]
			if top.left > 0 {
				return
			}
			st = st[:len(st)-1]
		}
	}
	consumed := func() {
		if len(st) == 0 {
			return
		}
		top := &st[len(st)-1]
		top.left--
		if top.isMap {
			top.isKey = !top.isKey
		}
		done()
	}
	first := true
	for pos < len(b) && (first || len(st) > 0) {
		first = false
		c := b[pos]
		pos++
		need := func(n int) bool { return pos+n <= len(b) }
		var keyStr *string
		container := func(n int, isMap bool) bool {
			units := n
			if isMap {
				units = 2 * n
			}
			if units > len(b)-pos && n >= 1<<20 {
				f.BigClaim = true
			}
			// (a header that announces more than the body holds does not end the walk: the server's decoder
			// reads on until the bytes run out, and meets whatever is announced further inside)
			if units == 0 {
				consumed()
				return true
			}
			fr := mpFrame{left: units, isMap: isMap, isKey: isMap}
			if isMap {
				fr.keys = map[string]bool{}
			}
			// the container itself is one unit of its parent, accounted when it is exhausted: account now and push
			if len(st) > 0 {
				top := &st[len(st)-1]
				top.left--
				if top.isMap {
					top.isKey = !top.isKey
				}
			}
			st = append(st, fr)
			if len(st) > f.Depth {
				f.Depth = len(st)
			}
			return true
		}
		str := func(n int) bool {
			if n > len(b)-pos {
				return false
			}
			s := string(b[pos : pos+n])
			keyStr = &s
			pos += n
			return true
		}
		ok := true
		switch {
		case c <= 0x7f, c >= 0xe0, c == 0xc0, c == 0xc2, c == 0xc3:
			// fixint, nil, bool
		case c >= 0xa0 && c <= 0xbf:
			ok = str(int(c & 0x1f))
		case c >= 0x90 && c <= 0x9f:
			if !container(int(c&0x0f), false) {
				return
			}
			continue
		case c >= 0x80 && c <= 0x8f:
			if !container(int(c&0x0f), true) {
				return
			}
			continue
		case c == 0xca:
			if !need(4) {
				return
			}
			if extreme(float64(math.Float32frombits(binary.BigEndian.Uint32(b[pos:])))) {
				f.NonFinite = true
			}
			pos += 4
		case c == 0xcb:
			if !need(8) {
				return
			}
			if extreme(math.Float64frombits(binary.BigEndian.Uint64(b[pos:]))) {
				f.NonFinite = true
			}
			pos += 8
		case c == 0xcc, c == 0xd0:
			pos++
		case c == 0xcd, c == 0xd1:
			pos += 2
		case c == 0xce, c == 0xd2:
			pos += 4
		case c == 0xcf, c == 0xd3:
			pos += 8
		case c == 0xd9, c == 0xc4:
			if !need(1) {
				return
			}
			n := int(b[pos])
			pos++
			ok = str(n)
		case c == 0xda, c == 0xc5:
			if !need(2) {
				return
			}
			n := int(binary.BigEndian.Uint16(b[pos:]))
			pos += 2
			ok = str(n)
		case c == 0xdb, c == 0xc6:
			if !need(4) {
				return
			}
			n := int(binary.BigEndian.Uint32(b[pos:]))
			pos += 4
			ok = str(n)
		case c == 0xdc, c == 0xde:
			if !need(2) {
				return
			}
			n := int(binary.BigEndian.Uint16(b[pos:]))
			pos += 2
			if !container(n, c == 0xde) {
				return
			}
			continue
		case c == 0xdd, c == 0xdf:
			if !need(4) {
				return
			}
			n := int(binary.BigEndian.Uint32(b[pos:]))
			pos += 4
			if !container(n, c == 0xdf) {
				return
			}
			continue
		case c == 0xd4, c == 0xd5, c == 0xd6, c == 0xd7, c == 0xd8:
			pos += 1 + (1 << (c - 0xd4))
		case c == 0xc7, c == 0xc8, c == 0xc9:
			w := 1 << (c - 0xc7)
			if !need(w) {
				return
			}
			n := 0
			for i := 0; i < w; i++ {
				n = n<<8 | int(b[pos+i])
			}
			pos += w + 1
			if n > len(b)-pos {
				return
			}
			pos += n
		default: // 0xc1
			return
		}
		if !ok || pos > len(b) {
			return
		}
		if len(st) > 0 {
			top := &st[len(st)-1]
			if top.isMap && top.isKey && keyStr != nil {
				if top.keys[*keyStr] {
					f.DupKey = true
				}
				top.keys[*keyStr] = true
			}
		}
		consumed()
	}
}

var storedNumbers = []string{"num", "flt", "nest.n", "str", "txt", "metadata.name", "metadata.n"}

func selectDescends(paths []any) bool {
	for _, p := range paths {
		s, ok := p.(string)
		if !ok {
			continue
		}
		for _, n := range storedNumbers {
			if strings.HasPrefix(s, n+".") {
				return true
			}
		}
	}
	return false
}

func asFloat(v any) (float64, bool) {
	switch t := v.(type) {
	case json.Number:
		f, err := t.Float64()
		return f, err == nil
	case float64:
		return t, true
	case float32:
		return float64(t), true
	case int64:
		return float64(t), true
	case uint64:
		return float64(t), true
	case int8:
		return float64(t), true
	case int16:
		return float64(t), true
	case int32:
		return float64(t), true
	case uint8:
		return float64(t), true
	case uint16:
		return float64(t), true
	case uint32:
		return float64(t), true
	}
	return 0, false
}

// BodyFacts computes the facts of a body in the given encoding.
func BodyFacts(body []byte, enc string) Facts {
	var f Facts
	var v any
	if enc == "mp" {
		mpWalk(body, &f)
		if f.BigClaim || f.Depth > 500 {
			return f
		}
		v = mpGeneric(body)
	} else {
		dec := json.NewDecoder(bytes.NewReader(body))
		dec.UseNumber()
		if dec.Decode(&v) != nil {
			return f
		}
		var walk func(x any, d int)
		walk = func(x any, d int) {
			if d > f.Depth {
				f.Depth = d
			}
			switch t := x.(type) {
			case json.Number:
				if strings.ContainsAny(string(t), ".eE") {
					fl, err := t.Float64()
					if err != nil || extreme(fl) {
						f.NonFinite = true
					}
				}
			case []any:
				for _, e := range t {
					walk(e, d+1)
				}
			case map[string]any:
				for _, e := range t {
					walk(e, d+1)
				}
			}
		}
		walk(v, 0)
	}
	if m, ok := v.(map[string]any); ok {
		if sel, ok := m["select"].([]any); ok {
			f.SelScalar = selectDescends(sel)
		}
		if off, ok := asFloat(m["offset"]); ok && off > 9.2e18 {
			f.BigOffset = true
		}
	}
	return f
}

// mpGeneric decodes the top-level map of a MessagePack body far enough to read "select" and "offset"
// (string keys; values: numbers, strings, arrays of strings); anything else is skipped as nil.
func mpGeneric(b []byte) any {
	d := &mpDec{b: b}
	v, ok := d.value(0)
	if !ok {
		return nil
	}
	return v
}

type mpDec struct {
	b   []byte
	pos int
}

func (d *mpDec) take(n int) ([]byte, bool) {
	if n < 0 || d.pos+n > len(d.b) {
		return nil, false
	}
	s := d.b[d.pos : d.pos+n]
	d.pos += n
	return s, true
}

func (d *mpDec) value(depth int) (any, bool) {
	if depth > 64 || d.pos >= len(d.b) {
		return nil, false
	}
	c := d.b[d.pos]
	d.pos++
	be := func(n int) (uint64, bool) {
		s, ok := d.take(n)
		if !ok {
			return 0, false
		}
		var u uint64
		for _, x := range s {
			u = u<<8 | uint64(x)
		}
		return u, true
	}
	arr := func(n int) (any, bool) {
		if n > len(d.b)-d.pos {
			return nil, false
		}
		out := make([]any, 0, n)
		for i := 0; i < n; i++ {
			v, ok := d.value(depth + 1)
			if !ok {
				return nil, false
			}
			out = append(out, v)
		}
		return out, true
	}
	mp := func(n int) (any, bool) {
		if 2*n > len(d.b)-d.pos {
			return nil, false
		}
		out := map[string]any{}
		for i := 0; i < n; i++ {
			k, ok := d.value(depth + 1)
			if !ok {
				return nil, false
			}
			v, ok := d.value(depth + 1)
			if !ok {
				return nil, false
			}
			if ks, isStr := k.(string); isStr {
				out[ks] = v
			}
		}
		return out, true
	}
	str := func(n int) (any, bool) {
		s, ok := d.take(n)
		return string(s), ok
	}
	switch {
	case c <= 0x7f:
		return int64(c), true
	case c >= 0xe0:
		return int64(int8(c)), true
	case c >= 0xa0 && c <= 0xbf:
		return str(int(c & 0x1f))
	case c >= 0x90 && c <= 0x9f:
		return arr(int(c & 0x0f))
	case c >= 0x80 && c <= 0x8f:
		return mp(int(c & 0x0f))
	}
	switch c {
	case 0xc0:
		return nil, true
	case 0xc2:
		return false, true
	case 0xc3:
		return true, true
	case 0xca:
		u, ok := be(4)
		return float64(math.Float32frombits(uint32(u))), ok
	case 0xcb:
		u, ok := be(8)
		return math.Float64frombits(u), ok
	case 0xcc, 0xcd, 0xce, 0xcf:
		u, ok := be(1 << (c - 0xcc))
		return u, ok
	case 0xd0:
		u, ok := be(1)
		return int64(int8(u)), ok
	case 0xd1:
		u, ok := be(2)
		return int64(int16(u)), ok
	case 0xd2:
		u, ok := be(4)
		return int64(int32(u)), ok
	case 0xd3:
		u, ok := be(8)
		return int64(u), ok
	case 0xd9, 0xc4:
		n, ok := be(1)
		if !ok {
			return nil, false
		}
		return str(int(n))
	case 0xda, 0xc5:
		n, ok := be(2)
		if !ok {
			return nil, false
		}
		return str(int(n))
	case 0xdb, 0xc6:
		n, ok := be(4)
		if !ok {
			return nil, false
		}
		return str(int(n))
	case 0xdc:
		n, ok := be(2)
		if !ok {
			return nil, false
		}
		return arr(int(n))
	case 0xdd:
		n, ok := be(4)
		if !ok {
			return nil, false
		}
		return arr(int(n))
	case 0xde:
		n, ok := be(2)
		if !ok {
			return nil, false
		}
		return mp(int(n))
	case 0xdf:
		n, ok := be(4)
		if !ok {
			return nil, false
		}
		return mp(int(n))
	}
	return nil, false
}
