package apid

import (
	"fmt"

	"github.com/semafind/semadb/models"
)

// The reference world: users, plans, collections and seeded points. It must
// agree with World of spec/ApiCat.tla (user, collection, v1 shape).

var Plans = map[string]models.UserPlan{
	"BASIC": {Name: "BASIC", MaxCollections: 8, MaxCollectionPointCount: 20000, MaxPointSize: 24000,
		ShardBackupFrequency: 3600, ShardBackupCount: 1},
	"TINY": {Name: "TINY", MaxCollections: 1, MaxCollectionPointCount: 3, MaxPointSize: 100,
		ShardBackupFrequency: 3600, ShardBackupCount: 1},
}

var UserPlan = map[string]string{"alice": "BASIC", "bob": "BASIC", "dave": "BASIC", "tim": "TINY", "mallory": "BASIC", "pat": "TINY"}

var Users = []string{"alice", "bob", "dave", "tim", "pat"}

// Col is one reference collection.
type Col struct {
	User, Id string
	V1       bool // created through the v1 endpoint
	Create   *N   // creation body
	Points   []*N // seeded points (v2 shape, or v1 shape for V1 collections)
	HasNum   bool // has an integer index "num" (extra enumeration read in the digest)
	// CreatePlan: the plan the owner had when the collection was created and seeded, if it differs from the plan
	// the owner's requests carry now (a downgrade: the limits of the CURRENT plan apply)
	CreatePlan string
}

func seedID(col byte, i int) string {
	return fmt.Sprintf("00000000-0000-4000-8%03x-%012x", int(col), i)
}

// ids that requests of the catalogue insert; the digest reads them as well
func freshID(col byte, i int) string {
	return fmt.Sprintf("ffffffff-0000-4000-8%03x-%012x", int(col), i)
}

const unknownID = "eeeeeeee-0000-4000-8000-000000000001"

func vamana(dim int, metric string) *N {
	return Obj("type", Str("vectorVamana"), "vectorVamana", Obj("vectorSize", Int(int64(dim)), "distanceMetric", Str(metric),
		"searchSize", Int(75), "degreeBound", Int(64), "alpha", FltV(1.2)))
}

func flat(dim int, metric string) *N {
	return Obj("type", Str("vectorFlat"), "vectorFlat", Obj("vectorSize", Int(int64(dim)), "distanceMetric", Str(metric)))
}

func kitchenSchema() *N {
	return Obj(
		"vec", vamana(4, "euclidean"),
		"flat", flat(3, "cosine"),
		"txt", Obj("type", Str("text"), "text", Obj("analyser", Str("standard"))),
		"str", Obj("type", Str("string"), "string", Obj("caseSensitive", Bool(false))),
		"num", Obj("type", Str("integer")),
		"flt", Obj("type", Str("float")),
		"tags", Obj("type", Str("stringArray"), "stringArray", Obj("caseSensitive", Bool(false))),
		"nest.n", Obj("type", Str("integer")),
		"deep.a.b", Obj("type", Str("integer")), // (an indexed property three maps deep)
	)
}

var strVals = []string{"Alpha", "beta", "Gamma", "delta", "epsilon", "Zeta", "eta", "theta", "iota", "kappa"}

func kitchenPoint(i int) *N {
	f := float64(i)
	return Obj("_id", Str(seedID('k', i)),
		"vec", Floats(f, f+1, 0.5, 1),
		"flat", Floats(1, f+0.5, 2),
		"txt", Str(fmt.Sprintf("the quick brown fox number %d jumps", i)),
		"str", Str(strVals[i%len(strVals)]),
		"num", Int64(int64(i*10)),
		"flt", Flt(f*1.5),
		"tags", Strs(fmt.Sprintf("t%d", i%3), "common"),
		"nest", Obj("n", Int64(int64(i))),
		"deep", Obj("a", Obj("b", Int64(int64(i+100)))),
		"extra", Obj("k", Arr(Int(1), Int(2), Obj("z", Null()))),
	)
}

func bigVec(n int, seed float64) *N {
	v := &N{K: KArr}
	for i := 0; i < n; i++ {
		v.A = append(v.A, FltV(float64((i*7+int(seed))%13)/13+0.01))
	}
	return v
}

// Reference returns the reference world.
func Reference() []*Col {
	var w []*Col
	k := &Col{User: "alice", Id: "kitchen", HasNum: true, Create: Obj("id", Str("kitchen"), "indexSchema", kitchenSchema())}
	for i := 0; i < 10; i++ {
		k.Points = append(k.Points, kitchenPoint(i))
	}
	w = append(w, k)
	v1 := func(user string, n int, tag byte) *Col {
		c := &Col{User: user, Id: "v1col", V1: true, Create: Obj("id", Str("v1col"), "vectorSize", Int(4), "distanceMetric", Str("euclidean"))}
		for i := 0; i < n; i++ {
			f := float64(i)
			c.Points = append(c.Points, Obj("id", Str(seedID(tag, i)), "vector", Floats(f, 1, f/2, 0.25),
				"metadata", Obj("name", Str(fmt.Sprintf("p%d", i)), "n", Int(int64(i)))))
		}
		return c
	}
	w = append(w, v1("alice", 5, 'a'))
	e := &Col{User: "alice", Id: "edge", Create: Obj("id", Str("edge"), "indexSchema",
		Obj("one", vamana(1, "euclidean"), "max", flat(4096, "dot")))}
	for i := 0; i < 2; i++ {
		e.Points = append(e.Points, Obj("_id", Str(seedID('e', i)), "one", Floats(float64(i)+0.5), "max", bigVec(4096, float64(i))))
	}
	w = append(w, e)
	q := &Col{User: "alice", Id: "quant", Create: Obj("id", Str("quant"), "indexSchema", Obj(
		"h", Obj("type", Str("vectorFlat"), "vectorFlat", Obj("vectorSize", Int(16), "distanceMetric", Str("hamming"),
			"quantizer", Obj("type", Str("binary"), "binary", Obj("threshold", FltV(0.5), "distanceMetric", Str("hamming"))))),
		"g", flat(2, "haversine")))}
	for i := 0; i < 4; i++ {
		q.Points = append(q.Points, Obj("_id", Str(seedID('q', i)), "h", bigVec(16, float64(i*3)),
			"g", Floats(55.9+float64(i), -3.1+float64(i))))
	}
	w = append(w, q)
	w = append(w, v1("bob", 2, 'b'))
	nv := &Col{User: "dave", Id: "novec", Create: Obj("id", Str("novec"), "indexSchema",
		Obj("str", Obj("type", Str("string"), "string", Obj("caseSensitive", Bool(true)))))}
	for i := 0; i < 2; i++ {
		nv.Points = append(nv.Points, Obj("_id", Str(seedID('n', i)), "str", Str(fmt.Sprintf("s%d", i)), "vector", Floats(1, 2, 3, 4)))
	}
	w = append(w, nv)
	fv := &Col{User: "dave", Id: "flatvec", Create: Obj("id", Str("flatvec"), "indexSchema", Obj("vector", flat(2, "euclidean")))}
	for i := 0; i < 2; i++ {
		fv.Points = append(fv.Points, Obj("_id", Str(seedID('f', i)), "vector", Floats(float64(i), 1)))
	}
	w = append(w, fv)
	// a schema entry that carries, besides the parameter block of its type, a stray block of the OTHER vector type with
	// another size (creation keeps such blocks): the dimension that counts is the one of the declared type
	stray := flat(2, "euclidean")
	stray.O = append(stray.O, KV{"vectorVamana", Obj("vectorSize", Int(4), "distanceMetric", Str("euclidean"),
		"searchSize", Int(75), "degreeBound", Int(64), "alpha", Flt(1.2))})
	sv := &Col{User: "dave", Id: "stray", Create: Obj("id", Str("stray"), "indexSchema", Obj("emb", stray))}
	for i := 0; i < 2; i++ {
		// (seeded without the vector: whether a vector of the declared size is accepted is a catalogue case, judged by the spec)
		sv.Points = append(sv.Points, Obj("_id", Str(seedID('s', i)), "note", Str(fmt.Sprintf("n%d", i))))
	}
	w = append(w, sv)
	// pat was on BASIC when the collection was created and is on TINY now
	pv := v1("pat", 2, 'p')
	pv.CreatePlan = "BASIC"
	w = append(w, pv)
	t := &Col{User: "tim", Id: "tiny", Create: Obj("id", Str("tiny"), "indexSchema",
		Obj("vec", flat(2, "euclidean"), "str", Obj("type", Str("string"), "string", Obj("caseSensitive", Bool(false)))))}
	for i := 0; i < 3; i++ {
		t.Points = append(t.Points, Obj("_id", Str(seedID('t', i)), "vec", Floats(float64(i), 1), "str", Str(fmt.Sprintf("s%d", i))))
	}
	w = append(w, t)
	return w
}

func colTag(user, id string) byte {
	switch user + "/" + id {
	case "alice/kitchen":
		return 'k'
	case "alice/v1col":
		return 'a'
	case "alice/edge":
		return 'e'
	case "alice/quant":
		return 'q'
	case "bob/v1col":
		return 'b'
	case "dave/novec":
		return 'n'
	case "pat/v1col":
		return 'p'
	case "dave/stray":
		return 's'
	case "dave/flatvec":
		return 'f'
	case "tim/tiny":
		return 't'
	}
	return 'x'
}

// knownIDs are the point ids the digest reads in a collection: seeds and the ids catalogue requests insert.
func knownIDs(user, id string, nseed int) []string {
	tag := colTag(user, id)
	var ids []string
	for i := 0; i < nseed; i++ {
		ids = append(ids, seedID(tag, i))
	}
	for i := 0; i < 4; i++ {
		ids = append(ids, freshID(tag, i))
	}
	return ids
}
