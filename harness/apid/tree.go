// Package apid drives the real HTTP handler chain of semadb (both API versions)
// with the mutation catalogue enumerated by TLC from spec/ApiCat.tla and with
// seeded random bodies, and logs what the server answered plus state digests
// for spec/ApiTrace.tla (property C18). It materialises cases; it judges nothing.
package apid

import (
	"bytes"
	"encoding/binary"
	"encoding/json"
	"fmt"
	"math"
	"strconv"
	"strings"
)

// Kind of a tree node.
type Kind int

const (
	KNull Kind = iota
	KBool
	KInt
	KUint
	KFloat
	KFloat32
	KFloatV // a float that travels as float32 in MessagePack (vector elements, float32 request fields)
	KInt64  // an integer that travels as int64 in MessagePack
	KStr
	KArr
	KObj
	KRaw // literal text / bytes per encoding
)

// N is an ordered JSON-like tree: objects keep their key order and may hold a
// key twice, numbers keep their wire type, raw nodes carry literal bytes.
type N struct {
	K    Kind
	B    bool
	I    int64
	U    uint64
	F    float64
	S    string
	A    []*N
	O    []KV
	RawJ string
	RawM []byte
}

type KV struct {
	Key string
	V   *N
}

func Null() *N                  { return &N{K: KNull} }
func Bool(b bool) *N            { return &N{K: KBool, B: b} }
func Int(i int64) *N            { return &N{K: KInt, I: i} }
func Uint(u uint64) *N          { return &N{K: KUint, U: u} }
func Flt(f float64) *N          { return &N{K: KFloat, F: f} }
func Flt32(f float64) *N        { return &N{K: KFloat32, F: f} }
func FltV(f float64) *N         { return &N{K: KFloatV, F: f} }
func Int64(i int64) *N          { return &N{K: KInt64, I: i} }
func Str(s string) *N           { return &N{K: KStr, S: s} }
func Arr(xs ...*N) *N           { return &N{K: KArr, A: xs} }
func Raw(j string, m []byte) *N { return &N{K: KRaw, RawJ: j, RawM: m} }

// Obj builds an object from key, value, key, value ...
func Obj(kv ...any) *N {
	n := &N{K: KObj}
	for i := 0; i+1 < len(kv); i += 2 {
		n.O = append(n.O, KV{kv[i].(string), kv[i+1].(*N)})
	}
	return n
}

func Floats(xs ...float64) *N {
	n := &N{K: KArr}
	for _, x := range xs {
		n.A = append(n.A, FltV(x))
	}
	return n
}

func Strs(xs ...string) *N {
	n := &N{K: KArr}
	for _, x := range xs {
		n.A = append(n.A, Str(x))
	}
	return n
}

func (n *N) Clone() *N {
	if n == nil {
		return nil
	}
	c := *n
	if n.A != nil {
		c.A = make([]*N, len(n.A))
		for i, x := range n.A {
			c.A[i] = x.Clone()
		}
	}
	if n.O != nil {
		c.O = make([]KV, len(n.O))
		for i, kv := range n.O {
			c.O[i] = KV{kv.Key, kv.V.Clone()}
		}
	}
	return &c
}

// Get returns the LAST value stored under key (nil if absent).
func (n *N) Get(key string) *N {
	if n == nil || n.K != KObj {
		return nil
	}
	for i := len(n.O) - 1; i >= 0; i-- {
		if n.O[i].Key == key {
			return n.O[i].V
		}
	}
	return nil
}

func (n *N) Set(key string, v *N) {
	for i := len(n.O) - 1; i >= 0; i-- {
		if n.O[i].Key == key {
			n.O[i].V = v
			return
		}
	}
	n.O = append(n.O, KV{key, v})
}

func (n *N) Del(key string) {
	out := n.O[:0]
	for _, kv := range n.O {
		if kv.Key != key {
			out = append(out, kv)
		}
	}
	n.O = out
}

// ---------------------------------------------------------------- paths

// loc is the position of a node inside its parent.
type loc struct {
	parent *N
	idx    int // index in parent.O or parent.A
	node   *N
}

// find resolves a "/" separated path (numbers index arrays). The empty path is the root.
func find(root *N, path string) (loc, error) {
	cur := loc{nil, -1, root}
	if path == "" {
		return cur, nil
	}
	for _, seg := range strings.Split(path, "/") {
		n := cur.node
		switch n.K {
		case KObj:
			found := -1
			for i := len(n.O) - 1; i >= 0; i-- {
				if n.O[i].Key == seg {
					found = i
					break
				}
			}
			if found < 0 {
				return cur, fmt.Errorf("path %q: no key %q", path, seg)
			}
			cur = loc{n, found, n.O[found].V}
		case KArr:
			i, err := strconv.Atoi(seg)
			if err != nil || i < 0 || i >= len(n.A) {
				return cur, fmt.Errorf("path %q: bad index %q", path, seg)
			}
			cur = loc{n, i, n.A[i]}
		default:
			return cur, fmt.Errorf("path %q: cannot descend at %q", path, seg)
		}
	}
	return cur, nil
}

// replace puts v where l points (the root cannot be replaced through a loc).
func (l loc) replace(v *N) {
	if l.parent == nil {
		*l.node = *v
		return
	}
	if l.parent.K == KObj {
		l.parent.O[l.idx].V = v
	} else {
		l.parent.A[l.idx] = v
	}
}

func (l loc) remove() {
	if l.parent == nil {
		return
	}
	if l.parent.K == KObj {
		l.parent.O = append(l.parent.O[:l.idx:l.idx], l.parent.O[l.idx+1:]...)
	} else {
		l.parent.A = append(l.parent.A[:l.idx:l.idx], l.parent.A[l.idx+1:]...)
	}
}

func (l loc) key() string {
	if l.parent != nil && l.parent.K == KObj {
		return l.parent.O[l.idx].Key
	}
	return ""
}

// ---------------------------------------------------------------- JSON

func jsonString(s string) string {
	b, _ := json.Marshal(s)
	return string(b)
}

func fmtFloat(f float64) string {
	switch {
	case math.IsNaN(f):
		return "NaN"
	case math.IsInf(f, 1):
		return "Infinity"
	case math.IsInf(f, -1):
		return "-Infinity"
	}
	return strconv.FormatFloat(f, 'g', -1, 64)
}

func (n *N) writeJSON(b *bytes.Buffer) {
	switch n.K {
	case KNull:
		b.WriteString("null")
	case KBool:
		if n.B {
			b.WriteString("true")
		} else {
			b.WriteString("false")
		}
	case KInt, KInt64:
		b.WriteString(strconv.FormatInt(n.I, 10))
	case KUint:
		b.WriteString(strconv.FormatUint(n.U, 10))
	case KFloat, KFloat32, KFloatV:
		b.WriteString(fmtFloat(n.F))
	case KStr:
		b.WriteString(jsonString(n.S))
	case KArr:
		b.WriteByte('[')
		for i, x := range n.A {
			if i > 0 {
				b.WriteByte(',')
			}
			x.writeJSON(b)
		}
		b.WriteByte(']')
	case KObj:
		b.WriteByte('{')
		for i, kv := range n.O {
			if i > 0 {
				b.WriteByte(',')
			}
			b.WriteString(jsonString(kv.Key))
			b.WriteByte(':')
			kv.V.writeJSON(b)
		}
		b.WriteByte('}')
	case KRaw:
		b.WriteString(n.RawJ)
	}
}

func (n *N) JSON() []byte {
	var b bytes.Buffer
	n.writeJSON(&b)
	return b.Bytes()
}

// ---------------------------------------------------------------- MessagePack

func mpInt(b *bytes.Buffer, i int64) {
	switch {
	case i >= 0 && i <= 127:
		b.WriteByte(byte(i))
	case i < 0 && i >= -32:
		b.WriteByte(byte(i))
	case i >= math.MinInt8 && i <= math.MaxInt8:
		b.WriteByte(0xd0)
		b.WriteByte(byte(i))
	case i >= math.MinInt16 && i <= math.MaxInt16:
		b.WriteByte(0xd1)
		binary.Write(b, binary.BigEndian, int16(i))
	case i >= math.MinInt32 && i <= math.MaxInt32:
		b.WriteByte(0xd2)
		binary.Write(b, binary.BigEndian, int32(i))
	default:
		b.WriteByte(0xd3)
		binary.Write(b, binary.BigEndian, i)
	}
}

func mpStr(b *bytes.Buffer, s string) {
	n := len(s)
	switch {
	case n < 32:
		b.WriteByte(0xa0 | byte(n))
	case n < 256:
		b.WriteByte(0xd9)
		b.WriteByte(byte(n))
	case n < 65536:
		b.WriteByte(0xda)
		binary.Write(b, binary.BigEndian, uint16(n))
	default:
		b.WriteByte(0xdb)
		binary.Write(b, binary.BigEndian, uint32(n))
	}
	b.WriteString(s)
}

func mpLen(b *bytes.Buffer, n int, fix, c16, c32 byte) {
	switch {
	case n < 16:
		b.WriteByte(fix | byte(n))
	case n < 65536:
		b.WriteByte(c16)
		binary.Write(b, binary.BigEndian, uint16(n))
	default:
		b.WriteByte(c32)
		binary.Write(b, binary.BigEndian, uint32(n))
	}
}

func (n *N) writeMP(b *bytes.Buffer) {
	switch n.K {
	case KNull:
		b.WriteByte(0xc0)
	case KBool:
		if n.B {
			b.WriteByte(0xc3)
		} else {
			b.WriteByte(0xc2)
		}
	case KInt:
		mpInt(b, n.I)
	case KInt64:
		b.WriteByte(0xd3)
		binary.Write(b, binary.BigEndian, n.I)
	case KUint:
		b.WriteByte(0xcf)
		binary.Write(b, binary.BigEndian, n.U)
	case KFloat:
		b.WriteByte(0xcb)
		binary.Write(b, binary.BigEndian, math.Float64bits(n.F))
	case KFloat32, KFloatV:
		b.WriteByte(0xca)
		binary.Write(b, binary.BigEndian, math.Float32bits(float32(n.F)))
	case KStr:
		mpStr(b, n.S)
	case KArr:
		mpLen(b, len(n.A), 0x90, 0xdc, 0xdd)
		for _, x := range n.A {
			x.writeMP(b)
		}
	case KObj:
		mpLen(b, len(n.O), 0x80, 0xde, 0xdf)
		for _, kv := range n.O {
			mpStr(b, kv.Key)
			kv.V.writeMP(b)
		}
	case KRaw:
		b.Write(n.RawM)
	}
}

func (n *N) MP() []byte {
	var b bytes.Buffer
	n.writeMP(&b)
	return b.Bytes()
}

// numRaw is a number given by its JSON literal; in MessagePack it becomes the
// narrowest type that holds it (int64, uint64, else float64).
func numRaw(lit string) *N {
	var m bytes.Buffer
	if i, err := strconv.ParseInt(lit, 10, 64); err == nil {
		mpInt(&m, i)
	} else if u, err := strconv.ParseUint(lit, 10, 64); err == nil {
		m.WriteByte(0xcf)
		binary.Write(&m, binary.BigEndian, u)
	} else {
		f, _ := strconv.ParseFloat(lit, 64) // +-Inf on overflow
		m.WriteByte(0xcb)
		binary.Write(&m, binary.BigEndian, math.Float64bits(f))
	}
	return Raw(lit, m.Bytes())
}

// deepArr is [[[...1...]]] nested depth times, built without recursion.
func deepArr(depth int) *N {
	j := strings.Repeat("[", depth) + "1" + strings.Repeat("]", depth)
	m := append(bytes.Repeat([]byte{0x91}, depth), 0x01)
	return Raw(j, m)
}

// deepObj is {"a":{"a":...1...}} nested depth times.
func deepObj(depth int) *N {
	j := strings.Repeat(`{"a":`, depth) + "1" + strings.Repeat("}", depth)
	m := append(bytes.Repeat([]byte{0x81, 0xa1, 'a'}, depth), 0x01)
	return Raw(j, m)
}
