package apid

import (
	"bytes"
	"encoding/binary"
	"fmt"
	"math"
	"net/url"
	"strings"
)

// Case is one line of the catalogue written by TLC (spec/Api.tla).
type Case struct {
	Cid  int    `json:"cid"`
	Ep   string `json:"ep"`
	Var  string `json:"var"`
	U    string `json:"u"`
	Col  string `json:"col"`
	P    string `json:"p"`
	T    string `json:"t"`
	K    string `json:"k"`
	A    int    `json:"a"`
	S    string `json:"s"`
	Enc  string `json:"enc"`
	Lab  string `json:"lab"`
	Eff  string `json:"eff"`
	Risk int    `json:"risk"`
}

const unicodeStr = "héllo 世界 \U0001F600 \u0000 ‮ end"

// loosePoint: the field sits inside a v2 point (free-form map): integers travel as int64 in MessagePack
func loosePoint(r *Req, c *Case) bool {
	return r.Ver == "v2" && strings.HasPrefix(c.P, "points/")
}

// float32Field: request fields the schema types as float32
func float32Field(p string) bool {
	return strings.HasSuffix(p, "/alpha") || strings.HasSuffix(p, "/weight") || strings.HasSuffix(p, "/threshold")
}

func wrongTypeValue(n *N) *N {
	switch n.K {
	case KStr:
		return Int(7)
	case KArr:
		return Obj()
	case KObj:
		return Arr()
	default:
		return Str("x")
	}
}

func typeValue(s string) *N {
	switch s {
	case "str":
		return Str("x")
	case "num":
		return Int(7)
	case "bool":
		return Bool(true)
	case "arr":
		return Arr(Int(1))
	case "obj":
		return Obj("k", Int(1))
	case "null":
		return Null()
	}
	return Null()
}

func looksUUID(n *N) bool {
	return n != nil && n.K == KStr && len(n.S) == 36 && n.S[8] == '-' && n.S[13] == '-'
}

func genUUID(i int) string {
	return fmt.Sprintf("dddddddd-0000-4000-8000-%012x", i)
}

func uuidVariant(cur, s, seedExisting string) string {
	switch s {
	case "bad":
		return "not-a-uuid-at-all"
	case "short":
		return cur[:35]
	case "long":
		return cur + "0"
	case "upper":
		return strings.ToUpper(cur)
	case "urn":
		return "urn:uuid:" + cur
	case "braces":
		return "{" + cur + "}"
	case "nohyphen":
		return strings.ReplaceAll(cur, "-", "")
	case "unknown":
		return unknownID
	case "existing":
		return seedExisting
	}
	return cur
}

// listOfLen grows / shrinks a list of request elements (points, ids, sort options, sub-queries) to n elements.
func listOfLen(ep string, tag byte, nseed int, list *N, n int) *N {
	out := &N{K: KArr}
	if n == 0 || len(list.A) == 0 {
		return out
	}
	first := list.A[0]
	switch {
	case first.K == KStr: // ids
		for i := 0; i < n; i++ {
			if i < nseed {
				out.A = append(out.A, Str(seedID(tag, i)))
			} else {
				out.A = append(out.A, Str(genUUID(i)))
			}
		}
	case first.K == KObj && (first.Get("_id") != nil || first.Get("id") != nil || first.Get("vec") != nil):
		idKey := "_id"
		if first.Get("id") != nil {
			idKey = "id"
		}
		isUpdate := strings.HasSuffix(ep, "update")
		for i := 0; i < n; i++ {
			var p *N
			if i == 0 || n <= 20 {
				p = first.Clone()
			} else if first.Get("vector") != nil { // v1: the vector is required (distinct ones: a graph of equal vectors is degenerate and slow)
				p = Obj("vector", Floats(float64(i%100), float64(i/100), 0.5, 1))
			} else {
				p = Obj("extra", Int(int64(i)))
			}
			if isUpdate {
				if i < nseed {
					p.Set(idKey, Str(seedID(tag, i)))
				} else {
					p.Set(idKey, Str(genUUID(i)))
				}
			} else if i > 0 {
				p.Del(idKey)
			}
			out.A = append(out.A, p)
		}
	default:
		for i := 0; i < n; i++ {
			out.A = append(out.A, first.Clone())
		}
	}
	return out
}

func vecOfLen(n int) *N {
	v := &N{K: KArr, A: make([]*N, n)}
	for i := 0; i < n; i++ {
		v.A[i] = FltV(float64(i%7+1) * 0.25)
	}
	return v
}

// nestedQuery wraps inner into depth composite queries {"property": op, op: [ ... ]}, as raw bytes.
func nestedQuery(inner *N, depth int, op string) *N {
	j := strings.Repeat(`{"property":"`+op+`","`+op+`":[`, depth) + string(inner.JSON()) + strings.Repeat("]}", depth)
	var one bytes.Buffer
	one.WriteByte(0x82)
	mpStr(&one, "property")
	mpStr(&one, op)
	mpStr(&one, op)
	one.WriteByte(0x91)
	m := append(bytes.Repeat(one.Bytes(), depth), inner.MP()...)
	return Raw(j, m)
}

// ApplyField applies a field-level mutation of the catalogue to the body of r.
func ApplyField(r *Req, c *Case, nseed int) error {
	if r.Body == nil {
		return fmt.Errorf("case %d: base has no body", c.Cid)
	}
	l, err := find(r.Body, c.P)
	if err != nil {
		return fmt.Errorf("case %d: %w", c.Cid, err)
	}
	n := l.node
	tag := colTag(r.User, r.Col)
	switch c.K {
	case "missing":
		l.remove()
	case "null":
		l.replace(Null())
	case "dupsame":
		if l.parent.K == KObj {
			l.parent.O = append(l.parent.O, KV{l.key(), n.Clone()})
		} else {
			l.parent.A = append(l.parent.A, n.Clone())
		}
	case "dupbadfirst":
		if l.parent.K == KObj {
			o := append([]KV{}, l.parent.O[:l.idx]...)
			o = append(o, KV{l.key(), wrongTypeValue(n)})
			l.parent.O = append(o, l.parent.O[l.idx:]...)
		} else {
			a := append([]*N{}, l.parent.A[:l.idx]...)
			a = append(a, wrongTypeValue(n))
			l.parent.A = append(a, l.parent.A[l.idx:]...)
		}
	case "dupbadlast":
		if l.parent.K == KObj {
			l.parent.O = append(l.parent.O, KV{l.key(), wrongTypeValue(n)})
		} else {
			l.parent.A = append(l.parent.A, wrongTypeValue(n))
		}
	case "type":
		l.replace(typeValue(c.S))
	case "num":
		if loosePoint(r, c) {
			l.replace(Int64(int64(c.A)))
		} else {
			l.replace(Int(int64(c.A)))
		}
	case "f10":
		if float32Field(c.P) {
			l.replace(FltV(float64(c.A) / 10))
		} else {
			l.replace(Flt(float64(c.A) / 10))
		}
	case "f64":
		l.replace(Flt(float64(c.A) / 10))
	case "mpint":
		var m bytes.Buffer
		switch c.S {
		case "int8":
			m.Write([]byte{0xd0, 5})
		case "int16":
			m.Write([]byte{0xd1, 0, 5})
		case "int32":
			m.Write([]byte{0xd2, 0, 0, 0, 5})
		case "uint8":
			m.Write([]byte{0xcc, 5})
		case "uint16":
			m.Write([]byte{0xcd, 0, 5})
		case "uint32":
			m.Write([]byte{0xce, 0, 0, 0, 5})
		case "uint64":
			m.Write([]byte{0xcf, 0, 0, 0, 0, 0, 0, 0, 5})
		case "fixint":
			m.Write([]byte{5})
		default:
			return fmt.Errorf("case %d: unknown mpint %q", c.Cid, c.S)
		}
		l.replace(Raw("5", m.Bytes()))
	case "numstr":
		l.replace(numRaw(c.S))
	case "literal":
		l.replace(Raw(c.S, []byte{0xc0}))
	case "nan":
		l.replace(Flt(math.NaN()))
	case "pinf":
		l.replace(Flt(math.Inf(1)))
	case "ninf":
		l.replace(Flt(math.Inf(-1)))
	case "nan32":
		l.replace(Flt32(math.NaN()))
	case "mpuint64":
		l.replace(Uint(math.MaxUint64))
	case "enum":
		l.replace(Str(c.S))
	case "enumupper":
		l.replace(Str(strings.ToUpper(n.S)))
	case "bool":
		l.replace(Bool(c.A == 1))
	case "str":
		s := c.S
		switch s {
		case "unicode":
			s = unicodeStr
			if c.T == "colid" {
				s = "newcöl"
			}
		case "@existing":
			s = "kitchen"
			if r.Ver == "v1" {
				s = "v1col"
			}
		}
		l.replace(Str(s))
	case "strlen":
		l.replace(Str(repeat("a", c.A)))
	case "idlen":
		l.replace(Str(repeat("x", c.A)))
	case "strs":
		parts := strings.Split(c.S, "|")
		if c.S == "unicode" {
			parts = []string{unicodeStr}
		}
		l.replace(Strs(parts...))
	case "uuid":
		if c.S == "dupinbatch" {
			p1, err := find(r.Body, "points/1")
			if err != nil {
				return err
			}
			p1.node.Set("_id", Str(n.S))
		} else {
			l.replace(Str(uuidVariant(n.S, c.S, seedID(tag, 3))))
		}
	case "len":
		switch c.T {
		case "vec":
			l.replace(vecOfLen(c.A))
		case "strs":
			out := &N{K: KArr}
			for i := 0; i < c.A; i++ {
				if len(n.A) > 0 && looksUUID(n.A[0]) {
					out.A = append(out.A, Str(genUUID(i)))
				} else {
					out.A = append(out.A, Str(fmt.Sprintf("s%d", i)))
				}
			}
			l.replace(out)
		default:
			l.replace(listOfLen(c.Ep, tag, nseed, n, c.A))
		}
	case "elem":
		if n.K != KArr || len(n.A) == 0 {
			return fmt.Errorf("case %d: elem on a non-array", c.Cid)
		}
		all := func(f func(x *N) *N) {
			for i := range n.A {
				n.A[i] = f(n.A[i])
			}
		}
		switch c.S {
		case "str":
			n.A[0] = Str("x")
		case "null":
			n.A[0] = Null()
		case "arr":
			n.A[0] = Arr(Flt(1))
		case "bool":
			n.A[0] = Bool(true)
		case "obj":
			n.A[0] = Obj("x", Flt(1))
		case "int":
			all(func(x *N) *N { return Int(int64(x.F) + 1) })
		case "f64":
			all(func(x *N) *N { return Flt(x.F) })
		case "nan":
			n.A[0] = Flt(math.NaN())
		case "pinf":
			n.A[0] = Flt(math.Inf(1))
		case "ninf":
			n.A[0] = Flt(math.Inf(-1))
		case "nan32":
			n.A[0] = Flt32(math.NaN())
		case "1e39":
			n.A[0] = numRaw("1e39")
		case "3e38":
			all(func(x *N) *N { return numRaw("3e38") })
		case "1e-46":
			n.A[0] = numRaw("1e-46")
		case "NaN":
			n.A[0] = Raw("NaN", []byte{0xc0})
		case "1000":
			n.A[0] = Flt(1000)
		default:
			return fmt.Errorf("case %d: unknown elem %q", c.Cid, c.S)
		}
	case "elemtype":
		if n.K != KArr || len(n.A) == 0 {
			return fmt.Errorf("case %d: elemtype on a non-array", c.Cid)
		}
		n.A[0] = typeValue(c.S)
	case "elemstr":
		s := c.S
		switch s {
		case "baduuid":
			s = "not-a-uuid"
		case "unknownuuid":
			s = unknownID
		}
		n.A = append(n.A, Str(s))
	case "extra":
		if n.K != KObj {
			return fmt.Errorf("case %d: extra on a non-object", c.Cid)
		}
		n.O = append(n.O, KV{"zzExtra", Int(1)})
	case "addprop":
		name := c.S
		if name == "unicode" {
			name = "pröp 世"
		}
		if strings.HasSuffix(c.P, "indexSchema") {
			v := Obj("type", Str("integer"))
			switch c.A {
			case 1:
				v = Obj("type", Str("bogus"))
			case 2:
				v = Obj("type", Str("vectorFlat"))
			}
			n.O = append(n.O, KV{name, v})
		} else {
			l.parent.O = append(l.parent.O, KV{name, Int(1)})
		}
	case "deep":
		l.replace(deepArr(c.A))
	case "deepobj":
		l.replace(deepObj(c.A))
	case "nestq":
		if n.K != KArr || len(n.A) == 0 {
			return fmt.Errorf("case %d: nestq on a non-list", c.Cid)
		}
		l.replace(Arr(nestedQuery(n.A[0], c.A, c.S)))
	default:
		return fmt.Errorf("case %d: unknown field mutation %q", c.Cid, c.K)
	}
	return nil
}

func mpHeader(code byte, n uint32) []byte {
	b := []byte{code, 0, 0, 0, 0}
	binary.BigEndian.PutUint32(b[1:], n)
	return b
}

// ApplyEnv applies an envelope mutation (headers, content type, method, path, collection id, body shape).
// body is the encoded valid body.
func ApplyEnv(r *Req, c *Case, body []byte) error {
	switch c.K {
	case "id":
	case "hdr":
		switch c.S {
		case "nouser":
			r.NoUser = true
		case "emptyuser":
			r.User = ""
		case "noplan":
			r.NoPlan = true
		case "badplan":
			r.Plan = "GOLD"
		case "emptyplan":
			r.Plan = ""
		case "longuser":
			r.User = repeat("u", 10000)
		case "weirduser":
			r.User = "we ird/usér"
		default:
			return fmt.Errorf("unknown hdr %q", c.S)
		}
	case "ct":
		switch c.S {
		case "missing":
			r.CT = "-"
		case "swap":
			if c.Enc == "json" {
				r.CT = "application/msgpack"
			} else {
				r.CT = "application/json"
			}
		case "charset":
			if c.Enc == "json" {
				r.CT = "application/json; charset=utf-8"
			} else {
				r.CT = "application/msgpack; charset=binary"
			}
		case "upper":
			if c.Enc == "json" {
				r.CT = "Application/JSON"
			} else {
				r.CT = "APPLICATION/MSGPACK"
			}
		case "x-msgpack":
			if c.Enc == "json" {
				r.CT = "text/json"
			} else {
				r.CT = "application/x-msgpack"
			}
		default:
			r.CT = c.S
		}
	case "method":
		r.Method = c.S
	case "path":
		full := "/" + r.Ver + strings.ReplaceAll(r.Path, "{col}", r.Col)
		switch c.S {
		case "trailing":
			r.RawPath = full + "/"
		case "unknown":
			r.RawPath = "/" + r.Ver + "/nothing/here"
		case "v3":
			r.RawPath = "/v3" + strings.ReplaceAll(r.Path, "{col}", r.Col)
		case "double":
			r.RawPath = "/" + r.Ver + "/" + strings.ReplaceAll(r.Path, "{col}", r.Col)
		case "query":
			r.RawPath = full + "?limit=5&x=%41&y"
		default:
			return fmt.Errorf("unknown path %q", c.S)
		}
	case "col":
		switch c.S {
		case "len":
			r.Col = repeat("q", c.A)
		case "otheruser":
			r.Col = "tiny"
			if r.User == "tim" {
				r.Col = "kitchen"
			}
		case "unicode":
			r.Col = url.PathEscape("kitchén")
		default:
			r.Col = c.S
		}
	case "body":
		r.HasRaw = true
		isJSON := c.Enc == "json"
		firstKey := ""
		if r.Body != nil && r.Body.K == KObj && len(r.Body.O) > 0 {
			firstKey = r.Body.O[0].Key
		}
		pick := func(j string, m []byte) []byte {
			if isJSON {
				return []byte(j)
			}
			return m
		}
		underKey := func(v *N) []byte {
			o := Obj(firstKey, v)
			if isJSON {
				return o.JSON()
			}
			return o.MP()
		}
		switch c.S {
		case "empty":
			r.RawBody = []byte{}
		case "null":
			r.RawBody = pick("null", []byte{0xc0})
		case "arr":
			r.RawBody = pick("[]", []byte{0x90})
		case "str":
			r.RawBody = pick(`"x"`, []byte{0xa1, 'x'})
		case "num":
			r.RawBody = pick("42", []byte{42})
		case "true":
			r.RawBody = pick("true", []byte{0xc3})
		case "trunc":
			r.RawBody = body[:len(body)/2]
		case "trail":
			r.RawBody = append(append([]byte{}, body...), pick("xyz", []byte{0xc1, 0xff})...)
		case "bom":
			r.RawBody = append([]byte{0xef, 0xbb, 0xbf}, body...)
		case "ws":
			r.RawBody = append(append([]byte("\n\t  \r\n"), body...), '\n')
		case "two":
			r.RawBody = append(append([]byte{}, body...), body...)
		case "garbage":
			r.RawBody = []byte("garbage \x00\xff{")
		case "deeparr":
			d := deepArr(c.A)
			r.RawBody = pick(d.RawJ, d.RawM)
		case "deepobj":
			d := deepObj(c.A)
			r.RawBody = pick(d.RawJ, d.RawM)
		case "hugefield":
			b2 := r.Body.Clone()
			b2.O = append(b2.O, KV{"zzHuge", Str(repeat("h", c.A<<20))})
			if isJSON {
				r.RawBody = b2.JSON()
			} else {
				r.RawBody = b2.MP()
			}
		case "hugepad":
			r.RawBody = append(append([]byte{}, body...), bytes.Repeat([]byte{' '}, c.A<<20)...)
		case "mpbiglen":
			r.RawBody = underKey(Raw("[]", mpHeader(0xdd, 0xffffffff)))
		case "mpbigmap":
			r.RawBody = underKey(Raw("{}", mpHeader(0xdf, 0xffffffff)))
		case "mpbigstr":
			r.RawBody = underKey(Raw(`""`, append(mpHeader(0xdb, 0xffffffff), 'a', 'b', 'c')))
		case "mpext":
			r.RawBody = underKey(Raw("0", []byte{0xc7, 0x03, 0x05, 1, 2, 3}))
		default:
			return fmt.Errorf("unknown body shape %q", c.S)
		}
	default:
		return fmt.Errorf("unknown envelope mutation %q", c.K)
	}
	return nil
}
