package apid

import (
	"bytes"
	"fmt"
	"io"
	"net"
	"net/http"
	"net/http/httptest"
	"os"
	"os/exec"
	"path/filepath"
	"strings"
	"sync"
	"syscall"
	"time"

	"github.com/semafind/semadb/cluster"
	"github.com/semafind/semadb/httpapi"
)

// Resp is what came back for one request.
type Resp struct {
	Status  int
	Body    []byte
	Aborted bool   // no response: the handler panicked past the recovery middleware / the connection was closed
	Crashed bool   // the server process died
	Hang    bool   // no answer within the time limit
	Msg     string // crash / panic message (informational)
}

// Backend answers HTTP requests with the real handler chain.
type Backend interface {
	Do(method, path string, hdr map[string]string, body []byte) Resp
	// Restart brings up a fresh, empty server (after a crash).
	Restart() error
	// RSSMB is the resident memory of the server process in MiB (0 when it shares the driver's process).
	RSSMB() int
	Close()
}

// StartServer opens a cluster node under dir and the HTTP server of semadb
// (httpapi.RunHTTPServer: recovery, logging, proxy secret, white list, app
// headers, both API versions) on 127.0.0.1:port (0 = any).
func StartServer(dir string, port int) (*cluster.ClusterNode, *http.Server, error) {
	if err := os.MkdirAll(dir, 0o755); err != nil {
		return nil, nil, err
	}
	node, err := cluster.NewNode(cluster.ClusterNodeConfig{
		RootDir: dir, RpcHost: "localhost", RpcPort: 19000, RpcTimeout: 5, RpcRetries: 1,
		Servers:      []string{"localhost:19000"},
		ShardManager: cluster.ShardManagerConfig{RootDir: dir, ShardTimeout: 600, MaxCacheSize: -1},
		MaxShardSize: 1 << 30, MaxShardPointCount: 250000, MaxSearchLimit: 75,
	})
	if err != nil {
		return nil, nil, err
	}
	srv := httpapi.RunHTTPServer(node, httpapi.HttpApiConfig{HttpHost: "127.0.0.1", HttpPort: port,
		WhiteListIPs: []string{"*"}, UserPlans: Plans}, nil)
	return node, srv, nil
}

// ---------------------------------------------------------------- in process

type inproc struct {
	dir  string
	gen  int
	node *cluster.ClusterNode
	srv  *http.Server
}

func NewInProc(dir string) (Backend, error) {
	b := &inproc{dir: dir}
	if err := b.Restart(); err != nil {
		return nil, err
	}
	return b, nil
}

func (b *inproc) Restart() error {
	if b.srv != nil {
		b.srv.Close()
		b.node.Close()
	}
	b.gen++
	node, srv, err := StartServer(filepath.Join(b.dir, fmt.Sprintf("gen%d", b.gen)), 0)
	if err != nil {
		return err
	}
	b.node, b.srv = node, srv
	return nil
}

// ChunkedHdr is not a header: it asks the backend to send the body without a Content-Length.
const ChunkedHdr = "X-Verif-Chunked"

func (b *inproc) RSSMB() int { return 0 }

func (b *inproc) Close() {
	if b.srv != nil {
		b.srv.Close()
		b.node.Close()
	}
}

func (b *inproc) Do(method, path string, hdr map[string]string, body []byte) (resp Resp) {
	req, err := http.NewRequest(method, "http://semadb.test"+path, bytes.NewReader(body))
	if err != nil {
		return Resp{Aborted: true, Msg: "request not constructible: " + err.Error()}
	}
	req.RemoteAddr = "127.0.0.1:4242"
	for k, v := range hdr {
		if k == ChunkedHdr {
			// the same bytes without a Content-Length (chunked transfer encoding): what the handler sees then
			req.Body = io.NopCloser(bytes.NewReader(body))
			req.ContentLength = -1
			req.TransferEncoding = []string{"chunked"}
			continue
		}
		req.Header.Set(k, v)
	}
	rec := httptest.NewRecorder()
	defer func() {
		if p := recover(); p != nil {
			resp = Resp{Aborted: true, Msg: fmt.Sprint("panic escaped the handler chain: ", p)}
		}
	}()
	b.srv.Handler.ServeHTTP(rec, req)
	return Resp{Status: rec.Code, Body: rec.Body.Bytes()}
}

// ---------------------------------------------------------------- child process

type child struct {
	aslimit int
	exe     string
	dir     string
	gen     int
	port    int
	cmd     *exec.Cmd
	done    chan struct{}
	mu      sync.Mutex
	errb    *tailBuf
	cl      *http.Client
}

type tailBuf struct {
	mu sync.Mutex
	b  []byte
}

func (t *tailBuf) Write(p []byte) (int, error) {
	t.mu.Lock()
	defer t.mu.Unlock()
	t.b = append(t.b, p...)
	if len(t.b) > 1<<16 {
		// keep the head (the panic message is printed first)
		t.b = t.b[:1<<16]
	}
	return len(p), nil
}

func (t *tailBuf) String() string {
	t.mu.Lock()
	defer t.mu.Unlock()
	return string(t.b)
}

func freePort() (int, error) {
	l, err := net.Listen("tcp", "127.0.0.1:0")
	if err != nil {
		return 0, err
	}
	defer l.Close()
	return l.Addr().(*net.TCPAddr).Port, nil
}

// NewChild runs `vh api -serve` as a child process.
func NewChild(dir string, asLimitGB int) (Backend, error) {
	exe, err := os.Executable()
	if err != nil {
		return nil, err
	}
	c := &child{exe: exe, dir: dir, aslimit: asLimitGB}
	if err := c.Restart(); err != nil {
		return nil, err
	}
	return c, nil
}

func (c *child) kill() {
	if c.cmd != nil && c.cmd.Process != nil {
		c.cmd.Process.Kill()
		<-c.done
	}
	c.cmd = nil
}

func (c *child) Close() { c.kill() }

func (c *child) RSSMB() int {
	if c.cmd == nil || c.cmd.Process == nil {
		return 0
	}
	b, err := os.ReadFile(fmt.Sprintf("/proc/%d/statm", c.cmd.Process.Pid))
	if err != nil {
		return 0
	}
	var size, res int
	fmt.Sscanf(string(b), "%d %d", &size, &res)
	return res * os.Getpagesize() >> 20
}

func (c *child) Restart() error {
	var err error
	for try := 0; try < 4; try++ {
		// the port is chosen before the child binds it: another process may take it in between, then try again
		if err = c.restart(); err == nil {
			return nil
		}
	}
	return err
}

func (c *child) restart() error {
	c.kill()
	c.gen++
	port, err := freePort()
	if err != nil {
		return err
	}
	c.port = port
	c.errb = &tailBuf{}
	cmd := exec.Command(c.exe, "api", "-serve", "-port", fmt.Sprint(port), "-aslimit", fmt.Sprint(c.aslimit),
		"-dir", filepath.Join(c.dir, fmt.Sprintf("child%d", c.gen)))
	cmd.Stderr = c.errb
	cmd.Stdout = io.Discard
	if err := cmd.Start(); err != nil {
		return err
	}
	c.cmd = cmd
	c.done = make(chan struct{})
	go func(done chan struct{}) {
		cmd.Wait()
		close(done)
	}(c.done)
	c.cl = &http.Client{Timeout: 120 * time.Second, Transport: &http.Transport{MaxIdleConnsPerHost: 4},
		CheckRedirect: func(req *http.Request, via []*http.Request) error { return http.ErrUseLastResponse }}
	deadline := time.Now().Add(20 * time.Second)
	for time.Now().Before(deadline) {
		select {
		case <-c.done:
			return fmt.Errorf("server child exited at start: %s", c.errb.String())
		default:
		}
		r := c.Do("GET", "/v2/ping", map[string]string{"X-User-Id": "alice", "X-Plan-Id": "BASIC"}, nil)
		if r.Status == 200 {
			return nil
		}
		time.Sleep(30 * time.Millisecond)
	}
	return fmt.Errorf("server child did not come up: %s", c.errb.String())
}

func crashLine(stderr string) string {
	for _, ln := range strings.Split(stderr, "\n") {
		if strings.HasPrefix(ln, "panic:") || strings.HasPrefix(ln, "fatal error:") || strings.Contains(ln, "SIGSEGV") ||
			strings.HasPrefix(ln, "runtime: ") {
			return ln
		}
	}
	if len(stderr) > 200 {
		return stderr[:200]
	}
	return stderr
}

func (c *child) exited(wait time.Duration) bool {
	select {
	case <-c.done:
		return true
	case <-time.After(wait):
		return false
	}
}

func (c *child) Do(method, path string, hdr map[string]string, body []byte) Resp {
	var rd io.Reader = bytes.NewReader(body)
	if _, ok := hdr[ChunkedHdr]; ok && len(body) > 0 {
		rd = io.NopCloser(bytes.NewReader(body)) // (a body of unknown length: the client sends it chunked)
	}
	req, err := http.NewRequest(method, fmt.Sprintf("http://127.0.0.1:%d%s", c.port, path), rd)
	if err != nil {
		return Resp{Aborted: true, Msg: "request not constructible: " + err.Error()}
	}
	for k, v := range hdr {
		if k == ChunkedHdr {
			continue
		}
		req.Header.Set(k, v)
	}
	if hdr["Content-Type"] == "" {
		req.Header["Content-Type"] = nil
	}
	res, err := c.cl.Do(req)
	if err != nil {
		if c.exited(3 * time.Second) {
			return Resp{Crashed: true, Msg: crashLine(c.errb.String())}
		}
		if strings.Contains(err.Error(), "Timeout") || strings.Contains(err.Error(), "deadline") {
			return Resp{Hang: true, Msg: err.Error()}
		}
		return Resp{Aborted: true, Msg: err.Error()}
	}
	defer res.Body.Close()
	b, _ := io.ReadAll(res.Body)
	if c.exited(0) {
		// answered, then died (e.g. in a background goroutine)
		return Resp{Status: res.StatusCode, Body: b, Crashed: true, Msg: crashLine(c.errb.String())}
	}
	return Resp{Status: res.StatusCode, Body: b}
}

// Serve is the body of the child process: the real server until killed.
func Serve(dir string, port int, asLimitGB int) error {
	// a bounded address space: an allocation of tens of gigabytes fails at once (as under any container memory limit)
	// instead of swallowing the machine the check runs on
	lim := syscall.Rlimit{Cur: uint64(asLimitGB) << 30, Max: uint64(asLimitGB) << 30}
	if err := syscall.Setrlimit(syscall.RLIMIT_AS, &lim); err != nil {
		return err
	}
	_, _, err := StartServer(dir, port)
	if err != nil {
		return err
	}
	select {}
}
