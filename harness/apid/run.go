package apid

import (
	"bufio"
	"bytes"
	"crypto/sha256"
	"encoding/hex"
	"encoding/json"
	"errors"
	"fmt"
	"math/rand"
	"os"
	"sort"
	"strings"
	"time"

	"verif/harness/trace"
)

type M = trace.M

// Opts of one driver run.
type Opts struct {
	Catalogue string
	Mode      string // "inproc" | "child"
	Part, Of  int
	Risky     int // run the catalogue cases with this risk flag (2 = no catalogue cases)
	Rand      int // number of random bodies
	Seed      int64
	Dir       string
	ASLimitGB int    // address-space limit of the server child process
	Only      string // debugging: comma separated case ids
	Verbose   bool
}

type Driver struct {
	o     Opts
	tw    *trace.Writer
	be    Backend
	world []*Col
	cat   []*Case
	ref   []DigEnt
	Stats map[string]int
}

// DigEnt is the digest of one collection of one user.
type DigEnt struct {
	U string `json:"u"`
	C string `json:"c"`
	D string `json:"d"`
}

func ascii(s string, max int) string {
	var b strings.Builder
	for _, r := range s {
		if b.Len() >= max {
			break
		}
		if r >= 32 && r < 127 && r != '"' && r != '\\' {
			b.WriteRune(r)
		} else {
			b.WriteByte('?')
		}
	}
	return b.String()
}

func LoadCatalogue(path string) ([]*Case, error) {
	f, err := os.Open(path)
	if err != nil {
		return nil, err
	}
	defer f.Close()
	var out []*Case
	sc := bufio.NewScanner(f)
	sc.Buffer(make([]byte, 1<<20), 1<<24)
	for sc.Scan() {
		if len(bytes.TrimSpace(sc.Bytes())) == 0 {
			continue
		}
		c := &Case{}
		if err := json.Unmarshal(sc.Bytes(), c); err != nil {
			return nil, fmt.Errorf("catalogue line %d: %w", len(out)+1, err)
		}
		if c.Cid != len(out)+1 {
			return nil, fmt.Errorf("catalogue line %d has cid %d", len(out)+1, c.Cid)
		}
		out = append(out, c)
	}
	return out, sc.Err()
}

func New(o Opts, tw *trace.Writer) (*Driver, error) {
	d := &Driver{o: o, tw: tw, world: Reference(), Stats: map[string]int{}}
	var err error
	if o.Catalogue != "" {
		if d.cat, err = LoadCatalogue(o.Catalogue); err != nil {
			return nil, err
		}
	}
	if o.Mode == "child" {
		d.be, err = NewChild(o.Dir, o.ASLimitGB)
	} else {
		d.be, err = NewInProc(o.Dir)
	}
	return d, err
}

func (d *Driver) Close() { d.be.Close() }

// ---------------------------------------------------------------- plain client helpers

func hdrs(user, plan, ct string) map[string]string {
	h := map[string]string{}
	if user != "" {
		h["X-User-Id"] = user
	}
	if plan != "" {
		h["X-Plan-Id"] = plan
	}
	if ct != "" {
		h["Content-Type"] = ct
	}
	return h
}

func (d *Driver) call(user, method, path string, body *N) Resp {
	var b []byte
	ct := ""
	if body != nil {
		b = body.JSON()
		ct = "application/json"
	}
	return d.be.Do(method, path, hdrs(user, UserPlan[user], ct), b)
}

func (d *Driver) callPlan(user, plan, method, path string, body *N) Resp {
	var b []byte
	ct := ""
	if body != nil {
		b = body.JSON()
		ct = "application/json"
	}
	return d.be.Do(method, path, hdrs(user, plan, ct), b)
}

// seedRefused: the server ANSWERED one of the valid requests that build the reference world with a refusal (or
// with failed parts). That is an observation about the code under test, not a failure of the driver.
type seedRefused struct{ msg string }

func (e seedRefused) Error() string { return e.msg }

func refusal(r Resp, format string, a ...any) error {
	msg := fmt.Sprintf(format, a...)
	if r.Aborted || r.Crashed || r.Hang || r.Status == 0 {
		return fmt.Errorf("%s", msg)
	}
	return seedRefused{msg}
}

func (d *Driver) seedCol(c *Col) error {
	if c.CreatePlan != "" {
		return d.seedColPlan(c)
	}
	ver := "/v2"
	if c.V1 {
		ver = "/v1"
	}
	r := d.call(c.User, "POST", ver+"/collections", c.Create)
	if r.Status != 200 {
		return refusal(r, "seeding %s/%s: create answered %d %s %s", c.User, c.Id, r.Status, ascii(string(r.Body), 200), r.Msg)
	}
	if len(c.Points) > 0 {
		pts := &N{K: KArr, A: c.Points}
		r = d.call(c.User, "POST", ver+"/collections/"+c.Id+"/points", Obj("points", pts))
		if r.Status != 200 || nfail(r.Body) != 0 {
			return refusal(r, "seeding %s/%s: insert answered %d %s %s", c.User, c.Id, r.Status, ascii(string(r.Body), 200), r.Msg)
		}
	}
	return nil
}

func (d *Driver) seedColPlan(c *Col) error {
	ver := "/v2"
	if c.V1 {
		ver = "/v1"
	}
	r := d.callPlan(c.User, c.CreatePlan, "POST", ver+"/collections", c.Create)
	if r.Status != 200 {
		return refusal(r, "seeding %s/%s: create answered %d %s %s", c.User, c.Id, r.Status, ascii(string(r.Body), 200), r.Msg)
	}
	if len(c.Points) > 0 {
		pts := &N{K: KArr, A: c.Points}
		r = d.callPlan(c.User, c.CreatePlan, "POST", ver+"/collections/"+c.Id+"/points", Obj("points", pts))
		if r.Status != 200 || nfail(r.Body) != 0 {
			return refusal(r, "seeding %s/%s: insert answered %d %s %s", c.User, c.Id, r.Status, ascii(string(r.Body), 200), r.Msg)
		}
	}
	return nil
}

func (d *Driver) seedAll() error {
	for _, c := range d.world {
		if err := d.seedCol(c); err != nil {
			return err
		}
	}
	return nil
}

func nfail(body []byte) int {
	var v struct {
		FailedRanges []any `json:"failedRanges"`
		FailedPoints []any `json:"failedPoints"`
	}
	if json.Unmarshal(body, &v) != nil {
		return 0
	}
	return len(v.FailedRanges) + len(v.FailedPoints)
}

// ---------------------------------------------------------------- state digest

// canon renders a JSON answer canonically: object keys sorted, result points
// sorted by _id, shard ids blanked (they are random and not part of the data).
func canon(b []byte) string {
	if len(b) > 16<<10 {
		// large answers (the 4096-dimensional points) are taken byte for byte: the server renders an unchanged
		// collection identically (checked at start-up and after every restore)
		sum := sha256.Sum256(b)
		return "sha:" + hex.EncodeToString(sum[:])
	}
	dec := json.NewDecoder(bytes.NewReader(b))
	dec.UseNumber()
	var v any
	if err := dec.Decode(&v); err != nil {
		return "raw:" + hex.EncodeToString(b)
	}
	if m, ok := v.(map[string]any); ok {
		if pts, ok := m["points"].([]any); ok {
			sort.SliceStable(pts, func(i, j int) bool {
				a, _ := pts[i].(map[string]any)
				c, _ := pts[j].(map[string]any)
				return fmt.Sprint(a["_id"]) < fmt.Sprint(c["_id"])
			})
		}
		if sh, ok := m["shards"].([]any); ok {
			for _, s := range sh {
				if sm, ok := s.(map[string]any); ok {
					sm["id"] = ""
				}
			}
		}
	}
	out, _ := json.Marshal(v)
	return string(out)
}

func (d *Driver) worldCol(u, c string) *Col {
	for _, w := range d.world {
		if w.User == u && w.Id == c {
			return w
		}
	}
	return nil
}

// Digest reads everything readable about every collection of every user
// through separate requests (list, get, point reads). crashed reports that
// the server died while being read.
func (d *Driver) Digest() (ents []DigEnt, crashed bool) {
	ents, crashed, _ = d.digest()
	return
}

func (d *Driver) digest() (ents []DigEnt, crashed bool, msg string) {
	for _, u := range Users {
		r := d.call(u, "GET", "/v2/collections", nil)
		if r.Crashed {
			crashed, msg = true, r.Msg
		}
		var lst struct {
			Collections []struct {
				Id string `json:"id"`
			} `json:"collections"`
		}
		if r.Status != 200 || json.Unmarshal(r.Body, &lst) != nil {
			ents = append(ents, DigEnt{u, "~list", fmt.Sprintf("status%d", r.Status)})
			continue
		}
		ids := []string{}
		for _, c := range lst.Collections {
			ids = append(ids, c.Id)
		}
		sort.Strings(ids)
		for _, id := range ids {
			h := sha256.New()
			add := func(r Resp) {
				if r.Crashed {
					crashed, msg = true, r.Msg
				}
				fmt.Fprintf(h, "%d:%s\n", r.Status, canon(r.Body))
			}
			add(d.call(u, "GET", "/v2/collections/"+id, nil))
			nseed, hasNum := 0, false
			if w := d.worldCol(u, id); w != nil {
				nseed, hasNum = len(w.Points), w.HasNum
			}
			known := knownIDs(u, id, nseed)
			add(d.call(u, "POST", "/v2/collections/"+id+"/points/search", Obj("query", Obj("property", Str("_id"),
				"stringArray", Obj("value", Strs(known...), "operator", Str("containsAny"))), "select", Strs("*"), "limit", Int(100))))
			if hasNum {
				add(d.call(u, "POST", "/v2/collections/"+id+"/points/search", Obj("query", Obj("property", Str("num"),
					"integer", Obj("value", Int(-1000000000), "operator", Str("greaterThan"))), "select", Strs("*"), "limit", Int(100))))
			}
			ents = append(ents, DigEnt{u, id, hex.EncodeToString(h.Sum(nil))[:16]})
		}
	}
	return ents, crashed, msg
}

func sameDig(a, b []DigEnt) bool {
	if len(a) != len(b) {
		return false
	}
	for i := range a {
		if a[i] != b[i] {
			return false
		}
	}
	return true
}

func digOf(s []DigEnt, u, c string) (string, bool) {
	for _, e := range s {
		if e.U == u && e.C == c {
			return e.D, true
		}
	}
	return "", false
}

// restore brings the server back to the reference world after a request
// changed something: changed / new collections are deleted, reference ones
// re-created and re-seeded; a dead or confused server is replaced.
func (d *Driver) restore(cur []DigEnt, dead bool) []DigEnt {
	ok := true
	full := dead
	for _, e := range cur {
		if e.C == "~list" {
			full = true
		}
	}
	logical := func() {
		for _, e := range cur {
			if rd, in := digOf(d.ref, e.U, e.C); !in || rd != e.D {
				r := d.call(e.U, "DELETE", "/v2/collections/"+e.C, nil)
				if r.Status != 200 {
					ok = false
				}
			}
		}
		for _, e := range d.ref {
			if cd, in := digOf(cur, e.U, e.C); !in || cd != e.D {
				if err := d.seedCol(d.worldCol(e.U, e.C)); err != nil {
					ok = false
				}
			}
		}
	}
	var now []DigEnt
	if !full {
		logical()
		now, _ = d.Digest()
		if !sameDig(now, d.ref) {
			full = true
		}
	}
	if full {
		ok = true
		if err := d.be.Restart(); err != nil {
			ok = false
		} else if err := d.seedAll(); err != nil {
			ok = false
		}
		now, _ = d.Digest()
		d.Stats["restarts"]++
	}
	d.Stats["resets"]++
	d.tw.Emit("Reset", M{"ok": ok, "full": full, "dig": now, "ref": d.ref})
	return now
}

// ---------------------------------------------------------------- materialising one case

// Wire is a request ready to be sent.
type Wire struct {
	Method, Path string
	Hdr          map[string]string
	Body         []byte
}

func encodeBody(r *Req, enc string) []byte {
	if r.Body == nil {
		return nil
	}
	if enc == "mp" {
		return r.Body.MP()
	}
	return r.Body.JSON()
}

func wire(r *Req, enc string, body []byte) Wire {
	w := Wire{Method: r.Method}
	w.Path = "/" + r.Ver + strings.ReplaceAll(r.Path, "{col}", r.Col)
	if r.RawPath != "" {
		w.Path = r.RawPath
	}
	ct := ""
	if r.Body != nil || r.HasRaw {
		ct = "application/json"
		if enc == "mp" {
			ct = "application/msgpack"
		}
	}
	if r.CT == "-" {
		ct = ""
	} else if r.CT != "" {
		ct = r.CT
	}
	user, plan := r.User, r.Plan
	w.Hdr = map[string]string{}
	if !r.NoUser {
		w.Hdr["X-User-Id"] = user
	}
	if !r.NoPlan {
		w.Hdr["X-Plan-Id"] = plan
	}
	if ct != "" {
		w.Hdr["Content-Type"] = ct
	}
	w.Body = body
	if r.HasRaw {
		w.Body = r.RawBody
	}
	return w
}

// Materialise turns a catalogue case into the bytes to send.
func (d *Driver) Materialise(c *Case) (Wire, error) {
	r, err := Base(c.Ep, c.Var, c.U, c.Col)
	if err != nil {
		return Wire{}, err
	}
	if c.Col == "*" {
		r.Col = ""
	}
	nseed := 0
	if w := d.worldCol(c.U, c.Col); w != nil {
		nseed = len(w.Points)
	}
	switch c.T {
	case "base":
		return wire(r, c.Enc, encodeBody(r, c.Enc)), nil
	case "env":
		body := encodeBody(r, c.Enc)
		if err := ApplyEnv(r, c, body); err != nil {
			return Wire{}, fmt.Errorf("case %d: %w", c.Cid, err)
		}
		return wire(r, c.Enc, body), nil
	default:
		if err := ApplyField(r, c, nseed); err != nil {
			return Wire{}, err
		}
		return wire(r, c.Enc, encodeBody(r, c.Enc)), nil
	}
}

func (d *Driver) observe(w Wire, pre []DigEnt) (Resp, []DigEnt, M) {
	t0 := time.Now()
	resp := d.be.Do(w.Method, w.Path, w.Hdr, w.Body)
	var post []DigEnt
	if resp.Crashed || resp.Hang {
		post = pre
	} else {
		var died bool
		var why string
		post, died, why = d.digest()
		if died {
			// the server answered and then died (seen by the reads that follow the request)
			resp.Crashed = true
			resp.Msg = "died after answering: " + why
		}
	}
	f := M{"status": resp.Status, "crashed": resp.Crashed, "aborted": resp.Aborted, "hang": resp.Hang,
		"nfail": nfail(resp.Body), "pre": pre, "post": post, "blen": len(w.Body), "ms": int(time.Since(t0).Milliseconds()),
		"msg": ascii(resp.Msg, 300), "ans": ascii(string(resp.Body), 160), "rss": d.be.RSSMB()}
	return resp, post, f
}

// ---------------------------------------------------------------- run

func (d *Driver) plan() []*Case {
	if d.o.Risky > 1 {
		return nil
	}
	var sel []*Case
	for _, c := range d.cat {
		if c.Risk == d.o.Risky {
			sel = append(sel, c)
		}
	}
	var mine []*Case
	for j, c := range sel {
		if j%d.o.Of == d.o.Part {
			mine = append(mine, c)
		}
	}
	if d.o.Only != "" {
		want := map[string]bool{}
		for _, s := range strings.Split(d.o.Only, ",") {
			want[strings.TrimSpace(s)] = true
		}
		mine = nil
		for _, c := range d.cat {
			if want[fmt.Sprint(c.Cid)] {
				mine = append(mine, c)
			}
		}
	}
	return mine
}

func (d *Driver) Run() error {
	if err := d.seedAll(); err != nil {
		var sr seedRefused
		if errors.As(err, &sr) {
			// judged by the trace specification: no action explains a refused valid request
			d.tw.Emit("SeedRefused", M{"msg": ascii(sr.msg, 400)})
			return nil
		}
		return err
	}
	ref, died := d.Digest()
	if died {
		return fmt.Errorf("server died while the reference world was read")
	}
	d.ref = ref
	if len(ref) != len(d.world) {
		return fmt.Errorf("reference digest has %d collections, the world %d", len(ref), len(d.world))
	}
	again, _ := d.Digest()
	if !sameDig(ref, again) {
		return fmt.Errorf("the state digest is not reproducible on an idle server")
	}
	d.tw.Emit("Begin", M{"part": d.o.Part, "of": d.o.Of, "risky": d.o.Risky, "mode": d.o.Mode, "rand": d.o.Rand,
		"ncat": len(d.cat), "only": d.o.Only != "", "ref": ref})
	pre := ref
	for _, c := range d.plan() {
		w, err := d.Materialise(c)
		if err != nil {
			return err
		}
		resp, post, f := d.observe(w, pre)
		f["cid"], f["ep"], f["var"], f["p"], f["k"], f["a"], f["s"], f["enc"] = c.Cid, c.Ep, c.Var, c.P, c.K, c.A, c.S, c.Enc
		d.tw.Emit("Case", f)
		d.Stats["cases"]++
		d.Stats[fmt.Sprintf("status_%dxx", resp.Status/100)]++
		if d.o.Verbose {
			fmt.Fprintf(os.Stderr, "case %d %s/%s %s %s(%d,%q) %s lab=%s -> %d crashed=%v aborted=%v same=%v %s %s\n", c.Cid, c.Ep, c.Var, c.P, c.K, c.A,
				c.S, c.Enc, c.Lab, resp.Status, resp.Crashed, resp.Aborted, sameDig(pre, post), ascii(string(resp.Body), 150), resp.Msg)
		}
		pre = post
		if resp.Crashed || resp.Hang || !sameDig(post, d.ref) || d.ballooned(f) {
			pre = d.restore(post, resp.Crashed || resp.Hang || d.ballooned(f))
		}
		// transport framing is not part of a request's meaning: every ninth case with a body is sent once more
		// without a Content-Length (chunked), from the same state, and judged by the same catalogue entry
		if c.Cid%9 == 4 && len(w.Body) > 0 && sameDig(pre, d.ref) && !resp.Crashed && !resp.Hang {
			w2 := w
			w2.Hdr = map[string]string{ChunkedHdr: "1"}
			for k, v := range w.Hdr {
				w2.Hdr[k] = v
			}
			resp2, post2, f2 := d.observe(w2, pre)
			f2["cid"], f2["ep"], f2["var"], f2["p"], f2["k"], f2["a"], f2["s"], f2["enc"] = c.Cid, c.Ep, c.Var, c.P, c.K, c.A, c.S, c.Enc
			f2["chunked"] = 1
			d.tw.Emit("CaseChunked", f2)
			d.Stats["chunked"]++
			pre = post2
			if resp2.Crashed || resp2.Hang || !sameDig(post2, d.ref) || d.ballooned(f2) {
				pre = d.restore(post2, resp2.Crashed || resp2.Hang || d.ballooned(f2))
			}
		}
	}
	if d.o.Rand > 0 {
		if err := d.runRandom(pre); err != nil {
			return err
		}
	}
	d.tw.Emit("End", M{"cases": d.Stats["cases"], "rands": d.Stats["rands"]})
	return nil
}

// ---------------------------------------------------------------- random bodies

var jsonBits = []string{"{", "}", "[", "]", ":", ",", "\"", "null", "true", "false", "0", "-1", "1e999", "1.5", "\"points\"", "\"query\"",
	"\"_id\"", "\"vector\"", "\"ids\"", "\"property\"", "\\u0000", "\\", " ", "\n", "{\"points\":[", "{\"query\":{"}
var mpBits = [][]byte{{0x80}, {0x81}, {0x82}, {0x90}, {0x91}, {0xc0}, {0xc1}, {0xc2}, {0xc3}, {0xca}, {0xcb}, {0xcf}, {0xd3}, {0xd9}, {0xda},
	{0xdb}, {0xdc}, {0xdd}, {0xde}, {0xdf}, {0xc4}, {0xc7}, {0xd4}, {0xff}, {0x00}, {0x7f}, {0xa6, 'p', 'o', 'i', 'n', 't', 's'},
	{0xa5, 'q', 'u', 'e', 'r', 'y'}, {0xa3, 'i', 'd', 's'}, {0xdd, 0xff, 0xff, 0xff, 0xff}, {0xdb, 0x7f, 0xff, 0xff, 0xff},
	{0xcb, 0x7f, 0xf8, 0, 0, 0, 0, 0, 0}, {0xca, 0x7f, 0x80, 0, 0}}

func randomBody(rng *rand.Rand, enc string, valid, other []byte) ([]byte, string) {
	switch m := rng.Intn(10); {
	case m < 2: // raw bytes
		n := rng.Intn(120)
		if rng.Intn(8) == 0 {
			n = rng.Intn(5000)
		}
		b := make([]byte, n)
		rng.Read(b)
		return b, "raw"
	case m < 4: // raw structure: random sequence of structural pieces
		var b []byte
		n := 1 + rng.Intn(40)
		for i := 0; i < n; i++ {
			if enc == "json" {
				b = append(b, jsonBits[rng.Intn(len(jsonBits))]...)
			} else {
				b = append(b, mpBits[rng.Intn(len(mpBits))]...)
			}
			if rng.Intn(6) == 0 {
				b = append(b, byte(rng.Intn(256)))
			}
		}
		return b, "struct"
	case m < 5 && len(other) > 0: // splice two valid bodies
		i, j := rng.Intn(len(valid)+1), rng.Intn(len(other)+1)
		return append(append([]byte{}, valid[:i]...), other[j:]...), "splice"
	default: // byte-level mutations of the valid body
		b := append([]byte{}, valid...)
		n := 1 + rng.Intn(4)
		for k := 0; k < n && len(b) > 0; k++ {
			i := rng.Intn(len(b))
			switch rng.Intn(8) {
			case 0:
				b[i] ^= 1 << uint(rng.Intn(8))
			case 1:
				b[i] = byte(rng.Intn(256))
			case 2:
				if enc == "json" {
					s := jsonBits[rng.Intn(len(jsonBits))]
					b = append(b[:i:i], append([]byte(s), b[i:]...)...)
				} else {
					s := mpBits[rng.Intn(len(mpBits))]
					b = append(b[:i:i], append(append([]byte{}, s...), b[i:]...)...)
				}
			case 3:
				b = append(b[:i:i], b[i+1:]...)
			case 4:
				j := i + rng.Intn(len(b)-i)
				b = append(b[:i:i], b[j:]...)
			case 5:
				j := i + rng.Intn(len(b)-i+1)
				if j-i > 64 {
					j = i + 64
				}
				chunk := append([]byte{}, b[i:j]...)
				b = append(b[:j:j], append(chunk, b[j:]...)...)
			case 6:
				b = b[:i]
			case 7: // overwrite with a special byte
				sp := []byte{0x00, 0xff, 0x7f, 0x80, 0xc1, '"', '{', '[', '-', '9', 'e'}
				b[i] = sp[rng.Intn(len(sp))]
			}
		}
		return b, "mut"
	}
}

func (d *Driver) runRandom(pre []DigEnt) error {
	// the valid bodies of every base request that has one
	type rb struct {
		c    *Case
		body []byte
		w    Wire
	}
	var bases []rb
	for _, c := range d.cat {
		if c.T != "base" || c.K != "id" {
			continue
		}
		w, err := d.Materialise(c)
		if err != nil {
			return err
		}
		if len(w.Body) == 0 {
			continue
		}
		if len(w.Body) > 4000 {
			continue // the 4096-dimensional requests: byte mutations there are almost always inside the vector
		}
		bases = append(bases, rb{c, w.Body, w})
	}
	if len(bases) == 0 {
		return fmt.Errorf("no base requests with a body in the catalogue")
	}
	rng := rand.New(rand.NewSource(d.o.Seed*7919 + int64(d.o.Part)))
	for i := 0; i < d.o.Rand; i++ {
		b := bases[rng.Intn(len(bases))]
		var other []byte
		for k := 0; k < 4; k++ {
			o := bases[rng.Intn(len(bases))]
			if o.c.Enc == b.c.Enc {
				other = o.body
				break
			}
		}
		body, rmode := randomBody(rng, b.c.Enc, b.body, other)
		w := b.w
		w.Body = body
		fa := BodyFacts(body, b.c.Enc)
		nf := fa.NonFinite
		resp, post, f := d.observe(w, pre)
		sum := sha256.Sum256(body)
		f["bid"], f["ep"], f["var"], f["enc"], f["rmode"], f["nonfinite"], f["i"], f["sha"] = b.c.Cid, b.c.Ep, b.c.Var, b.c.Enc, rmode, nf, i,
			hex.EncodeToString(sum[:6])
		f["dupkey"], f["bigclaim"], f["selscalar"], f["bigoffset"], f["depth"] = fa.DupKey, fa.BigClaim, fa.SelScalar, fa.BigOffset, fa.Depth
		if len(body) <= 300 {
			f["hex"] = hex.EncodeToString(body)
		} else {
			f["hex"] = ""
		}
		d.tw.Emit("Rand", f)
		d.Stats["rands"]++
		d.Stats[fmt.Sprintf("rand_%dxx", resp.Status/100)]++
		if d.o.Verbose {
			fmt.Fprintf(os.Stderr, "rand %d base %d %s/%s %s %s nf=%v -> %d crashed=%v aborted=%v same=%v %s %s\n", i, b.c.Cid, b.c.Ep, b.c.Var,
				b.c.Enc, rmode, nf, resp.Status, resp.Crashed, resp.Aborted, sameDig(pre, post), ascii(string(resp.Body), 120), resp.Msg)
		}
		pre = post
		if resp.Crashed || resp.Hang || !sameDig(post, d.ref) || d.ballooned(f) {
			pre = d.restore(post, resp.Crashed || resp.Hang || d.ballooned(f))
		}
	}
	return nil
}

// ballooned: the server process holds more than 1.5 GB after the request (an attacker-sized allocation that succeeded);
// it is replaced so that its later death from memory exhaustion is not attributed to an unrelated request.
func (d *Driver) ballooned(f M) bool {
	rss, _ := f["rss"].(int)
	return rss > 1500
}
