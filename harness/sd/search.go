package sd

// Driver for property C06 (hybrid scores, field selection, sorting, paging):
// composite query trees over ranking and non-ranking sub-queries, select
// lists, sort keys, offsets and limits on a real shard. Every request is
// logged as one observation line (ev "Quiet", what "Search" / "SearchRob") of
// SearchTrace.tla: the abstracted request and what came back. Nothing here
// computes a verdict.

import (
	"strings"

	"github.com/semafind/semadb/models"
	"github.com/vmihailenco/msgpack/v5"
)

// HScale is the scale of logged hybrid scores (SearchOps.tla HScale).
const HScale = 400000

// ---------------------------------------------------------------------------
// Leaf decomposition of stored values: a nested map is the set of its non-map
// values, each with its path (sequence of map keys) and canonical JSON.

func leavesOf(path []string, v any, out *[]M) {
	if m, ok := v.(map[string]any); ok && len(m) > 0 {
		for _, k := range sortedKeys(m) {
			leavesOf(append(append([]string{}, path...), k), m[k], out)
		}
		return
	}
	*out = append(*out, M{"segs": append([]string{}, path...), "c": Canon(v)})
}

// annotate adds the leaf decomposition ("lv") of every field value to the
// abstraction of the documents of a batch (Docs.tla carries the whole field
// record through Merge, so the model needs nothing else).
func annotate(pts []GenPoint) {
	for _, p := range pts {
		for f, a := range p.Doc.Abs {
			fa := a.(map[string]any)
			lv := []M{}
			leavesOf([]string{f}, normalise(p.Doc.Real[f]), &lv)
			fa["lv"] = lv
		}
	}
}

// SearchBatch issues one random write batch whose documents carry the leaf
// decomposition.
func (r *Runner) SearchBatch() string {
	b := r.GenBatch()
	annotate(b.Pts)
	r.Apply(b)
	return b.Kind
}

// SearchInsertBatch inserts fresh ids only (so that early searches find data).
func (r *Runner) SearchInsertBatch() {
	var b []GenPoint
	mb := r.MaxBatch
	if mb == 0 {
		mb = 5
	}
	for _, id := range r.pickFresh(1 + r.R.Intn(mb)) {
		b = append(b, r.gen(id, false, 0.9))
	}
	annotate(b)
	r.Insert(b)
}

// ---------------------------------------------------------------------------
// Composite query trees

type qgen struct {
	r      *Runner
	leaves []Q
	ranks  []Prop
	nRank  int
	nFilt  int
	hints  []models.Query // the ranking leaves in numbering order
}

func (r *Runner) newQGen(leaves []Q) *qgen {
	g := &qgen{r: r, leaves: leaves}
	for _, p := range r.Cfg.Props {
		switch p.Type {
		case models.IndexTypeVectorFlat, models.IndexTypeText:
			g.ranks = append(g.ranks, p)
		case models.IndexTypeVectorVamana:
			// only in the exact regime: a pre-filter and a search window that
			// holds the whole id universe
			if r.Cfg.N() <= 75 {
				g.ranks = append(g.ranks, p)
			}
		}
	}
	return g
}

var textQueriesWithTerms = func() []string {
	var out []string
	for _, t := range TextQueries {
		if _, n := Analyse(t); n > 0 {
			out = append(out, t)
		}
	}
	return out
}()

// rankLeaf builds one ranking sub-query (numbered in creation order).
func (g *qgen) rankLeaf() Q {
	r := g.r
	p := g.ranks[r.R.Intn(len(g.ranks))]
	w, w4 := r.weight()
	f, af := r.rankFilter(g.leaves)
	limit := r.limit()
	n := len(g.hints) + 1
	var real models.Query
	var abs M
	switch p.Type {
	case models.IndexTypeText:
		text := textQueriesWithTerms[r.R.Intn(len(textQueriesWithTerms))]
		tf, _ := Analyse(text)
		op := models.OperatorContainsAll
		if r.R.Intn(2) == 0 {
			op = models.OperatorContainsAny
		}
		real = models.Query{Property: p.Name, Text: &models.SearchTextOptions{Value: text, Operator: op, Limit: limit, Filter: f, Weight: w}}
		abs = M{"k": "text", "n": n, "p": p.Name, "terms": sortedKeys(tf), "op": op, "limit": limit, "w4": w4, "filter": af, "tol": 8}
	case models.IndexTypeVectorFlat:
		vec, avec := r.G.vec(p.Dim, p.Metric)
		real = models.Query{Property: p.Name, VectorFlat: &models.SearchVectorFlatOptions{Vector: vec, Operator: models.OperatorNear, Limit: limit, Filter: f, Weight: w}}
		abs = M{"k": "flat", "n": n, "p": p.Name, "vec": avec, "limit": limit, "w4": w4, "filter": af, "tol": tolFor(p.Metric), "via": "flat"}
	default: // vamana, exact regime
		for f == nil {
			f, af = r.rankFilter(g.leaves)
		}
		vec, avec := r.G.vec(p.Dim, p.Metric)
		ss := 25 + r.R.Intn(51)
		if ss < r.Cfg.N() {
			ss = r.Cfg.N()
		}
		if ss < limit {
			ss = limit
		}
		real = models.Query{Property: p.Name, VectorVamana: &models.SearchVectorVamanaOptions{Vector: vec, Operator: models.OperatorNear, Limit: limit, SearchSize: ss, Filter: f, Weight: w}}
		abs = M{"k": "flat", "n": n, "p": p.Name, "vec": avec, "limit": limit, "w4": w4, "filter": af, "tol": tolFor(p.Metric), "via": "vamana"}
	}
	g.hints = append(g.hints, real)
	g.nRank++
	return Q{real, abs}
}

func (g *qgen) leaf() Q {
	r := g.r
	canRank := len(g.ranks) > 0 && g.nRank < 4
	canFilt := len(g.leaves) > 0 && g.nFilt < 4
	x := r.R.Intn(100)
	switch {
	case canRank && (x < 55 || !canFilt && x < 90):
		return g.rankLeaf()
	case canFilt && x < 90:
		g.nFilt++
		return g.filterLeaf()
	}
	ids := r.pickIDs(1+r.R.Intn(6), 0.8)
	return Q{idQuery(ids), M{"k": "id", "ids": ids}}
}

// filterLeaf draws a filter leaf; generation bias only: a few candidates are
// probed on the real shard and one that matches at least two points is
// preferred (most leaves of the operator x value panel match nothing).
func (g *qgen) filterLeaf() Q {
	r := g.r
	q := g.leaves[r.R.Intn(len(g.leaves))]
	if r.R.Intn(4) == 0 {
		return q
	}
	for try := 0; try < 5; try++ {
		res, err := r.Shard.SearchPoints(models.SearchRequest{Query: copyQuery(q.Real), Limit: 3})
		if err == nil && len(res) >= 2 {
			return q
		}
		q = g.leaves[r.R.Intn(len(g.leaves))]
	}
	return q
}

var fanout = []int{1, 2, 2, 2, 2, 2, 3, 3, 3, 4}

// tree builds a query tree of _and / _or nodes of the given maximal depth.
func (g *qgen) tree(depth int, top bool) Q {
	r := g.r
	pLeaf := 30
	if top {
		pLeaf = 12
	}
	if depth == 0 || r.R.Intn(100) < pLeaf {
		return g.leaf()
	}
	n := fanout[r.R.Intn(len(fanout))]
	reals := make([]models.Query, n)
	abss := make([]M, n)
	for i := 0; i < n; i++ {
		s := g.tree(depth-1, false)
		reals[i] = s.Real
		abss[i] = s.Abs
	}
	if r.R.Intn(3) == 0 {
		return Q{models.Query{Property: "_and", And: reals}, M{"k": "and", "sub": abss}}
	}
	return Q{models.Query{Property: "_or", Or: reals}, M{"k": "or", "sub": abss}}
}

// ---------------------------------------------------------------------------
// Select lists and sort keys

func (c Config) sortable() []string {
	var out []string
	for _, p := range c.Props {
		switch p.Type {
		case models.IndexTypeInteger, models.IndexTypeFloat, models.IndexTypeString:
			out = append(out, p.Name)
		}
	}
	return out
}

// selectPool: paths whose selection has a documented meaning on every document
// the generators produce: top-level fields (stored or not) and paths of depth
// two below "n" (which is a map whenever it is stored) or below a field that
// is never stored.
func (c Config) selectPool() []string {
	seen := map[string]bool{}
	var out []string
	add := func(s string) {
		if !seen[s] {
			seen[s] = true
			out = append(out, s)
		}
	}
	for _, p := range c.Props {
		add(p.Fld())
		if strings.HasPrefix(p.Name, "n.") {
			add(p.Name)
		}
	}
	for _, s := range []string{"x", "y", "big1", "zz", "n", "n.i", "n.other", "n.zz", "zz.a"} {
		add(s)
	}
	return out
}

// robustPool: paths that run through values which are (sometimes) not maps.
func (c Config) robustPool() []string {
	out := []string{"x.k", "x.m.z", "x.0", "y.k", "y.1", "n.other.k", "n.other.m.z", "big1.a"}
	for _, p := range c.Props {
		if strings.Contains(p.Name, ".") {
			out = append(out, p.Name+".z")
			continue
		}
		switch p.Type {
		case models.IndexTypeStringArray, models.IndexTypeVectorFlat, models.IndexTypeVectorVamana:
			out = append(out, p.Name+".0", p.Name+".k", p.Name+".*")
		default:
			out = append(out, p.Name+".z")
		}
	}
	return out
}

func absSelect(sel []string) []M {
	out := make([]M, len(sel))
	for i, s := range sel {
		if s == "*" {
			out[i] = M{"star": 1, "segs": []string{}}
		} else {
			out[i] = M{"star": 0, "segs": strings.Split(s, ".")}
		}
	}
	return out
}

// genSelectSort draws a select list and a sort list. Sort keys are indexed
// scalar properties (or never-stored paths) and are always covered by the
// select list, as the documentation requires ("any sort fields must be
// selected first").
func (r *Runner) genSelectSort(rob bool) ([]string, []models.SortOption) {
	pool := r.Cfg.selectPool()
	var sel []string
	paths := func(n int) []string {
		out := make([]string, n)
		for i := range out {
			out[i] = pool[r.R.Intn(len(pool))]
		}
		return out
	}
	switch x := r.R.Intn(100); {
	case x < 8:
		sel = nil
	case x < 30:
		sel = []string{"*"}
	case x < 35:
		sel = append([]string{"*"}, paths(1+r.R.Intn(2))...)
	case x < 42:
		sel = append(paths(1+r.R.Intn(2)), "*")
	default:
		sel = paths(1 + r.R.Intn(5))
	}
	if rob {
		rp := r.Cfg.robustPool()
		k := 1 + r.R.Intn(2)
		for i := 0; i < k; i++ {
			at := r.R.Intn(len(sel) + 1)
			sel = append(sel[:at], append([]string{rp[r.R.Intn(len(rp))]}, sel[at:]...)...)
		}
	}
	// sort keys
	var keys []models.SortOption
	nk := 0
	switch x := r.R.Intn(100); {
	case x < 45:
		nk = 0
	case x < 90:
		nk = 1 + r.R.Intn(3)
	default:
		nk = 4 + r.R.Intn(7)
	}
	cands := append(r.Cfg.sortable(), "zz", "n.zz")
	for i := 0; i < nk; i++ {
		keys = append(keys, models.SortOption{Property: cands[r.R.Intn(len(cands))], Descending: r.R.Intn(2) == 0})
	}
	// cover the sort keys
	hasStar := false
	for _, s := range sel {
		if s == "*" {
			hasStar = true
		}
	}
	if !hasStar {
		for _, k := range keys {
			top := strings.SplitN(k.Property, ".", 2)[0]
			covered := false
			for _, s := range sel {
				if s == k.Property || s == top {
					covered = true
				}
			}
			if covered {
				continue
			}
			add := k.Property
			if top != k.Property && r.R.Intn(3) == 0 {
				add = top
			}
			at := r.R.Intn(len(sel) + 1)
			sel = append(sel[:at], append([]string{add}, sel[at:]...)...)
		}
	}
	return sel, keys
}

// ---------------------------------------------------------------------------
// The observation

func decodeResult(sr models.SearchResult) (map[string]any, error) {
	if sr.DecodedData != nil {
		return normalise(sr.DecodedData).(map[string]any), nil
	}
	if len(sr.Data) == 0 {
		return map[string]any{}, nil
	}
	var m map[string]any
	if err := msgpack.Unmarshal(sr.Data, &m); err != nil {
		return nil, err
	}
	return normalise(m).(map[string]any), nil
}

// Search runs the ranking leaves on their own (witnesses for cuts inside tie
// groups), then the full request, and logs the answer.
func (r *Runner) Search(q Q, leafQs []models.Query, sel []string, keys []models.SortOption, off, limit int, rob bool) {
	hints := make([][]int, len(leafQs))
	for i, lq := range leafQs {
		res, err := r.Shard.SearchPoints(models.SearchRequest{Query: copyQuery(lq), Limit: 100000})
		if err != nil {
			r.obsErr("Search/leaf", err)
			return
		}
		hints[i] = make([]int, len(res))
		for k, sr := range res {
			hints[i][k] = IDOf(sr.Id)
		}
	}
	req := models.SearchRequest{Query: copyQuery(q.Real), Select: append([]string(nil), sel...), Sort: keys, Offset: off, Limit: limit}
	if err := req.Validate(); err != nil {
		panic("generated an invalid request: " + err.Error())
	}
	if err := req.Query.ValidateSchema(r.Col.IndexSchema); err != nil {
		panic("generated a request that does not fit the schema: " + err.Error())
	}
	absKeys := make([]M, len(keys))
	for i, k := range keys {
		absKeys[i] = M{"p": k.Property, "desc": b2i(k.Descending)}
	}
	ev := M{"q": q.Abs, "hints": hints, "sel": absSelect(sel), "sort": absKeys, "off": off, "limit": limit,
		"select": strings.Join(sel, ",")}
	// the line is a "Quiet" observation for ShardTrace.tla (no effect on the
	// model state); SearchTrace.tla judges it by its "what"
	const name = "Quiet"
	ev["what"] = "Search"
	if rob {
		ev["what"] = "SearchRob"
		ev["err"] = 0
		ev["msg"] = ""
	}
	res, err := r.Shard.SearchPoints(req)
	if err != nil {
		if !rob {
			r.obsErr("Search", err)
			return
		}
		ev["err"] = 1
		ev["msg"] = errStr(err)
		ev["hits"] = []M{}
		r.TW.Emit(name, ev)
		return
	}
	hits := make([]M, len(res))
	for i, sr := range res {
		doc, err := decodeResult(sr)
		if err != nil {
			r.obsErr("Search/decode", err)
			return
		}
		out := []M{}
		for _, f := range sortedKeys(doc) {
			leavesOf([]string{f}, doc[f], &out)
		}
		hits[i] = M{"id": IDOf(sr.Id), "rk": b2i(sr.Distance != nil || sr.Score != nil), "h": scaled(sr.HybridScore, HScale), "out": out}
	}
	ev["hits"] = hits
	r.TW.Emit(name, ev)
}

var pageLimits = []int{1, 1, 2, 3, 5, 10, 100}

// RandomSearch issues one random request.
func (r *Runner) RandomSearch(leaves []Q, rob bool) {
	g := r.newQGen(leaves)
	q := g.tree(3, true)
	sel, keys := r.genSelectSort(rob)
	off := 0
	switch x := r.R.Intn(100); {
	case x < 62:
	case x < 88:
		off = 1 + r.R.Intn(3)
	default:
		off = r.R.Intn(r.Cfg.N() + 3)
	}
	limit := pageLimits[r.R.Intn(len(pageLimits))]
	if r.R.Intn(4) == 0 {
		limit = 1 + r.R.Intn(100)
	}
	r.Search(q, g.hints, sel, keys, off, limit, rob)
}

// SearchOpts configures RunSearchHistory.
type SearchOpts struct {
	Batches  int
	PerBatch int // judged requests after every batch
	Rob      int // robustness requests after every batch
	MaxBatch int
}

// RunSearchHistory runs one random write history on a fresh shard and issues
// random composite requests after every batch (warm, and now and then right
// after a reopen or an eviction of the shared caches).
func (r *Runner) RunSearchHistory(histNo int, o SearchOpts) error {
	if err := r.Open(histNo); err != nil {
		return err
	}
	defer r.Close()
	r.MaxBatch = o.MaxBatch
	leaves := r.Cfg.LeafQueries()
	for b := 0; b < o.Batches; b++ {
		if b < 3 {
			r.SearchInsertBatch()
		} else {
			r.SearchBatch()
		}
		switch r.R.Intn(8) {
		case 0:
			if err := r.Reopen(); err != nil {
				return err
			}
		case 1:
			r.Evict()
		}
		for i := 0; i < o.PerBatch; i++ {
			r.RandomSearch(leaves, false)
		}
		for i := 0; i < o.Rob; i++ {
			r.RandomSearch(leaves, true)
		}
	}
	return nil
}
