package sd

import (
	"fmt"
	"math/rand"
	"os"
	"path/filepath"
	"sort"
	"strconv"
	"sync"
	"time"
	"verif/harness/proxy"

	"github.com/google/uuid"
	"github.com/semafind/semadb/conversion"
	"github.com/semafind/semadb/diskstore"
	"github.com/semafind/semadb/models"
	"github.com/semafind/semadb/shard"
	"github.com/semafind/semadb/shard/cache"
	"github.com/semafind/semadb/shard/pointstore"
	"github.com/vmihailenco/msgpack/v5"

	"verif/harness/trace"
)

type M = trace.M

// Runner drives one real shard and logs ShardTrace events.
type Runner struct {
	afterRepeat bool // the last request named a point twice (RepeatProbe)
	CatchPanic  bool // trials that inject a panic: recover it around the request
	Panicked    bool
	SlowGet     time.Duration // every storage read inside a write transaction takes this long (0 = off)
	staleRisk   bool          // forced schedules: in this behaviour a search created / attached the shared cache object
	// although a batch had been committed (or was open) since its snapshot was taken (known finding C09-c)
	Cfg    Config
	R      *rand.Rand
	G      *Gen
	TW     *trace.Writer
	Dir    string
	DBFile string
	CM     *cache.Manager
	Shard  *shard.Shard
	Col    models.Collection
	// generation bias only (never used for verdicts)
	believedLive map[int]bool
	believedVals map[int]map[string]any // id -> property -> last value written
	MaxBatch     int                    // largest random batch (default 5)
	Trial        bool                   // a what-if run on a copy: beliefs are not updated
	// counters
	Batches int
	Errors  []string
}

func NewRunner(cfg Config, seed int64, tw *trace.Writer, dir string) *Runner {
	r := rand.New(rand.NewSource(seed))
	return &Runner{Cfg: cfg, R: r, G: &Gen{R: r, Cfg: cfg}, TW: tw, Dir: dir}
}

func (r *Runner) collection() models.Collection {
	mp := r.Cfg.MaxPoint
	if mp == 0 {
		mp = LimitModel
	}
	return models.Collection{
		UserId: "u", Id: "c", Replicas: 1,
		UserPlan:    models.UserPlan{Name: "verif", MaxCollections: 10, MaxCollectionPointCount: 1 << 30, MaxPointSize: mp},
		IndexSchema: r.Cfg.Schema(),
	}
}

// Open starts a new history on a fresh shard and emits Reset.
func (r *Runner) Open(histNo int) error {
	r.Col = r.collection()
	r.believedLive = map[int]bool{}
	r.believedVals = map[int]map[string]any{}
	r.DBFile = ""
	if !r.Cfg.Mem {
		r.DBFile = filepath.Join(r.Dir, fmt.Sprintf("h%d.bbolt", histNo))
		os.Remove(r.DBFile)
	}
	r.CM = cache.NewManager(r.Cfg.CacheSize)
	s, err := shard.NewShard(r.DBFile, r.Col, r.CM)
	if err != nil {
		return err
	}
	r.Shard = s
	r.slowDisk()
	r.TW.Emit("Reset", M{"schema": r.Cfg.AbsSchema(), "pool": PoolRelations(r.Cfg.N()), "limit": LimitModel, "cfg": r.Cfg.Name, "mem": b2i(r.Cfg.Mem), "cache": cacheTag(r.Cfg.CacheSize)})
	return nil
}

func (r *Runner) Close() {
	if r.Shard != nil {
		r.Shard.Close()
		r.Shard = nil
	}
	if r.DBFile != "" {
		os.Remove(r.DBFile)
	}
}

// Reopen closes and reopens the shard on the same file with a fresh cache
// manager (cold caches). No abstract state may change.
func (r *Runner) Reopen() error {
	if r.Cfg.Mem {
		return nil
	}
	if err := r.Shard.Close(); err != nil {
		return err
	}
	r.CM = cache.NewManager(r.Cfg.CacheSize)
	s, err := shard.NewShard(r.DBFile, r.Col, r.CM)
	if err != nil {
		return err
	}
	r.Shard = s
	r.slowDisk()
	r.TW.Emit("Quiet", M{"what": "reopen"})
	return nil
}

// Evict drops every shared cache of this shard (as Release / prune would).
func (r *Runner) Evict() {
	r.CM.Release(r.DBFile)
	r.TW.Emit("Quiet", M{"what": "evict"})
}

// ---------------------------------------------------------------------------
// Projection of the persisted id bookkeeping, read through hook H1.

func Projection(db diskstore.DiskStore) (M, error) {
	nodes := [][2]int{}
	var free []int
	next := 2
	count := 0
	err := db.Read(func(bm diskstore.BucketManager) error {
		bp, err := bm.Get(pointstore.POINTSBUCKETNAME)
		if err != nil {
			return err
		}
		err = bp.ForEach(func(k, v []byte) error {
			if len(k) == 18 && k[0] == 'p' && k[17] == 'i' {
				var u uuid.UUID
				copy(u[:], k[1:17])
				nodes = append(nodes, [2]int{IDOf(u), int(conversion.BytesToUint64(v))})
			}
			return nil
		})
		if err != nil {
			return err
		}
		bi, err := bm.Get(shard.INTERNALBUCKETNAME)
		if err != nil {
			return err
		}
		if v := bi.Get(shard.POINTCOUNTKEY); v != nil {
			count = int(conversion.BytesToUint64(v))
		}
		if v := bi.Get(shard.NEXTFREENODEIDKEY); v != nil {
			next = int(conversion.BytesToUint64(v))
		}
		if v := bi.Get(shard.FREENODEIDSKEY); v != nil {
			for _, e := range conversion.BytesToEdgeList(v) {
				free = append(free, int(e))
			}
		}
		return nil
	})
	sort.Slice(nodes, func(i, j int) bool { return nodes[i][0] < nodes[j][0] })
	sort.Ints(free)
	if free == nil {
		free = []int{}
	}
	return M{"nodes": nodes, "free": free, "next": next, "count": count}, err
}

func (r *Runner) proj() M {
	p, err := Projection(r.Shard.VerifDB())
	if err != nil {
		r.Errors = append(r.Errors, "projection: "+err.Error())
	}
	return p
}

// ---------------------------------------------------------------------------
// Write batches

type GenPoint struct {
	ID     int
	Doc    GenDoc
	Vals   map[string]any // real values of the indexed properties in Doc
	NoData bool           // the point is sent without any data bytes (an id only)
}

func (r *Runner) gen(id int, forUpdate bool, pInc float64) GenPoint {
	if !forUpdate && r.Cfg.PNoData > 0 && r.R.Float64() < r.Cfg.PNoData {
		return GenPoint{ID: id, Doc: GenDoc{Real: models.PointAsMap{}, Abs: map[string]any{}}, Vals: map[string]any{}, NoData: true}
	}
	d := r.G.DocFrom(forUpdate, pInc, r.believedVals[id])
	return GenPoint{ID: id, Doc: d, Vals: r.G.Last}
}

func (r *Runner) remember(b []GenPoint, merge bool) {
	for _, p := range b {
		if !merge || r.believedVals[p.ID] == nil {
			r.believedVals[p.ID] = map[string]any{}
		}
		for k, v := range p.Vals {
			r.believedVals[p.ID][k] = v
		}
	}
}

func absBatch(b []GenPoint) []M {
	out := make([]M, len(b))
	for i, p := range b {
		out[i] = M{"id": p.ID, "doc": p.Doc.Abs}
	}
	return out
}

func realBatch(b []GenPoint) []models.Point {
	out := make([]models.Point, len(b))
	for i, p := range b {
		// what the HTTP layer does: CheckCompatibleMap (type normalisation) + msgpack
		data, err := msgpack.Marshal(p.Doc.Real)
		if err != nil {
			panic(err)
		}
		if p.NoData {
			data = nil
		}
		out[i] = models.Point{Id: UUIDOf(p.ID), Data: data}
	}
	return out
}

// cacheTag abstracts the cache size: 0 = off, 1 = bounded, 2 = unlimited.
func cacheTag(sz int64) int {
	switch {
	case sz == 0:
		return 0
	case sz < 0:
		return 2
	}
	return 1
}

// errStr is logged for diagnosis only; no specification reads it.
func errStr(err error) string {
	if err == nil {
		return ""
	}
	return strconv.QuoteToASCII(err.Error())
}

func b2i(b bool) int {
	if b {
		return 1
	}
	return 0
}

func (r *Runner) Insert(b []GenPoint) error {
	err := r.guard(func() error { return r.Shard.InsertPoints(realBatch(b)) })
	if err == nil && !r.Trial {
		for _, p := range b {
			r.believedLive[p.ID] = true
		}
		r.remember(b, false)
	}
	r.Batches++
	r.TW.Emit("Insert", M{"pts": absBatch(b), "ok": b2i(err == nil), "P": r.proj(), "err": errStr(err), "risk": b2i(r.staleRisk)})
	return err
}

func (r *Runner) Update(b []GenPoint) error {
	var ids []uuid.UUID
	err := r.guard(func() (e error) { ids, e = r.Shard.UpdatePoints(realBatch(b)); return })
	upd := make([]int, len(ids))
	for i, u := range ids {
		upd[i] = IDOf(u)
	}
	if err == nil && !r.Trial {
		r.remember(b, true)
	}
	r.Batches++
	r.TW.Emit("Update", M{"pts": absBatch(b), "ok": b2i(err == nil), "updated": upd, "P": r.proj(), "err": errStr(err), "risk": b2i(r.staleRisk)})
	return err
}

func (r *Runner) Delete(ids []int) error {
	set := map[uuid.UUID]struct{}{}
	for _, i := range ids {
		set[UUIDOf(i)] = struct{}{}
	}
	var del []uuid.UUID
	err := r.guard(func() (e error) { del, e = r.Shard.DeletePoints(set); return })
	d := make([]int, len(del))
	for i, u := range del {
		d[i] = IDOf(u)
		if !r.Trial {
			delete(r.believedLive, IDOf(u))
		}
	}
	r.Batches++
	r.TW.Emit("Delete", M{"ids": ids, "ok": b2i(err == nil), "deleted": d, "P": r.proj(), "err": errStr(err), "risk": b2i(r.staleRisk)})
	return err
}

// ---------------------------------------------------------------------------
// Observations

func (r *Runner) Count() {
	si, err := r.Shard.Info()
	if err != nil {
		r.obsErr("Count", err)
		return
	}
	r.TW.Emit("Count", M{"n": int(si.PointCount)})
}

// an observation failed on a quiescent shard: no spec action explains it
func (r *Runner) obsErr(what string, err error) {
	r.TW.Emit("Err", M{"what": what, "err": err.Error()})
}

func idQuery(ids []int) models.Query {
	vals := make([]string, len(ids))
	for i, id := range ids {
		vals[i] = UUIDOf(id).String()
	}
	return models.Query{Property: "_id", StringArray: &models.SearchStringArrayOptions{Value: vals, Operator: models.OperatorContainsAny}}
}

// Get reads points by id with select *.
func (r *Runner) Get(ids []int) {
	if len(ids) == 0 {
		return
	}
	res, err := r.Shard.SearchPoints(models.SearchRequest{Query: idQuery(ids), Select: []string{"*"}, Limit: 100000})
	if err != nil {
		r.obsErr("Get", err)
		return
	}
	docs := make([]M, 0, len(res))
	for _, sr := range res {
		var m map[string]any
		if len(sr.Data) > 0 {
			if err := msgpack.Unmarshal(sr.Data, &m); err != nil {
				r.obsErr("Get/decode", err)
				return
			}
		} else if sr.DecodedData != nil {
			m = sr.DecodedData
		}
		docs = append(docs, M{"id": IDOf(sr.Id), "f": VisibleOf(m)})
	}
	r.TW.Emit("Get", M{"ids": ids, "docs": docs})
}

func (r *Runner) allIDs() []int {
	out := make([]int, r.Cfg.N())
	for i := range out {
		out[i] = i + 1
	}
	return out
}

// ---------------------------------------------------------------------------
// Random batch generation (bias only)

func (r *Runner) pickIDs(n int, wantLive float64) []int {
	var out []int
	seen := map[int]bool{}
	if n > r.Cfg.N() {
		n = r.Cfg.N()
	}
	for tries := 0; len(out) < n; tries++ {
		var id int
		if tries > 20*n {
			wantLive = 0 // not enough live ids: fill up with arbitrary ones
		}
		if r.R.Float64() < wantLive && len(r.believedLive) > 0 {
			ks := make([]int, 0, len(r.believedLive))
			for k := range r.believedLive {
				ks = append(ks, k)
			}
			sort.Ints(ks)
			id = ks[r.R.Intn(len(ks))]
		} else {
			id = 1 + r.R.Intn(r.Cfg.N())
		}
		if seen[id] {
			continue
		}
		seen[id] = true
		out = append(out, id)
	}
	return out
}

// pickFresh returns up to n distinct ids believed not to be stored.
func (r *Runner) pickFresh(n int) []int {
	var cand []int
	for id := 1; id <= r.Cfg.N(); id++ {
		if !r.believedLive[id] {
			cand = append(cand, id)
		}
	}
	r.R.Shuffle(len(cand), func(i, j int) { cand[i], cand[j] = cand[j], cand[i] })
	if n > len(cand) {
		n = len(cand)
	}
	return cand[:n]
}

// InsertBatch issues an insert batch of fresh ids only.
func (r *Runner) InsertBatch() { r.Insert(r.GenInsertBatch().Pts) }

// GenInsertBatch generates an insert batch of fresh ids (nothing is executed).
func (r *Runner) GenInsertBatch() Batch {
	var b []GenPoint
	mb := r.MaxBatch
	if mb == 0 {
		mb = 5
	}
	for _, id := range r.pickFresh(1 + r.R.Intn(mb)) {
		b = append(b, r.gen(id, false, 0.9))
	}
	return Batch{Kind: "insert", Pts: b}
}

// Batch is one generated write batch.
type Batch struct {
	Kind string // insert | update | delete
	Pts  []GenPoint
	IDs  []int
}

// GenBatch generates one random write batch (nothing is executed).
func (r *Runner) GenBatch() Batch {
	x := r.R.Float64()
	mb := r.MaxBatch
	if mb == 0 {
		mb = 5
	}
	n := r.R.Intn(mb + 1)
	if r.R.Intn(10) == 0 {
		n = 0
	}
	switch {
	case x < 0.45:
		// insert: mostly fresh ids; sometimes an existing id or a duplicate
		var b []GenPoint
		ids := r.pickFresh(n)
		if len(ids) > 0 && r.R.Intn(8) == 0 && !r.Cfg.Mem {
			// an id that is already stored: the whole batch must be rejected
			// (never on the memory backend, which has no rollback: the
			// properties speak about it only for histories of successful batches)
			ids[r.R.Intn(len(ids))] = r.pickIDs(1, 1)[0]
		}
		for _, id := range ids {
			b = append(b, r.gen(id, false, 0.8))
		}
		if len(b) > 0 && r.R.Intn(12) == 0 && !r.Cfg.Mem {
			b = append(b, r.gen(b[0].ID, false, 0.8))
		}
		return Batch{Kind: "insert", Pts: b}
	case x < 0.75 && !r.Cfg.NoUpdates:
		var b []GenPoint
		for _, id := range r.pickIDs(n, 0.8) {
			b = append(b, r.gen(id, true, 0.5))
		}
		if r.Cfg.RepeatUpd && !r.Cfg.hasUnorderedIndex() && len(b) > 0 && r.R.Intn(2) == 0 {
			// the same point named twice in one update: applied one after the other
			// (not with a graph or text index: their workers take the two changes of one
			// point in either order; see RepeatProbe and the known finding C05-repeat)
			id := b[r.R.Intn(len(b))].ID
			if r.R.Intn(2) == 0 {
				b = append(b, r.gen(id, true, 0.5))
			} else {
				// remove every indexed field, then set them again, in one request
				r.G.ForceDelete = true
				b = append(b, r.gen(id, true, 0.5))
				r.G.ForceDelete = false
				b = append(b, r.gen(id, true, 1.0))
			}
		}
		if r.Cfg.RepeatUpd && r.Cfg.hasGraphOnly() && len(b) > 0 && r.R.Intn(3) == 0 {
			// with a graph index only the order "remove every indexed field, then set them again" is
			// defined by the code (removals and re-insertions are collected and applied in that order)
			// (a point the batch does not name otherwise: a vector rewritten twice in one request is
			// re-inserted twice and its neighbours keep the first vector in memory, same family as C05-repeat)
			inB := map[int]bool{}
			for _, p := range b {
				inB[p.ID] = true
			}
			for _, id := range r.pickIDs(4, 1) {
				if !inB[id] {
					r.G.ForceDelete = true
					b = append(b, r.gen(id, true, 0.5))
					r.G.ForceDelete = false
					// (pInc 1 and no narrow form: the second entry sets every indexed field)
					for {
						p2 := r.gen(id, true, 1.0)
						if len(p2.Vals) > 0 {
							b = append(b, p2)
							break
						}
					}
					break
				}
			}
		}
		return Batch{Kind: "update", Pts: b}
	default:
		return Batch{Kind: "delete", IDs: r.pickIDs(n, 0.7)}
	}
}

// Apply executes a batch on the current shard and logs the event.
func (r *Runner) Apply(b Batch) error {
	switch b.Kind {
	case "insert":
		return r.Insert(b.Pts)
	case "update":
		return r.Update(b.Pts)
	default:
		return r.Delete(b.IDs)
	}
}

// RandomBatch issues one random write batch and returns its kind.
func (r *Runner) RandomBatch() string {
	b := r.GenBatch()
	r.Apply(b)
	return b.Kind
}

func (c Config) hasUnorderedIndex() bool {
	for _, p := range c.Props {
		if p.Type == models.IndexTypeVectorVamana || p.Type == models.IndexTypeText {
			return true
		}
	}
	return false
}

func (c Config) hasGraphOnly() bool {
	g := false
	for _, p := range c.Props {
		if p.Type == models.IndexTypeText {
			return false
		}
		if p.Type == models.IndexTypeVectorVamana {
			g = true
		}
	}
	return g
}

// InsertRace issues k insert requests at the same time; they share one fresh id
// (and are otherwise disjoint), so exactly one of them can be accepted.
func (r *Runner) InsertRace(k int) {
	if r.Cfg.Mem {
		return
	}
	fresh := r.pickFresh(1 + 2*k)
	if len(fresh) < 1+k {
		return
	}
	shared := fresh[0]
	rest := fresh[1:]
	batches := make([][]GenPoint, k)
	for i := 0; i < k; i++ {
		var b []GenPoint
		b = append(b, r.gen(shared, false, 0.9))
		for j := i; j < len(rest); j += k {
			b = append(b, r.gen(rest[j], false, 0.9))
		}
		r.R.Shuffle(len(b), func(x, y int) { b[x], b[y] = b[y], b[x] })
		batches[i] = b
	}
	oks := make([]int, k)
	errs := make([]string, k)
	var wg sync.WaitGroup
	start := make(chan struct{})
	for i := 0; i < k; i++ {
		wg.Add(1)
		real := realBatch(batches[i])
		go func(i int) {
			defer wg.Done()
			<-start
			if err := r.Shard.InsertPoints(real); err == nil {
				oks[i] = 1
			} else {
				errs[i] = errStr(err)
			}
		}(i)
	}
	close(start)
	wg.Wait()
	abs := make([][]M, k)
	for i := range batches {
		abs[i] = absBatch(batches[i])
		if oks[i] == 1 && !r.Trial {
			for _, p := range batches[i] {
				r.believedLive[p.ID] = true
			}
			r.remember(batches[i], false)
		}
	}
	r.Batches++
	r.TW.Emit("InsertRace", M{"batches": abs, "oks": oks, "errs": errs, "P": r.proj()})
}

// WriteRace issues k write requests of random kinds at the same time; their id
// sets are pairwise disjoint, so every order of them gives the same state.
func (r *Runner) WriteRace(k int) {
	if r.Cfg.Mem {
		return
	}
	used := map[int]bool{}
	type op struct {
		b    Batch
		ok   int
		real []models.Point
	}
	var ops []op
	for tries := 0; len(ops) < k && tries < 6*k; tries++ {
		b := r.GenBatch()
		clash := false
		ids := append([]int{}, b.IDs...)
		seen := map[int]bool{}
		for _, p := range b.Pts {
			if seen[p.ID] {
				clash = true // (no id twice inside one request of a race)
			}
			seen[p.ID] = true
			ids = append(ids, p.ID)
		}
		for _, id := range ids {
			if used[id] {
				clash = true
			}
		}
		if clash || len(ids) == 0 {
			continue
		}
		for _, id := range ids {
			used[id] = true
		}
		ops = append(ops, op{b: b, real: realBatch(b.Pts)})
	}
	if len(ops) < 2 {
		return
	}
	var wg sync.WaitGroup
	start := make(chan struct{})
	for i := range ops {
		wg.Add(1)
		go func(o *op) {
			defer wg.Done()
			<-start
			var err error
			switch o.b.Kind {
			case "insert":
				err = r.Shard.InsertPoints(o.real)
			case "update":
				_, err = r.Shard.UpdatePoints(o.real)
			default:
				set := map[uuid.UUID]struct{}{}
				for _, id := range o.b.IDs {
					set[UUIDOf(id)] = struct{}{}
				}
				_, err = r.Shard.DeletePoints(set)
			}
			if err == nil {
				o.ok = 1
			}
		}(&ops[i])
	}
	close(start)
	wg.Wait()
	var log []M
	for _, o := range ops {
		log = append(log, M{"kind": o.b.Kind, "pts": absBatch(o.b.Pts), "ids": append([]int{}, o.b.IDs...), "ok": o.ok})
		if o.ok == 1 && !r.Trial {
			switch o.b.Kind {
			case "insert":
				for _, p := range o.b.Pts {
					r.believedLive[p.ID] = true
				}
				r.remember(o.b.Pts, false)
			case "update":
				r.remember(o.b.Pts, true)
			default:
				for _, id := range o.b.IDs {
					delete(r.believedLive, id)
				}
			}
		}
	}
	r.Batches++
	r.TW.Emit("WriteRace", M{"ops": log, "P": r.proj()})
}

// slowDisk puts the storage proxy with a read delay between the shard and its file.
func (r *Runner) slowDisk() {
	if r.SlowGet > 0 && !r.Cfg.Mem {
		px := proxy.Wrap(r.Shard.VerifDB())
		px.GetDelay = r.SlowGet
		r.Shard.VerifSetDB(px)
	}
}

// guard runs a request; in a trial that injects a panic the panic is caught here, as a request handler's
// recover would catch it, and reported as the request's error.
func (r *Runner) guard(f func() error) (err error) {
	if r.CatchPanic {
		defer func() {
			if rec := recover(); rec != nil {
				err = fmt.Errorf("panic: %v", rec)
				r.Panicked = true
			}
		}()
	}
	return f()
}
