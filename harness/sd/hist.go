package sd

import (
	"sort"

	"github.com/semafind/semadb/models"
)

// HistOpts selects what a history observes besides the API results of its
// random batches.
type HistOpts struct {
	Batches     int
	FilterEvery int  // run the filter panel after every k-th batch (0 = never)
	Sample      int  // sample size of the leaf panel (0 = all)
	Rank        int  // ranking queries per ranking property after every batch
	Cold        bool // repeat the observations after eviction and on a cold copy
	Graph       bool // log the graph projection after every batch
	InsertOnly  bool // only insert batches (exact regime of the graph index)
	GetAll      bool // select-* read of every id after every batch
	MaxBatch    int  // largest random batch (0 = 5)
	Wide        int  // wide composite filter requests at the end of the history
}

func (r *Runner) hasRanking() bool {
	for _, p := range r.Cfg.Props {
		if p.IsVector() || p.Type == models.IndexTypeText {
			return true
		}
	}
	return false
}

// RunHistory runs one random history on a fresh shard.
func (r *Runner) RunHistory(histNo int, o HistOpts) error {
	if err := r.Open(histNo); err != nil {
		return err
	}
	defer r.Close()
	r.MaxBatch = o.MaxBatch
	leaves := r.Cfg.LeafQueries()
	insertOnly := true
	hasText := false
	for _, p := range r.Cfg.Props {
		hasText = hasText || p.Type == models.IndexTypeText
	}
	observe := func(b int) {
		r.Count()
		if !r.Cfg.Mem && (o.FilterEvery > 0 || o.GetAll) {
			// the persisted inverted indexes are the ones the model derives from the stored documents
			r.InvIxProj()
		}
		if hasText && !r.Cfg.Mem && o.Rank > 0 {
			// the persisted text index is the one the model derives from the stored documents
			r.TextIxProj()
		}
		if o.GetAll {
			r.Get(r.allIDs())
		}
		if o.FilterEvery > 0 && (b+1)%o.FilterEvery == 0 {
			r.FilterPanel(leaves, o.Sample, 20)
		}
		if o.Rank > 0 && !r.Cfg.Quantised {
			r.RankPanel(r.Shard, leaves, o.Rank, insertOnly)
		}
	}
	var early []int // ids stored by the first batch (as a rule before a learned quantiser is trained)
	for b := 0; b < o.Batches; b++ {
		if b == 1 {
			for id := range r.believedLive {
				early = append(early, id)
			}
			sort.Ints(early)
		}
		if r.Cfg.Quantised && !o.InsertOnly && !r.Cfg.Mem && (b == 8 || b == 11) {
			// a point stored before the quantiser was trained is removed after the training
			for _, id := range early {
				if r.believedLive[id] {
					r.Delete([]int{id})
					insertOnly = false
					break
				}
			}
		}
		switch {
		case o.InsertOnly && o.Graph:
			r.GraphStepBatch(r.GenInsertBatch())
		case o.InsertOnly:
			r.InsertBatch()
		case o.Graph && b == 1 && !r.Cfg.NoUpdates:
			// points that are stored without their vector and get it later, all in one update request that lists
			// them against the order of their creation: the graph index learns of several new nodes above its
			// recorded maximum, the largest first
			pv := r.G.Cfg.PVec
			r.G.Cfg.PVec = 1e-9
			var late []GenPoint
			for _, id := range r.pickFresh(4) {
				late = append(late, r.gen(id, false, 0.8))
			}
			r.G.Cfg.PVec = pv
			r.GraphStepBatch(Batch{Kind: "insert", Pts: late})
			var upd []GenPoint
			for i := len(late) - 1; i >= 0; i-- {
				if r.believedLive[late[i].ID] {
					upd = append(upd, r.gen(late[i].ID, true, 1.0))
				}
			}
			r.GraphStepBatch(Batch{Kind: "update", Pts: upd})
			insertOnly = false
		case o.Graph:
			if r.GraphStepBatch(r.GenBatch()) != "insert" {
				insertOnly = false
			}
		default:
			if r.RandomBatch() != "insert" {
				insertOnly = false
			}
		}
		if !r.Cfg.Mem {
			// which keys hold the vectors now (Quant.tla), before anything reads them back
			r.VecKeysProj()
		}
		if o.Cold && !r.Cfg.Mem && r.Cfg.Quantised {
			// the warm instance as the write left it (its cache was loaded from storage before the batch and has
			// lived across it) against a cold copy
			if cold, done, err := r.ColdCopy(); err == nil {
				for _, p := range r.Cfg.Props {
					if p.Type == models.IndexTypeVectorFlat {
						for i := 0; i < o.Rank; i++ {
							r.FlatPair(r.Shard, cold, p, leaves, "kept-warm/cold")
						}
					}
					if p.Type == models.IndexTypeVectorVamana {
						for i := 0; i < o.Rank; i++ {
							r.VamanaPair(r.Shard, cold, p, "kept-warm/cold")
						}
					}
				}
				done()
			}
		}
		if o.GetAll && !o.InsertOnly && !r.Cfg.Quantised && b%6 == 5 {
			// concurrent insert requests that share an id
			r.InsertRace(2 + r.R.Intn(3))
		}
		if o.GetAll && !o.InsertOnly && !r.Cfg.Quantised && b%6 == 2 {
			// concurrent write requests of any kind on disjoint ids
			r.WriteRace(2 + r.R.Intn(3))
		}
		observe(b)
		// (trained quantisers: evict only every third batch, so that a cache loaded from storage lives across
		// several writes before it is compared with a cold copy above)
		if o.Cold && !r.Cfg.Mem && !(r.Cfg.Quantised && b%3 != 0) {
			// the same observations after eviction ...
			r.Evict()
			observe(b)
			// ... and on a cold copy of the file
			cold, done, err := r.ColdCopy()
			if err != nil {
				return err
			}
			warm := r.Shard
			r.Shard = cold
			observe(b)
			r.Shard = warm
			// graph search: warm and cold instance must agree (the graph is
			// schedule dependent, the search is a function of the persisted graph)
			for _, p := range r.Cfg.Props {
				if p.Type == models.IndexTypeVectorVamana {
					for i := 0; i < o.Rank; i++ {
						r.VamanaPair(warm, cold, p, "warm/cold")
					}
				}
				if p.Type == models.IndexTypeVectorFlat && r.Cfg.Quantised {
					for i := 0; i < o.Rank; i++ {
						r.FlatPair(warm, cold, p, leaves, "warm/cold")
					}
				}
			}
			done()
		}
		// environment steps that must not change anything
		switch r.R.Intn(10) {
		case 0:
			if err := r.Reopen(); err != nil {
				return err
			}
			observe(b)
		case 1:
			r.Evict()
		}
	}
	if r.Cfg.RepeatUpd && o.Rank > 0 {
		r.RepeatProbe(leaves)
	}
	if o.Wide > 0 {
		r.WideProbe(leaves, o.Wide)
	}
	if o.Cold && !r.Cfg.Mem {
		rounds, k := 3, 4
		if r.Cfg.Quantised {
			rounds, k = 12, 6 // (a trained quantiser keeps per-query state: more chances to overlap)
		}
		for i := 0; i < rounds; i++ {
			r.FlatBurst(k)
		}
	}
	return nil
}
