package sd

// HistOpts selects what a history does besides random batches.
type HistOpts struct {
	Mode       string // crud | filter | ...
	Batches    int
	PanelEvery int
	Sample     int
}

// RunHistory runs one random history on a fresh shard.
func (r *Runner) RunHistory(histNo int, o HistOpts) error {
	if err := r.Open(histNo); err != nil {
		return err
	}
	defer r.Close()
	var leaves []Q
	if o.Mode == "filter" {
		leaves = r.Cfg.LeafQueries()
	}
	for b := 0; b < o.Batches; b++ {
		r.RandomBatch()
		r.Count()
		r.Get(allIDs())
		if o.Mode == "filter" && o.PanelEvery > 0 && (b+1)%o.PanelEvery == 0 {
			r.FilterPanel(leaves, o.Sample, 20)
		}
		// environment steps that must not change anything
		switch r.R.Intn(10) {
		case 0:
			if err := r.Reopen(); err != nil {
				return err
			}
			r.Count()
			r.Get(allIDs())
		case 1:
			r.Evict()
		}
	}
	return nil
}
