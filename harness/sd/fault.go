package sd

import (
	"encoding/base64"
	"encoding/json"
	"fmt"
	"io"
	"os"
	"os/exec"
	"sort"

	"github.com/google/uuid"
	"github.com/semafind/semadb/models"
	"github.com/semafind/semadb/shard"
	"github.com/semafind/semadb/shard/cache"

	"verif/harness/proxy"
)

// FaultOpts configures the fault-enumeration driver (C07).
type FaultOpts struct {
	Batches   int
	MaxFaults int    // fault points tried per batch (0 = all)
	Kills     int    // kill points tried per batch (besides pre / post commit)
	Exe       string // path of this binary (for kill children)
	Rank      int
	Sample    int
	MaxBatch  int
	BigInsert bool  // insert batches of MaxBatch/2..MaxBatch fresh points, every other one with a tail that must be rejected
	probe     []int // ids read back after every trial in BigInsert mode
}

func copyFile(src, dst string) error {
	in, err := os.Open(src)
	if err != nil {
		return err
	}
	defer in.Close()
	out, err := os.Create(dst)
	if err != nil {
		return err
	}
	if _, err := io.Copy(out, in); err != nil {
		out.Close()
		return err
	}
	return out.Close()
}

// observeAll logs the observations that must answer "as if the batch had
// never been issued" (or with all its effects).
func (r *Runner) observeAll(leaves []Q, o FaultOpts) {
	if o.BigInsert {
		// thousands of points per batch: the count, and a read of some ids of the
		// batch and some stored ones
		r.Count()
		ids := append([]int{}, o.probe...)
		sort.Ints(ids)
		r.Get(ids)
		return
	}
	r.Count()
	r.Get(r.allIDs())
	r.GraphProj()
	if len(leaves) > 0 {
		r.FilterPanel(leaves, o.Sample, 4)
	}
	if o.Rank > 0 {
		r.RankPanel(r.Shard, leaves, o.Rank, false)
	}
}

// trial runs the batch on a copy of the database under a storage plan; the
// model state is saved before (Fork) and restored after (Restore).
func (r *Runner) trial(b Batch, plan proxy.Plan, kind string, leaves []Q, o FaultOpts) (ops int64, err error) {
	dst := r.DBFile + ".trial"
	if err := copyFile(r.DBFile, dst); err != nil {
		return 0, err
	}
	defer os.Remove(dst)
	cm := cache.NewManager(r.Cfg.CacheSize)
	sh, err := shard.NewShard(dst, r.Col, cm)
	if err != nil {
		return 0, err
	}
	main, mainCM := r.Shard, r.CM
	r.Shard, r.CM = sh, cm
	r.Trial = true
	defer func() { r.Shard, r.CM, r.Trial = main, mainCM, false }()
	r.TW.Emit("Fork", M{"what": kind})
	// warm the shared caches so that a failure has something to corrupt
	if o.Rank > 0 {
		r.RankPanel(sh, leaves, 1, false)
	}
	px := proxy.Wrap(sh.VerifDB())
	sh.VerifSetDB(px)
	px.SetPlan(plan)
	if kind != "count" {
		r.TW.Emit("Fault", M{"kind": kind, "k": plan.FailAt, "commit": b2i(plan.FailCommit || plan.PanicCommit)})
	}
	// (a panic on the goroutine that runs the write transaction is caught where a request handler would
	// catch it; what the instance keeps in memory after that is not judged: the file is reopened)
	r.CatchPanic, r.Panicked = plan.PanicCommit, false
	r.Apply(b)
	r.CatchPanic = false
	ops = px.Ops.Load()
	px.SetPlan(proxy.Plan{})
	// warm: the same instance, caches as the failure left them
	if !r.Panicked {
		r.observeAll(leaves, o)
	}
	// the next request on the same instance: nothing a failed batch left in memory (allocators, counters,
	// caches) may leak into it
	if kind != "count" && !o.BigInsert && !r.Panicked {
		inBatch := map[int]bool{}
		for _, p := range b.Pts {
			inBatch[p.ID] = true
		}
		var next []GenPoint
		for _, id := range r.pickFresh(6) {
			if !inBatch[id] && len(next) < 3 {
				next = append(next, r.gen(id, false, 0.9))
			}
		}
		if len(next) > 0 {
			r.Insert(next)
			r.observeAll(leaves, o)
		}
	}
	// cold: reopen the file
	if err := sh.Close(); err != nil {
		return ops, err
	}
	cm2 := cache.NewManager(r.Cfg.CacheSize)
	sh2, err := shard.NewShard(dst, r.Col, cm2)
	if err != nil {
		return ops, err
	}
	r.Shard, r.CM = sh2, cm2
	r.TW.Emit("Quiet", M{"what": "reopen"})
	r.observeAll(leaves, o)
	sh2.Close()
	r.TW.Emit("Restore", M{})
	return ops, nil
}

// ---------------------------------------------------------------------------
// Kill trials: a child process applies the batch on a copy and is killed at
// the k-th storage operation / before / after the commit.

type wirePoint struct {
	ID   int    `json:"id"`
	Data string `json:"data"` // base64 msgpack
}

type wireBatch struct {
	Kind string      `json:"kind"`
	Pts  []wirePoint `json:"pts"`
	IDs  []int       `json:"ids"`
}

func toWire(b Batch) wireBatch {
	w := wireBatch{Kind: b.Kind, IDs: b.IDs}
	for i, p := range realBatch(b.Pts) {
		w.Pts = append(w.Pts, wirePoint{ID: b.Pts[i].ID, Data: base64.StdEncoding.EncodeToString(p.Data)})
	}
	return w
}

// KillChild is the child side: apply the batch with the kill plan. Exit code 3
// = killed as planned, 0 = the batch finished before the kill point.
func KillChild(cfg Config, db string, batchFile string, killAt int64, killWhen string) error {
	raw, err := os.ReadFile(batchFile)
	if err != nil {
		return err
	}
	var w wireBatch
	if err := json.Unmarshal(raw, &w); err != nil {
		return err
	}
	r := &Runner{Cfg: cfg}
	col := r.collection()
	sh, err := shard.NewShard(db, col, cache.NewManager(cfg.CacheSize))
	if err != nil {
		return err
	}
	px := proxy.Wrap(sh.VerifDB())
	sh.VerifSetDB(px)
	px.SetPlan(proxy.Plan{KillAt: killAt, KillWhen: killWhen})
	switch w.Kind {
	case "insert", "update":
		pts := make([]models.Point, len(w.Pts))
		for i, p := range w.Pts {
			data, _ := base64.StdEncoding.DecodeString(p.Data)
			pts[i] = models.Point{Id: UUIDOf(p.ID), Data: data}
		}
		if w.Kind == "insert" {
			sh.InsertPoints(pts)
		} else {
			sh.UpdatePoints(pts)
		}
	default:
		set := map[uuid.UUID]struct{}{}
		for _, id := range w.IDs {
			set[UUIDOf(id)] = struct{}{}
		}
		sh.DeletePoints(set)
	}
	sh.Close()
	return nil
}

func (r *Runner) killTrial(b Batch, killAt int64, killWhen string, leaves []Q, o FaultOpts) error {
	dst := r.DBFile + ".kill"
	if err := copyFile(r.DBFile, dst); err != nil {
		return err
	}
	defer os.Remove(dst)
	bf := r.DBFile + ".batch.json"
	raw, _ := json.Marshal(toWire(b))
	if err := os.WriteFile(bf, raw, 0644); err != nil {
		return err
	}
	defer os.Remove(bf)
	cmd := exec.Command(o.Exe, "killchild", "-config", r.Cfg.BaseName(), "-cache", fmt.Sprint(r.Cfg.CacheSize), "-db", dst, "-batch", bf,
		"-killat", fmt.Sprint(killAt), "-killwhen", killWhen)
	out, err := cmd.CombinedOutput()
	rc := 0
	if err != nil {
		if ee, ok := err.(*exec.ExitError); ok {
			rc = ee.ExitCode()
		} else {
			return err
		}
	}
	at := killWhen
	if at == "" {
		at = fmt.Sprint(killAt)
	}
	switch rc {
	case 0:
		return nil // the batch finished before the kill point: nothing to learn
	case 3:
	default:
		// the child died although nobody killed it
		r.TW.Emit("Err", M{"what": "ChildCrash", "rc": rc, "at": at, "err": errStr(fmt.Errorf("%s", tail(string(out), 600)))})
		return nil
	}
	// reopen cold and look
	cm := cache.NewManager(r.Cfg.CacheSize)
	sh, err := shard.NewShard(dst, r.Col, cm)
	if err != nil {
		r.TW.Emit("Err", M{"what": "ReopenAfterKill", "err": errStr(err)})
		return nil
	}
	main, mainCM := r.Shard, r.CM
	r.Shard, r.CM = sh, cm
	r.Trial = true
	defer func() { r.Shard, r.CM, r.Trial = main, mainCM, false }()
	r.TW.Emit("Fork", M{"what": "kill"})
	ev := M{"kind": b.Kind, "at": at, "applied": b2i(killWhen == "post"), "P": r.proj(), "pts": absBatch(b.Pts), "ids": b.IDs}
	r.TW.Emit("Crash", ev)
	r.observeAll(leaves, o)
	sh.Close()
	r.TW.Emit("Restore", M{})
	return nil
}

func tail(s string, n int) string {
	if len(s) <= n {
		return s
	}
	return s[len(s)-n:]
}

// sampleKs picks fault points in 1..n: all if max == 0 or n <= max, otherwise
// first, last and a random spread.
func (r *Runner) sampleKs(n int64, max int) []int64 {
	if n <= 0 {
		return nil
	}
	if max == 0 || int64(max) >= n {
		out := make([]int64, n)
		for i := range out {
			out[i] = int64(i + 1)
		}
		return out
	}
	set := map[int64]bool{1: true, n: true, 2: true}
	for len(set) < max {
		set[1+r.R.Int63n(n)] = true
	}
	out := make([]int64, 0, len(set))
	for k := range set {
		out = append(out, k)
	}
	sort.Slice(out, func(i, j int) bool { return out[i] < out[j] })
	return out
}

// genBigInsert: many fresh points in one insert; every other batch ends in a
// point that must be refused (an id that is already stored), so that the
// refusal comes after most of the batch has been processed.
func (r *Runner) genBigInsert(no int) Batch {
	n := r.MaxBatch/2 + r.R.Intn(r.MaxBatch/2+1)
	var pts []GenPoint
	for _, id := range r.pickFresh(n) {
		pts = append(pts, r.gen(id, false, 0.9))
	}
	if no%2 == 1 {
		if live := r.pickIDs(1, 1); len(live) == 1 && r.believedLive[live[0]] {
			pts = append(pts, r.gen(live[0], false, 0.9))
		}
	}
	return Batch{Kind: "insert", Pts: pts}
}

// RunFaultHistory: for every batch of a random history first try it under
// every (sampled) storage fault and kill point on copies of the database, then
// apply it for real.
func (r *Runner) RunFaultHistory(histNo int, o FaultOpts) error {
	if err := r.Open(histNo); err != nil {
		return err
	}
	defer r.Close()
	r.MaxBatch = o.MaxBatch
	leaves := r.Cfg.LeafQueries()
	for b := 0; b < o.Batches; b++ {
		batch := r.GenBatch()
		if o.BigInsert {
			batch = r.genBigInsert(b)
			// first, middle and last points of the batch (a batch cut into pieces shows at the front) and some stored ids
			o.probe = nil
			seen := map[int]bool{}
			add := func(id int) {
				if !seen[id] {
					seen[id] = true
					o.probe = append(o.probe, id)
				}
			}
			n := len(batch.Pts)
			for _, k := range []int{0, 1, 2, n / 4, n / 2, n - 3, n - 2, n - 1} {
				if k >= 0 && k < n {
					add(batch.Pts[k].ID)
				}
			}
			for i := 0; i < 12 && n > 0; i++ {
				add(batch.Pts[r.R.Intn(n)].ID)
			}
			for _, id := range r.pickIDs(10, 1) {
				add(id)
			}
		}
		// learn the number of storage operations of this batch
		n, err := r.trial(batch, proxy.Plan{}, "count", leaves, o)
		if err != nil {
			return err
		}
		for _, k := range r.sampleKs(n, o.MaxFaults) {
			if _, err := r.trial(batch, proxy.Plan{FailAt: k}, "failop", leaves, o); err != nil {
				return err
			}
		}
		if _, err := r.trial(batch, proxy.Plan{FailCommit: true}, "failcommit", leaves, o); err != nil {
			return err
		}
		if _, err := r.trial(batch, proxy.Plan{PanicCommit: true}, "paniccommit", leaves, o); err != nil {
			return err
		}
		if o.Exe != "" {
			for _, k := range r.sampleKs(n, o.Kills) {
				if err := r.killTrial(batch, k, "", leaves, o); err != nil {
					return err
				}
			}
			for _, when := range []string{"pre", "post"} {
				if err := r.killTrial(batch, 0, when, leaves, o); err != nil {
					return err
				}
			}
		}
		// now for real
		r.Apply(batch)
		r.observeAll(leaves, o)
	}
	return nil
}
