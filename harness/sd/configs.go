package sd

import "github.com/semafind/semadb/models"

func f32(x float32) *float32 { return &x }

// Configs are the shard configurations the drivers know by name.
var Configs = map[string]Config{
	"none": {Name: "none"},
	// a third of the inserted points are ids without data (no document at all: the properties speak about documents, and the
	// shard's update path answers "could not unmarshal old data: EOF" for such a point, so these histories insert and delete only)
	"none-nodata": {Name: "none-nodata", PNoData: 0.35, NoUpdates: true},
	"scalars": {Name: "scalars", RareEmpty: true, Props: []Prop{
		{Name: "i", Type: models.IndexTypeInteger},
		{Name: "f", Type: models.IndexTypeFloat},
		{Name: "s", Type: models.IndexTypeString, CS: false},
		{Name: "sc", Type: models.IndexTypeString, CS: true},
		{Name: "a", Type: models.IndexTypeStringArray, CS: false},
		{Name: "ac", Type: models.IndexTypeStringArray, CS: true},
		{Name: "n.i", Type: models.IndexTypeInteger},
		{Name: "n.s", Type: models.IndexTypeString, CS: false},
	}},
}

func init() {
	ne := Configs["scalars"]
	ne.Name = "scalars-ne"
	ne.RareEmpty = false
	Configs["scalars-ne"] = ne
	e := Configs["scalars"]
	e.Name = "scalars-empty"
	e.EmptyStrings = true
	Configs["scalars-empty"] = e
	filt := []Prop{{Name: "i", Type: models.IndexTypeInteger}, {Name: "s", Type: models.IndexTypeString}}
	for _, m := range []string{models.DistanceEuclidean, models.DistanceDot, models.DistanceCosine, models.DistanceHamming,
		models.DistanceJaccard, models.DistanceHaversine} {
		dim := 3
		if m == models.DistanceHaversine {
			dim = 2
		}
		if m == models.DistanceHamming || m == models.DistanceJaccard {
			dim = 5
		}
		Configs["flat-"+m] = Config{Name: "flat-" + m, NoExtras: true, Props: append([]Prop{
			{Name: "fl", Type: models.IndexTypeVectorFlat, Metric: m, Dim: dim}}, filt...)}
		Configs["vamana-"+m] = Config{Name: "vamana-" + m, NoExtras: true, PVec: 0.6, Props: append([]Prop{
			{Name: "v", Type: models.IndexTypeVectorVamana, Metric: m, Dim: dim, SearchSize: 75, DegreeBound: 32, Alpha: 1.2}}, filt...)}
	}
	Configs["vamana-wide"] = Config{Name: "vamana-wide", NoExtras: true, PVec: 0.95, VecRange: 1500, VecLine: true, Props: append([]Prop{
		{Name: "v", Type: models.IndexTypeVectorVamana, Metric: models.DistanceEuclidean, Dim: 2, SearchSize: 75, DegreeBound: 64, Alpha: 1.2}}, filt...)}
	// an index built with the smallest search window while queries ask for up to 75
	Configs["vamana-win25"] = Config{Name: "vamana-win25", NoExtras: true, PVec: 0.9, Props: append([]Prop{
		{Name: "v", Type: models.IndexTypeVectorVamana, Metric: models.DistanceEuclidean, Dim: 3, SearchSize: 25, DegreeBound: 32, Alpha: 1.2}}, filt...)}
	// saturated neighbourhoods: many dimensions, few distinct component values, so that
	// robust pruning removes little and the degree bound is actually reached
	Configs["vamana-dense"] = Config{Name: "vamana-dense", NoExtras: true, PVec: 0.95, VecRange: 2, NIDs: 1300, Props: append([]Prop{
		{Name: "v", Type: models.IndexTypeVectorVamana, Metric: models.DistanceEuclidean, Dim: 24, SearchSize: 75, DegreeBound: 32, Alpha: 1.2}}, filt...)}
	Configs["flat-pq"] = Config{Name: "flat-pq", NoExtras: true, NIDs: 1300, Quantised: true, PVec: 0.97, VecRange: 9, Props: append([]Prop{
		{Name: "fl", Type: models.IndexTypeVectorFlat, Metric: models.DistanceEuclidean, Dim: 4,
			Quant: &models.Quantizer{Type: models.QuantizerProduct, Product: &models.ProductQuantizerParameters{NumCentroids: 8, NumSubVectors: 2, TriggerThreshold: 1000}}}}, filt...)}
	Configs["flat-binlearn"] = Config{Name: "flat-binlearn", NoExtras: true, Quantised: true, PVec: 0.9, Props: append([]Prop{
		{Name: "fl", Type: models.IndexTypeVectorFlat, Metric: models.DistanceEuclidean, Dim: 5,
			Quant: &models.Quantizer{Type: models.QuantizerBinary, Binary: &models.BinaryQuantizerParamaters{TriggerThreshold: 5, DistanceMetric: models.DistanceHamming}}}}, filt...)}
	Configs["vamana-binlearn"] = Config{Name: "vamana-binlearn", NoExtras: true, Quantised: true, PVec: 0.9, Props: append([]Prop{
		{Name: "v", Type: models.IndexTypeVectorVamana, Metric: models.DistanceEuclidean, Dim: 5, SearchSize: 75, DegreeBound: 32, Alpha: 1.2,
			Quant: &models.Quantizer{Type: models.QuantizerBinary, Binary: &models.BinaryQuantizerParamaters{TriggerThreshold: 5, DistanceMetric: models.DistanceHamming}}}}, filt...)}
	Configs["text"] = Config{Name: "text", NoExtras: true, Props: append([]Prop{
		{Name: "t", Type: models.IndexTypeText}, {Name: "n.t", Type: models.IndexTypeText}}, filt...)}
	Configs["kitchen"] = Config{Name: "kitchen", BadTypes: true, Props: []Prop{
		{Name: "i", Type: models.IndexTypeInteger},
		{Name: "f", Type: models.IndexTypeFloat},
		{Name: "s", Type: models.IndexTypeString, CS: false},
		{Name: "a", Type: models.IndexTypeStringArray, CS: true},
		{Name: "t", Type: models.IndexTypeText},
		{Name: "v", Type: models.IndexTypeVectorVamana, Metric: models.DistanceEuclidean, Dim: 3, SearchSize: 75, DegreeBound: 64, Alpha: 1.2},
		{Name: "fl", Type: models.IndexTypeVectorFlat, Metric: models.DistanceEuclidean, Dim: 3},
		{Name: "n.i", Type: models.IndexTypeInteger},
		{Name: "n.t", Type: models.IndexTypeText},
	}}
}

// WithCache returns a copy of the configuration with another cache size.
func (c Config) WithCache(size int64, tag string) Config {
	c.CacheSize = size
	c.Name = c.Name + "/" + tag
	return c
}

// BaseName is the key of the configuration in Configs.
func (c Config) BaseName() string { return c.Name }
