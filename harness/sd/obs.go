package sd

import (
	"bytes"
	"encoding/binary"
	"fmt"
	"github.com/RoaringBitmap/roaring/roaring64"
	"github.com/semafind/semadb/shard/index/inverted"
	"github.com/vmihailenco/msgpack/v5"
	"io"
	"math"
	"os"
	"sort"
	"sync"

	"github.com/semafind/semadb/conversion"
	"github.com/semafind/semadb/diskstore"
	"github.com/semafind/semadb/models"
	"github.com/semafind/semadb/shard"
	"github.com/semafind/semadb/shard/cache"
	"github.com/semafind/semadb/shard/index/vamana"
)

var weights4 = []int{-8, -4, 0, 2, 4, 8} // weight x 4

func (r *Runner) weight() (*float32, int) {
	if r.R.Intn(4) == 0 {
		return nil, 4 // default weight 1
	}
	w4 := weights4[r.R.Intn(len(weights4))]
	w := float32(w4) / 4
	return &w, w4
}

var noFilter = M{"k": "all"}

// filter for a ranking query: none, a leaf, a tree or an id list
func (r *Runner) rankFilter(leaves []Q) (*models.Query, M) {
	x := r.R.Intn(100)
	if len(leaves) == 0 && x >= 65 {
		x = 0
	}
	switch {
	case x < 45:
		return nil, noFilter
	case x < 65:
		ids := r.pickIDs(1+r.R.Intn(6), 0.8)
		q := idQuery(ids)
		return &q, M{"k": "id", "ids": ids}
	case x < 85:
		q := leaves[r.R.Intn(len(leaves))]
		real := copyQuery(q.Real)
		return &real, q.Abs
	}
	q := r.RandomTree(leaves, 2)
	real := copyQuery(q.Real)
	return &real, q.Abs
}

func (r *Runner) limit() int {
	ls := []int{1, 2, 3, 5, r.Cfg.N(), r.Cfg.N() + 1, 75}
	l := ls[r.R.Intn(len(ls))]
	if l > 75 {
		l = 75
	}
	return l
}

func scaled(x float32, scale int) int {
	return int(math.Round(float64(x) * float64(scale)))
}

func (r *Runner) hits(res []models.SearchResult, scale int) ([]M, bool) {
	out := make([]M, len(res))
	for i, sr := range res {
		if sr.Distance == nil {
			return nil, false
		}
		out[i] = M{"id": IDOf(sr.Id), "d": scaled(*sr.Distance, scale), "h4": scaled(sr.HybridScore, 4*scale)}
	}
	return out, true
}

func tolFor(metric string) int {
	switch metric {
	case models.DistanceJaccard:
		return 2
	case models.DistanceHaversine:
		return 4
	}
	return 0
}

// FlatQuery issues one flat vector search and logs the answer.
func (r *Runner) FlatQuery(sh *shard.Shard, p Prop, leaves []Q) {
	vec, avec := r.G.vec(p.Dim, p.Metric)
	w, w4 := r.weight()
	f, af := r.rankFilter(leaves)
	limit := r.limit()
	q := models.Query{Property: p.Name, VectorFlat: &models.SearchVectorFlatOptions{Vector: vec, Operator: models.OperatorNear, Limit: limit, Filter: f, Weight: w}}
	res, err := sh.SearchPoints(models.SearchRequest{Query: q, Limit: 100000})
	if err != nil {
		r.obsErr("Flat", err)
		return
	}
	hits, ok := r.hits(res, MetricScale(p.Metric))
	if !ok {
		r.obsErr("Flat", fmt.Errorf("result without distance"))
		return
	}
	r.TW.Emit("Flat", M{"p": p.Name, "vec": avec, "limit": limit, "w4": w4, "filter": af, "hits": hits, "tol": tolFor(p.Metric)})
}

// VamanaQuery issues one graph search. exact = the driver established one of
// the regimes in which the property claims exactness.
func (r *Runner) VamanaQuery(sh *shard.Shard, p Prop, leaves []Q, insertOnly bool) {
	vec, avec := r.G.vec(p.Dim, p.Metric)
	w, w4 := r.weight()
	f, af := r.rankFilter(leaves)
	limit := r.limit()
	ss := 25 + r.R.Intn(51)
	if ss < limit {
		ss = limit
	}
	filterSize := -1 // unknown
	if r.Cfg.N() > 75 && r.R.Intn(3) == 0 {
		// large universe: an id-list pre-filter whose size sits at the boundary
		// of the search window (the property claims exactness up to searchSize)
		ss = 25 + r.R.Intn(12)
		if limit > ss {
			limit = ss
		}
		k := []int{ss - 1, ss, ss, ss + 1, 2 * ss}[r.R.Intn(5)]
		ids := r.pickIDs(k, 1)
		fq := idQuery(ids)
		f, af = &fq, M{"k": "id", "ids": ids}
		filterSize = len(ids)
	}
	q := models.Query{Property: p.Name, VectorVamana: &models.SearchVectorVamanaOptions{Vector: vec, Operator: models.OperatorNear, Limit: limit, SearchSize: ss, Filter: f, Weight: w}}
	res, err := sh.SearchPoints(models.SearchRequest{Query: q, Limit: 100000})
	if err != nil {
		r.obsErr("Vamana", err)
		return
	}
	hits, ok := r.hits(res, MetricScale(p.Metric))
	if !ok {
		r.obsErr("Vamana", fmt.Errorf("result without distance"))
		return
	}
	// exact regimes: (a) insert-only history and the whole collection fits the
	// search window and the degree bound; (b) a pre-filter smaller than the window
	n := r.Cfg.N()
	exact := (f == nil && insertOnly && n <= min(p.DegreeBound, ss-1)) || (f != nil && n <= ss) ||
		(filterSize >= 0 && filterSize <= ss)
	r.TW.Emit("Vamana", M{"p": p.Name, "vec": avec, "limit": limit, "ss": ss, "w4": w4, "filter": af, "hits": hits,
		"tol": tolFor(p.Metric), "exact": b2i(exact)})
}

// VamanaPair issues the same graph search on two shard instances that hold the
// same committed data in different cache states and logs both answers.
func (r *Runner) VamanaPair(a, b *shard.Shard, p Prop, what string) {
	vec, avec := r.G.vec(p.Dim, p.Metric)
	limit := r.limit()
	ss := 25 + r.R.Intn(51)
	if ss < limit {
		ss = limit
	}
	run := func(sh *shard.Shard) ([]M, bool) {
		q := models.Query{Property: p.Name, VectorVamana: &models.SearchVectorVamanaOptions{Vector: append([]float32{}, vec...), Operator: models.OperatorNear, Limit: limit, SearchSize: ss}}
		res, err := sh.SearchPoints(models.SearchRequest{Query: q, Limit: 100000})
		if err != nil {
			r.obsErr("VamanaPair", err)
			return nil, false
		}
		return r.hits(res, MetricScale(p.Metric))
	}
	ha, ok := run(a)
	if !ok {
		return
	}
	hb, ok := run(b)
	if !ok {
		return
	}
	r.TW.Emit("VamanaPair", M{"p": p.Name, "vec": avec, "limit": limit, "ss": ss, "a": ha, "b": hb, "what": what, "tol": tolFor(p.Metric), "quant": b2i(r.Cfg.Quantised)})
}

// FlatPair issues the same flat search on two instances holding the same
// committed data in different cache states (C04: warm = cold; used where the
// model cannot compute the distance itself: trained quantisers).
func (r *Runner) FlatPair(a, b *shard.Shard, p Prop, leaves []Q, what string) {
	vec, avec := r.G.vec(p.Dim, p.Metric)
	limit := r.limit()
	f, af := r.rankFilter(leaves)
	run := func(sh *shard.Shard) ([]M, bool) {
		var fc *models.Query
		if f != nil {
			c := copyQuery(*f)
			fc = &c
		}
		q := models.Query{Property: p.Name, VectorFlat: &models.SearchVectorFlatOptions{Vector: append([]float32{}, vec...), Operator: models.OperatorNear, Limit: limit, Filter: fc}}
		res, err := sh.SearchPoints(models.SearchRequest{Query: q, Limit: 100000})
		if err != nil {
			r.obsErr("FlatPair", err)
			return nil, false
		}
		return r.hits(res, 1000)
	}
	ha, ok := run(a)
	if !ok {
		return
	}
	hb, ok := run(b)
	if !ok {
		return
	}
	r.TW.Emit("FlatPair", M{"p": p.Name, "vec": avec, "limit": limit, "filter": af, "a": ha, "b": hb, "what": what})
}

// TextQuery issues one text search.
func (r *Runner) TextQuery(sh *shard.Shard, p Prop, leaves []Q) {
	text := TextQueries[r.R.Intn(len(TextQueries))]
	tf, n := Analyse(text)
	op := models.OperatorContainsAll
	if r.R.Intn(2) == 0 {
		op = models.OperatorContainsAny
	}
	w, w4 := r.weight()
	f, af := r.rankFilter(leaves)
	limit := r.limit()
	q := models.Query{Property: p.Name, Text: &models.SearchTextOptions{Value: text, Operator: op, Limit: limit, Filter: f, Weight: w}}
	res, err := sh.SearchPoints(models.SearchRequest{Query: q, Limit: 100000})
	if err != nil {
		r.obsErr("Text", err)
		return
	}
	if n == 0 {
		// a query that analyses to zero terms: the property does not decide the
		// answer, only that it does not fail
		return
	}
	hits := make([]M, len(res))
	for i, sr := range res {
		if sr.Score == nil {
			r.obsErr("Text", fmt.Errorf("result without score"))
			return
		}
		hits[i] = M{"id": IDOf(sr.Id), "s": scaled(*sr.Score, 100000), "h4": scaled(sr.HybridScore, 400000)}
	}
	r.TW.Emit("Text", M{"p": p.Name, "terms": sortedKeys(tf), "op": op, "limit": limit, "w4": w4, "filter": af, "hits": hits, "tol": 8, "rep": b2i(r.afterRepeat)})
}

// RankPanel issues k ranking queries per ranking property on the given shard.
func (r *Runner) RankPanel(sh *shard.Shard, leaves []Q, k int, insertOnly bool) {
	for _, p := range r.Cfg.Props {
		for i := 0; i < k; i++ {
			switch p.Type {
			case models.IndexTypeVectorFlat:
				r.FlatQuery(sh, p, leaves)
			case models.IndexTypeVectorVamana:
				r.VamanaQuery(sh, p, leaves, insertOnly)
			case models.IndexTypeText:
				r.TextQuery(sh, p, leaves)
			}
		}
	}
}

// ---------------------------------------------------------------------------
// Cold copy: a fresh Shard on a copy of the database file (cold caches).

func (r *Runner) ColdCopy() (*shard.Shard, func(), error) {
	if r.Cfg.Mem {
		return nil, nil, fmt.Errorf("no cold copy on the memory backend")
	}
	dst := r.DBFile + ".cold"
	src, err := os.Open(r.DBFile)
	if err != nil {
		return nil, nil, err
	}
	defer src.Close()
	out, err := os.Create(dst)
	if err != nil {
		return nil, nil, err
	}
	if _, err := io.Copy(out, src); err != nil {
		out.Close()
		return nil, nil, err
	}
	out.Close()
	s, err := shard.NewShard(dst, r.Col, cache.NewManager(r.Cfg.CacheSize))
	if err != nil {
		return nil, nil, err
	}
	r.TW.Emit("Quiet", M{"what": "coldcopy"})
	return s, func() { s.Close(); os.Remove(dst) }, nil
}

// ---------------------------------------------------------------------------
// Graph projection (C10): nodes, edges, stored vectors and the recorded
// maximum node id of every Vamana index, read through hook H1.

func (r *Runner) GraphProj() {
	for _, p := range r.Cfg.Props {
		if p.Type != models.IndexTypeVectorVamana {
			continue
		}
		g, err := graphOf(r.Shard.VerifDB(), p)
		if err != nil {
			r.obsErr("Graph", err)
			continue
		}
		g["p"] = p.Name
		g["R"] = p.DegreeBound
		g["hasprev"], g["prev"], g["touched"], g["ok"], g["kind"] = 0, []any{}, []int{}, 1, ""
		r.TW.Emit("Graph", g)
	}
}

// GraphStepBatch applies b and logs, for every graph index, the persisted
// graph before and after it, whether the batch was accepted and the node ids
// of the points an update batch named (the transition is judged, not only the
// state reached).
func (r *Runner) GraphStepBatch(b Batch) string {
	prev := map[string]M{}
	for _, p := range r.Cfg.Props {
		if p.Type != models.IndexTypeVectorVamana {
			continue
		}
		if g, err := graphOf(r.Shard.VerifDB(), p); err == nil {
			prev[p.Name] = g
		}
	}
	nodeOf := map[int]int{}
	if pr, err := Projection(r.Shard.VerifDB()); err == nil {
		if ns, ok := pr["nodes"].([][2]int); ok {
			for _, x := range ns {
				nodeOf[x[0]] = x[1]
			}
		}
	}
	err := r.Apply(b)
	touched := []int{}
	if b.Kind == "update" {
		for _, pt := range b.Pts {
			if n, ok := nodeOf[pt.ID]; ok {
				touched = append(touched, n)
			}
		}
	}
	for _, p := range r.Cfg.Props {
		if p.Type != models.IndexTypeVectorVamana {
			continue
		}
		g, gerr := graphOf(r.Shard.VerifDB(), p)
		if gerr != nil {
			r.obsErr("Graph", gerr)
			continue
		}
		g["p"] = p.Name
		g["R"] = p.DegreeBound
		g["hasprev"], g["prev"], g["touched"], g["ok"], g["kind"] = 0, []any{}, touched, b2i(err == nil), b.Kind
		if pg, ok := prev[p.Name]; ok {
			g["hasprev"], g["prev"] = 1, pg["nodes"]
		}
		r.TW.Emit("Graph", g)
	}
	return b.Kind
}

func graphOf(db diskstore.DiskStore, p Prop) (M, error) {
	type node struct {
		id    int
		edges []int
	}
	var nodes []node
	var vecs []int
	maxNode := 0
	hasMax := false
	err := db.Read(func(bm diskstore.BucketManager) error {
		b, err := bm.Get(fmt.Sprintf("index/%s/%s", models.IndexTypeVectorVamana, p.Name))
		if err != nil {
			return err
		}
		if v := b.Get([]byte(vamana.MAXNODEIDKEY)); v != nil {
			maxNode = int(conversion.BytesToUint64(v))
			hasMax = true
		}
		return b.ForEach(func(k, v []byte) error {
			if id, ok := conversion.NodeIdFromKey(k, 'e'); ok {
				es := conversion.BytesToEdgeList(v)
				n := node{id: int(id), edges: make([]int, len(es))}
				for i, e := range es {
					n.edges[i] = int(e)
				}
				nodes = append(nodes, n)
			}
			if id, ok := conversion.NodeIdFromKey(k, 'v'); ok {
				vecs = append(vecs, int(id))
			}
			if id, ok := conversion.NodeIdFromKey(k, 'q'); ok {
				vecs = append(vecs, int(id))
			}
			return nil
		})
	})
	if err != nil {
		return nil, err
	}
	sort.Slice(nodes, func(i, j int) bool { return nodes[i].id < nodes[j].id })
	sort.Ints(vecs)
	ns := make([]any, len(nodes))
	for i, n := range nodes {
		ns[i] = []any{n.id, n.edges}
	}
	return M{"nodes": ns, "vecs": vecs, "max": maxNode, "hasmax": b2i(hasMax)}, nil
}

// RepeatProbe ends a history of a configuration with a text index: one update
// request names a point twice and rewrites its text both times; the document
// must be the sequential merge (Get), the text queries that follow are marked.
func (r *Runner) RepeatProbe(leaves []Q) {
	var tp *Prop
	for i := range r.Cfg.Props {
		if r.Cfg.Props[i].Type == models.IndexTypeText {
			tp = &r.Cfg.Props[i]
			break
		}
	}
	ids := r.pickIDs(1, 1)
	if tp == nil || len(ids) == 0 || !r.believedLive[ids[0]] || r.Cfg.Mem {
		return
	}
	b := []GenPoint{r.gen(ids[0], true, 1.0), r.gen(ids[0], true, 1.0)}
	if r.Update(b) != nil {
		return
	}
	r.Get(r.allIDs())
	r.afterRepeat = true
	for i := 0; i < 8; i++ {
		r.TextQuery(r.Shard, *tp, leaves)
	}
	r.afterRepeat = false
}

// FlatBurst: k different flat searches at the same moment on the same shard, then
// the same k searches one after the other: an answer is a function of the
// committed history, not of what other requests do meanwhile.
func (r *Runner) FlatBurst(k int) {
	for _, p := range r.Cfg.Props {
		if p.Type != models.IndexTypeVectorFlat {
			continue
		}
		type one struct {
			vec   []float32
			avec  []int
			limit int
		}
		qs := make([]one, k)
		for i := range qs {
			v, a := r.G.vec(p.Dim, p.Metric)
			qs[i] = one{v, a, r.limit()}
		}
		run := func(q one) ([]M, error) {
			mq := models.Query{Property: p.Name, VectorFlat: &models.SearchVectorFlatOptions{Vector: append([]float32{}, q.vec...), Operator: models.OperatorNear, Limit: q.limit}}
			res, err := r.Shard.SearchPoints(models.SearchRequest{Query: mq, Limit: 100000})
			if err != nil {
				return nil, err
			}
			// (quantised distances are small fractions: three decimals; otherwise the metric's own scale, which
			// keeps haversine metres inside TLC's 32-bit integers)
			scale := MetricScale(p.Metric)
			if r.Cfg.Quantised {
				scale = 1000
			}
			h, ok := r.hits(res, scale)
			if !ok {
				return nil, fmt.Errorf("result without distance")
			}
			return h, nil
		}
		burst := make([][]M, k)
		errs := make([]error, k)
		var wg sync.WaitGroup
		start := make(chan struct{})
		for i := range qs {
			wg.Add(1)
			go func(i int) {
				defer wg.Done()
				<-start
				burst[i], errs[i] = run(qs[i])
			}(i)
		}
		close(start)
		wg.Wait()
		for i, q := range qs {
			if errs[i] != nil {
				r.obsErr("FlatBurst", errs[i])
				continue
			}
			single, err := run(q)
			if err != nil {
				r.obsErr("FlatBurst", err)
				continue
			}
			r.TW.Emit("FlatPair", M{"p": p.Name, "vec": q.avec, "limit": q.limit, "filter": noFilter, "a": burst[i], "b": single, "what": "burst/single"})
		}
	}
}

// VecKeysProj logs, for every quantised vector index, which node ids have a
// full-vector key ('v') and which a quantised one ('q') in the index bucket
// (read through hook H1), and whether the quantiser's trained state is stored.
func (r *Runner) VecKeysProj() {
	for _, p := range r.Cfg.Props {
		if p.Type != models.IndexTypeVectorFlat && p.Type != models.IndexTypeVectorVamana {
			continue
		}
		var vs, qs []int
		stored := false
		err := r.Shard.VerifDB().Read(func(bm diskstore.BucketManager) error {
			b, err := bm.Get(fmt.Sprintf("index/%s/%s", p.Type, p.Name))
			if err != nil {
				return err
			}
			for _, k := range []string{"_binaryQuantizerThreshold", "_productQuantizerFlatCentroids"} {
				if b.Get([]byte(k)) != nil {
					stored = true
				}
			}
			return b.ForEach(func(k, v []byte) error {
				if id, ok := conversion.NodeIdFromKey(k, 'v'); ok {
					vs = append(vs, int(id))
				}
				if id, ok := conversion.NodeIdFromKey(k, 'q'); ok {
					qs = append(qs, int(id))
				}
				return nil
			})
		})
		if err != nil {
			// (an index that was never written has no bucket yet)
			vs, qs = nil, nil
		}
		sort.Ints(vs)
		sort.Ints(qs)
		if vs == nil {
			vs = []int{}
		}
		if qs == nil {
			qs = []int{}
		}
		kind, trigger, fixed := "product", 0, 0
		switch {
		case p.Metric == models.DistanceHamming || p.Metric == models.DistanceJaccard:
			// (these metrics are served by the binary store with the fixed threshold 0.5, whatever the schema says)
			kind, fixed = "binary", 1
		case p.Quant == nil || p.Quant.Type == models.QuantizerNone:
			kind = "plain" // (no quantiser: full vectors only)
		case p.Quant.Type == models.QuantizerBinary && p.Quant.Binary != nil:
			kind, trigger = "binary", p.Quant.Binary.TriggerThreshold
			if p.Quant.Binary.Threshold != nil {
				fixed = 1
			}
		case p.Quant.Product != nil:
			trigger = p.Quant.Product.TriggerThreshold
		}
		r.TW.Emit("VecKeys", M{"p": p.Name, "kind": kind, "fixed": fixed, "trigger": trigger, "entry": b2i(p.Type == models.IndexTypeVectorVamana),
			"v": vs, "q": qs, "trained": b2i(stored)})
	}
}

// TextIxProj logs the persisted state of every text index (read through hook
// H1): the recorded corpus size, the document entries (node, length, term
// frequencies) and the term sets.
func (r *Runner) TextIxProj() {
	for _, p := range r.Cfg.Props {
		if p.Type != models.IndexTypeText {
			continue
		}
		type docItem struct {
			Terms map[string]struct {
				Frequency int `msgpack:"frequency"`
			} `msgpack:"terms"`
			Length int `msgpack:"length"`
		}
		n := -1
		docs := []M{}
		sets := []M{}
		var perr error
		err := r.Shard.VerifDB().Read(func(bm diskstore.BucketManager) error {
			b, err := bm.Get(fmt.Sprintf("index/%s/%s", models.IndexTypeText, p.Name))
			if err != nil {
				return err
			}
			return b.ForEach(func(k, v []byte) error {
				switch {
				case string(k) == "_numDocuments":
					n = int(conversion.BytesToUint64(v))
				case len(k) == 9 && k[0] == 'd':
					var d docItem
					if e := msgpack.Unmarshal(v, &d); e != nil {
						perr = e
						return nil
					}
					tf := M{}
					for t, x := range d.Terms {
						tf[TermName(t)] = x.Frequency // (terms carry the model's names)
					}
					docs = append(docs, M{"n": int(binary.LittleEndian.Uint64(k[1:])), "len": d.Length, "tf": tf})
				case len(k) >= 2 && k[0] == 't' && k[len(k)-1] == 's':
					set := roaring64.New()
					if _, e := set.ReadFrom(bytes.NewReader(v)); e != nil {
						perr = e
						return nil
					}
					ids := []int{}
					it := set.Iterator()
					for it.HasNext() {
						ids = append(ids, int(it.Next()))
					}
					sets = append(sets, M{"t": TermName(string(k[1 : len(k)-1])), "ids": ids})
				}
				return nil
			})
		})
		if err != nil {
			// (an index that was never written has no bucket yet)
			n = 0
		}
		if perr != nil {
			r.obsErr("TextIx", perr)
			continue
		}
		if n < 0 {
			n = 0
		}
		sort.Slice(docs, func(a, b int) bool { return docs[a]["n"].(int) < docs[b]["n"].(int) })
		sort.Slice(sets, func(a, b int) bool { return sets[a]["t"].(string) < sets[b]["t"].(string) })
		r.TW.Emit("TextIx", M{"p": p.Name, "n": n, "docs": docs, "sets": sets})
	}
}

// InvIxProj logs the persisted state of every inverted index (read through
// hook H1): one entry per stored key with the value's rank in the ladder / pool
// (-1: a key that is no value of the universe) and the node ids of its set.
func (r *Runner) InvIxProj() {
	for _, p := range r.Cfg.Props {
		switch p.Type {
		case models.IndexTypeInteger, models.IndexTypeFloat, models.IndexTypeString, models.IndexTypeStringArray:
		default:
			continue
		}
		ents := []M{}
		var perr error
		err := r.Shard.VerifDB().Read(func(bm diskstore.BucketManager) error {
			b, err := bm.Get(fmt.Sprintf("index/%s/%s", p.Type, p.Name))
			if err != nil {
				return err
			}
			return b.ForEach(func(k, v []byte) error {
				rank := -1
				switch p.Type {
				case models.IndexTypeInteger:
					var x int64
					if inverted.VerifFromByteSortable(k, &x) == nil {
						for _, l := range IntLadder {
							if l.V == x {
								rank = l.Rank
							}
						}
					}
				case models.IndexTypeFloat:
					var x float64
					if inverted.VerifFromByteSortable(k, &x) == nil {
						for _, l := range FloatLadder {
							if l.V == x {
								rank = l.Rank
							}
						}
					}
				default:
					for i, s := range StrPool {
						if s == string(k) {
							rank = i + 1
						}
					}
				}
				set := roaring64.New()
				if _, e := set.ReadFrom(bytes.NewReader(v)); e != nil {
					perr = e
					return nil
				}
				ids := []int{}
				it := set.Iterator()
				for it.HasNext() {
					ids = append(ids, int(it.Next()))
				}
				ents = append(ents, M{"r": rank, "ids": ids})
				return nil
			})
		})
		if err != nil {
			ents = []M{} // (an index that was never written has no bucket yet)
		}
		if perr != nil {
			r.obsErr("InvIx", perr)
			continue
		}
		sort.Slice(ents, func(a, b int) bool { return ents[a]["r"].(int) < ents[b]["r"].(int) })
		r.TW.Emit("InvIx", M{"p": p.Name, "ents": ents})
	}
}
