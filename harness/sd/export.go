package sd

import "github.com/semafind/semadb/models"

// Exported helpers for the other drivers (cluster level).

func (g *Gen) Vec(dim int, metric string) ([]float32, []int) { return g.vec(dim, metric) }
func CopyQuery(q models.Query) models.Query                  { return copyQuery(q) }
func IDQuery(ids []int) models.Query                         { return idQuery(ids) }
func Scaled(x float32, scale int) int                        { return scaled(x, scale) }
