package sd

import (
	"fmt"
	"os"
	"sync"
	"sync/atomic"
	"time"

	"github.com/google/uuid"
	"github.com/semafind/semadb/models"
	"github.com/semafind/semadb/shard"
	"github.com/vmihailenco/msgpack/v5"
)

// ConcOpts configures the concurrent driver (C09): one writer stream and N
// searcher goroutines on one file-backed shard.
type ConcOpts struct {
	Batches  int
	Readers  int
	Rank     int
	Cold     bool // reopen the shard (cold caches) right before the searchers start
	MaxBatch int
	Other    bool // a second shard on the same cache manager receives a write stream too
}

type csearch struct {
	a, b int64 // batches finished before the search began / started before it ended
	sel  []string
	kind string
	docs []M
	err  string
	who  int
}

// RunConcHistory runs a writer stream concurrently with searchers. Write events
// are logged as usual (a single writer: commit order = log order); searches are
// logged afterwards with the window [a, b] of versions they may have seen.
func (r *Runner) RunConcHistory(histNo int, o ConcOpts) error {
	if err := r.Open(histNo); err != nil {
		return err
	}
	defer r.Close()
	r.MaxBatch = o.MaxBatch
	leaves := r.Cfg.LeafQueries()
	// a few batches first so that searches have something to find
	nBase := 3
	if o.Cold {
		nBase = 8
	}
	for i := 0; i < nBase; i++ {
		r.InsertBatch()
	}
	if o.Cold {
		if err := r.Reopen(); err != nil {
			return err
		}
	}
	base := int64(nBase)
	var started, done atomic.Int64
	started.Store(base)
	done.Store(base)
	var stop atomic.Bool
	var mu sync.Mutex
	var found []csearch
	var wg sync.WaitGroup
	reader := func(who int, rr *Runner) {
		var q models.Query
		kind := "get"
		pick := rr.R.Intn(3)
		if o.Cold && rr.R.Intn(4) != 0 {
			pick = 2
		}
		switch pick {
		case 0:
			q = idQuery(rr.pickIDs(1+rr.R.Intn(6), 0.5))
		case 1:
			if len(leaves) > 0 {
				q = copyQuery(leaves[rr.R.Intn(len(leaves))].Real)
				kind = "filter"
				break
			}
			q = idQuery(rr.pickIDs(3, 0.5))
		default:
			kind = "rank"
			q = idQuery(rr.pickIDs(3, 0.5))
			for _, p := range r.Cfg.Props {
				if !p.IsVector() {
					continue
				}
				vec, _ := rr.G.vec(p.Dim, p.Metric)
				if p.Type == models.IndexTypeVectorFlat {
					q = models.Query{Property: p.Name, VectorFlat: &models.SearchVectorFlatOptions{Vector: vec, Operator: models.OperatorNear, Limit: 5}}
				} else {
					q = models.Query{Property: p.Name, VectorVamana: &models.SearchVectorVamanaOptions{Vector: vec, Operator: models.OperatorNear, Limit: 5, SearchSize: 25 + rr.R.Intn(51)}}
				}
				if rr.R.Intn(2) == 0 {
					break
				}
			}
			// (only without a shared cache: with one, the vector sub-query runs on a goroutine of its own and the
			// crash of known finding C09-a would show a stack that its signature, strictly, does not cover)
			if q.VectorVamana != nil && r.Cfg.CacheSize == 0 && rr.R.Intn(6) == 0 {
				// a composite request with a sub-query on a property the schema does not have, next to the
				// vector search: the request is refused, and that is all that happens
				kind = "bad"
				q = models.Query{Property: "_or", Or: []models.Query{
					{Property: "nosuchprop", Integer: &models.SearchIntegerOptions{Value: 1, Operator: models.OperatorEquals}}, q}}
			}
		}
		// select everything, or one or two named top-level fields (the partial decoding path)
		sel, selReq := []string{}, []string{"*"}
		if rr.R.Intn(5) < 3 {
			cands := []string{"x", "y"}
			seen := map[string]bool{}
			for _, p := range r.Cfg.Props {
				if !seen[p.Fld()] {
					seen[p.Fld()] = true
					cands = append(cands, p.Fld())
				}
			}
			rr.R.Shuffle(len(cands), func(i, j int) { cands[i], cands[j] = cands[j], cands[i] })
			sel = append(sel, cands[:1+rr.R.Intn(2)]...)
			selReq = sel
		}
		a := done.Load()
		res, err := r.Shard.SearchPoints(models.SearchRequest{Query: q, Select: selReq, Limit: 100000})
		b := started.Load()
		cs := csearch{a: a, b: b, kind: kind, who: who, sel: sel}
		if err != nil {
			cs.err = err.Error()
		} else {
			for _, sr := range res {
				var m map[string]any
				if len(sr.Data) > 0 {
					if e := msgpack.Unmarshal(sr.Data, &m); e != nil {
						cs.err = "decode: " + e.Error()
						break
					}
				} else if sr.DecodedData != nil {
					m = sr.DecodedData
				}
				cs.docs = append(cs.docs, M{"id": IDOf(sr.Id), "f": VisibleOf(m)})
			}
		}
		mu.Lock()
		found = append(found, cs)
		mu.Unlock()
		if !o.Cold {
			time.Sleep(time.Duration(rr.R.Intn(200)) * time.Microsecond)
		}
	}
	launch := func(quota int) {
		for i := 0; i < o.Readers; i++ {
			wg.Add(1)
			rr := NewRunner(r.Cfg, int64(histNo*1000+i+7)+r.R.Int63n(1000), nil, r.Dir)
			rr.believedLive = map[int]bool{}
			for k := range r.believedLive {
				rr.believedLive[k] = true
			}
			go func(who int, rr *Runner) {
				defer wg.Done()
				for n := 0; !stop.Load() && (quota == 0 || n < quota); n++ {
					reader(who, rr)
				}
			}(i, rr)
		}
	}
	if o.Cold {
		// bursts of searchers alone on cold caches (they build the shared caches
		// concurrently): reopen, burst, join, several times
		for round := 0; round < 12; round++ {
			if err := r.Reopen(); err != nil {
				return err
			}
			launch(12)
			wg.Wait()
		}
	}
	launch(0)
	if o.Other && !r.Cfg.Mem {
		// load on another shard of the same manager (as on a multi-shard node):
		// its caches are sized by every prune the searchers trigger
		other, err := shard.NewShard(r.DBFile+".other", r.Col, r.CM)
		if err != nil {
			return err
		}
		defer func() { other.Close(); os.Remove(r.DBFile + ".other") }()
		wg.Add(1)
		go func() {
			defer wg.Done()
			og := NewRunner(r.Cfg, int64(histNo)+4242, nil, r.Dir)
			og.believedLive = map[int]bool{}
			for !stop.Load() {
				var pts []GenPoint
				for _, id := range og.pickFresh(40) {
					pts = append(pts, og.gen(id, false, 0.9))
				}
				if len(pts) == 0 {
					og.believedLive = map[int]bool{}
					set := map[uuid.UUID]struct{}{}
					for id := 1; id <= og.Cfg.N(); id++ {
						set[UUIDOf(id)] = struct{}{}
					}
					other.DeletePoints(set)
					continue
				}
				if other.InsertPoints(realBatch(pts)) == nil {
					for _, p := range pts {
						og.believedLive[p.ID] = true
					}
				}
			}
		}()
	}
	for b := 0; b < o.Batches; b++ {
		batch := r.GenBatch()
		started.Add(1)
		r.Apply(batch)
		done.Add(1)
		time.Sleep(time.Duration(r.R.Intn(300)) * time.Microsecond)
	}
	stop.Store(true)
	wg.Wait()
	// the searches, with their version windows (version k = state after k write events)
	for _, cs := range found {
		if cs.kind == "bad" {
			r.TW.Emit("BadQuery", M{"refused": b2i(cs.err != ""), "a": cs.a, "b": cs.b})
			continue
		}
		if cs.err != "" {
			r.TW.Emit("Err", M{"what": "ConcurrentSearch/" + cs.kind, "err": errStr(errString(cs.err)), "a": cs.a, "b": cs.b})
			continue
		}
		r.TW.Emit("CSearch", M{"a": cs.a, "b": cs.b, "kind": cs.kind, "docs": cs.docs, "who": cs.who, "sel": cs.sel})
	}
	// after the writers finished: the sequential model, warm and cold
	o2 := FaultOpts{Rank: o.Rank, Sample: 30}
	r.observeAll(leaves, o2)
	for i := 0; i < 3; i++ {
		if err := r.QuietBurst(4); err != nil {
			return err
		}
	}
	if err := r.Reopen(); err != nil {
		return err
	}
	r.observeAll(leaves, o2)
	return nil
}

// QuietBurst: no writer is running. k searchers issue the same graph search at
// the same moment on cold caches; each answer must equal the answer of a single
// search on a cold copy of the file (the search is a function of the persisted
// graph, whoever fills the shared cache).
func (r *Runner) QuietBurst(k int) error {
	if r.Cfg.Mem {
		return nil
	}
	for _, p := range r.Cfg.Props {
		if p.Type != models.IndexTypeVectorVamana {
			continue
		}
		if err := r.Reopen(); err != nil {
			return err
		}
		vec, avec := r.G.vec(p.Dim, p.Metric)
		limit := r.limit()
		ss := 25 + r.R.Intn(51)
		if ss < limit {
			ss = limit
		}
		run := func(sh *shard.Shard) ([]M, error) {
			q := models.Query{Property: p.Name, VectorVamana: &models.SearchVectorVamanaOptions{Vector: append([]float32{}, vec...), Operator: models.OperatorNear, Limit: limit, SearchSize: ss}}
			res, err := sh.SearchPoints(models.SearchRequest{Query: q, Limit: 100000})
			if err != nil {
				return nil, err
			}
			h, ok := r.hits(res, MetricScale(p.Metric))
			if !ok {
				return nil, fmt.Errorf("result without distance")
			}
			return h, nil
		}
		answers := make([][]M, k)
		errs := make([]error, k)
		var wg sync.WaitGroup
		start := make(chan struct{})
		for i := 0; i < k; i++ {
			wg.Add(1)
			go func(i int) {
				defer wg.Done()
				<-start
				answers[i], errs[i] = run(r.Shard)
			}(i)
		}
		close(start)
		wg.Wait()
		cold, done, err := r.ColdCopy()
		if err != nil {
			return err
		}
		ref, err := run(cold)
		done()
		if err != nil {
			r.obsErr("VamanaPair", err)
			continue
		}
		for i := range answers {
			if errs[i] != nil {
				r.obsErr("QuietBurst", errs[i])
				continue
			}
			r.TW.Emit("VamanaPair", M{"p": p.Name, "vec": avec, "limit": limit, "ss": ss, "a": answers[i], "b": ref, "what": "burst/single", "tol": tolFor(p.Metric), "quant": b2i(r.Cfg.Quantised)})
		}
	}
	return nil
}

type errString string

func (e errString) Error() string { return string(e) }
