package sd

import (
	"fmt"
	"math/rand"
	"sort"
	"strings"

	_ "github.com/blevesearch/bleve/v2/analysis/analyzer/standard"
	"github.com/blevesearch/bleve/v2/registry"
	"github.com/semafind/semadb/models"
)

// Prop is one indexed property of a configuration.
type Prop struct {
	Name   string // possibly dotted: "n.i"
	Type   string // models.IndexType*
	CS     bool   // case sensitive (string / stringArray)
	Metric string
	Dim    int
	Quant  *models.Quantizer
	// Vamana parameters
	SearchSize  int
	DegreeBound int
	Alpha       float32
}

func (p Prop) Fld() string { return strings.SplitN(p.Name, ".", 2)[0] }

func (p Prop) IsVector() bool {
	return p.Type == models.IndexTypeVectorFlat || p.Type == models.IndexTypeVectorVamana
}

// Config is one shard configuration.
type Config struct {
	Name      string
	Props     []Prop
	CacheSize int64   // -1 unlimited, 0 disabled, small positive = eviction
	Mem       bool    // in-memory backend
	MaxPoint  int     // UserPlan.MaxPointSize
	NoExtras  bool    // no unindexed fields
	NIDs      int     // size of the id universe (0 = MaxID)
	PNoData   float64 // share of inserted points that carry no data bytes at all
	NoUpdates bool    // write histories of insert and delete batches only
	RepeatUpd bool    // update batches may name a point twice
	VecRange  int     // vector components are drawn from -VecRange..VecRange (0 = 3)
	VecLine   bool    // components after the first are drawn from 0..6 only
	Quantised bool    // a trained quantiser decides the distances: only pair comparisons are judged
	PVec      float64 // probability that a vector property is present on insert (0 = as the others)
	// EmptyStrings: indexed string values are drawn uniformly, "" included
	EmptyStrings bool
	// BadTypes: now and then an indexed field carries a value of the wrong type
	BadTypes bool
	// RareEmpty: "" appears with probability 1/150 per indexed string value
	RareEmpty bool
}

// N is the size of the id universe of the configuration.
func (c Config) N() int {
	if c.NIDs > 0 {
		return c.NIDs
	}
	return MaxID
}

const (
	BigWeight  = 700
	LimitModel = 1100
)

func (c Config) Schema() models.IndexSchema {
	s := models.IndexSchema{}
	for _, p := range c.Props {
		v := models.IndexSchemaValue{Type: p.Type}
		switch p.Type {
		case models.IndexTypeString:
			v.String = &models.IndexStringParameters{CaseSensitive: p.CS}
		case models.IndexTypeStringArray:
			v.StringArray = &models.IndexStringArrayParameters{IndexStringParameters: models.IndexStringParameters{CaseSensitive: p.CS}}
		case models.IndexTypeText:
			v.Text = &models.IndexTextParameters{Analyser: "standard"}
		case models.IndexTypeVectorFlat:
			v.VectorFlat = &models.IndexVectorFlatParameters{VectorSize: uint(p.Dim), DistanceMetric: p.Metric, Quantizer: p.Quant}
		case models.IndexTypeVectorVamana:
			v.VectorVamana = &models.IndexVectorVamanaParameters{VectorSize: uint(p.Dim), DistanceMetric: p.Metric,
				SearchSize: p.SearchSize, DegreeBound: p.DegreeBound, Alpha: p.Alpha, Quantizer: p.Quant}
		}
		s[p.Name] = v
	}
	return s
}

// scale of logged distances per metric (integers in traces)
func MetricScale(metric string) int {
	if metric == models.DistanceJaccard {
		return 10000
	}
	return 1
}

// AbsSchema is the schema as the TLA+ model sees it.
func (c Config) AbsSchema() map[string]any {
	out := map[string]any{}
	for _, p := range c.Props {
		cs := 0
		if p.CS {
			cs = 1
		}
		m := map[string]any{"type": p.Type, "fld": p.Fld(), "cs": cs, "metric": "none", "scale": 1, "thr2": 1}
		if p.IsVector() {
			m["metric"] = p.Metric
			m["scale"] = MetricScale(p.Metric)
		}
		out[p.Name] = m
	}
	return out
}

// ---------------------------------------------------------------------------
// Text analysis through bleve's standard analyser (third party; the analyser
// the property takes as given). Terms are renamed w<k> so traces stay ASCII.

var analyserCache = registry.NewCache()
var termDict = map[string]int{}

func TermName(term string) string {
	k, ok := termDict[term]
	if !ok {
		k = len(termDict) + 1
		termDict[term] = k
	}
	return fmt.Sprintf("w%d", k)
}

// Analyse returns term frequencies (renamed) and the token count.
func Analyse(text string) (map[string]int, int) {
	an, err := analyserCache.AnalyzerNamed("standard")
	if err != nil {
		panic(err)
	}
	toks := an.Analyze([]byte(text))
	tf := map[string]int{}
	for _, t := range toks {
		tf[TermName(string(t.Term))]++
	}
	return tf, len(toks)
}

var TextPool = []string{
	"the quick brown fox",
	"quick quick quick fox",
	"The THE a an of",
	"!!! ... ???",
	"",
	"Hello, WORLD hello",
	"naïve café fox",
	"fox",
	"brown dog jumps over the lazy dog",
	"Quick BROWN dogs",
	"fox fox dog",
	"wizard gandalf the grey wizard",
	"brown",
}

var TextQueries = []string{
	"fox", "quick fox", "brown dog", "the", "the fox", "QUICK", "fox fox", "café", "gandalf wizard hello",
	"unknownterm", "dog lazy unknownterm", "!!!", "a an the", "hello world", "brown", "quick brown fox dog",
	// repeated query terms, adjacent and apart, in any case and with stop words between
	"fox dog fox", "Quick the brown QUICK", "dog fox brown dog fox", "wizard gandalf wizard unknownterm wizard", "fox, the FOX",
}

// ---------------------------------------------------------------------------
// Generation of documents: the real value and its abstraction side by side.

type GenDoc struct {
	Real models.PointAsMap
	Abs  map[string]any // field -> {c, ix, d, sz}
}

type Gen struct {
	R   *rand.Rand
	Cfg Config
	// ForceDelete: the next update document removes every indexed field
	ForceDelete bool
	// Last holds the real values of the indexed properties of the document
	// generated last (by property name)
	Last map[string]any
}

// Coordinates (degrees) used with the haversine metric.
var CoordPool = [][2]int{{0, 0}, {10, 20}, {-33, 151}, {51, 0}, {90, 0}, {-90, 0}, {0, 180}, {0, -180}, {45, -120}, {10, 21}}

func (g *Gen) vec(dim int, metric string) ([]float32, []int) {
	v := make([]float32, dim)
	a := make([]int, dim)
	switch metric {
	case models.DistanceHaversine:
		c := CoordPool[g.R.Intn(len(CoordPool))]
		return []float32{float32(c[0]), float32(c[1])}, []int{c[0], c[1]}
	case models.DistanceCosine:
		// unit vectors only: the index's cosine is 1 - dot, which is the
		// cosine distance exactly when both vectors have norm 1
		k := g.R.Intn(dim)
		sgn := 1 - 2*g.R.Intn(2)
		v[k] = float32(sgn)
		a[k] = sgn
		return v, a
	}
	for i := range v {
		var x int
		switch metric {
		case models.DistanceHamming, models.DistanceJaccard:
			x = g.R.Intn(2) // 0/1, thresholded at 0.5
			if g.R.Intn(8) == 0 {
				x = g.R.Intn(5) - 2
			}
		default:
			if g.Cfg.VecLine && i > 0 {
				// points along a line: long search paths in the graph
				x = g.R.Intn(7)
				break
			}
			vr := g.Cfg.VecRange
			if vr == 0 {
				vr = 3
			}
			x = g.R.Intn(2*vr+1) - vr
		}
		v[i] = float32(x)
		a[i] = x
	}
	return v, a
}

// pool index of an indexed string value; the empty string (pool entry 0) is
// rare unless EmptyStrings is set, because the pinned code rejects it on the
// file backend (known finding) and every rejection costs a batch.
func (g *Gen) strIdx() int {
	if g.Cfg.EmptyStrings {
		return g.R.Intn(len(StrPool))
	}
	if g.Cfg.RareEmpty && g.R.Intn(150) == 0 {
		return 0
	}
	return 1 + g.R.Intn(len(StrPool)-1)
}

// value for one property: real, abstract
func (g *Gen) propValue(p Prop) (any, any) {
	switch p.Type {
	case models.IndexTypeInteger:
		iv := IntLadder[g.R.Intn(len(IntLadder))]
		return iv.V, iv.Rank
	case models.IndexTypeFloat:
		fv := FloatLadder[g.R.Intn(len(FloatLadder))]
		return fv.V, fv.Rank
	case models.IndexTypeString:
		i := g.strIdx()
		return StrPool[i], i + 1
	case models.IndexTypeStringArray:
		if g.R.Intn(5) == 0 {
			// (one of the two arrays that read alike when joined; see derive)
			rs := append([]string{}, AlikeArrays[g.R.Intn(2)]...)
			return rs, []int{StrIdx(rs[0]), StrIdx(rs[1])}
		}
		n := g.R.Intn(4)
		rs := make([]string, n)
		as := make([]int, n)
		for k := 0; k < n; k++ {
			i := g.strIdx()
			rs[k] = StrPool[i]
			as[k] = i + 1
		}
		return rs, as
	case models.IndexTypeText:
		s := TextPool[g.R.Intn(len(TextPool))]
		tf, n := Analyse(s)
		return s, map[string]any{"tf": tf, "len": n}
	case models.IndexTypeVectorFlat, models.IndexTypeVectorVamana:
		v, a := g.vec(p.Dim, p.Metric)
		return v, a
	}
	panic("unknown type " + p.Type)
}

func (g *Gen) extra() any {
	switch g.R.Intn(8) {
	case 7:
		return nil // (an explicit null is a value like any other: stored, not a removal)
	case 0:
		return int64(g.R.Intn(5))
	case 1:
		return StrPool[g.R.Intn(len(StrPool))]
	case 2:
		return float64(g.R.Intn(4)) / 2
	case 3:
		return map[string]any{"k": []any{int64(1), "a"}, "m": map[string]any{"z": true}}
	case 4:
		return []any{int64(g.R.Intn(3)), "é", nil}
	case 5:
		return map[string]any{"k": "_delete", "l": []any{"_delete"}}
	default:
		return true
	}
}

var bigString = strings.Repeat("B", BigWeight)

// Doc generates a document. forUpdate: a partial document in which fields may
// carry the "_delete" marker. pInc = probability that a property is present.
func (g *Gen) Doc(forUpdate bool, pInc float64) GenDoc {
	return g.DocFrom(forUpdate, pInc, nil)
}

// derive builds a new value of property p from the value the point is believed
// to hold (generation bias only): arrays and texts are resampled with
// replacement from their own elements (same length), strings change case.
func (g *Gen) derive(p Prop, old any) (any, any, bool) {
	switch p.Type {
	case models.IndexTypeStringArray:
		o, ok := old.([]string)
		if !ok || len(o) < 2 {
			return nil, nil, false
		}
		for k, a := range AlikeArrays {
			if len(o) == 2 && o[0] == a[0] && o[1] == a[1] {
				// the other array with the same elements-joined-by-blanks reading: every element changes
				rs := append([]string{}, AlikeArrays[1-k]...)
				return rs, []int{StrIdx(rs[0]), StrIdx(rs[1])}, true
			}
		}
		rs := make([]string, len(o))
		as := make([]int, len(o))
		for i := range rs {
			rs[i] = o[g.R.Intn(len(o))]
			as[i] = StrIdx(rs[i])
		}
		return rs, as, true
	case models.IndexTypeText:
		o, ok := old.(string)
		ws := strings.Fields(o)
		if !ok || len(ws) < 2 {
			return nil, nil, false
		}
		n := len(ws) + g.R.Intn(3) - 1
		out := make([]string, n)
		for i := range out {
			out[i] = ws[g.R.Intn(len(ws))]
		}
		s := strings.Join(out, " ")
		tf, k := Analyse(s)
		return s, map[string]any{"tf": tf, "len": k}, true
	case models.IndexTypeVectorFlat, models.IndexTypeVectorVamana:
		// a vector related to the stored one: the same again, its negation, or one orthogonal to it
		// (dot product 0, i.e. "distance" 0 under the dot metric although the vector changed)
		o, ok := old.([]float32)
		if !ok || len(o) < 2 || (p.Metric != models.DistanceEuclidean && p.Metric != models.DistanceDot) {
			return nil, nil, false
		}
		rv := make([]float32, len(o))
		switch g.R.Intn(4) {
		case 0:
			copy(rv, o)
		case 1:
			for i := range o {
				rv[i] = -o[i]
			}
		default:
			rv[0], rv[1] = -o[1], o[0]
		}
		av := make([]int, len(o))
		for i := range rv {
			if rv[i] == 0 {
				rv[i] = 0 // (no negative zero)
			}
			av[i] = int(rv[i])
		}
		return rv, av, true
	case models.IndexTypeString:
		o, ok := old.(string)
		if !ok {
			return nil, nil, false
		}
		for _, c := range []string{strings.ToUpper(o), strings.ToLower(o)} {
			if c != o {
				for i, q := range StrPool {
					if q == c {
						return c, i + 1, true
					}
				}
			}
		}
	}
	return nil, nil, false
}

// DocFrom is Doc with the values the point is believed to hold (by property
// name), from which some of the new values are derived.
func (g *Gen) DocFrom(forUpdate bool, pInc float64, cur map[string]any) GenDoc {
	real := models.PointAsMap{}
	g.Last = map[string]any{}
	type fieldAbs struct {
		ix  map[string]any
		del bool
		sz  int
		bad bool // the value has the wrong type for the index on this field
	}
	abs := map[string]*fieldAbs{}
	get := func(f string) *fieldAbs {
		if a, ok := abs[f]; ok {
			return a
		}
		a := &fieldAbs{ix: map[string]any{}}
		abs[f] = a
		return a
	}
	// indexed properties, grouped by top-level field
	byFld := map[string][]Prop{}
	var flds []string
	for _, p := range g.Cfg.Props {
		if _, ok := byFld[p.Fld()]; !ok {
			flds = append(flds, p.Fld())
		}
		byFld[p.Fld()] = append(byFld[p.Fld()], p)
	}
	// a narrow update names a single top-level field (the others must stay as
	// they are, in the document and in every index)
	only := ""
	if forUpdate && !g.ForceDelete && len(flds) > 0 && g.R.Intn(3) == 0 {
		cands := append(append([]string{}, flds...), "x")
		only = cands[g.R.Intn(len(cands))]
		// (half of them name the parent of nested indexed paths, if the schema has one: no key of the request is
		// itself a schema key then)
		var parents []string
		for _, f := range flds {
			if strings.Contains(byFld[f][0].Name, ".") {
				parents = append(parents, f)
			}
		}
		if len(parents) > 0 && g.R.Intn(2) == 0 {
			only = parents[g.R.Intn(len(parents))]
		}
	}
	for _, f := range flds {
		if only != "" && f != only {
			continue
		}
		props := byFld[f]
		if forUpdate && (g.ForceDelete || g.R.Float64() < 0.2) {
			real[f] = "_delete"
			get(f).del = true
			continue
		}
		nested := strings.Contains(props[0].Name, ".")
		if !nested {
			pi := pInc
			if !forUpdate && props[0].IsVector() && g.Cfg.PVec > 0 {
				pi = g.Cfg.PVec
			}
			if g.Cfg.BadTypes && !g.Cfg.Mem && g.R.Intn(40) == 0 {
				// wrong type for the indexed field: the batch must be rejected
				switch props[0].Type {
				case models.IndexTypeString, models.IndexTypeText:
					real[f] = int64(5)
				default:
					real[f] = "oops"
				}
				get(f).bad = true
				continue
			}
			if g.R.Float64() < pi {
				rv, av := g.propValue(props[0])
				if old, ok := cur[props[0].Name]; ok && (g.R.Intn(3) == 0 || (props[0].IsVector() && g.R.Intn(2) == 0) || alikeArray(old)) {
					if dr, da, ok := g.derive(props[0], old); ok {
						rv, av = dr, da
					}
				}
				real[f] = rv
				get(f).ix[props[0].Name] = av
				g.Last[props[0].Name] = rv
			}
			continue
		}
		// nested field: a map holding some of the nested properties
		if g.R.Float64() < pInc {
			m := map[string]any{}
			fa := get(f)
			for _, p := range props {
				if g.R.Float64() < 0.75 {
					rv, av := g.propValue(p)
					if old, ok := cur[p.Name]; ok && g.R.Intn(3) == 0 {
						if dr, da, ok := g.derive(p, old); ok {
							rv, av = dr, da
						}
					}
					setNested(m, strings.Split(p.Name, ".")[1:], rv)
					fa.ix[p.Name] = av
					g.Last[p.Name] = rv
				}
			}
			if g.R.Intn(3) == 0 {
				m["other"] = g.extra()
			}
			real[f] = m
		}
	}
	if !g.Cfg.NoExtras {
		for _, f := range []string{"x", "y"} {
			if only != "" && f != only {
				continue
			}
			if g.R.Float64() < 0.4 {
				if g.R.Float64() < 0.25 {
					// on an update the marker removes the field; an insert
					// stores the string verbatim (the model ignores d on insert)
					real[f] = "_delete"
					get(f).del = true
				} else {
					real[f] = g.extra()
					get(f)
				}
			}
		}
		for _, f := range []string{"big1", "big2"} {
			if only == "" && g.R.Float64() < 0.12 && !g.Cfg.Mem {
				if forUpdate && g.R.Float64() < 0.3 {
					real[f] = "_delete"
					get(f).del = true
				} else {
					real[f] = bigString
					get(f).sz = BigWeight
				}
			}
		}
	}
	out := map[string]any{}
	for f, a := range abs {
		d := 0
		if a.del {
			d = 1
		}
		out[f] = map[string]any{"c": Canon(normalise(real[f])), "ix": a.ix, "d": d, "sz": a.sz, "bad": b2i(a.bad)}
	}
	return GenDoc{Real: real, Abs: out}
}

func setNested(m map[string]any, path []string, v any) {
	for i, s := range path {
		if i == len(path)-1 {
			m[s] = v
			return
		}
		nm, ok := m[s].(map[string]any)
		if !ok {
			nm = map[string]any{}
			m[s] = nm
		}
		m = nm
	}
}

// normalise converts named map types so Canon's type switch sees plain ones.
func normalise(v any) any {
	switch x := v.(type) {
	case models.PointAsMap:
		m := make(map[string]any, len(x))
		for k, e := range x {
			m[k] = normalise(e)
		}
		return m
	case map[string]any:
		m := make(map[string]any, len(x))
		for k, e := range x {
			m[k] = normalise(e)
		}
		return m
	case []any:
		o := make([]any, len(x))
		for i, e := range x {
			o[i] = normalise(e)
		}
		return o
	}
	return v
}

// VisibleOf canonicalises a decoded stored document field by field.
func VisibleOf(doc map[string]any) map[string]string {
	out := make(map[string]string, len(doc))
	for f, v := range doc {
		out[f] = Canon(normalise(v))
	}
	return out
}

func sortedKeys[V any](m map[string]V) []string {
	ks := make([]string, 0, len(m))
	for k := range m {
		ks = append(ks, k)
	}
	sort.Strings(ks)
	return ks
}

// alikeArray: the value is one of the two string arrays that read alike when joined (see derive).
func alikeArray(v any) bool {
	o, ok := v.([]string)
	if !ok || len(o) != 2 {
		return false
	}
	for _, a := range AlikeArrays {
		if o[0] == a[0] && o[1] == a[1] {
			return true
		}
	}
	return false
}
