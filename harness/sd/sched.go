package sd

import (
	"encoding/json"
	"fmt"
	"github.com/semafind/semadb/shard/index/vamana"
	"os"
	"strconv"
	"strings"
	"sync"
	"sync/atomic"
	"time"

	"github.com/semafind/semadb/diskstore"
	"github.com/semafind/semadb/models"
	"github.com/semafind/semadb/shard/cache"
	"github.com/vmihailenco/msgpack/v5"

	"verif/harness/gate"
	"verif/harness/proxy"
)

// Forced schedules for C09: behaviours of ShardCache.tla (readers r1 / r2, one
// writer w) are stepped through a real shard. Gates: the storage proxy (a read
// or write transaction has just been opened: "begin"; the write closure has
// returned: "precommit"; the storage transaction is over: "end"; a storage
// read inside a search: "op") and the hook-H2 yield points of the shared
// cache manager ("tryR" before a reader tries the lock, "wlock" before the
// writer takes it). The verdict never comes from the model's prediction: every
// search answer is logged with the number of write batches that were over when
// its storage transaction began, and TLC (ShardTrace.tla, CSearch) requires it
// to be exactly that version.

// SchedStep is one action of a behaviour: [action, reader-or-key] or, for a
// hand-written WBegin, [action, "", kind of the batch].
type SchedStep struct {
	Act  string
	Arg  string
	Kind string
}

type SchedBehaviour struct {
	Steps []SchedStep
}

// ReadSchedBehaviours reads {"hist": [[act, arg], ...]} per line.
func ReadSchedBehaviours(path string) ([]SchedBehaviour, error) {
	raw, err := os.ReadFile(path)
	if err != nil {
		return nil, err
	}
	var out []SchedBehaviour
	for _, line := range strings.Split(string(raw), "\n") {
		line = strings.TrimSpace(line)
		if line == "" {
			continue
		}
		var rec struct {
			Hist [][]string `json:"hist"`
		}
		if err := json.Unmarshal([]byte(line), &rec); err != nil {
			return nil, err
		}
		b := SchedBehaviour{}
		for _, h := range rec.Hist {
			st := SchedStep{Act: h[0]}
			if len(h) > 1 {
				st.Arg = h[1]
			}
			if len(h) > 2 {
				st.Kind = h[2]
			}
			b.Steps = append(b.Steps, st)
		}
		out = append(out, b)
	}
	return out, nil
}

type schedRun struct {
	r       *Runner
	sched   *gate.Sched
	px      *proxy.Store
	timeout time.Duration
	mu      sync.Mutex
	over    atomic.Int64        // write batches whose storage transaction is over
	snap    map[string]int64    // reader -> over at the moment its transaction began
	opGate  map[string]bool     // reader -> storage reads inside the search are gates
	found   map[string]*csearch // reader -> what it got
	query   map[string]models.Query
	ranked  map[string][]M // reader -> its ranked answer (graph searches)
	drift   []string
}

func (s *schedRun) note(f string, a ...any) { s.drift = append(s.drift, fmt.Sprintf(f, a...)) }

// advance releases the actor and waits until it parks again (returns the
// label), finishes ("done") or the timeout expires ("").
func (s *schedRun) advance(a string) string {
	s.sched.Release(a)
	w := s.sched.Wait(a, s.timeout)
	return w
}

func (s *schedRun) where(a string) string { return s.sched.Where(a) }

// RunSchedBehaviours replays behaviours one after the other on one shard file.
func (r *Runner) RunSchedBehaviours(behs []SchedBehaviour, stepTimeout time.Duration) (drifted int, err error) {
	if err := r.Open(0); err != nil {
		return 0, err
	}
	defer r.Close()
	// room in the file first (a commit that has to grow the memory map waits for every open
	// read transaction: the schedules park readers across commits), then something to search in
	mb := r.MaxBatch
	r.MaxBatch = 400
	big := r.GenInsertBatch()
	r.MaxBatch = mb
	r.Insert(big.Pts)
	var ids []int
	for _, p := range big.Pts {
		ids = append(ids, p.ID)
	}
	r.Delete(ids)
	for i := 0; i < 3; i++ {
		r.InsertBatch()
	}
	for bno, b := range behs {
		s := &schedRun{r: r, timeout: stepTimeout, snap: map[string]int64{}, opGate: map[string]bool{}, found: map[string]*csearch{}, query: map[string]models.Query{}, ranked: map[string][]M{}}
		if err := s.one(bno, b); err != nil {
			return drifted, err
		}
		if len(s.drift) > 0 {
			drifted++
		}
	}
	return drifted, nil
}

func (s *schedRun) one(bno int, b SchedBehaviour) error {
	r := s.r
	// the model starts without a shared cache object: cold caches
	if err := r.Reopen(); err != nil {
		return err
	}
	s.sched = gate.New()
	s.px = proxy.Wrap(r.Shard.VerifDB())
	r.Shard.VerifSetDB(s.px)
	defer r.Shard.VerifSetDB(s.px.Inner)
	base := int64(r.Batches)
	s.over.Store(base)
	s.px.OnBegin = func(write bool) {
		a := s.sched.Actor()
		if a == "" || (a == "w" && !write) { // (the writer's own read-back for the log is not part of the schedule)
			return
		}
		if !write {
			s.mu.Lock()
			s.snap[a] = s.over.Load()
			s.opGate[a] = true
			s.mu.Unlock()
		}
		s.sched.Yield(a, "begin")
	}
	s.px.OnPreCommit = func() {
		if a := s.sched.Actor(); a != "" {
			s.sched.Yield(a, "precommit")
		}
	}
	s.px.OnEnd = func(write bool, err error) {
		a := s.sched.Actor()
		if write {
			s.over.Add(1)
		}
		if a != "" && !(a == "w" && !write) {
			s.sched.Yield(a, "end")
		}
	}
	s.px.OnReadOp = func() {
		a := s.sched.Actor()
		if a == "" {
			return
		}
		s.mu.Lock()
		g := s.opGate[a]
		s.mu.Unlock()
		if g {
			s.sched.Yield(a, "op")
		}
	}
	cache.VerifYield = func(label string, name string, tx *cache.Transaction) {
		switch label {
		case "tryR":
			if a := s.sched.Actor(); a != "" {
				s.sched.Yield(a, "tryR")
				s.mu.Lock()
				s.opGate[a] = true
				s.mu.Unlock()
			}
		case "wlock":
			// called from a stage goroutine of the write pipeline (there is one writer) -- or, if a search
			// ever asked for a write lock, from the searcher itself
			if a := s.sched.Actor(); a != "" && a != "w" {
				s.sched.Yield(a, "wlock")
			} else {
				s.sched.Yield("w", "wlock")
			}
		}
	}
	defer func() { cache.VerifYield = nil }()
	// hook H6: a search is also held before every node expansion of its graph walk (a warm search does
	// no storage read before the back-fill of its answer)
	vamana.VerifSearchStep = func() {
		a := s.sched.Actor()
		if a == "" || a == "w" {
			return
		}
		s.mu.Lock()
		g := s.opGate[a]
		s.mu.Unlock()
		if g {
			s.sched.Yield(a, "op")
		}
	}
	defer func() { vamana.VerifSearchStep = nil }()
	r.staleRisk = false
	defer func() { r.staleRisk = false }()
	r.TW.Emit("Quiet", M{"what": "schedule", "b": bno, "steps": len(b.Steps)})
	actors := []string{}
	started := map[string]bool{}
	// does the writer's next batch commit or fail? (decided when it begins)
	nextWriterFails := func(from int) bool {
		for _, st := range b.Steps[from:] {
			if st.Act == "WFail" {
				return true
			}
			if st.Act == "WCommit" {
				return false
			}
		}
		return false
	}
	var vecProp *Prop
	for i := range r.Cfg.Props {
		if r.Cfg.Props[i].IsVector() {
			vecProp = &r.Cfg.Props[i]
			break
		}
	}
	if vecProp == nil {
		return fmt.Errorf("configuration without a vector property")
	}
	// the batches of the behaviour are generated up front: a search aims at a point of the batch that is
	// written next, so that a reader that ought not to see that batch would notice it
	// (a batch that begins while a search stands between its attach and its end is an insert batch with
	// vectors, and that search aims at one of its points: if the writer were let through, the search would
	// walk onto a node its snapshot does not have)
	var pending []Batch
	mid := map[int]bool{}
	delAim := map[int][]float32{}
	active := map[string]bool{}
	for _, st := range b.Steps {
		switch st.Act {
		case "RAttachNew", "RAttachShared":
			active[st.Arg] = true
		case "REnd":
			delete(active, st.Arg)
		case "WBegin":
			nb := r.GenBatch()
			for tries := 0; tries < 20 && len(nb.Pts) == 0 && len(nb.IDs) == 0; tries++ {
				nb = r.GenBatch()
			}
			switch {
			case st.Kind == "delete":
				mb := max(r.MaxBatch, 3)
				nb = Batch{Kind: "delete", IDs: r.pickIDs(1+r.R.Intn(mb), 1)}
				mid[len(pending)] = true
				for _, id := range nb.IDs {
					if v, ok := r.believedVals[id][vecProp.Name].([]float32); ok && len(v) == vecProp.Dim && r.believedLive[id] {
						delAim[len(pending)] = v
						break
					}
				}
			case st.Kind == "insert":
				nb = r.GenInsertBatch()
				mid[len(pending)] = true
			case len(active) > 0:
				mid[len(pending)] = true
				nb = r.GenInsertBatch()
			}
			pending = append(pending, nb)
		}
	}
	begun := 0
	startReader := func(a string) {
		rr := NewRunner(r.Cfg, int64(bno*7+len(a))+r.R.Int63n(1000), nil, r.Dir)
		vec, _ := rr.G.vec(vecProp.Dim, vecProp.Metric)
		if len(pending) > 0 && (r.R.Intn(4) != 0 || mid[min(begun, len(pending)-1)]) {
			// (a point the batch deletes: a search that ought to see the batch must not meet it any more)
			if v := delAim[min(begun, len(pending)-1)]; v != nil {
				vec = v
			}
			for _, pt := range pending[min(begun, len(pending)-1)].Pts {
				if v, ok := pt.Vals[vecProp.Name].([]float32); ok && len(v) == vecProp.Dim {
					vec = v
					if os.Getenv("VERIF_SCHED_DEBUG") != "" {
						fmt.Fprintf(os.Stderr, "b%d %s aims at %d\n", bno, a, pt.ID)
					}
					break
				}
			}
		}
		var q models.Query
		if vecProp.Type == models.IndexTypeVectorFlat {
			q = models.Query{Property: vecProp.Name, VectorFlat: &models.SearchVectorFlatOptions{Vector: vec, Operator: models.OperatorNear, Limit: 8}}
		} else {
			q = models.Query{Property: vecProp.Name, VectorVamana: &models.SearchVectorVamanaOptions{Vector: vec, Operator: models.OperatorNear, Limit: 8, SearchSize: 30}}
		}
		cs := &csearch{kind: "rank"}
		s.mu.Lock()
		s.found[a] = cs
		s.query[a] = q
		s.mu.Unlock()
		s.sched.Go(a, func() {
			res, err := r.Shard.SearchPoints(models.SearchRequest{Query: q, Select: []string{"*"}, Limit: 100})
			cs.b = s.over.Load()
			if err != nil {
				cs.err = err.Error()
				return
			}
			if h, ok := r.hits(res, MetricScale(vecProp.Metric)); ok {
				s.mu.Lock()
				s.ranked[a] = h
				s.mu.Unlock()
			}
			for _, sr := range res {
				var m map[string]any
				if len(sr.Data) > 0 {
					if e := msgpack.Unmarshal(sr.Data, &m); e != nil {
						cs.err = "decode: " + e.Error()
						return
					}
				} else if sr.DecodedData != nil {
					m = sr.DecodedData
				}
				cs.docs = append(cs.docs, M{"id": IDOf(sr.Id), "f": VisibleOf(m)})
			}
		})
		actors = append(actors, a)
		started[a] = true
	}
	for i, st := range b.Steps {
		switch st.Act {
		case "RBegin":
			startReader(st.Arg)
			if w := s.sched.Wait(st.Arg, s.timeout); w != "@begin" {
				s.note("%s after RBegin at %q", st.Arg, w)
			} else if bno%2 == 1 {
				// the model has no step between "transaction open" and "attached"; the code looks the cache
				// object up first and tries its lock later: in every other behaviour the look-up happens now
				if w := s.advance(st.Arg); w != "@tryR" && w != "@op" && w != "@end" {
					s.note("%s after look-up at %q", st.Arg, w)
				}
			}
		case "RAttachNew", "RAttachShared", "RAttachCold":
			a := st.Arg
			s.mu.Lock()
			if s.snap[a] != s.over.Load() || (started["w"] && s.where("w") != "done") {
				r.staleRisk = true
			}
			s.mu.Unlock()
			if s.where(a) == "@tryR" {
				s.advance(a)
			} else if s.where(a) == "@begin" {
				// (an access that creates the cache object passes no lock gate)
				if w := s.advance(a); w == "@tryR" {
					s.advance(a) // attach; parks at the first storage read of the search, or at the end
				}
			} else if !(st.Act == "RAttachNew" && s.where(a) == "@op") { // (already reading for the object it creates)
				s.note("%s: attach step but actor at %q", a, s.where(a))
			}
		case "RGetShared", "RGetCold":
			a := st.Arg
			if s.where(a) == "@op" {
				s.advance(a)
			}
		case "Pause":
			// hand-written schedules: everybody stays where they are for so many milliseconds
			if ms, err := strconv.Atoi(st.Kind); err == nil {
				time.Sleep(time.Duration(ms) * time.Millisecond)
			}
		case "RUntil":
			// hand-written schedules: the reader moves on, gate by gate, until it stands inside the named function
			a := st.Arg
			for n := 0; n < 400 && !s.parkedIn(a, st.Kind); n++ {
				if w := s.where(a); w == "done" || w == "" || w == "@end" {
					s.note("%s never stood in %s (at %q)", a, st.Kind, w)
					break
				}
				s.advance(a)
			}
		case "REnd":
			a := st.Arg
			s.mu.Lock()
			s.opGate[a] = false
			s.mu.Unlock()
			for n := 0; n < 400 && started[a]; n++ {
				w := s.where(a)
				if w == "done" {
					break
				}
				if w == "@end" {
					s.advance(a)
					break
				}
				if w != "" {
					s.advance(a)
					continue
				}
				// running, or waiting for a mutex that another search holds while it is parked inside a storage
				// read (item caches read through under their lock, a node's neighbours are loaded under the
				// node's): that search moves on by one gate, this one may overtake it in the gap
				if w = s.sched.Wait(a, 50*time.Millisecond); w != "" {
					continue
				}
				nudged := false
				for _, o := range []string{"r1", "r2", "r3"} {
					if o != a && started[o] && s.where(o) == "@op" {
						s.advance(o)
						nudged = true
						break
					}
				}
				if !nudged {
					break
				}
			}
			// searches never wait for a writer: the search must be over now, whatever the writer holds
			// (waiting for the manager's mutex does not count: another search that is creating the cache object
			// holds it while it reads from storage, and may be parked there by this very schedule)
			if started[a] {
				if w := s.sched.Wait(a, s.timeout/3); w != "done" {
					blocked := gate.BlockedOnLock(gate.Dump(), s.sched.GoIDs())[a]
					if strings.Contains(blocked, "RWMutex") {
						r.TW.Emit("Err", M{"what": "SearchBlocked", "err": errStr(fmt.Errorf("search %s waits on a lock while the writer is at %q: %s", a, s.where("w"), blocked)), "a": 0, "b": 0})
					} else {
						s.note("%s not done after REnd (%q)", a, w)
					}
				}
			}
			// no write batch in this behaviour so far: the answer of a graph search is a function of the
			// persisted graph, whatever other searches do to the shared cache meanwhile; it is compared
			// at once (the rest of the schedule may be the one of known finding C09-a) with a single search
			// on a cold copy of the file
			// (the same once every write batch of the behaviour is over and the search began after the last one:
			// its snapshot is the committed state, which is also what the copy of the file holds; not in the history
			// of known finding C09-c)
			s.mu.Lock()
			quiet := begun == 0 || ((!started["w"] || s.where("w") == "done") && s.snap[a] == s.over.Load() && !r.staleRisk)
			s.mu.Unlock()
			if quiet && started[a] && s.where(a) == "done" && vecProp.Type == models.IndexTypeVectorVamana && !r.Cfg.Mem {
				s.mu.Lock()
				mine, ok := s.ranked[a]
				q := s.query[a]
				s.mu.Unlock()
				if ok {
					if cold, done, err := r.ColdCopy(); err == nil {
						qc := q
						vv := *q.VectorVamana
						vv.Vector = append([]float32{}, vv.Vector...)
						qc.VectorVamana = &vv
						res, err := cold.SearchPoints(models.SearchRequest{Query: qc, Limit: 100})
						done()
						if ref, ok := r.hits(res, MetricScale(vecProp.Metric)); err == nil && ok {
							r.TW.Emit("VamanaPair", M{"p": vecProp.Name, "vec": absVec(vv.Vector), "limit": vv.Limit, "ss": vv.SearchSize, "a": mine, "b": ref,
								"what": "forced/single", "tol": tolFor(vecProp.Metric), "quant": b2i(r.Cfg.Quantised)})
							r.TW.Flush()
						}
					}
				}
			}
		case "WBegin":
			batch := pending[min(begun, len(pending)-1)]
			begun++
			if started["w"] && s.where("w") != "done" {
				s.note("WBegin while the previous batch is still running (skipped)")
				break
			}
			fails := nextWriterFails(i + 1)
			s.sched.Go("w", func() {
				// (plan and Fault line from the writer itself: they stay next to its write event in the log)
				if fails {
					s.px.SetPlan(proxy.Plan{FailCommit: true})
					r.TW.Emit("Fault", M{"kind": "failcommit", "k": 0, "commit": 1})
				} else {
					s.px.SetPlan(proxy.Plan{})
				}
				before := s.over.Load()
				r.Apply(batch)
				if s.over.Load() == before {
					// refused before a storage transaction was opened (e.g. an id twice in the batch): the log
					// still has a write line for it, and versions are counted in write lines
					s.over.Add(1)
				}
				s.px.SetPlan(proxy.Plan{})
			})
			if !started["w"] {
				actors = append(actors, "w")
				started["w"] = true
			}
			if w := s.sched.Wait("w", s.timeout); w != "@begin" {
				s.note("w after WBegin at %q", w)
			}
		case "WAttach":
			if s.where("w") == "@begin" {
				if w := s.advance("w"); w == "@wlock" {
					w2 := s.advance("w") // lock taken, the pipeline runs to the end of the closure
					if os.Getenv("VERIF_SCHED_DEBUG") != "" {
						fmt.Fprintf(os.Stderr, "b%d WAttach: w at %q, readers %v\n", bno, w2, map[string]string{"r1": s.where("r1"), "r2": s.where("r2")})
					}
				}
			}
		case "WPut":
		case "WCommit", "WFail":
			seen := []string{}
			for n := 0; n < 6; n++ {
				w := s.sched.Wait("w", s.timeout)
				seen = append(seen, w)
				if w == "done" || w == "" {
					break
				}
				s.sched.Release("w")
			}
			if w := s.sched.Wait("w", s.timeout); w != "done" {
				s.note("w not done after %s (%v)", st.Act, seen)
			}
		case "Evict":
			// (a reader that is creating the cache object holds the manager's lock while it reads from
			// storage and may be parked there: the eviction then happens as soon as it moves on)
			evicted := make(chan struct{})
			go func() { r.CM.Release(r.DBFile); close(evicted) }()
			select {
			case <-evicted:
			case <-time.After(s.timeout / 3):
				s.note("evict waits for the manager lock")
			}
		}
	}
	s.sched.FreeRun()
	if pending := s.sched.AllDone(actors, 4*s.timeout+time.Second); len(pending) > 0 {
		r.TW.Emit("Err", M{"what": "ScheduleStuck", "err": errStr(fmt.Errorf("%v did not return", pending)), "a": 0, "b": 0})
		return fmt.Errorf("actors %v did not return (goroutine dump follows)\n%s", pending, gate.Dump())
	}
	// the sequential read-back (every stored point, through a fresh transaction)
	r.Get(r.allIDs())
	// the answers, each with the version its storage transaction saw
	for _, a := range []string{"r1", "r2", "r3"} {
		cs, ok := s.found[a]
		if !ok {
			continue
		}
		snap := s.snap[a]
		if cs.err != "" {
			// (risk: in this behaviour a search created or attached the shared cache object with a snapshot older
			// than the newest commit or while a batch was open, the history of known finding C09-c; nx: the
			// search met a node that its snapshot does not have)
			r.TW.Emit("Err", M{"what": "ConcurrentSearch/" + cs.kind, "err": errStr(errString(cs.err)), "a": snap, "b": cs.b,
				"risk": b2i(r.staleRisk), "nx": b2i(strings.Contains(cs.err, "does not exist") || strings.Contains(cs.err, "not found"))})
			continue
		}
		r.TW.Emit("CSearch", M{"a": snap, "b": snap, "kind": cs.kind, "docs": cs.docs, "who": 0, "sel": []string{}, "forced": 1})
	}
	if len(s.drift) > 0 {
		r.TW.Emit("Quiet", M{"what": "drift", "notes": strings.Join(s.drift, "; ")})
	}
	return nil
}

var _ diskstore.DiskStore = (*proxy.Store)(nil)

// parkedIn reports whether the actor's goroutine currently has fn on its stack.
func (s *schedRun) parkedIn(a, fn string) bool {
	dump := gate.Dump()
	for id, name := range s.sched.GoIDs() {
		if name != a {
			continue
		}
		hdr := fmt.Sprintf("goroutine %d [", id)
		i := strings.Index(dump, hdr)
		if i < 0 {
			continue
		}
		block := dump[i:]
		if j := strings.Index(block, "\n\n"); j >= 0 {
			block = block[:j]
		}
		all := true
		for _, part := range strings.Split(fn, "+") {
			all = all && strings.Contains(block, part)
		}
		if all {
			return true
		}
	}
	return false
}

// absVec: the integer form of a generated query vector (generated vectors have integer coordinates)
func absVec(v []float32) []int {
	out := make([]int, len(v))
	for i, x := range v {
		out[i] = int(x)
	}
	return out
}
