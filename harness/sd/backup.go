package sd

import (
	"crypto/sha256"
	"fmt"
	"os"
	"path/filepath"
	"sort"
	"strconv"
	"strings"
	"time"

	"github.com/semafind/semadb/models"
	"github.com/semafind/semadb/shard"
	"github.com/semafind/semadb/shard/cache"
	"github.com/vmihailenco/msgpack/v5"
)

// digest of everything a shard holds: ids and canonical documents in id order.
func (r *Runner) digestOf(sh *shard.Shard) (string, error) {
	res, err := sh.SearchPoints(models.SearchRequest{Query: idQuery(r.allIDs()), Select: []string{"*"}, Limit: 1000000})
	if err != nil {
		return "", err
	}
	lines := make([]string, 0, len(res))
	for _, sr := range res {
		m := map[string]any(sr.DecodedData)
		if m == nil && len(sr.Data) > 0 {
			if err := msgpack.Unmarshal(sr.Data, &m); err != nil {
				return "", err
			}
		}
		vis := VisibleOf(m)
		keys := make([]string, 0, len(vis))
		for k := range vis {
			keys = append(keys, k)
		}
		sort.Strings(keys)
		var sb strings.Builder
		fmt.Fprintf(&sb, "%05d", IDOf(sr.Id))
		for _, k := range keys {
			fmt.Fprintf(&sb, "|%s=%s", k, vis[k])
		}
		lines = append(lines, sb.String())
	}
	sort.Strings(lines)
	h := sha256.Sum256([]byte(strings.Join(lines, "\n")))
	return fmt.Sprintf("n%d-%x", len(lines), h[:8]), nil
}

// RunBackupHistory interleaves write batches, pauses and Shard.Backup calls and
// logs the backup files with the content each one holds (BackupTrace.tla).
func (r *Runner) RunBackupHistory(histNo, freq, count, steps int) error {
	if err := r.Open(histNo); err != nil {
		return err
	}
	defer r.Close()
	base := time.Now().Unix() - 1
	rel := func() int { return int(time.Now().Unix() - base) }
	d, err := r.digestOf(r.Shard)
	if err != nil {
		return err
	}
	r.TW.Emit("BReset", M{"freq": freq, "count": count, "dig": d})
	dir := filepath.Dir(r.DBFile)
	defer func() {
		if fs, _ := filepath.Glob(filepath.Join(dir, "*.backup")); fs != nil {
			for _, f := range fs {
				os.Remove(f)
			}
		}
	}()
	for s := 0; s < steps; s++ {
		switch x := r.R.Intn(10); {
		case x < 5:
			b := r.GenBatch()
			werr := r.Apply(b)
			d, err := r.digestOf(r.Shard)
			if err != nil {
				return err
			}
			r.TW.Emit("BWrite", M{"ok": b2i(werr == nil), "dig": d, "kind": b.Kind})
		case x < 7:
			time.Sleep(time.Duration(200+r.R.Intn(1200)) * time.Millisecond)
		default:
			t0 := rel()
			berr := r.Shard.Backup(freq, count)
			t1 := rel()
			fs, _ := filepath.Glob(filepath.Join(dir, "*.backup"))
			sort.Strings(fs)
			files := []M{}
			for _, f := range fs {
				ts, perr := strconv.ParseInt(strings.Split(filepath.Base(f), "-")[0], 10, 64)
				if perr != nil {
					return perr
				}
				// what the file holds: open a copy of it as a shard
				tmp := f + ".open"
				if err := copyFile(f, tmp); err != nil {
					return err
				}
				bs, oerr := shard.NewShard(tmp, r.Col, cache.NewManager(0))
				dig := "unreadable"
				if oerr == nil {
					if dd, derr := r.digestOf(bs); derr == nil {
						dig = dd
					}
					bs.Close()
				}
				os.Remove(tmp)
				files = append(files, M{"t": int(ts - base), "dig": dig})
			}
			r.TW.Emit("BBackup", M{"t0": t0, "t1": t1, "err": b2i(berr != nil), "files": files})
		}
	}
	return nil
}
