// Package sd holds the shard-level drivers: they run histories against a real
// shard.Shard and log one ndjson event per ShardTrace.tla action.
package sd

import (
	"bytes"
	"fmt"
	"math"
	"sort"
	"strconv"
	"strings"

	"github.com/google/uuid"
)

// ---------------------------------------------------------------------------
// Point ids: small integers <-> fixed UUIDs

const MaxID = 12 // default size of the id universe (Config.NIDs overrides)

// Two ids of the universe are the boundary values of the id space: id 3 is the
// all-zero UUID (the zero value of the type: whatever the code produces by
// accident), id 4 the all-ones UUID.
const (
	zeroID = 3
	maxID  = 4
)

func UUIDOf(i int) uuid.UUID {
	var u uuid.UUID
	switch i {
	case zeroID:
		return uuid.Nil
	case maxID:
		return uuid.Max
	}
	// scatter the bytes so that byte order differs from integer order
	u[0] = byte(0xA0 - 7*i)
	u[6] = 0x40
	u[8] = 0x80
	u[14] = byte(i >> 8)
	u[15] = byte(i)
	return u
}

func IDOf(u uuid.UUID) int {
	switch u {
	case uuid.Nil:
		return zeroID
	case uuid.Max:
		return maxID
	}
	return int(u[14])<<8 | int(u[15])
}

// ---------------------------------------------------------------------------
// Ladders. Rank order = numeric order; IEEE-equal values share a rank.

type IntVal struct {
	V    int64
	Rank int
}

var IntLadder = func() []IntVal {
	vs := []int64{math.MinInt64, math.MinInt64 + 1, -1 << 53, -1000, -2, -1, 0, 1, 2, 7, 1000, 1 << 53, math.MaxInt64 - 1, math.MaxInt64}
	out := make([]IntVal, len(vs))
	for i, v := range vs {
		out[i] = IntVal{v, i + 1}
	}
	return out
}()

type FloatVal struct {
	V    float64
	Rank int
}

var FloatLadder = func() []FloatVal {
	negZero := math.Copysign(0, -1)
	vs := []float64{math.Inf(-1), -math.MaxFloat64, -1e10, -1.5, -1, -math.SmallestNonzeroFloat64,
		negZero, 0, math.SmallestNonzeroFloat64, 0.5, 1, 1.5, 1e10, math.MaxFloat64, math.Inf(1)}
	out := make([]FloatVal, len(vs))
	r := 0
	for i, v := range vs {
		if i == 0 || v != vs[i-1] { // -0.0 == 0.0: same rank
			r++
		}
		out[i] = FloatVal{v, r}
	}
	return out
}()

// ---------------------------------------------------------------------------
// String pool (closed under strings.ToLower; all entries distinct). 1-based
// indices in traces.

var StrPool = []string{"", "a", "A", "ab", "aB", "AB", "abc", "ABC", "b", "B", "ba", "é", "É", "éa", "z", "Z", "~", "a b", "b ab"}

// Two string arrays that read alike when their elements are joined by blanks: ["a", "b ab"] and ["a b", "ab"].
var AlikeArrays = [2][]string{{"a", "b ab"}, {"a b", "ab"}}

func init() {
	seen := map[string]bool{}
	for _, s := range StrPool {
		if seen[s] {
			panic("duplicate pool entry " + strconv.Quote(s))
		}
		seen[s] = true
	}
	for _, s := range StrPool {
		if !seen[strings.ToLower(s)] {
			panic("pool not closed under ToLower: " + strconv.Quote(s))
		}
	}
}

func StrIdx(s string) int {
	for i, p := range StrPool {
		if p == s {
			return i + 1
		}
	}
	panic("string not in pool: " + strconv.Quote(s))
}

// PoolRelations computes, with the Go standard library only, the relations the
// TLA+ model needs: lower[i], less[i][j] (byte order), prefix[i][j] (i is a
// prefix of j), and the log table for tf-idf.
func PoolRelations(nmax int) map[string]any {
	n := len(StrPool)
	lower := make([]int, n)
	less := make([][]int, n)
	prefix := make([][]int, n)
	for i, a := range StrPool {
		lower[i] = StrIdx(strings.ToLower(a))
		less[i] = make([]int, n)
		prefix[i] = make([]int, n)
		for j, b := range StrPool {
			if bytes.Compare([]byte(a), []byte(b)) < 0 {
				less[i][j] = 1
			}
			if strings.HasPrefix(b, a) {
				prefix[i][j] = 1
			}
		}
	}
	// log[n][k] = round(1e5*log10(n/k)), 1<=n<=nmax, 1<=k<=nmax+1 (text corpora
	// are only judged on small id universes: the table is capped)
	if nmax > 40 {
		nmax = 40
	}
	lg := make([][]int, nmax)
	for a := 1; a <= nmax; a++ {
		lg[a-1] = make([]int, nmax+1)
		for k := 1; k <= nmax+1; k++ {
			lg[a-1][k-1] = int(math.Round(1e5 * math.Log10(float64(a)/float64(k))))
		}
	}
	return map[string]any{"lower": lower, "less": less, "prefix": prefix, "log": lg, "empty": StrIdx(""), "hav": havTable()}
}

// ---------------------------------------------------------------------------
// Canonical JSON of arbitrary (decoded) values: pure ASCII, type-preserving
// (integers "i..", floats "f<hex bits of the float64 value>").

func Canon(v any) string {
	var sb strings.Builder
	canon(&sb, v)
	return sb.String()
}

func canon(sb *strings.Builder, v any) {
	switch x := v.(type) {
	case nil:
		sb.WriteString("null")
	case bool:
		sb.WriteString(strconv.FormatBool(x))
	case int:
		sb.WriteString("i" + strconv.FormatInt(int64(x), 10))
	case int8:
		sb.WriteString("i" + strconv.FormatInt(int64(x), 10))
	case int16:
		sb.WriteString("i" + strconv.FormatInt(int64(x), 10))
	case int32:
		sb.WriteString("i" + strconv.FormatInt(int64(x), 10))
	case int64:
		sb.WriteString("i" + strconv.FormatInt(x, 10))
	case uint:
		sb.WriteString("i" + strconv.FormatUint(uint64(x), 10))
	case uint8:
		sb.WriteString("i" + strconv.FormatUint(uint64(x), 10))
	case uint16:
		sb.WriteString("i" + strconv.FormatUint(uint64(x), 10))
	case uint32:
		sb.WriteString("i" + strconv.FormatUint(uint64(x), 10))
	case uint64:
		sb.WriteString("i" + strconv.FormatUint(x, 10))
	case float32:
		sb.WriteString("f" + strconv.FormatUint(math.Float64bits(float64(x)), 16))
	case float64:
		sb.WriteString("f" + strconv.FormatUint(math.Float64bits(x), 16))
	case string:
		sb.WriteString(strconv.QuoteToASCII(x))
	case []byte:
		sb.WriteString("b" + fmt.Sprintf("%x", x))
	case []any:
		sb.WriteByte('[')
		for i, e := range x {
			if i > 0 {
				sb.WriteByte(',')
			}
			canon(sb, e)
		}
		sb.WriteByte(']')
	case []float32:
		sb.WriteByte('[')
		for i, e := range x {
			if i > 0 {
				sb.WriteByte(',')
			}
			canon(sb, e)
		}
		sb.WriteByte(']')
	case []string:
		sb.WriteByte('[')
		for i, e := range x {
			if i > 0 {
				sb.WriteByte(',')
			}
			canon(sb, e)
		}
		sb.WriteByte(']')
	case map[string]any:
		keys := make([]string, 0, len(x))
		for k := range x {
			keys = append(keys, k)
		}
		sort.Strings(keys)
		sb.WriteByte('{')
		for i, k := range keys {
			if i > 0 {
				sb.WriteByte(',')
			}
			sb.WriteString(strconv.QuoteToASCII(k))
			sb.WriteByte(':')
			canon(sb, x[k])
		}
		sb.WriteByte('}')
	default:
		panic(fmt.Sprintf("canon: unsupported type %T", v))
	}
}

// haversine reference (float64, from the textbook formula; independent of the
// code under test): distances in metres between all pairs of CoordPool.
func havRef(a, b [2]int) float64 {
	const rad = math.Pi / 180
	const R = 6371000.0
	la1, lo1, la2, lo2 := float64(a[0])*rad, float64(a[1])*rad, float64(b[0])*rad, float64(b[1])*rad
	sa, so := math.Sin((la1-la2)/2), math.Sin((lo1-lo2)/2)
	h := sa*sa + math.Cos(la1)*math.Cos(la2)*so*so
	return 2 * R * math.Asin(math.Sqrt(h))
}

func havTable() []map[string]any {
	var out []map[string]any
	for _, a := range CoordPool {
		for _, b := range CoordPool {
			out = append(out, map[string]any{"a": []int{a[0], a[1]}, "b": []int{b[0], b[1]}, "d": int(math.Round(havRef(a, b)))})
		}
	}
	return out
}
