package sd

import (
	"github.com/semafind/semadb/models"
)

// Q is a query in both forms: the real request and its abstraction.
type Q struct {
	Real models.Query
	Abs  M
}

var numOps = []string{models.OperatorEquals, models.OperatorNotEquals, models.OperatorGreaterThan,
	models.OperatorGreaterOrEq, models.OperatorLessThan, models.OperatorLessOrEq}
var strOps = append(append([]string{}, numOps...), models.OperatorStartsWith)

func leaf(p string, op string, v, e any) M {
	return M{"k": "leaf", "p": p, "op": op, "v": v, "e": e}
}

func (q Q) valid(schema models.IndexSchema) bool {
	return q.Real.Validate() == nil && q.Real.ValidateSchema(schema) == nil
}

// LeafQueries enumerates every operator x every ladder / pool value (and every
// end value for inRange) for the scalar properties of the configuration.
func (c Config) LeafQueries() []Q {
	schema := c.Schema()
	var out []Q
	add := func(q Q) {
		if q.valid(schema) {
			out = append(out, q)
		}
	}
	for _, p := range c.Props {
		switch p.Type {
		case models.IndexTypeInteger:
			for _, a := range IntLadder {
				for _, op := range numOps {
					add(Q{models.Query{Property: p.Name, Integer: &models.SearchIntegerOptions{Value: a.V, Operator: op}}, leaf(p.Name, op, a.Rank, a.Rank)})
				}
				for _, b := range IntLadder {
					add(Q{models.Query{Property: p.Name, Integer: &models.SearchIntegerOptions{Value: a.V, EndValue: b.V, Operator: models.OperatorInRange}},
						leaf(p.Name, models.OperatorInRange, a.Rank, b.Rank)})
				}
			}
		case models.IndexTypeFloat:
			for _, a := range FloatLadder {
				for _, op := range numOps {
					add(Q{models.Query{Property: p.Name, Float: &models.SearchFloatOptions{Value: a.V, Operator: op}}, leaf(p.Name, op, a.Rank, a.Rank)})
				}
				for _, b := range FloatLadder {
					add(Q{models.Query{Property: p.Name, Float: &models.SearchFloatOptions{Value: a.V, EndValue: b.V, Operator: models.OperatorInRange}},
						leaf(p.Name, models.OperatorInRange, a.Rank, b.Rank)})
				}
			}
		case models.IndexTypeString:
			for i, a := range StrPool {
				for _, op := range strOps {
					add(Q{models.Query{Property: p.Name, String: &models.SearchStringOptions{Value: a, Operator: op}}, leaf(p.Name, op, i+1, i+1)})
				}
				for j, b := range StrPool {
					add(Q{models.Query{Property: p.Name, String: &models.SearchStringOptions{Value: a, EndValue: b, Operator: models.OperatorInRange}},
						leaf(p.Name, models.OperatorInRange, i+1, j+1)})
				}
			}
		case models.IndexTypeStringArray:
			// singletons and pairs
			for i, a := range StrPool {
				for _, op := range []string{models.OperatorContainsAll, models.OperatorContainsAny} {
					add(Q{models.Query{Property: p.Name, StringArray: &models.SearchStringArrayOptions{Value: []string{a}, Operator: op}},
						leaf(p.Name, op, []int{i + 1}, []int{})})
					for j := i + 1; j < len(StrPool); j += 3 {
						add(Q{models.Query{Property: p.Name, StringArray: &models.SearchStringArrayOptions{Value: []string{a, StrPool[j]}, Operator: op}},
							leaf(p.Name, op, []int{i + 1, j + 1}, []int{})})
					}
				}
			}
		}
	}
	return out
}

// copyQuery deep-copies the parts of a query the index code may mutate (the
// string-array index lower-cases the query slice in place).
func copyQuery(q models.Query) models.Query {
	c := q
	if q.StringArray != nil {
		sa := *q.StringArray
		sa.Value = append([]string{}, q.StringArray.Value...)
		c.StringArray = &sa
	}
	if len(q.And) > 0 {
		c.And = make([]models.Query, len(q.And))
		for i := range q.And {
			c.And[i] = copyQuery(q.And[i])
		}
	}
	if len(q.Or) > 0 {
		c.Or = make([]models.Query, len(q.Or))
		for i := range q.Or {
			c.Or[i] = copyQuery(q.Or[i])
		}
	}
	if q.VectorFlat != nil && q.VectorFlat.Filter != nil {
		vf := *q.VectorFlat
		fc := copyQuery(*q.VectorFlat.Filter)
		vf.Filter = &fc
		c.VectorFlat = &vf
	}
	if q.VectorVamana != nil && q.VectorVamana.Filter != nil {
		vf := *q.VectorVamana
		fc := copyQuery(*q.VectorVamana.Filter)
		vf.Filter = &fc
		c.VectorVamana = &vf
	}
	if q.Text != nil && q.Text.Filter != nil {
		vf := *q.Text
		fc := copyQuery(*q.Text.Filter)
		vf.Filter = &fc
		c.Text = &vf
	}
	return c
}

// RandomTree builds a nested _and/_or tree over the leaf pool plus _id leaves.
func (r *Runner) RandomTree(leaves []Q, depth int) Q {
	if depth == 0 || r.R.Intn(4) == 0 {
		if r.R.Intn(6) == 0 {
			ids := r.pickIDs(1+r.R.Intn(4), 0.6)
			return Q{idQuery(ids), M{"k": "id", "ids": ids}}
		}
		return leaves[r.R.Intn(len(leaves))]
	}
	n := 1 + r.R.Intn(3)
	subs := make([]Q, n)
	for i := range subs {
		subs[i] = r.RandomTree(leaves, depth-1)
	}
	reals := make([]models.Query, n)
	abss := make([]M, n)
	for i, s := range subs {
		reals[i] = s.Real
		abss[i] = s.Abs
	}
	if r.R.Intn(2) == 0 {
		return Q{models.Query{Property: "_and", And: reals}, M{"k": "and", "sub": abss}}
	}
	return Q{models.Query{Property: "_or", Or: reals}, M{"k": "or", "sub": abss}}
}

// Filter evaluates one filter query on the real shard and logs the answer.
func (r *Runner) Filter(q Q) {
	res, err := r.Shard.SearchPoints(models.SearchRequest{Query: copyQuery(q.Real), Limit: 100000})
	if err != nil {
		r.obsErr("Filter", err)
		return
	}
	ids := make([]int, len(res))
	for i, sr := range res {
		ids[i] = IDOf(sr.Id)
	}
	r.TW.Emit("Filter", M{"q": q.Abs, "ids": ids})
}

// FilterPanel: every leaf query (or a sample of them) plus random trees.
func (r *Runner) FilterPanel(leaves []Q, sample int, trees int) {
	if len(leaves) == 0 {
		return
	}
	if sample <= 0 || sample >= len(leaves) {
		for _, q := range leaves {
			r.Filter(q)
		}
	} else {
		for i := 0; i < sample; i++ {
			r.Filter(leaves[r.R.Intn(len(leaves))])
		}
	}
	for i := 0; i < trees; i++ {
		r.Filter(r.RandomTree(leaves, 3))
	}
}

// WideProbe: composite filters with many sub-queries of equal cost (the
// sub-queries of one request are evaluated side by side and their answers
// merged): k requests, each an _and or an _or of 16..64 leaves.
func (r *Runner) WideProbe(leaves []Q, k int) {
	if len(leaves) == 0 {
		return
	}
	for i := 0; i < k; i++ {
		n := 16 + r.R.Intn(49)
		reals := make([]models.Query, n)
		abss := make([]M, n)
		// (an _and of many random leaves is almost always empty: its leaves come from a few that match a lot)
		and := r.R.Intn(3) == 0
		pool := leaves
		if and {
			pool = make([]Q, 0, 4)
			for j := 0; j < 4; j++ {
				pool = append(pool, leaves[r.R.Intn(len(leaves))])
			}
		}
		for j := range reals {
			q := pool[r.R.Intn(len(pool))]
			reals[j] = copyQuery(q.Real)
			abss[j] = q.Abs
		}
		if and {
			r.Filter(Q{models.Query{Property: "_and", And: reals}, M{"k": "and", "sub": abss}})
		} else {
			r.Filter(Q{models.Query{Property: "_or", Or: reals}, M{"k": "or", "sub": abss}})
		}
	}
}
