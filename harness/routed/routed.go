// Package routed drives the real cluster.RendezvousHash for property C13
// (routing is a deterministic, order-independent, minimally disruptive
// function) and records what it returned, for validation by RoutingTrace.tla.
//
// The driver decides nothing.  Per key it logs
//   - the answers of the REAL function for a base server list (several topK),
//     for re-arrangements of that list, for every list with one more server
//     and for every list with one server less, and
//   - as an independent fact, the RANK of every server name of the universe
//     under a direct call of the xxhash library on key+server (1 = lowest
//     score; equal scores get equal ranks).  The 64-bit scores do not fit
//     TLC's integers; for the first keys of every scenario the raw score is
//     logged as well, split in three limbs, so that TLC can cross-check the
//     rank abstraction, and the full ranking is also asked from a second
//     operating-system process (another "node" running the same function).
//
// Servers are referred to by their 1-based index in the universe of the
// scenario; 0 stands for "not a server of the list / no such element".
package routed

import (
	"fmt"
	"math/rand"
	"sort"
	"strconv"
	"strings"

	"github.com/cespare/xxhash"
	"github.com/google/uuid"

	"github.com/semafind/semadb/cluster"

	"verif/harness/trace"
)

// Opts configures one driver run.
type Opts struct {
	Seed     int64
	Keys     int // total number of keys of this run (approximate)
	Run      int // index of this run among Runs (selects the wide set sizes)
	Runs     int
	Narrow   int   // keys per narrow scenario
	WideMul  int   // a wide scenario over n servers has WideMul*n keys
	MaxSize  int   // largest server set (16)
	Universe int   // names per universe (> MaxSize, the surplus are the servers that can be added)
	Limbs    int   // keys per scenario whose raw scores are logged as limbs (and that are also put to the peer)
	Peer     *Peer // second process answering with its own copy of the function (nil = none)
}

// Stats is printed by the sub-command for the orchestrator.
type Stats struct {
	Lines     int `json:"lines"`
	Keys      int `json:"keys"`
	Scenarios int `json:"scenarios"`
	Wide      int `json:"wide"`
	Calls     int `json:"calls"`
	TieKeys   int `json:"tie_keys"`
	PeerKeys  int `json:"peer_keys"`
}

type universe struct {
	style string
	names []string
	index map[string]int
}

func makeUniverses(rng *rand.Rand, m int) []universe {
	var us []universe
	mk := func(style string, names []string) {
		u := universe{style: style, names: names, index: map[string]int{}}
		for i, n := range names {
			if _, dup := u.index[n]; dup {
				panic("duplicate server name in universe " + style + ": " + n)
			}
			u.index[n] = i + 1
		}
		us = append(us, u)
	}
	// the shape of the repository's own configuration files
	var a []string
	for i := 0; i < m; i++ {
		a = append(a, fmt.Sprintf("localhost:%d", 11001+i))
	}
	mk("localhost-ports", a)
	// stateful-set style host names
	a = nil
	for i := 0; i < m; i++ {
		a = append(a, fmt.Sprintf("semadb-%d.semadb.default.svc.cluster.local:11001", i))
	}
	mk("k8s", a)
	// names that are prefixes / suffixes of one another, very short names, case variants
	odd := []string{"a", "ab", "abc", "b", "ba", "node1", "node10", "node11", "node2", "10.0.0.1:9898", "10.0.0.11:9898",
		"10.0.0.111:9898", "s", "S", "server", "server ", "x-1", "x-10", "-", "0", "1", "01", "/", "a/b", "node1:1", "1:node1"}
	for len(odd) < m {
		odd = append(odd, fmt.Sprintf("odd%d", len(odd)))
	}
	mk("odd", odd[:m])
	// random names
	seen := map[string]bool{}
	a = nil
	const al = "abcdefghijklmnopqrstuvwxyz0123456789.-:"
	for len(a) < m {
		l := 1 + rng.Intn(24)
		var sb strings.Builder
		for i := 0; i < l; i++ {
			sb.WriteByte(al[rng.Intn(len(al))])
		}
		if !seen[sb.String()] {
			seen[sb.String()] = true
			a = append(a, sb.String())
		}
	}
	mk("random", a)
	return us
}

type keyGen struct {
	rng  *rand.Rand
	seq  int
	base int
}

const alnum = "ABCDEFGHIJKLMNOPQRSTUVWXYZabcdefghijklmnopqrstuvwxyz0123456789"

// next returns a key and its kind. Kinds: uuid (shard ids are uuid strings),
// and several user-id shapes (the user id is an opaque request header).
func (g *keyGen) next(u *universe) (string, string) {
	g.seq++
	switch g.seq % 8 {
	case 0, 2, 4, 6:
		id, err := uuid.NewRandomFromReader(g.rng)
		if err != nil {
			panic(err)
		}
		return id.String(), "uuid"
	case 1:
		return fmt.Sprintf("user-%07d", g.base+g.seq), "seq"
	case 3:
		b := make([]byte, 28)
		for i := range b {
			b[i] = alnum[g.rng.Intn(len(alnum))]
		}
		return string(b), "uid28"
	case 5:
		return fmt.Sprintf("%s.%s%d@example.com", word(g.rng), word(g.rng), g.rng.Intn(1000)), "email"
	default:
		switch g.rng.Intn(8) {
		case 0:
			return strconv.Itoa(g.base + g.seq), "num"
		case 1:
			return word(g.rng), "word"
		case 2:
			// a key that ends like / equals a server name (scores hash key ++ server without a separator)
			return u.names[g.rng.Intn(len(u.names))], "servername"
		case 3:
			n := u.names[g.rng.Intn(len(u.names))]
			return word(g.rng) + n[:g.rng.Intn(len(n)+1)], "serverprefix"
		case 4:
			return strings.Repeat(word(g.rng), 20+g.rng.Intn(40)), "long"
		case 5:
			return word(g.rng) + "/" + word(g.rng), "delim"
		case 6:
			return string(alnum[g.rng.Intn(len(alnum))]), "char"
		default:
			return strconv.FormatInt(g.rng.Int63(), 36), "b36"
		}
	}
}

func word(rng *rand.Rand) string {
	const c = "bcdfghjklmnprstvwz"
	const v = "aeiou"
	l := 1 + rng.Intn(4)
	var sb strings.Builder
	for i := 0; i < l; i++ {
		sb.WriteByte(c[rng.Intn(len(c))])
		sb.WriteByte(v[rng.Intn(len(v))])
	}
	return sb.String()
}

type variant struct {
	s    int   // the server added / removed (universe index)
	list []int // the list handed to the function
}

type scenario struct {
	u     *universe
	uid   int
	n     int
	base  []int
	ks    []int
	pk    int
	perms [][]int
	adds  []variant
	rems  []variant
}

func shuffled(rng *rand.Rand, l []int) []int {
	c := append([]int(nil), l...)
	rng.Shuffle(len(c), func(i, j int) { c[i], c[j] = c[j], c[i] })
	return c
}

func makeScenario(rng *rand.Rand, us []universe, uid, n int) *scenario {
	u := &us[uid]
	m := len(u.names)
	all := rng.Perm(m)
	sc := &scenario{u: u, uid: uid, n: n}
	inSet := map[int]bool{}
	for _, x := range all[:n] {
		sc.base = append(sc.base, x+1)
		inSet[x+1] = true
	}
	// topK: the call sites' 1, the full list, beyond the list, something in between, 0
	sc.ks = []int{1, n, n + 1 + rng.Intn(3), rng.Intn(n + 1), 0}
	if rng.Intn(2) == 0 {
		sc.pk = 1
	} else {
		sc.pk = n
	}
	// re-arrangements: the identical list again (determinism), reversed, rotated, two shuffles
	rev := make([]int, n)
	for i := range rev {
		rev[i] = sc.base[n-1-i]
	}
	rot := append(append([]int(nil), sc.base[n/2:]...), sc.base[:n/2]...)
	sc.perms = [][]int{append([]int(nil), sc.base...), rev, rot, shuffled(rng, sc.base), shuffled(rng, sc.base)}
	// every single addition, at the front / the end / a random position, sometimes with the rest re-arranged
	for s := 1; s <= m; s++ {
		if inSet[s] {
			continue
		}
		l := append([]int(nil), sc.base...)
		if rng.Intn(4) == 0 {
			l = shuffled(rng, l)
		}
		var pos int
		switch rng.Intn(3) {
		case 0:
			pos = 0
		case 1:
			pos = n
		default:
			pos = rng.Intn(n + 1)
		}
		l = append(l[:pos], append([]int{s}, l[pos:]...)...)
		sc.adds = append(sc.adds, variant{s: s, list: l})
	}
	// every single removal (a list must keep one server)
	if n >= 2 {
		for i, s := range sc.base {
			l := append(append([]int(nil), sc.base[:i]...), sc.base[i+1:]...)
			if rng.Intn(4) == 0 {
				l = shuffled(rng, l)
			}
			sc.rems = append(sc.rems, variant{s: s, list: l})
		}
	}
	return sc
}

func (sc *scenario) names(l []int) []string {
	out := make([]string, len(l))
	for i, x := range l {
		out[i] = sc.u.names[x-1]
	}
	return out
}

func (sc *scenario) indices(res []string) []int {
	out := make([]int, len(res))
	for i, s := range res {
		out[i] = sc.u.index[s] // 0 when the function invented a name
	}
	return out
}

func owner(res []int) int {
	if len(res) != 1 {
		return 0
	}
	return res[0]
}

func variantsJSON(vs []variant) []trace.M {
	out := make([]trace.M, len(vs))
	for i, v := range vs {
		out[i] = trace.M{"s": v.s, "list": v.list}
	}
	return out
}

// ranks returns the dense rank (1 = lowest) of every score.
func ranks(scores []uint64) ([]int, bool) {
	d := append([]uint64(nil), scores...)
	sort.Slice(d, func(i, j int) bool { return d[i] < d[j] })
	uniq := d[:0]
	for i, x := range d {
		if i == 0 || x != d[i-1] {
			uniq = append(uniq, x)
		}
	}
	rk := make([]int, len(scores))
	for i, s := range scores {
		rk[i] = 1 + sort.Search(len(uniq), func(j int) bool { return uniq[j] >= s })
	}
	return rk, len(uniq) != len(scores)
}

// Run writes the trace of one run.
func Run(o Opts, tw *trace.Writer) (Stats, error) {
	rng := rand.New(rand.NewSource(o.Seed))
	us := makeUniverses(rng, o.Universe)
	kg := &keyGen{rng: rng, base: int(o.Seed%1000) * 1000000}
	var st Stats
	var peerErr error
	for i, u := range us {
		tw.Emit("Universe", trace.M{"u": i + 1, "style": u.style, "names": u.names})
	}
	doScenario := func(sc *scenario, nkeys int, wide bool) {
		st.Scenarios++
		if wide {
			st.Wide++
		}
		tw.Emit("Scenario", trace.M{"u": sc.uid + 1, "n": sc.n, "base": sc.base, "ks": sc.ks, "pk": sc.pk, "perms": sc.perms,
			"adds": variantsJSON(sc.adds), "rems": variantsJSON(sc.rems), "nkeys": nkeys})
		baseNames := sc.names(sc.base)
		permNames := make([][]string, len(sc.perms))
		for i, p := range sc.perms {
			permNames[i] = sc.names(p)
		}
		addNames := make([][]string, len(sc.adds))
		for i, a := range sc.adds {
			addNames[i] = sc.names(a.list)
		}
		remNames := make([][]string, len(sc.rems))
		for i, r := range sc.rems {
			remNames[i] = sc.names(r.list)
		}
		scores := make([]uint64, len(sc.u.names))
		for k := 0; k < nkeys; k++ {
			key, kind := kg.next(sc.u)
			// reference fact: the score order of all server names, straight from the hash library
			for j, name := range sc.u.names {
				scores[j] = xxhash.Sum64String(key + name)
			}
			rk, tie := ranks(scores)
			if tie {
				st.TieKeys++
			}
			q := strconv.QuoteToASCII(key)
			ev := trace.M{"k": q[1 : len(q)-1], "kind": kind, "rk": rk}
			if k < o.Limbs {
				limbs := make([][]int, len(scores))
				for j, s := range scores {
					limbs[j] = []int{int(s >> 42), int((s >> 21) & 0x1FFFFF), int(s & 0x1FFFFF)}
				}
				ev["h"] = limbs
			}
			// the real function
			b := make([][]int, len(sc.ks))
			for i, topK := range sc.ks {
				b[i] = sc.indices(cluster.RendezvousHash(key, baseNames, topK))
			}
			p := make([][]int, len(sc.perms))
			for i := range sc.perms {
				p[i] = sc.indices(cluster.RendezvousHash(key, permNames[i], sc.pk))
			}
			a := make([]int, len(sc.adds))
			for i := range sc.adds {
				a[i] = owner(sc.indices(cluster.RendezvousHash(key, addNames[i], 1)))
			}
			r := make([]int, len(sc.rems))
			for i := range sc.rems {
				r[i] = owner(sc.indices(cluster.RendezvousHash(key, remNames[i], 1)))
			}
			st.Calls += len(b) + len(p) + len(a) + len(r)
			// "every node computes the same owner": the full ranking once more, from another process
			if o.Peer != nil && k < o.Limbs && peerErr == nil {
				q, err := o.Peer.Ask(key, baseNames, sc.n)
				if err != nil {
					peerErr = err
				} else {
					ev["q"] = sc.indices(q)
					st.PeerKeys++
					st.Calls++
				}
			}
			ev["b"], ev["p"], ev["a"], ev["r"] = b, p, a, r
			tw.Emit("Key", ev)
			st.Keys++
		}
		tw.Emit("EndScenario", trace.M{"nkeys": nkeys})
	}
	// wide scenarios: enough keys per set for the share law; the largest set in every run
	runs := o.Runs
	if runs < 1 {
		runs = 1
	}
	for n := o.MaxSize; n >= 1 && peerErr == nil; n-- {
		if n == o.MaxSize || n%runs == o.Run%runs {
			doScenario(makeScenario(rng, us, (n+o.Run)%len(us), n), o.WideMul*n, true)
		}
	}
	// narrow scenarios: many server sets, few keys each
	for i := 0; st.Keys < o.Keys && peerErr == nil; i++ {
		n := 1 + (i+o.Run)%o.MaxSize
		doScenario(makeScenario(rng, us, rng.Intn(len(us)), n), o.Narrow, false)
	}
	tw.Emit("Done", trace.M{"keys": st.Keys, "scenarios": st.Scenarios})
	st.Lines = tw.N
	return st, peerErr
}
