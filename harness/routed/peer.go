package routed

import (
	"bufio"
	"encoding/json"
	"fmt"
	"io"
	"os"
	"os/exec"

	"github.com/semafind/semadb/cluster"
)

// A peer is a second operating-system process ("another node") that answers
// routing questions with its own copy of the real function.

type peerReq struct {
	K string   `json:"k"`
	S []string `json:"s"`
	T int      `json:"t"`
}

type peerResp struct {
	R []string `json:"r"`
}

// ServePeer is the child side: one JSON request per line on in, one JSON answer per line on out.
func ServePeer(in io.Reader, out io.Writer) error {
	dec := json.NewDecoder(bufio.NewReader(in))
	w := bufio.NewWriter(out)
	enc := json.NewEncoder(w)
	for {
		var rq peerReq
		if err := dec.Decode(&rq); err != nil {
			if err == io.EOF {
				return nil
			}
			return err
		}
		res := cluster.RendezvousHash(rq.K, rq.S, rq.T)
		if res == nil {
			res = []string{}
		}
		if err := enc.Encode(peerResp{R: res}); err != nil {
			return err
		}
		if err := w.Flush(); err != nil {
			return err
		}
	}
}

// Peer is the parent side.
type Peer struct {
	cmd *exec.Cmd
	in  io.WriteCloser
	enc *json.Encoder
	dec *json.Decoder
}

// StartPeer starts `exe sub` as a child process; its stderr is ours (a crash of the
// function in the child must be visible to the orchestrator).
func StartPeer(exe, sub string) (*Peer, error) {
	cmd := exec.Command(exe, sub)
	cmd.Stderr = os.Stderr
	in, err := cmd.StdinPipe()
	if err != nil {
		return nil, err
	}
	out, err := cmd.StdoutPipe()
	if err != nil {
		return nil, err
	}
	if err := cmd.Start(); err != nil {
		return nil, err
	}
	return &Peer{cmd: cmd, in: in, enc: json.NewEncoder(in), dec: json.NewDecoder(bufio.NewReader(out))}, nil
}

// Ask returns the peer's answer of RendezvousHash(key, servers, topK).
func (p *Peer) Ask(key string, servers []string, topK int) ([]string, error) {
	if err := p.enc.Encode(peerReq{K: key, S: servers, T: topK}); err != nil {
		return nil, fmt.Errorf("peer request: %w", err)
	}
	for {
		var rs peerResp
		if err := p.dec.Decode(&rs); err != nil {
			return nil, fmt.Errorf("peer answer: %w", err)
		}
		if rs.R != nil { // anything else on the child's stdout is start-up logging of the semadb packages
			return rs.R, nil
		}
	}
}

func (p *Peer) Close() error {
	p.in.Close()
	return p.cmd.Wait()
}
