package cached

import (
	"errors"
	"fmt"
	"math/rand"
	"os"
	"sort"
	"strings"
	"sync"
	"time"

	"github.com/semafind/semadb/shard/cache"

	"verif/harness/gate"
	"verif/harness/trace"
)

// Stage scenarios: a writing transaction whose accesses run on SEVERAL
// goroutines (the write pipeline runs one stage per index on one cache
// transaction), schedules of CacheLocks.tla:
//
//	prune:  a reader holds cache X; stage A of T1 asks for X's write lock; stage
//	        B of T1 creates cache Y; the reader finishes (its deferred prune needs
//	        the manager)
//	commit: T2 has written X and is about to commit; stage A of T1 asks for X's
//	        write lock; stage B of T1 creates cache Y; T2 commits
//
// Everybody must return; afterwards a fresh transaction can write and read.
func StageScenario(no int, variant string, tw *trace.Writer, opts Opts, root string) (stuck bool) {
	mgr := cache.NewManager(opts.MaxSize)
	sched := gate.New()
	type obj struct{ id int }
	var mu sync.Mutex
	next := 0
	mk := func() (cache.Cachable, error) {
		mu.Lock()
		defer mu.Unlock()
		next++
		return &sobj{id: next}, nil
	}
	_ = obj{}
	tw.Emit("NewBehaviour", M{"b": no, "progs": M{"scenario": variant}, "maxsize": opts.MaxSize, "steps": 0})
	// X exists and is committed
	t0 := mgr.NewTransaction()
	if err := t0.With("X", false, mk, func(c cache.Cachable) error { return nil }); err != nil {
		panic(err)
	}
	t0.Commit(false)
	aAtLock := make(chan struct{})
	var once sync.Once
	cache.VerifYield = func(label, name string, tx *cache.Transaction) {
		if label == "wlock" && name == "X" && sched.Actor() == "a" {
			once.Do(func() { close(aAtLock) })
		}
	}
	defer func() { cache.VerifYield = nil }()
	inCb := make(chan struct{})
	letGo := make(chan struct{})
	holder := "r"
	t2 := mgr.NewTransaction()
	switch variant {
	case "prune":
		sched.Go("r", func() {
			tr := mgr.NewTransaction()
			tr.With("X", true, mk, func(c cache.Cachable) error { close(inCb); <-letGo; return nil })
			tr.Commit(false)
		})
	default:
		holder = "t2"
		sched.Go("t2", func() {
			t2.With("X", false, mk, func(c cache.Cachable) error { return nil })
			close(inCb)
			<-letGo
			t2.Commit(false)
		})
	}
	<-inCb
	t1 := mgr.NewTransaction()
	var errA, errB error
	sched.Go("a", func() { errA = t1.With("X", false, mk, func(c cache.Cachable) error { return nil }) })
	select {
	case <-aAtLock:
	case <-time.After(opts.StepTimeout):
	}
	time.Sleep(50 * time.Millisecond) // a is now waiting for X's write lock
	sched.Go("b", func() { errB = t1.With("Y", false, mk, func(c cache.Cachable) error { return nil }) })
	time.Sleep(50 * time.Millisecond)
	close(letGo)
	actors := []string{holder, "a", "b"}
	pending := sched.AllDone(actors, 3*opts.StepTimeout+time.Second)
	if len(pending) > 0 {
		dump := gate.Dump()
		info := gate.BlockedOnLock(dump, sched.GoIDs())
		who := []string{}
		blocked := true
		for _, a := range pending {
			who = append(who, a+": "+info[a])
			if !strings.Contains(info[a], "sync.") {
				blocked = false
			}
		}
		sort.Strings(who)
		tw.Emit("Stuck", M{"who": who, "confirmed": b2i(blocked), "scenario": variant})
		os.WriteFile(fmt.Sprintf("%s/stuck-stage-%s-%d.dump", root, variant, no), []byte(dump), 0644)
		return true
	}
	if errA != nil || errB != nil {
		tw.Emit("Stuck", M{"who": []string{fmt.Sprint(errors.Join(errA, errB))}, "confirmed": 1, "scenario": variant})
		return true
	}
	t1.Commit(false)
	// afterwards every lock is released
	done := make(chan error, 1)
	go func() {
		tp := mgr.NewTransaction()
		e1 := tp.With("X", false, mk, func(c cache.Cachable) error { return nil })
		e2 := tp.With("Y", false, mk, func(c cache.Cachable) error { return nil })
		tp.Commit(false)
		tq := mgr.NewTransaction()
		e3 := tq.With("X", true, mk, func(c cache.Cachable) error { return nil })
		tq.Commit(false)
		done <- errors.Join(e1, e2, e3)
	}()
	select {
	case err := <-done:
		tw.Emit("Probe", M{"ok": b2i(err == nil)})
	case <-time.After(2 * opts.StepTimeout):
		tw.Emit("Probe", M{"ok": 0})
	}
	return false
}

type sobj struct{ id int }

func (o *sobj) SizeInMemory() int64 { return 2 }

// StageStress: free-running rounds in which every transaction runs its accesses
// (distinct names) on parallel goroutines, as the write pipeline does; writers
// one at a time until their accesses are over (bbolt), commits may overlap the
// next writer. Everything must return, the monitor judges isolation, a fresh
// transaction must make progress afterwards.
func StageStress(no int, seed int64, tw *trace.Writer, opts Opts, root string) (stuck bool) {
	rng := newRand(seed)
	mgr := cache.NewManager(opts.MaxSize)
	sched := gate.New()
	var mu sync.Mutex
	next := 0
	names := []string{"A", "B", "C"}
	type acc struct {
		name           string
		ro, cbf, ctorf bool
	}
	progs := map[string][]acc{}
	plog := M{}
	for _, t := range []string{"t1", "t2", "t3"} {
		perm := rng.Perm(len(names))
		k := 1 + rng.Intn(3)
		var p []acc
		var pl []M
		writer := t != "t2" && rng.Intn(4) != 0
		for i := 0; i < k; i++ {
			a := acc{name: names[perm[i]], ro: !writer || rng.Intn(3) == 0}
			a.cbf = rng.Intn(8) == 0
			a.ctorf = rng.Intn(12) == 0
			p = append(p, a)
			pl = append(pl, M{"name": a.name, "ro": a.ro, "cbFail": a.cbf, "ctorFail": a.ctorf})
		}
		progs[t] = p
		plog[t] = pl
	}
	tw.Emit("NewBehaviour", M{"b": no, "progs": plog, "maxsize": opts.MaxSize, "steps": 0, "stress": 1})
	var dbw sync.Mutex
	actors := []string{"t1", "t2", "t3"}
	for _, t := range actors {
		t, prog := t, progs[t]
		delay := time.Duration(rng.Intn(300)) * time.Microsecond
		cfail := rng.Intn(6) == 0
		sleeps := make([]time.Duration, len(prog))
		for i := range sleeps {
			sleeps[i] = time.Duration(rng.Intn(400)) * time.Microsecond
		}
		sched.Go(t, func() {
			time.Sleep(delay)
			tx := mgr.NewTransaction()
			isWriter := false
			for _, a := range prog {
				if !a.ro {
					isWriter = true
				}
			}
			if isWriter {
				dbw.Lock()
			}
			var wg sync.WaitGroup
			var failed sync.Map
			for i, a := range prog {
				wg.Add(1)
				go func(i int, a acc) {
					defer wg.Done()
					g := fmt.Sprintf("%s.%d", t, i+1)
					tw.Emit("WithStart", M{"t": t, "g": g, "i": i + 1, "name": a.name, "ro": b2i(a.ro)})
					err := tx.With(a.name, a.ro, func() (cache.Cachable, error) {
						if a.ctorf {
							return nil, errors.New("constructor failed")
						}
						mu.Lock()
						next++
						o := &sobj{id: next}
						mu.Unlock()
						tw.Emit("Created", M{"t": t, "obj": o.id})
						return o, nil
					}, func(c cache.Cachable) error {
						o := c.(*sobj)
						tw.Emit("CbEnter", M{"t": t, "g": g, "name": a.name, "ro": b2i(a.ro), "obj": o.id})
						time.Sleep(sleeps[i])
						tw.Emit("CbExit", M{"t": t, "g": g, "obj": o.id, "err": b2i(a.cbf)})
						if a.cbf {
							return errors.New("callback failed")
						}
						return nil
					})
					if err != nil {
						failed.Store(i, true)
					}
					tw.Emit("WithReturn", M{"t": t, "err": b2i(err != nil)})
				}(i, a)
			}
			wg.Wait()
			if isWriter {
				dbw.Unlock()
			}
			anyFailed := false
			failed.Range(func(k, v any) bool { anyFailed = true; return false })
			tw.Emit("Commit", M{"t": t, "failed": b2i(anyFailed || cfail)})
			tx.Commit(anyFailed || cfail)
		})
	}
	pending := sched.AllDone(actors, 3*opts.StepTimeout+time.Second)
	if len(pending) > 0 {
		dump := gate.Dump()
		tw.Emit("Stuck", M{"who": pending, "confirmed": b2i(strings.Contains(dump, "sync.(*Mutex).Lock") || strings.Contains(dump, "sync.(*RWMutex)")), "scenario": "stress"})
		os.WriteFile(fmt.Sprintf("%s/stuck-stress-%d.dump", root, no), []byte(dump), 0644)
		return true
	}
	done := make(chan error, 1)
	go func() {
		tp := mgr.NewTransaction()
		var errs []error
		for _, n := range names {
			errs = append(errs, tp.With(n, false, func() (cache.Cachable, error) { return &sobj{}, nil }, func(c cache.Cachable) error { return nil }))
		}
		tp.Commit(false)
		tq := mgr.NewTransaction()
		for _, n := range names {
			errs = append(errs, tq.With(n, true, func() (cache.Cachable, error) { return &sobj{}, nil }, func(c cache.Cachable) error { return nil }))
		}
		tq.Commit(false)
		done <- errors.Join(errs...)
	}()
	select {
	case err := <-done:
		tw.Emit("Probe", M{"ok": b2i(err == nil)})
	case <-time.After(2 * opts.StepTimeout):
		tw.Emit("Probe", M{"ok": 0})
	}
	return false
}

func newRand(seed int64) *rand.Rand { return rand.New(rand.NewSource(seed)) }
