package cached

import (
	"errors"
	"fmt"
	"os"
	"sort"
	"strings"
	"sync"
	"time"

	"github.com/semafind/semadb/shard/cache"

	"verif/harness/gate"
	"verif/harness/trace"
)

// Stage scenarios: a writing transaction whose accesses run on SEVERAL
// goroutines (the write pipeline runs one stage per index on one cache
// transaction), schedules of CacheLocks.tla:
//
//	prune:  a reader holds cache X; stage A of T1 asks for X's write lock; stage
//	        B of T1 creates cache Y; the reader finishes (its deferred prune needs
//	        the manager)
//	commit: T2 has written X and is about to commit; stage A of T1 asks for X's
//	        write lock; stage B of T1 creates cache Y; T2 commits
//
// Everybody must return; afterwards a fresh transaction can write and read.
func StageScenario(no int, variant string, tw *trace.Writer, opts Opts, root string) (stuck bool) {
	mgr := cache.NewManager(opts.MaxSize)
	sched := gate.New()
	type obj struct{ id int }
	var mu sync.Mutex
	next := 0
	mk := func() (cache.Cachable, error) {
		mu.Lock()
		defer mu.Unlock()
		next++
		return &sobj{id: next}, nil
	}
	_ = obj{}
	tw.Emit("NewBehaviour", M{"b": no, "progs": M{"scenario": variant}, "maxsize": opts.MaxSize, "steps": 0})
	// X exists and is committed
	t0 := mgr.NewTransaction()
	if err := t0.With("X", false, mk, func(c cache.Cachable) error { return nil }); err != nil {
		panic(err)
	}
	t0.Commit(false)
	aAtLock := make(chan struct{})
	var once sync.Once
	cache.VerifYield = func(label, name string, tx *cache.Transaction) {
		if label == "wlock" && name == "X" && sched.Actor() == "a" {
			once.Do(func() { close(aAtLock) })
		}
	}
	defer func() { cache.VerifYield = nil }()
	inCb := make(chan struct{})
	letGo := make(chan struct{})
	holder := "r"
	t2 := mgr.NewTransaction()
	switch variant {
	case "prune":
		sched.Go("r", func() {
			tr := mgr.NewTransaction()
			tr.With("X", true, mk, func(c cache.Cachable) error { close(inCb); <-letGo; return nil })
			tr.Commit(false)
		})
	default:
		holder = "t2"
		sched.Go("t2", func() {
			t2.With("X", false, mk, func(c cache.Cachable) error { return nil })
			close(inCb)
			<-letGo
			t2.Commit(false)
		})
	}
	<-inCb
	t1 := mgr.NewTransaction()
	var errA, errB error
	sched.Go("a", func() { errA = t1.With("X", false, mk, func(c cache.Cachable) error { return nil }) })
	select {
	case <-aAtLock:
	case <-time.After(opts.StepTimeout):
	}
	time.Sleep(50 * time.Millisecond) // a is now waiting for X's write lock
	sched.Go("b", func() { errB = t1.With("Y", false, mk, func(c cache.Cachable) error { return nil }) })
	time.Sleep(50 * time.Millisecond)
	close(letGo)
	actors := []string{holder, "a", "b"}
	pending := sched.AllDone(actors, 3*opts.StepTimeout+time.Second)
	if len(pending) > 0 {
		dump := gate.Dump()
		info := gate.BlockedOnLock(dump, sched.GoIDs())
		who := []string{}
		blocked := true
		for _, a := range pending {
			who = append(who, a+": "+info[a])
			if !strings.Contains(info[a], "sync.") {
				blocked = false
			}
		}
		sort.Strings(who)
		tw.Emit("Stuck", M{"who": who, "confirmed": b2i(blocked), "scenario": variant})
		os.WriteFile(fmt.Sprintf("%s/stuck-stage-%s-%d.dump", root, variant, no), []byte(dump), 0644)
		return true
	}
	if errA != nil || errB != nil {
		tw.Emit("Stuck", M{"who": []string{fmt.Sprint(errors.Join(errA, errB))}, "confirmed": 1, "scenario": variant})
		return true
	}
	t1.Commit(false)
	// afterwards every lock is released
	done := make(chan error, 1)
	go func() {
		tp := mgr.NewTransaction()
		e1 := tp.With("X", false, mk, func(c cache.Cachable) error { return nil })
		e2 := tp.With("Y", false, mk, func(c cache.Cachable) error { return nil })
		tp.Commit(false)
		tq := mgr.NewTransaction()
		e3 := tq.With("X", true, mk, func(c cache.Cachable) error { return nil })
		tq.Commit(false)
		done <- errors.Join(e1, e2, e3)
	}()
	select {
	case err := <-done:
		tw.Emit("Probe", M{"ok": b2i(err == nil)})
	case <-time.After(2 * opts.StepTimeout):
		tw.Emit("Probe", M{"ok": 0})
	}
	return false
}

type sobj struct{ id int }

func (o *sobj) SizeInMemory() int64 { return 2 }
