// Package cached replays TLC-generated behaviours of CacheMgr.tla on a real
// cache.Manager through the hook-H2 yield points and records the
// property-level events for CacheMonitor.tla ("drive, then validate").
package cached

import (
	"bufio"
	"encoding/json"
	"errors"
	"fmt"
	"os"
	"sort"
	"strings"
	"sync"
	"sync/atomic"
	"time"

	"github.com/semafind/semadb/shard/cache"

	"verif/harness/gate"
	"verif/harness/trace"
)

type M = trace.M

type Access struct {
	Name     string `json:"name"`
	RO       bool   `json:"ro"`
	CbFail   bool   `json:"cbFail"`
	CtorFail bool   `json:"ctorFail"`
}

type Step struct {
	Act string
	Arg string
}

type Behaviour struct {
	Progs map[string][]Access
	CFail map[string]bool // Commit(fail) flag per transaction
	Steps []Step
}

type obj struct {
	id   int
	size atomic.Int64
}

func (o *obj) SizeInMemory() int64 { return o.size.Load() }

type Opts struct {
	StepTimeout time.Duration
	MaxSize     int64
}

type replay struct {
	tw      *trace.Writer
	sched   *gate.Sched
	mgr     *cache.Manager
	opts    Opts
	mu      sync.Mutex
	txOf    map[*cache.Transaction]string
	nextObj int
	drift   []string
	timeout bool
	failed  map[string]bool
	// the storage engine admits one writing transaction at a time (bbolt): a
	// transaction with a writing access holds this from its first access until
	// its last access returned (its cache commit may still be pending), also
	// when the transactions run freely after a forced prefix
	dbw sync.Mutex
}

func (rp *replay) note(f string, a ...any) { rp.drift = append(rp.drift, fmt.Sprintf(f, a...)) }

func b2i(b bool) int {
	if b {
		return 1
	}
	return 0
}

func (rp *replay) hook(label string, name string, tx *cache.Transaction) {
	rp.mu.Lock()
	a := rp.txOf[tx]
	rp.mu.Unlock()
	if a == "" {
		return
	}
	rp.sched.Yield(a, label)
}

func (rp *replay) runTx(t string, prog []Access, gated bool, cfail bool) {
	tx := rp.mgr.NewTransaction()
	rp.mu.Lock()
	rp.txOf[tx] = t
	rp.mu.Unlock()
	txFailed := false
	isWriter, holdsDB := false, false
	for _, a := range prog {
		if !a.RO {
			isWriter = true
		}
	}
	for i, a := range prog {
		if gated {
			rp.sched.Yield(t, "with")
		}
		if isWriter && !holdsDB {
			rp.dbw.Lock()
			holdsDB = true
		}
		rp.tw.Emit("WithStart", M{"t": t, "g": t, "i": i + 1, "name": a.Name, "ro": b2i(a.RO)})
		err := tx.With(a.Name, a.RO, func() (cache.Cachable, error) {
			if a.CtorFail {
				return nil, errors.New("constructor failed")
			}
			rp.mu.Lock()
			rp.nextObj++
			o := &obj{id: rp.nextObj}
			rp.mu.Unlock()
			rp.tw.Emit("Created", M{"t": t, "obj": o.id})
			return o, nil
		}, func(c cache.Cachable) error {
			o := c.(*obj)
			rp.tw.Emit("CbEnter", M{"t": t, "g": t, "name": a.Name, "ro": b2i(a.RO), "obj": o.id})
			if gated {
				rp.sched.Yield(t, "cbRun")
			}
			if !a.RO {
				o.size.Store(2)
			} else if o.size.Load() == 0 {
				o.size.Store(1)
			}
			rp.tw.Emit("CbExit", M{"t": t, "g": t, "obj": o.id, "err": b2i(a.CbFail)})
			if a.CbFail {
				return errors.New("callback failed")
			}
			return nil
		})
		if err != nil {
			txFailed = true
			rp.mu.Lock()
			rp.failed[t] = true
			rp.mu.Unlock()
		}
		rp.tw.Emit("WithReturn", M{"t": t, "err": b2i(err != nil)})
	}
	if holdsDB {
		rp.dbw.Unlock()
	}
	if gated {
		rp.sched.Yield(t, "commit")
	}
	// logged before the call: once Commit has released the write locks another transaction may enter the
	// cache at once, and its CbEnter line must not overtake this one (until the release nobody can enter anyway)
	rp.tw.Emit("Commit", M{"t": t, "failed": b2i(txFailed || cfail)})
	tx.Commit(cfail)
}

// advance releases the actor and keeps releasing it through intermediate
// hook gates until it is parked at one of the targets (or done).
func (rp *replay) advance(t string, targets ...string) string {
	is := func(w string) bool {
		for _, x := range targets {
			if w == x {
				return true
			}
		}
		return false
	}
	rp.sched.Release(t)
	for n := 0; n < 6; n++ {
		w := rp.sched.Wait(t, rp.opts.StepTimeout)
		if w == "" {
			rp.timeout = true
			rp.note("%s: timeout waiting for %v", t, targets)
			return w
		}
		if is(w) {
			return w
		}
		if w == "@tryR" || w == "@wlock" || w == "@chk" {
			rp.sched.Release(t)
			continue
		}
		rp.note("%s: expected %v, observed %q", t, targets, w)
		return w
	}
	return ""
}

func (rp *replay) at(t string, label string) bool { return rp.sched.Where(t) == "@"+label }

func (rp *replay) step(st Step) {
	t := st.Arg
	next := []string{"@with", "@commit", "done"}
	switch st.Act {
	case "Start":
		rp.mu.Lock()
		f := rp.failed[t]
		rp.mu.Unlock()
		if f && rp.at(t, "with") {
			rp.advance(t, next...) // With returns at once: the transaction has already failed
		}
	case "LookupExisting":
		if rp.at(t, "with") {
			rp.release(t, "@tryR", "@wlock")
		} else {
			rp.note("%s: not at with for %s (%q)", t, st.Act, rp.sched.Where(t))
		}
	case "LookupNew":
		if rp.at(t, "with") {
			rp.release(t, "@cbRun")
		}
	case "LookupNewFail":
		if rp.at(t, "with") {
			rp.release(t, next...)
		}
	case "TryRSameTx", "TryROk":
		if rp.at(t, "tryR") {
			rp.release(t, "@chk")
		}
	case "TryRFail":
		if rp.at(t, "tryR") {
			rp.advance(t, append([]string{"@cbRun"}, next...)...)
		}
	case "WLockSkip":
		if rp.at(t, "wlock") {
			rp.release(t, "@chk")
		}
	case "WLockReq":
		if rp.at(t, "wlock") {
			rp.sched.Release(t)
			time.Sleep(300 * time.Microsecond) // let it reach mu.Lock()
		}
	case "WLockGet":
		w := rp.sched.Wait(t, rp.opts.StepTimeout)
		if w != "@chk" {
			if w == "" {
				rp.timeout = true
			}
			rp.note("%s: WLockGet expected @chk observed %q", t, w)
		}
	case "ChkOk", "ChkScrapped":
		if rp.at(t, "chk") {
			rp.release(t, append([]string{"@cbRun"}, next...)...)
		}
	case "CbEnter":
		// the callback is entered when the goroutine parks at cbRun
	case "CbExitOk", "CbExitErr":
		if rp.at(t, "cbRun") {
			rp.release(t, next...)
		} else {
			rp.note("%s: not in callback for %s (%q)", t, st.Act, rp.sched.Where(t))
		}
	case "Commit":
		if rp.at(t, "commit") {
			rp.release(t, "done")
		} else {
			rp.note("%s: not at commit (%q)", t, rp.sched.Where(t))
		}
	case "Release":
		rp.mgr.Release(st.Arg)
		rp.tw.Emit("Release", M{"name": st.Arg})
	default:
		rp.note("unknown action %s", st.Act)
	}
}

// release lets the actor go and waits until it parks at one of the wanted places.
func (rp *replay) release(t string, want ...string) {
	rp.sched.Release(t)
	w := rp.sched.Wait(t, rp.opts.StepTimeout)
	for _, x := range want {
		if w == x {
			return
		}
	}
	if w == "" {
		rp.timeout = true
	}
	rp.note("%s: expected %v, observed %q", t, want, w)
}

// Replay runs one behaviour on a fresh manager.
func Replay(bno int, b Behaviour, tw *trace.Writer, opts Opts, root string) (drift []string, stuck bool) {
	rp := &replay{tw: tw, sched: gate.New(), opts: opts, txOf: map[*cache.Transaction]string{}, failed: map[string]bool{}}
	rp.mgr = cache.NewManager(opts.MaxSize)
	cache.VerifYield = rp.hook
	defer func() { cache.VerifYield = nil }()
	progs := M{}
	for t, p := range b.Progs {
		progs[t] = p
	}
	tw.Emit("NewBehaviour", M{"b": bno, "progs": progs, "maxsize": opts.MaxSize, "steps": len(b.Steps)})
	var actors []string
	for t := range b.Progs {
		actors = append(actors, t)
	}
	sort.Strings(actors)
	for _, t := range actors {
		t, prog, cf := t, b.Progs[t], b.CFail[t]
		rp.sched.Go(t, func() { rp.runTx(t, prog, true, cf) })
	}
	for _, t := range actors {
		rp.sched.Wait(t, opts.StepTimeout)
	}
	for _, st := range b.Steps {
		rp.step(st)
		if rp.timeout {
			break
		}
	}
	rp.sched.FreeRun()
	pending := rp.sched.AllDone(actors, 3*opts.StepTimeout+time.Second)
	if len(pending) > 0 {
		dump := gate.Dump()
		info := gate.BlockedOnLock(dump, rp.sched.GoIDs())
		who := []string{}
		blocked := true
		for _, a := range pending {
			who = append(who, a+": "+info[a])
			if !strings.Contains(info[a], "sync.") {
				blocked = false
			}
		}
		tw.Emit("Stuck", M{"who": who, "confirmed": b2i(blocked)})
		os.WriteFile(fmt.Sprintf("%s/stuck-b%d.dump", root, bno), []byte(dump), 0644)
		return rp.drift, true
	}
	// afterwards every lock is released: a fresh transaction can write and read every name
	probe := make(chan struct{})
	go func() {
		names := map[string]bool{}
		for _, p := range b.Progs {
			for _, a := range p {
				names[a.Name] = true
			}
		}
		var prog []Access
		for n := range names {
			prog = append(prog, Access{Name: n, RO: false}, Access{Name: n, RO: true})
		}
		sort.Slice(prog, func(i, j int) bool { return prog[i].Name+fmt.Sprint(prog[i].RO) < prog[j].Name+fmt.Sprint(prog[j].RO) })
		rp.runTx("probe", prog, false, false)
		close(probe)
	}()
	select {
	case <-probe:
		tw.Emit("Probe", M{"ok": 1})
	case <-time.After(3 * time.Second):
		tw.Emit("Probe", M{"ok": 0})
	}
	return rp.drift, false
}

// ReadBehaviours reads {"progs": {...}, "hist": [[act, arg], ...]} per line.
func ReadBehaviours(path string) ([]Behaviour, error) {
	f, err := os.Open(path)
	if err != nil {
		return nil, err
	}
	defer f.Close()
	var out []Behaviour
	sc := bufio.NewScanner(f)
	sc.Buffer(make([]byte, 1<<20), 1<<24)
	for sc.Scan() {
		line := strings.TrimSpace(sc.Text())
		if line == "" {
			continue
		}
		var raw struct {
			Progs map[string][]Access `json:"progs"`
			CFail map[string]bool     `json:"cfail"`
			Hist  [][]string          `json:"hist"`
		}
		if err := json.Unmarshal([]byte(line), &raw); err != nil {
			return nil, err
		}
		b := Behaviour{Progs: raw.Progs, CFail: raw.CFail}
		for _, h := range raw.Hist {
			b.Steps = append(b.Steps, Step{Act: h[0], Arg: h[1]})
		}
		out = append(out, b)
	}
	return out, sc.Err()
}
