package kd

import (
	"math"
	"math/rand"

	"github.com/semafind/semadb/distance"

	"verif/harness/trace"
)

// Arbitrary float32 inputs (not integer valued): normal range, large
// magnitudes, subnormals, signed zeros, mixtures. TLA+ cannot recompute these
// results; what is logged for the oracle is the exact bit pattern of d(x,y)
// and d(y,x) (two 16-bit halves each), which must be identical.
//
// Separately -- NOT model based, reported as exploration evidence only -- the
// driver compares every result with a float64 reference sum against the
// standard forward error bound of floating-point summation in any order.

var symClasses = []string{"normal", "large", "subnormal", "tiny", "mixed", "ints"}

func drawFloat(rng *rand.Rand, class string) float32 {
	switch class {
	case "normal":
		return float32(rng.NormFloat64())
	case "large":
		return float32(float64(sgn(rng)) * math.Pow(10, 10+5*rng.Float64()))
	case "subnormal":
		return math.Float32frombits(uint32(rng.Intn(1<<23))) * float32(sgn(rng))
	case "tiny":
		return float32(float64(sgn(rng)) * math.Pow(10, -25+6*rng.Float64()))
	case "ints":
		return float32(rng.Intn(2001) - 1000)
	default:
		switch rng.Intn(7) {
		case 0:
			return 0
		case 1:
			return float32(math.Copysign(0, -1))
		default:
			return drawFloat(rng, symClasses[rng.Intn(4)])
		}
	}
}

func halves(r float32) []int {
	b := math.Float32bits(r)
	return []int{int(b >> 16), int(b & 0xffff)}
}

type FuzzStats struct {
	Cases    int     `json:"cases"`
	Outliers int     `json:"outliers"`
	MaxRatio float64 `json:"-"`
	Sample   string  `json:"-"`
}

const u24 = 1.0 / (1 << 24)

// withinBound: |got - ref| <= gamma_{n+3} * sumAbs + n * 2^-149 (gradual underflow)
func (fs *FuzzStats) note(got float32, ref, sumAbs float64, n int, what string) {
	fs.Cases++
	k := float64(n + 3)
	bound := k*u24/(1-k*u24)*sumAbs + float64(n+1)*math.Pow(2, -149)
	// the final result is a float32: representation error of the reference itself
	err := math.Abs(float64(got) - ref)
	if math.IsNaN(float64(got)) || math.IsInf(float64(got), 0) {
		fs.Outliers++
		if fs.Sample == "" {
			fs.Sample = what
		}
		return
	}
	if bound > 0 {
		if ratio := err / bound; ratio > fs.MaxRatio {
			fs.MaxRatio = ratio
		}
	}
	if err > bound {
		fs.Outliers++
		if fs.Sample == "" {
			fs.Sample = what
		}
	}
}

// RunSym emits "S" lines: for random lengths and value classes the bit
// patterns of f(x,y) and f(y,x) for every float distance function.
func RunSym(tw *trace.Writer, seed int64, lens []int, per int, direct bool, st *Stats, fs *FuzzStats) error {
	rng := rand.New(rand.NewSource(seed))
	fns, err := Fns(direct)
	if err != nil {
		return err
	}
	hav, err := distance.GetFloatDistanceFn("haversine")
	if err != nil {
		return err
	}
	for _, n := range lens {
		for k := 0; k < per; k++ {
			class := symClasses[rng.Intn(len(symClasses))]
			xv, yv := make([]float32, n), make([]float32, n)
			for i := range xv {
				xv[i], yv[i] = drawFloat(rng, class), drawFloat(rng, class)
			}
			xs, ys := heapSlice(xv, rng.Intn(9)), heapSlice(yv, rng.Intn(9))
			var dot, sq, dotAbs float64
			for i := range xv {
				a, b := float64(xv[i]), float64(yv[i])
				dot += a * b
				dotAbs += math.Abs(a * b)
				sq += (a - b) * (a - b)
			}
			var rs []M
			for _, f := range fns {
				rxy, _ := call(f.fn, xs, ys)
				ryx, _ := call(f.fn, ys, xs)
				rs = append(rs, M{"f": f.name, "xy": halves(rxy), "yx": halves(ryx)})
				st.Results += 2
				what := f.name + " class=" + class
				switch f.name {
				case "euclidean", "asm.sqeuclid":
					fs.note(rxy, sq, sq, n, what)
				case "dot":
					fs.note(rxy, -dot, dotAbs, n, what)
				case "asm.dot":
					fs.note(rxy, dot, dotAbs, n, what)
				case "cosine":
					fs.note(rxy, 1-dot, dotAbs+1, n+1, what)
				}
			}
			tw.Emit("S", M{"n": n, "class": class, "r": rs})
			st.Cases++
			st.Kinds["sym-"+class]++
		}
	}
	// haversine: [lat, lon] in degrees
	for k := 0; k < 40*per; k++ {
		a := []float32{float32(rng.Float64()*180 - 90), float32(rng.Float64()*360 - 180)}
		b := []float32{float32(rng.Float64()*180 - 90), float32(rng.Float64()*360 - 180)}
		if k%10 == 0 {
			b = []float32{a[0], a[1]}
		}
		tw.Emit("S", M{"n": 2, "class": "latlon", "r": []M{{"f": "haversine", "xy": halves(hav(a, b)), "yx": halves(hav(b, a))}}})
		st.Cases++
		st.Results += 2
		st.Kinds["sym-latlon"]++
	}
	return nil
}
