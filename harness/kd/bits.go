package kd

import (
	"fmt"
	"math"
	"math/rand"

	"github.com/semafind/semadb/conversion"
	"github.com/semafind/semadb/diskstore"
	"github.com/semafind/semadb/distance"
	"github.com/semafind/semadb/models"
	"github.com/semafind/semadb/shard/vectorstore"

	"verif/harness/trace"
)

// JaccardScale: jaccard distances are logged as round(d * JaccardScale).
const JaccardScale = 100000

type rat struct{ n, d int } // threshold n/d, d a power of two (exact in float32)

var quantThresholds = []rat{{-1, 1}, {0, 1}, {1, 2}, {1, 1}, {9, 4}, {3, 1}, {-3, 2}, {5, 1}}

func floorDiv(a, b int) int {
	q := a / b
	if a%b != 0 && (a < 0) != (b < 0) {
		q--
	}
	return q
}

// bit positions where the packing into 64-bit words could go wrong
func bitStructural(n int) []int {
	last := 64 * ((n - 1) / 64)
	cand := []int{0, n - 1, 63, 64, 65, last, last - 1, 31, 32}
	seen := map[int]bool{}
	var out []int
	for _, c := range cand {
		if c >= 0 && c < n && !seen[c] {
			seen[c] = true
			out = append(out, c)
		}
	}
	return out
}

// bitPat draws a vector whose components lie just below, at and just above
// the threshold (base = floor(threshold)).
func bitPat(rng *rand.Rand, n, base int) Pat {
	switch rng.Intn(7) {
	case 0:
		return Pat{K: "hash", B: rng.Intn(4000), Mod: 3, S: 1 - base}
	case 1:
		return Pat{K: "ramp", A: 1 + rng.Intn(5), B: rng.Intn(9), Mod: 3, S: 1 - base}
	case 2:
		at := bitStructural(n)
		cs := make([]int, len(at))
		for i := range cs {
			cs[i] = base + 1 + rng.Intn(2)
		}
		return Pat{K: "spike", At: at, Cs: cs, Bg: base - rng.Intn(2)}
	case 3:
		return Pat{K: "const", C: base + 1}
	case 4:
		return Pat{K: "const", C: base}
	case 5:
		return Pat{K: "hash", B: rng.Intn(4000), Mod: 2, S: -base}
	default:
		// all set except a few structural positions
		at := bitStructural(n)
		cs := make([]int, len(at))
		for i := range cs {
			cs[i] = base - rng.Intn(2)
		}
		return Pat{K: "spike", At: at, Cs: cs, Bg: base + 1}
	}
}

func chunks(ws []uint64) [][]int {
	out := make([][]int, len(ws))
	for i, w := range ws {
		out[i] = []int{int(w & 0xffff), int((w >> 16) & 0xffff), int((w >> 32) & 0xffff), int(w >> 48)}
	}
	return out
}

// wordSlice copies ws into a larger backing array with garbage words around it.
func wordSlice(ws []uint64, off int) []uint64 {
	back := make([]uint64, len(ws)+2*off+2)
	for i := range back {
		back[i] = 0xdeadbeefcafef00d ^ uint64(i)*0x9e3779b97f4a7c15
	}
	s := back[off+1 : off+1+len(ws)]
	copy(s, ws)
	return s[:len(ws):len(ws)]
}

type BitOpts struct {
	Lens []int
	Per  int
}

func bitResult(met string, r float32) M {
	f := float64(r)
	if met == models.DistanceJaccard {
		if math.IsNaN(f) || math.IsInf(f, 0) || f < -1 || f > 2 {
			c, v := classify(r, false)
			if c == "int" {
				c = "range"
			}
			return M{"c": c, "v": v}
		}
		return M{"c": "int", "v": int(math.Round(f * JaccardScale))}
	}
	c, v := classify(r, false)
	return M{"c": c, "v": v}
}

// RunBits emits one "B" line per case: a vector store with a binary quantiser
// (threshold given by the metric name, given explicitly, or learned by Fit)
// on a memory bucket; two points; the distances through every public route;
// the encoded words as the store persisted them.
func RunBits(tw *trace.Writer, seed int64, o BitOpts, st *Stats) error {
	rng := rand.New(rand.NewSource(seed))
	for _, n := range o.Lens {
		for k := 0; k < o.Per; k++ {
			met := models.DistanceHamming
			if rng.Intn(2) == 0 {
				met = models.DistanceJaccard
			}
			route := []string{"metric", "quant", "quant", "fit"}[rng.Intn(4)]
			var thr rat
			var tn []Pat // the threshold numerator of component i is the sum of these patterns at i
			var px, py Pat
			var fit []Pat
			switch route {
			case "metric":
				thr = rat{1, 2}
				tn = []Pat{{K: "const", C: 1}}
				px, py = bitPat(rng, n, 0), bitPat(rng, n, 0)
			case "quant":
				thr = quantThresholds[rng.Intn(len(quantThresholds))]
				tn = []Pat{{K: "const", C: thr.n}}
				base := floorDiv(thr.n, thr.d)
				px, py = bitPat(rng, n, base), bitPat(rng, n, base)
			case "fit":
				cnt := 2 + rng.Intn(3)
				for i := 0; i < cnt; i++ {
					switch rng.Intn(3) {
					case 0:
						fit = append(fit, hashPat(rng, 2))
					case 1:
						fit = append(fit, rampPat(rng, 1+rng.Intn(3)))
					default:
						fit = append(fit, bitPat(rng, n, rng.Intn(3)-1))
					}
				}
				px, py = fit[0], fit[1]
				thr = rat{0, cnt}
				tn = fit
			}
			xs, ys := heapSlice(toFloats(px.Ints(n)), rng.Intn(9)), heapSlice(toFloats(py.Ints(n)), rng.Intn(9))
			bucket := diskstore.NewMemBucket(false)
			open := func() (vectorstore.VectorStore, error) {
				switch route {
				case "metric":
					return vectorstore.New(nil, bucket, met, n)
				case "quant":
					t := float32(thr.n) / float32(thr.d)
					return vectorstore.New(&models.Quantizer{Type: models.QuantizerBinary, Binary: &models.BinaryQuantizerParamaters{
						Threshold: &t, DistanceMetric: met}}, bucket, models.DistanceEuclidean, n)
				default:
					return vectorstore.New(&models.Quantizer{Type: models.QuantizerBinary, Binary: &models.BinaryQuantizerParamaters{
						TriggerThreshold: len(fit), DistanceMetric: met}}, bucket, models.DistanceEuclidean, n)
				}
			}
			vs, err := open()
			if err != nil {
				return fmt.Errorf("vectorstore.New: %w", err)
			}
			if _, err := vs.Set(1, xs); err != nil {
				return err
			}
			if _, err := vs.Set(2, ys); err != nil {
				return err
			}
			for i := 2; i < len(fit); i++ {
				if _, err := vs.Set(uint64(i+1), heapSlice(toFloats(fit[i].Ints(n)), rng.Intn(9))); err != nil {
					return err
				}
			}
			if route == "fit" {
				if err := vs.Fit(); err != nil {
					return fmt.Errorf("Fit: %w", err)
				}
			}
			p1, err := vs.Get(1)
			if err != nil {
				return err
			}
			p2, err := vs.Get(2)
			if err != nil {
				return err
			}
			var rs []M
			add := func(f, ord string, r float32) {
				m := bitResult(met, r)
				m["f"], m["o"] = f, ord
				rs = append(rs, m)
				st.Results++
			}
			add("sf", "xy", vs.DistanceFromFloat(xs)(p2))
			add("sf", "yx", vs.DistanceFromFloat(ys)(p1))
			add("sp", "xy", vs.DistanceFromPoint(p1)(p2))
			add("sp", "yx", vs.DistanceFromPoint(p2)(p1))
			add("sp", "xx", vs.DistanceFromPoint(p1)(p1))
			if err := vs.Flush(); err != nil {
				return fmt.Errorf("Flush: %w", err)
			}
			// the words as persisted by the store
			wx := conversion.BytesToEdgeList(bucket.Get(conversion.NodeKey(1, 'q')))
			wy := conversion.BytesToEdgeList(bucket.Get(conversion.NodeKey(2, 'q')))
			// the exported bit distance function on those words, inside garbage
			bfn, err := distance.GetBitDistanceFn(met)
			if err != nil {
				return err
			}
			if len(wx) == len(wy) && len(wx) > 0 {
				a, b := wordSlice(wx, rng.Intn(4)), wordSlice(wy, rng.Intn(4))
				add("fn", "xy", bfn(a, b))
				add("fn", "yx", bfn(b, a))
			}
			// a second store on the same bucket: points come back from storage
			vs2, err := open()
			if err != nil {
				return fmt.Errorf("vectorstore.New (reopen): %w", err)
			}
			q1, err1 := vs2.Get(1)
			q2, err2 := vs2.Get(2)
			if err1 != nil || err2 != nil {
				return fmt.Errorf("reopened store lost a point: %v %v", err1, err2)
			}
			add("cold", "xy", vs2.DistanceFromPoint(q1)(q2))
			add("cold", "yx", vs2.DistanceFromPoint(q2)(q1))
			add("coldf", "xy", vs2.DistanceFromFloat(xs)(q2))
			tnj := make([]M, len(tn))
			for i, p := range tn {
				tnj[i] = p.JSON()
			}
			tw.Emit("B", M{"n": n, "met": met, "route": route, "td": thr.d, "tn": tnj, "x": px.JSON(), "y": py.JSON(),
				"wx": chunks(wx), "wy": chunks(wy), "r": rs})
			st.Cases++
			st.Kinds["bits-"+route+"-"+met]++
			st.Lengths[n] = true
		}
	}
	return nil
}
