//go:build !amd64

package kd

func asmFns() []namedFn { return nil }
