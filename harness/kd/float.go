package kd

import (
	"fmt"
	"golang.org/x/sys/cpu"
	"math"
	"math/rand"
	"reflect"
	"runtime"
	"runtime/debug"
	"strings"

	"github.com/semafind/semadb/distance"

	"verif/harness/trace"
)

// exactLimit: every partial sum, in any order, of terms whose absolute values
// add up to less than 2^24 is an integer float32 represents exactly.
const exactLimit = 1 << 24

// Impl names the function distance.GetFloatDistanceFn("euclidean") dispatches
// to in this process ("asm" = the generated AVX kernel, "pure" = the Go loop).
func Impl() (short, full string) {
	fn, err := distance.GetFloatDistanceFn("euclidean")
	if err != nil {
		return "unknown", err.Error()
	}
	full = runtime.FuncForPC(reflect.ValueOf(fn).Pointer()).Name()
	switch {
	case strings.Contains(full, "distance/asm."):
		return "asm", full
	case strings.Contains(full, "PureGo"):
		return "pure", full
	}
	// (a function of another name on a CPU with AVX2 and FMA: the dispatcher chose something that is not the
	// pure Go loop, e.g. a wrapper around the kernels; it is judged as the vectorised implementation)
	if cpu.X86.HasAVX2 && cpu.X86.HasFMA {
		return "asm", full
	}
	return "unknown", full
}

type namedFn struct {
	name string
	fn   func(x, y []float32) float32
}

// Fns are the real entry points exercised: the exported dispatching ones and,
// when the CPU can run them, the assembly kernels called directly.
func Fns(direct bool) ([]namedFn, error) {
	var out []namedFn
	for _, name := range []string{"euclidean", "dot", "cosine"} {
		fn, err := distance.GetFloatDistanceFn(name)
		if err != nil {
			return nil, err
		}
		out = append(out, namedFn{name, fn})
	}
	if direct {
		out = append(out, asmFns()...)
	}
	return out, nil
}

// call runs one kernel; a memory fault inside it (a read outside the slice
// that hits the guard page) is reported as class "fault".
func call(fn func(x, y []float32) float32, x, y []float32) (r float32, fault bool) {
	defer func() {
		if e := recover(); e != nil {
			if _, ok := e.(runtime.Error); ok {
				fault = true
				return
			}
			panic(e)
		}
	}()
	return fn(x, y), false
}

// classify turns a float32 result into (class, integer): "int" when it is an
// integer below 2^31 in magnitude, otherwise what kind of non-integer it is.
func classify(r float32, fault bool) (string, int) {
	f := float64(r)
	switch {
	case fault:
		return "fault", 0
	case math.IsNaN(f):
		return "nan", 0
	case math.IsInf(f, 0):
		return "inf", 0
	case math.Abs(f) >= 1<<31:
		return "big", 0
	case f != math.Trunc(f):
		return "frac", int(math.Floor(f))
	}
	return "int", int(f)
}

// exactOK checks the generator's precondition on the materialised inputs.
func exactOK(x, y []int) bool {
	var sd, sq int64
	for i := range x {
		a, b := int64(x[i]), int64(y[i])
		if a >= exactLimit || a <= -exactLimit || b >= exactLimit || b <= -exactLimit {
			return false
		}
		p := a * b
		if p < 0 {
			p = -p
		}
		sd += p
		sq += (a - b) * (a - b)
		if sd >= exactLimit || sq >= exactLimit {
			return false
		}
	}
	return true
}

// pairFor draws the value patterns of one case. kind 0 is the structural
// pair (spikes with distinct weights on the block / tail boundaries against a
// constant), the others mix signs, zeros, ramps, single lanes and literals.
func pairFor(rng *rand.Rand, n, kind int) (Pat, Pat, string) {
	switch kind {
	case 0:
		at := structural(n)
		cs := make([]int, len(at))
		w := 1 + rng.Intn(3)
		for i := range cs {
			cs[i] = sgn(rng) * w
			w = w*2 + rng.Intn(2)
		}
		return Pat{K: "spike", At: at, Cs: cs, Bg: 0}, Pat{K: "const", C: sgn(rng) * (1 + rng.Intn(3))}, "structural"
	case 1:
		return hashPat(rng, 1+rng.Intn(20)), hashPat(rng, 1+rng.Intn(20)), "hash-hash"
	case 2:
		return rampPat(rng, 1+rng.Intn(20)), Pat{K: "alt", C: sgn(rng) * (1 + rng.Intn(9))}, "ramp-alt"
	case 3:
		// one lane of one accumulator (index mod 32), against a per-lane pattern (index mod 8)
		return Pat{K: "lane", Mod: 32, R: rng.Intn(32), C: sgn(rng) * (1 + rng.Intn(20)), Bg: 0},
			Pat{K: "lane", Mod: 8, R: rng.Intn(8), C: sgn(rng) * (1 + rng.Intn(20)), Bg: rng.Intn(3) - 1}, "lane-lane"
	case 4:
		return Pat{K: "zero"}, hashPat(rng, 1+rng.Intn(30)), "zero-hash"
	case 5:
		return Pat{K: "const", C: sgn(rng) * rng.Intn(20)}, Pat{K: "const", C: sgn(rng) * rng.Intn(20)}, "const-const"
	case 6:
		if n <= 128 {
			// n * (2*mag)^2 stays below 2^24
			mag := int(2000 / math.Sqrt(float64(n)))
			v, u := make([]int, n), make([]int, n)
			for i := range v {
				v[i] = rng.Intn(2*mag+1) - mag
				u[i] = rng.Intn(2*mag+1) - mag
			}
			return Pat{K: "lit", V: v}, Pat{K: "lit", V: u}, "literal"
		}
		return hashPat(rng, 1+rng.Intn(5)), rampPat(rng, 1+rng.Intn(5)), "hash-ramp"
	case 7:
		// one-hot vectors of large magnitude at random positions (same or different)
		i, j := rng.Intn(n), rng.Intn(n)
		if rng.Intn(3) == 0 {
			j = i
		}
		return Pat{K: "spike", At: []int{i}, Cs: []int{sgn(rng) * (1 + rng.Intn(1400))}, Bg: 0},
			Pat{K: "spike", At: []int{j}, Cs: []int{sgn(rng) * (1 + rng.Intn(1400))}, Bg: 0}, "onehot-onehot"
	default:
		p := hashPat(rng, 1+rng.Intn(30))
		return p, p, "same"
	}
}

const nKinds = 9

type FloatOpts struct {
	Lens   []int
	Per    int  // cases per length (the structural pair is always one of them)
	Direct bool // also call the assembly kernels directly
}

type Stats struct {
	Cases, Results, Guarded, Retries int
	Kinds                            map[string]int
	Lengths                          map[int]bool
}

func NewStats() *Stats { return &Stats{Kinds: map[string]int{}, Lengths: map[int]bool{}} }

// RunFloat emits one "F" line per case: abstract inputs, memory layout and the
// result of every function for the argument orders (x,y), (y,x) and sometimes
// (x,x) on one and the same slice.
func RunFloat(tw *trace.Writer, seed int64, o FloatOpts, st *Stats) error {
	debug.SetPanicOnFault(true)
	rng := rand.New(rand.NewSource(seed))
	fns, err := Fns(o.Direct)
	if err != nil {
		return err
	}
	maxN := 1
	for _, n := range o.Lens {
		if n > maxN {
			maxN = n
		}
	}
	gx, err := newGuardRegion(maxN)
	if err != nil {
		return err
	}
	gy, err := newGuardRegion(maxN)
	if err != nil {
		return err
	}
	for _, n := range o.Lens {
		for k := 0; k < o.Per; k++ {
			kind := 0
			if k > 0 {
				kind = 1 + rng.Intn(nKinds-1)
			}
			var px, py Pat
			var kname string
			var xi, yi []int
			for try := 0; ; try++ {
				px, py, kname = pairFor(rng, n, kind)
				xi, yi = px.Ints(n), py.Ints(n)
				if exactOK(xi, yi) && exactOK(xi, xi) {
					break
				}
				st.Retries++
				if try > 50 {
					return fmt.Errorf("generator cannot satisfy the exactness precondition for n=%d kind=%d", n, kind)
				}
			}
			xf, yf := toFloats(xi), toFloats(yi)
			lay, ox, oy := "heap", rng.Intn(9), rng.Intn(9)
			var xs, ys []float32
			if rng.Intn(3) == 0 {
				lay, ox, oy = "guard", 0, 0
				xs, ys = gx.slice(xf), gy.slice(yf)
				st.Guarded++
			} else {
				xs, ys = heapSlice(xf, ox), heapSlice(yf, oy)
			}
			withXX := rng.Intn(4) == 0
			var rs []M
			for _, f := range fns {
				orders := []string{"xy", "yx"}
				if withXX {
					orders = append(orders, "xx")
				}
				for _, ord := range orders {
					a, b := xs, ys
					switch ord {
					case "yx":
						a, b = ys, xs
					case "xx":
						b = xs
					}
					r, fault := call(f.fn, a, b)
					c, v := classify(r, fault)
					rs = append(rs, M{"f": f.name, "o": ord, "c": c, "v": v})
					st.Results++
				}
			}
			tw.Emit("F", M{"n": n, "kind": kname, "x": px.JSON(), "y": py.JSON(), "lay": lay, "ox": ox, "oy": oy, "r": rs})
			st.Cases++
			st.Kinds[kname]++
			st.Lengths[n] = true
		}
	}
	return nil
}
