package kd

import (
	"fmt"
	"math"
	"syscall"
	"unsafe"
)

// garbage values written around every slice handed to the kernels: if a
// kernel reads an element outside the slice the result cannot stay a small
// integer.
var garbage = []float32{float32(math.NaN()), 3e30, -7e29, float32(math.Inf(1))}

// heapSlice returns a slice of n floats that starts off elements after a
// 32-byte aligned address inside a larger backing array (so the address of
// element 0 is 4*off mod 32), filled from vals, with garbage before and after.
func heapSlice(vals []float32, off int) []float32 {
	n := len(vals)
	back := make([]float32, n+8+16+16)
	b0 := 0
	for uintptr(unsafe.Pointer(&back[b0]))%32 != 0 {
		b0++
	}
	for i := range back {
		back[i] = garbage[i%len(garbage)]
	}
	s := back[b0+8+off : b0+8+off+n]
	copy(s, vals)
	return s
}

const pageSize = 4096

// guardRegion is an anonymous mapping of data pages followed by one
// inaccessible page: a slice that ends at the end of the data pages makes any
// read past its last element fault.
type guardRegion struct {
	mem   []byte
	pages int
}

func newGuardRegion(maxFloats int) (*guardRegion, error) {
	pages := (maxFloats*4+pageSize-1)/pageSize + 1
	mem, err := syscall.Mmap(-1, 0, (pages+1)*pageSize, syscall.PROT_READ|syscall.PROT_WRITE, syscall.MAP_ANON|syscall.MAP_PRIVATE)
	if err != nil {
		return nil, fmt.Errorf("mmap: %w", err)
	}
	if err := syscall.Mprotect(mem[pages*pageSize:], syscall.PROT_NONE); err != nil {
		return nil, fmt.Errorf("mprotect: %w", err)
	}
	return &guardRegion{mem: mem, pages: pages}, nil
}

// slice returns n floats ending exactly at the inaccessible page.
func (g *guardRegion) slice(vals []float32) []float32 {
	n := len(vals)
	all := unsafe.Slice((*float32)(unsafe.Pointer(&g.mem[0])), g.pages*pageSize/4)
	for i := range all {
		all[i] = garbage[i%len(garbage)]
	}
	s := all[len(all)-n:]
	copy(s, vals)
	return s[:n:n]
}

func toFloats(v []int) []float32 {
	out := make([]float32, len(v))
	for i, x := range v {
		out[i] = float32(x)
	}
	return out
}
