//go:build amd64

package kd

import "github.com/semafind/semadb/distance/asm"

// the generated AVX kernels, called directly (only when the dispatcher chose
// them, i.e. the CPU has AVX2 + FMA)
func asmFns() []namedFn {
	return []namedFn{{"asm.sqeuclid", asm.SquaredEuclideanDistance}, {"asm.dot", asm.Dot}}
}
