// Package kd drives the real distance kernels of semadb (package distance,
// distance/asm, the binary quantiser of shard/vectorstore) on generated
// vectors and records inputs (as compact value patterns the TLA+ oracle can
// expand itself) and the exact results for validation by spec/KernelTrace.tla.
//
// The driver decides nothing: it materialises the abstract inputs, calls the
// real functions and logs what they returned.
package kd

import (
	"math/rand"

	"verif/harness/trace"
)

type M = trace.M

// Pat is a value pattern: an integer-valued vector of any length given by a
// formula over the 0-based element index. KernelTrace.tla!Val is its twin;
// all operands of % are non-negative so Go and TLA+ agree.
type Pat struct {
	K   string // zero | const | lit | spike | ramp | alt | hash | lane
	C   int    // const / alt / lane value
	Bg  int    // spike / lane background
	At  []int  // spike positions
	Cs  []int  // spike values
	A   int    // ramp slope
	B   int    // ramp / hash offset
	Mod int    // ramp / hash / lane modulus
	S   int    // ramp / hash shift
	R   int    // lane residue
	V   []int  // literal values
}

const hashMul, hashMod = 7919, 8191

func (p Pat) Val(i int) int {
	switch p.K {
	case "zero":
		return 0
	case "const":
		return p.C
	case "lit":
		return p.V[i]
	case "spike":
		for j, a := range p.At {
			if a == i {
				return p.Cs[j]
			}
		}
		return p.Bg
	case "ramp":
		return (p.A*i+p.B)%p.Mod - p.S
	case "alt":
		if i%2 == 0 {
			return p.C
		}
		return -p.C
	case "hash":
		return (((i+p.B)*hashMul)%hashMod)%p.Mod - p.S
	case "lane":
		if i%p.Mod == p.R {
			return p.C
		}
		return p.Bg
	}
	panic("kd: unknown pattern kind " + p.K)
}

func (p Pat) JSON() M {
	switch p.K {
	case "zero":
		return M{"k": p.K}
	case "const", "alt":
		return M{"k": p.K, "c": p.C}
	case "lit":
		return M{"k": p.K, "v": p.V}
	case "spike":
		return M{"k": p.K, "at": p.At, "cs": p.Cs, "bg": p.Bg}
	case "ramp":
		return M{"k": p.K, "a": p.A, "b": p.B, "m": p.Mod, "s": p.S}
	case "hash":
		return M{"k": p.K, "b": p.B, "m": p.Mod, "s": p.S}
	case "lane":
		return M{"k": p.K, "m": p.Mod, "r": p.R, "c": p.C, "bg": p.Bg}
	}
	panic("kd: unknown pattern kind " + p.K)
}

// Ints materialises the first n values.
func (p Pat) Ints(n int) []int {
	out := make([]int, n)
	for i := range out {
		out[i] = p.Val(i)
	}
	return out
}

func sgn(rng *rand.Rand) int {
	if rng.Intn(2) == 0 {
		return -1
	}
	return 1
}

// hashPat: pseudo-random values in [-mag, mag].
func hashPat(rng *rand.Rand, mag int) Pat {
	return Pat{K: "hash", B: rng.Intn(4000), Mod: 2*mag + 1, S: mag}
}

func rampPat(rng *rand.Rand, mag int) Pat {
	return Pat{K: "ramp", A: 1 + rng.Intn(7), B: rng.Intn(50), Mod: 2*mag + 1, S: mag}
}

// structural positions of a vector of length n for the 32-wide block loop
// with a scalar tail: first, last, first element of the tail, last element
// of the last block, first element of the last block.
func structural(n int) []int {
	blk := 32 * (n / 32)
	cand := []int{0, n - 1, blk, blk - 1, blk - 32, blk + 1}
	seen := map[int]bool{}
	var out []int
	for _, c := range cand {
		if c >= 0 && c < n && !seen[c] {
			seen[c] = true
			out = append(out, c)
		}
	}
	return out
}
