// Package tenantd drives the REAL HTTP handler chain of semadb (recover,
// logging, app-header middleware, v1 and v2 handlers) over one in-process
// cluster node with TWO tenants and logs, after every request of one of them,
// everything BOTH of them can observe (property C16, tenant isolation).
//
// The driver computes nothing of the verdict: it logs status codes, the
// decoded answers (collection names and point ids abstracted to small
// integers through tables fixed per history) and facts about the inputs it
// generated (length / character class of a collection name, the quota of the
// plan it sent).  spec/TenancyTrace.tla (TLC) judges every line.
package tenantd

import (
	"bytes"
	"encoding/json"
	"fmt"
	"math/rand"
	"net/http"
	"net/http/httptest"
	"net/url"
	"os"
	"path/filepath"
	"runtime"
	"sort"
	"strings"
	"sync"
	"sync/atomic"
	"time"

	"github.com/google/uuid"
	"github.com/semafind/semadb/cluster"
	"github.com/semafind/semadb/httpapi/middleware"
	httpv1 "github.com/semafind/semadb/httpapi/v1"
	httpv2 "github.com/semafind/semadb/httpapi/v2"
	"github.com/semafind/semadb/models"

	"verif/harness/trace"
)

type M = trace.M

// Opts of one driver process.
type Opts struct {
	Seed  int64
	Hists int    // histories (each on a fresh node)
	Steps int    // random requests per history (after the scripted prologue)
	Conc  int    // requests per user in the concurrent phase at the end of a history (0 = none)
	First int    // index of the first user pair of the catalogue
	Pairs string // all | normal | dot
	Users string // "A|B": this pair only (experiments outside the catalogue, e.g. ids with '/')
	Dir   string
}

// Stats printed by the command (coverage information only).
type Stats struct {
	Hists    int      `json:"hists"`
	Requests int      `json:"requests"`
	HTTP     int      `json:"http_calls"`
	Pairs    []string `json:"pairs"`
}

// ---------------------------------------------------------------------------
// user id pairs

type pairSpec struct {
	a, b string
	dot  bool // one of the ids is "." or ".." (reported separately, see known finding dot-userid)
}

// Catalogue returns the user id pairs: ids that are prefixes of one another or
// of user+collection concatenations, ids with '.', '-', '_', '@', blanks,
// percent signs, back slashes, ids equal to collection names, case variants.
func Catalogue(which string) []pairSpec {
	normal := []pairSpec{
		{a: "a", b: "ab"}, {a: "ab", b: "a"},
		{a: "u1", b: "u10"}, {a: "u10", b: "u1"},
		// ids that are file-name patterns matching the other user's id
		{a: "t?m", b: "tom"}, {a: "tom", b: "t*"}, {a: "*", b: "alice"}, {a: "[a-z]om", b: "tom"},
		{a: "abc", b: "abcdef"}, {a: "abcxyz", b: "abc"},
		{a: "a.b", b: "a"}, {a: "a", b: "a."},
		{a: "a-b", b: "a-"}, {a: "a_", b: "a_b"},
		{a: "abc", b: "xyz"}, {a: "xyz", b: "abc"},
		{a: "abc", b: "ABC"},
		{a: "user@example.com", b: "user@example.co"},
		{a: "a b", b: "a"}, {a: "a%2Fb", b: "a"}, {a: "a", b: "a%2F"},
		{a: "a\\b", b: "a"}, {a: "a:b", b: "a"},
		// ids that a "safe file name" mapping would fold together
		{a: "team:alpha", b: "team_alpha"}, {a: "a b", b: "a_b"}, {a: "x+y", b: "x_y"}, {a: "k\\m", b: "k_m"}, {a: "Kim@Example.com", b: "kim@example.com"},
		{a: "...", b: "abc"}, {a: "abc", b: ".abc"}, {a: "abc.", b: "abc"},
		{a: "0", b: "00"}, {a: "userCollections", b: "u"},
		{a: "8f14e45f-ceea-467f-a0e6-1d2f3b5c7a90", b: "8f14e45f-ceea-467f-a0e6-1d2f3b5c7a9"},
	}
	dot := []pairSpec{
		{a: ".", b: "abc", dot: true}, {a: "abc", b: ".", dot: true},
		{a: "..", b: "abc", dot: true}, {a: "abc", b: "..", dot: true},
	}
	switch which {
	case "normal":
		return normal
	case "dot":
		return dot
	}
	// all: a dot pair after every six normal ones
	out := []pairSpec{}
	d := 0
	for i, p := range normal {
		out = append(out, p)
		if i%6 == 5 {
			out = append(out, dot[d%len(dot)])
			d++
		}
	}
	for ; d < len(dot); d++ {
		out = append(out, dot[d])
	}
	return out
}

// ---------------------------------------------------------------------------
// collection names

type nameInfo struct {
	s   string
	cls string // lower | mixed | other | bad
}

func classify(s string) string {
	if strings.Contains(s, "/") || s == "." || s == ".." || strings.Contains(s, "..") {
		return "bad"
	}
	lower, alnum := true, true
	for _, r := range s {
		switch {
		case (r >= 'a' && r <= 'z') || (r >= '0' && r <= '9'):
		case r >= 'A' && r <= 'Z':
			lower = false
		default:
			alnum = false
		}
	}
	switch {
	case !alnum:
		return "other"
	case lower:
		return "lower"
	}
	return "mixed"
}

func validLower(s string) bool { return len(s) >= 3 && len(s) <= 24 && classify(s) == "lower" }

// pool builds the collection names of a history (the same names for both users).
func pool(p pairSpec) []nameInfo {
	n1 := "abc"
	// a name equal to the other user's id, when the API accepts it as a name
	switch {
	case validLower(p.b) && p.b != "xyz":
		n1 = p.b
	case validLower(p.a) && p.a != "xyz":
		n1 = p.a
	}
	// user+collection coincidence: long = short ++ s  =>  short ++ (s ++ "xyz") = long ++ "xyz"
	n4 := "col4"
	short, long := p.a, p.b
	if len(short) > len(long) {
		short, long = long, short
	}
	if strings.HasPrefix(long, short) {
		if c := long[len(short):] + "xyz"; validLower(c) && c != n1 {
			n4 = c
		}
	}
	// experiments with ids that contain '/' (outside the property): user "a" asking for the escaped name
	// "x/xyz" builds the key of collection "xyz" of user "a/x"
	n13 := "x/y"
	for _, id := range []string{p.a, p.b} {
		if i := strings.LastIndex(id, "/"); i >= 0 && i+1 < len(id) {
			n13 = id[i+1:] + "/xyz"
		}
	}
	names := []string{
		n1,                          // 1: shortest allowed (or the other user's id)
		"abcdefghijklmnopqrstuvwx",  // 2: 24 characters, longest allowed by v2
		"abcdefghijklmnop",          // 3: 16 characters, longest allowed by v1
		n4,                          // 4: user+collection coincidence with name 5 of the other user
		"xyz",                       // 5
		"Abc1",                      // 6: upper case, a name for v1 only
		"abcdefghijklmnopq",         // 7: 17 characters, v2 only
		"userCollections",           // 8: (v1 only) the name of the directory holding all user directories
		"ab",                        // 9: too short
		"abcdefghijklmnopqrstuvwxy", // 10: 25 characters, too long
		"ab_c",                      // 11: not alphanumeric
		"a.c",                       // 12
		n13,                         // 13: a path value with an escaped slash
		"../" + p.b + "/" + n1,      // 14: towards the other user's directory
		"..",                        // 15
	}
	out := make([]nameInfo, len(names))
	seen := map[string]bool{}
	for i, s := range names {
		if seen[s] {
			s = fmt.Sprintf("dup%d", i+1)
		}
		seen[s] = true
		out[i] = nameInfo{s: s, cls: classify(s)}
	}
	return out
}

// ---------------------------------------------------------------------------

type timerBox struct {
	mu             sync.Mutex
	ts             []*time.Timer
	open           map[any]bool // loaded shards (keyed by the manager's handle)
	opened, closed int
	foreign        int // closes of handles this history never saw opened
}

type hist struct {
	o        Opts
	hi       int
	tw       *trace.Writer
	node     *cluster.ClusterNode
	handler  http.Handler
	users    [2]string
	home     [2]string // plan id normally sent by the user
	plans    map[string]models.UserPlan
	planIds  []string
	names    []nameInfo
	nameIdx  map[string]int
	probe    []int // names (1-based) whose state is read in every observation
	hot      []int
	pts      []uuid.UUID
	ptIdx    map[string]int
	mode     string // v2 | mix
	oneShard bool
	tb       *timerBox
	calls    int
	callsMu  sync.Mutex
	// what the user's last observation showed (steers request generation only)
	seenMu sync.Mutex
	seen   [2]map[int][]int
}

func ascii(s string) string {
	var b strings.Builder
	for _, r := range s {
		if r >= 32 && r < 127 && r != '"' && r != '\\' {
			b.WriteRune(r)
		} else {
			b.WriteByte('?')
		}
	}
	return b.String()
}

// call sends one request through the handler chain; the answer body is decoded as JSON.
func (h *hist) call(api, method, path, user, plan string, body any) (int, map[string]any) {
	var rd *bytes.Reader
	if body != nil {
		b, err := json.Marshal(body)
		if err != nil {
			panic(err)
		}
		rd = bytes.NewReader(b)
	} else {
		rd = bytes.NewReader(nil)
	}
	req := httptest.NewRequest(method, "/"+api+path, rd)
	if body != nil {
		req.Header.Set("Content-Type", "application/json")
	}
	if user != "" {
		req.Header.Set("X-User-Id", user)
	}
	if plan != "" {
		req.Header.Set("X-Plan-Id", plan)
	}
	rec := httptest.NewRecorder()
	h.handler.ServeHTTP(rec, req)
	h.callsMu.Lock()
	h.calls++
	h.callsMu.Unlock()
	out := map[string]any{}
	dec := json.NewDecoder(bytes.NewReader(rec.Body.Bytes()))
	dec.UseNumber()
	_ = dec.Decode(&out)
	return rec.Code, out
}

func class(code int) string {
	switch {
	case code >= 200 && code < 300:
		return "ok"
	case code == 403:
		return "quota"
	case code == 404:
		return "notfound"
	case code == 409:
		return "exists"
	case code == 400:
		return "invalid"
	case code >= 300 && code < 400:
		return "redirect"
	case code >= 400 && code < 500:
		return "other4"
	}
	return "error"
}

func toInt(v any) int {
	switch x := v.(type) {
	case json.Number:
		if i, err := x.Int64(); err == nil {
			return int(i)
		}
		if f, err := x.Float64(); err == nil && f == float64(int(f)) {
			return int(f)
		}
		return -1
	case float64:
		return int(x)
	}
	return -1
}

func (h *hist) colPath(ci int) string {
	return "/collections/" + url.PathEscape(h.names[ci-1].s)
}

// ---------------------------------------------------------------------------
// observation: everything a user can read

func (h *hist) listOf(body map[string]any) []int {
	out := []int{}
	arr, _ := body["collections"].([]any)
	for _, it := range arr {
		m, _ := it.(map[string]any)
		id, _ := m["id"].(string)
		out = append(out, h.nameIdx[id]) // 0: a name outside the pool
	}
	sort.Ints(out)
	return out
}

func shardCounts(body map[string]any) []int {
	out := []int{}
	arr, _ := body["shards"].([]any)
	for _, it := range arr {
		m, _ := it.(map[string]any)
		out = append(out, toInt(m["pointCount"]))
	}
	return out
}

func (h *hist) idStrings(ids []int) []string {
	out := make([]string, len(ids))
	for i, id := range ids {
		out[i] = h.pts[id-1].String()
	}
	return out
}

// pointsOf abstracts the points of a v2 search answer: i = point number (0 unknown),
// v = the integer payload, w = the second copy of the payload (first vector component in vector collections).
func (h *hist) pointsOf(body map[string]any) []M {
	out := []M{}
	arr, _ := body["points"].([]any)
	for _, it := range arr {
		m, _ := it.(map[string]any)
		id, _ := m["_id"].(string)
		e := M{"i": h.ptIdx[id], "v": -1, "w": -1}
		if n, ok := m["n"]; ok {
			e["v"], e["w"] = toInt(n), toInt(n)
		} else {
			e["v"] = toInt(m["metadata"])
			if vec, ok := m["vector"].([]any); ok && len(vec) > 0 {
				e["w"] = toInt(vec[0])
			}
		}
		out = append(out, e)
	}
	sort.SliceStable(out, func(a, b int) bool { return out[a]["i"].(int) < out[b]["i"].(int) })
	return out
}

func (h *hist) searchIds(u int, ci int, ids []int) (int, []M) {
	body := M{"query": M{"property": "_id", "stringArray": M{"value": h.idStrings(ids), "operator": "containsAny"}},
		"select": []string{"*"}, "limit": 100}
	code, resp := h.call("v2", "POST", h.colPath(ci)+"/points/search", h.users[u], h.home[u], body)
	return code, h.pointsOf(resp)
}

func (h *hist) allIds() []int {
	out := make([]int, len(h.pts))
	for i := range out {
		out[i] = i + 1
	}
	return out
}

func (h *hist) observe(u int) M {
	user, plan := h.users[u], h.home[u]
	lc, lb := h.call("v2", "GET", "/collections", user, plan, nil)
	o := M{"lc": lc, "list": h.listOf(lb), "lc1": 0, "list1": []int{}}
	if h.mode == "mix" {
		lc1, lb1 := h.call("v1", "GET", "/collections", user, plan, nil)
		o["lc1"], o["list1"] = lc1, h.listOf(lb1)
	}
	cols := []M{}
	seen := map[int][]int{}
	for _, ci := range h.probe {
		code, body := h.call("v2", "GET", h.colPath(ci), user, plan, nil)
		e := M{"c": ci, "code": code, "k": shardCounts(body), "sc": 0, "pts": []M{}, "code1": 0, "k1": []int{}}
		if code == 200 {
			sc, pts := h.searchIds(u, ci, h.allIds())
			e["sc"], e["pts"] = sc, pts
			ids := []int{}
			for _, p := range pts {
				ids = append(ids, p["i"].(int))
			}
			seen[ci] = ids
		}
		if h.mode == "mix" {
			code1, body1 := h.call("v1", "GET", h.colPath(ci), user, plan, nil)
			e["code1"], e["k1"] = code1, shardCounts(body1)
		}
		cols = append(cols, e)
	}
	o["cols"] = cols
	h.seenMu.Lock()
	h.seen[u] = seen
	h.seenMu.Unlock()
	return o
}

// ---------------------------------------------------------------------------
// requests

type request struct {
	u    int
	api  string
	op   string // create list get delcol insert update delpts search badhdr
	c    int    // name (1-based), 0 if none
	plan string
	pts  []M // batch: {i, v}; ids only: v = 0
}

func vectorSchema() M {
	return M{"vector": M{"type": "vectorVamana", "vectorVamana": M{"vectorSize": 2, "distanceMetric": "euclidean",
		"searchSize": 75, "degreeBound": 64, "alpha": 1.2}}}
}

func (h *hist) pointDoc(api string, p M) M {
	id := h.pts[p["i"].(int)-1].String()
	v := p["v"].(int)
	if h.mode == "v2" {
		return M{"_id": id, "n": v}
	}
	if api == "v1" {
		return M{"id": id, "vector": []int{v, 1}, "metadata": v}
	}
	return M{"_id": id, "vector": []int{v, 1}, "metadata": v}
}

func (h *hist) failedIdx(body map[string]any) []int {
	out := []int{}
	arr, _ := body["failedPoints"].([]any)
	for _, it := range arr {
		m, _ := it.(map[string]any)
		id, _ := m["id"].(string)
		out = append(out, h.ptIdx[id])
	}
	sort.Ints(out)
	return out
}

// do performs the request and returns the fields of its trace line (without the observations).
func (h *hist) do(r request) M {
	user := h.users[r.u]
	plan := h.plans[r.plan]
	f := M{"u": r.u + 1, "api": r.api, "op": r.op, "c": r.c, "maxCols": plan.MaxCollections,
		"maxPts": int(plan.MaxCollectionPointCount), "pts": r.pts, "resp": M{}}
	if r.pts == nil {
		f["pts"] = []M{}
	}
	var code int
	var body map[string]any
	resp := M{}
	ids := []int{}
	for _, p := range r.pts {
		ids = append(ids, p["i"].(int))
	}
	switch r.op {
	case "create":
		name := h.names[r.c-1].s
		var req M
		switch {
		case r.api == "v1":
			req = M{"id": name, "vectorSize": 2, "distanceMetric": "euclidean"}
		case h.mode == "mix":
			req = M{"id": name, "indexSchema": vectorSchema()}
		default:
			req = M{"id": name, "indexSchema": M{"n": M{"type": "integer"}}}
		}
		code, body = h.call(r.api, "POST", "/collections", user, r.plan, req)
	case "list":
		code, body = h.call(r.api, "GET", "/collections", user, r.plan, nil)
		resp["cols"] = h.listOf(body)
	case "get":
		code, body = h.call(r.api, "GET", h.colPath(r.c), user, r.plan, nil)
		resp["k"] = shardCounts(body)
	case "delcol":
		code, body = h.call(r.api, "DELETE", h.colPath(r.c), user, r.plan, nil)
	case "insert", "update":
		docs := make([]M, len(r.pts))
		for i, p := range r.pts {
			docs[i] = h.pointDoc(r.api, p)
		}
		method := "POST"
		if r.op == "update" {
			method = "PUT"
		}
		code, body = h.call(r.api, method, h.colPath(r.c)+"/points", user, r.plan, M{"points": docs})
		if r.op == "insert" {
			fr, _ := body["failedRanges"].([]any)
			resp["failed"] = len(fr)
		} else {
			resp["failed"] = h.failedIdx(body)
		}
	case "delpts":
		code, body = h.call(r.api, "DELETE", h.colPath(r.c)+"/points", user, r.plan, M{"ids": h.idStrings(ids)})
		resp["failed"] = h.failedIdx(body)
	case "search":
		if r.api == "v1" {
			// nearest neighbours of the origin (approximate index: judged as a subset of the user's points)
			code, body = h.call("v1", "POST", h.colPath(r.c)+"/points/search", user, r.plan, M{"vector": []int{0, 0}, "limit": 75})
			out := []M{}
			arr, _ := body["points"].([]any)
			for _, it := range arr {
				m, _ := it.(map[string]any)
				id, _ := m["id"].(string)
				out = append(out, M{"i": h.ptIdx[id], "v": toInt(m["metadata"]), "w": toInt(m["metadata"])})
			}
			sort.SliceStable(out, func(a, b int) bool { return out[a]["i"].(int) < out[b]["i"].(int) })
			resp["pts"] = out
		} else {
			q := M{"query": M{"property": "_id", "stringArray": M{"value": h.idStrings(ids), "operator": "containsAny"}},
				"select": []string{"*"}, "limit": 100}
			code, body = h.call("v2", "POST", h.colPath(r.c)+"/points/search", user, r.plan, q)
			resp["pts"] = h.pointsOf(body)
		}
	case "badhdr":
		// a request whose headers do not identify a user and a plan
		switch r.c {
		case 0:
			code, body = h.call(r.api, "POST", "/collections", user, "no-such-plan", M{"id": h.names[0].s, "indexSchema": M{}})
		default:
			code, body = h.call(r.api, "DELETE", h.colPath(r.c), "", r.plan, nil)
		}
	default:
		panic("unknown op " + r.op)
	}
	f["code"], f["cls"], f["resp"] = code, class(code), resp
	if code >= 500 {
		if s, ok := body["error"].(string); ok {
			f["msg"] = ascii(s)
		}
	}
	return f
}

// ---------------------------------------------------------------------------
// request generation

func (h *hist) pickPlan(rng *rand.Rand, u int) string {
	if rng.Intn(12) == 0 {
		return h.planIds[rng.Intn(len(h.planIds))]
	}
	return h.home[u]
}

func (h *hist) pickAPI(rng *rand.Rand) string {
	if h.mode == "mix" && rng.Intn(2) == 0 {
		return "v1"
	}
	return "v2"
}

func (h *hist) seenCols(u int) []int {
	h.seenMu.Lock()
	defer h.seenMu.Unlock()
	out := []int{}
	for c := range h.seen[u] {
		out = append(out, c)
	}
	sort.Ints(out)
	return out
}

func (h *hist) seenPts(u, c int) []int {
	h.seenMu.Lock()
	defer h.seenMu.Unlock()
	return append([]int{}, h.seen[u][c]...)
}

func (h *hist) pickName(rng *rand.Rand, u int, preferExisting bool) int {
	ex := h.seenCols(u)
	r := rng.Intn(100)
	switch {
	case preferExisting && len(ex) > 0 && r < 72:
		return ex[rng.Intn(len(ex))]
	case r < 80:
		return h.hot[rng.Intn(len(h.hot))]
	case r < 90:
		return h.probe[rng.Intn(len(h.probe))]
	}
	return 1 + rng.Intn(len(h.names))
}

func (h *hist) batch(rng *rand.Rand, u, c int, kind string) []M {
	have := map[int]bool{}
	for _, i := range h.seenPts(u, c) {
		have[i] = true
	}
	fresh, old := []int{}, []int{}
	for i := 1; i <= len(h.pts); i++ {
		if have[i] {
			old = append(old, i)
		} else {
			fresh = append(fresh, i)
		}
	}
	rng.Shuffle(len(fresh), func(a, b int) { fresh[a], fresh[b] = fresh[b], fresh[a] })
	rng.Shuffle(len(old), func(a, b int) { old[a], old[b] = old[b], old[a] })
	n := 1 + rng.Intn(3)
	out := []M{}
	add := func(i int) { out = append(out, M{"i": i, "v": rng.Intn(100)}) }
	switch kind {
	case "insert":
		for len(out) < n && len(fresh) > 0 {
			add(fresh[0])
			fresh = fresh[1:]
		}
		// (only where a collection has one shard: point ids are unique per shard only, what a
		// collection of several shards does with a repeated id is not this property's business)
		switch x := rng.Intn(10); {
		case x == 0 && len(old) > 0 && h.oneShard: // an id the collection already holds
			add(old[0])
		case x == 1 && len(out) > 0 && h.oneShard: // an id twice in the batch
			add(out[0]["i"].(int))
		}
		if len(out) == 0 {
			add(1 + rng.Intn(len(h.pts)))
		}
	default: // update, delpts, search: distinct ids, held and not held
		pool := append(append([]int{}, old...), fresh...)
		if len(old) > 0 && rng.Intn(4) > 0 {
			pool = append(append([]int{}, old...), fresh[:min(1, len(fresh))]...)
		}
		rng.Shuffle(len(pool), func(a, b int) { pool[a], pool[b] = pool[b], pool[a] })
		for len(out) < n && len(pool) > 0 {
			add(pool[0])
			pool = pool[1:]
		}
		if kind != "update" {
			for _, p := range out {
				p["v"] = 0
			}
		}
	}
	return out
}

func (h *hist) gen(rng *rand.Rand, u int) request {
	r := request{u: u, api: h.pickAPI(rng), plan: h.pickPlan(rng, u)}
	x := rng.Intn(100)
	switch {
	case x < 20:
		r.op, r.c = "create", h.pickName(rng, u, false)
	case x < 28:
		r.op, r.c = "delcol", h.pickName(rng, u, true)
	case x < 58:
		r.op, r.c = "insert", h.pickName(rng, u, true)
		r.pts = h.batch(rng, u, r.c, "insert")
	case x < 67:
		r.op, r.c = "update", h.pickName(rng, u, true)
		r.pts = h.batch(rng, u, r.c, "update")
	case x < 76:
		r.op, r.c = "delpts", h.pickName(rng, u, true)
		r.pts = h.batch(rng, u, r.c, "delpts")
	case x < 84:
		r.op, r.c = "search", h.pickName(rng, u, true)
		if r.api == "v2" {
			r.pts = h.batch(rng, u, r.c, "search")
		}
	case x < 91:
		r.op, r.c = "get", h.pickName(rng, u, true)
	case x < 97:
		r.op = "list"
	default:
		r.op, r.api = "badhdr", "v2"
		if rng.Intn(2) == 0 {
			r.c = h.pickName(rng, u, true)
		}
	}
	// a name the v1 router cannot carry in a URI is still interesting for v2
	return r
}

// ---------------------------------------------------------------------------
// environment step: every loaded shard is unloaded (the idle timers of the
// shard manager are substituted through the verif hook and fired here)

func (h *hist) unloadAll() error {
	tb := h.tb
	tb.mu.Lock()
	live := len(tb.open)
	tb.mu.Unlock()
	var ts []*time.Timer
	base := runtime.NumGoroutine()
	deadline := time.Now().Add(10 * time.Second)
	// A cleanup goroutine that is just re-arming its timer after the last request swallows a firing:
	// fire again until every shard is closed.
	for round := 0; ; round++ {
		if round%50 == 0 {
			// (a shard's cleanup goroutine may register its timer only now: take the list afresh)
			tb.mu.Lock()
			ts = append([]*time.Timer{}, tb.ts...)
			tb.mu.Unlock()
			for _, t := range ts {
				t.Reset(0)
			}
		}
		tb.mu.Lock()
		done := len(tb.open) == 0
		tb.mu.Unlock()
		if done {
			break
		}
		if time.Now().After(deadline) {
			tb.mu.Lock()
			defer tb.mu.Unlock()
			return fmt.Errorf("unload: %d shards were open, %d timers fired, opened %d closed %d after 10s", live, len(ts), tb.opened, tb.closed)
		}
		time.Sleep(time.Millisecond)
	}
	// the unloading goroutines leave after they removed their entry from the shard store
	for runtime.NumGoroutine() > base-live && time.Now().Before(deadline) {
		time.Sleep(time.Millisecond)
	}
	time.Sleep(5 * time.Millisecond)
	tb.mu.Lock()
	tb.ts = nil
	tb.mu.Unlock()
	return nil
}

func (h *hist) installHooks() {
	tb := &timerBox{open: map[any]bool{}}
	h.tb = tb
	cluster.VerifTimer = func(dir string, t *time.Timer) *time.Timer {
		t.Stop()
		nt := time.NewTimer(24 * time.Hour)
		tb.mu.Lock()
		tb.ts = append(tb.ts, nt)
		tb.mu.Unlock()
		return nt
	}
	cluster.VerifYield = func(label string, key any) {
		switch label {
		case "ev.opened":
			tb.mu.Lock()
			tb.opened++
			tb.open[key] = true
			tb.mu.Unlock()
		case "ev.closed":
			tb.mu.Lock()
			tb.closed++
			if tb.open[key] {
				delete(tb.open, key)
			} else {
				tb.foreign++
				fmt.Fprintf(os.Stderr, "tenantd: history %d: close of a shard handle not opened in this history (%v)\n", h.hi, key)
			}
			tb.mu.Unlock()
		}
	}
}

// ---------------------------------------------------------------------------

func (h *hist) seqStep(r request) {
	f := h.do(r)
	f["obs"] = []M{h.observe(0), h.observe(1)}
	h.tw.Emit("Req", f)
}

func (h *hist) unloadStep() error {
	if err := h.unloadAll(); err != nil {
		return err
	}
	h.tw.Emit("Unload", M{"obs": []M{h.observe(0), h.observe(1)}})
	return nil
}

func (h *hist) ins(u, c int, kv ...int) request {
	pts := []M{}
	for i := 0; i+1 < len(kv); i += 2 {
		pts = append(pts, M{"i": kv[i], "v": kv[i+1]})
	}
	return request{u: u, api: "v2", op: "insert", c: c, plan: h.home[u], pts: pts}
}

// prologue: a fixed scenario with equal names, equal point ids, the coincidence names and deletions.
func (h *hist) prologue(rng *rand.Rand, dot bool) error {
	a, b := 0, 1
	if rng.Intn(2) == 0 {
		a, b = 1, 0
	}
	if dot {
		// the user called "." / ".." plays a: its collection number 1 carries the other user's id as its name
		a, b = 0, 1
		if h.users[1] == "." || h.users[1] == ".." {
			a, b = 1, 0
		}
	}
	rq := func(u int, api, op string, c int) request {
		return request{u: u, api: api, op: op, c: c, plan: h.home[u]}
	}
	api := func() string { return h.pickAPI(rng) }
	steps := []request{
		rq(a, api(), "create", 1), rq(b, api(), "create", 1),
		h.ins(a, 1, 1, 11, 2, 12), h.ins(b, 1, 1, 21, 3, 23),
		rq(a, api(), "create", 4), rq(b, api(), "create", 5),
		h.ins(a, 4, 1, 14), h.ins(b, 5, 1, 25, 2, 26),
		rq(a, api(), "delcol", 1),
	}
	if h.mode == "mix" {
		// names only v1 accepts; number 8 is the directory name of all user directories
		steps = append(steps, rq(a, "v1", "create", 8), h.ins(a, 8, 4, 48), rq(b, "v1", "create", 6), rq(a, "v1", "delcol", 8))
	}
	for _, r := range steps {
		h.seqStep(r)
	}
	if err := h.unloadStep(); err != nil {
		return err
	}
	h.seqStep(rq(b, api(), "delcol", 5))
	h.seqStep(rq(a, api(), "create", 5))
	h.seqStep(rq(b, api(), "create", 4))
	return h.unloadStep()
}

func (h *hist) run(rng *rand.Rand, p pairSpec) error {
	if err := h.prologue(rng, p.dot); err != nil {
		return err
	}
	for s := 0; s < h.o.Steps; s++ {
		if s%17 == 16 {
			if err := h.unloadStep(); err != nil {
				return err
			}
			continue
		}
		h.seqStep(h.gen(rng, rng.Intn(2)))
	}
	if h.o.Conc > 0 {
		// both users at once; each user's own requests and own observations stay sequential
		h.tw.Emit("Fork", M{"n": h.o.Conc})
		var wg sync.WaitGroup
		// other tenants of the same node are busy meanwhile (creating, reading and deleting collections of their
		// own, through the same node-database handlers): nothing of it may show in what the two users observe
		var stop atomic.Bool
		var bg sync.WaitGroup
		for k := 0; k < 6; k++ {
			bg.Add(1)
			go func(k int) {
				defer bg.Done()
				uid := fmt.Sprintf("zz-tenant-%d", k)
				plan := models.UserPlan{Name: "bg", MaxCollections: 2, MaxCollectionPointCount: 10, MaxPointSize: 1000}
				for i := 0; !stop.Load(); i++ {
					col := models.Collection{UserId: uid, Id: fmt.Sprintf("c%d", i%3), Replicas: 1, Timestamp: 1, CreatedAt: 1, UserPlan: plan, IndexSchema: models.IndexSchema{}}
					h.node.CreateCollection(col)
					h.node.GetCollection(uid, col.Id)
					h.node.ListCollections(uid)
					if i%2 == 1 {
						if c, err := h.node.GetCollection(uid, col.Id); err == nil {
							c.UserPlan = plan
							h.node.DeleteCollection(c)
						}
					}
				}
			}(k)
		}
		for u := 0; u < 2; u++ {
			wg.Add(1)
			go func(u int, seed int64) {
				defer wg.Done()
				r := rand.New(rand.NewSource(seed))
				for i := 0; i < h.o.Conc; i++ {
					f := h.do(h.gen(r, u))
					f["o"] = h.observe(u)
					h.tw.Emit("CReq", f)
				}
			}(u, rng.Int63())
		}
		wg.Wait()
		stop.Store(true)
		bg.Wait()
		h.tw.Emit("Join", M{"obs": []M{h.observe(0), h.observe(1)}})
		if err := h.unloadStep(); err != nil {
			return err
		}
	}
	return nil
}

// Run drives o.Hists histories.
func Run(tw *trace.Writer, o Opts) (Stats, error) {
	st := Stats{}
	cat := Catalogue(o.Pairs)
	if a, b, ok := strings.Cut(o.Users, "|"); ok {
		cat = []pairSpec{{a: a, b: b, dot: a == "." || a == ".." || b == "." || b == ".."}}
	}
	for hi := 0; hi < o.Hists; hi++ {
		p := cat[(o.First+hi)%len(cat)]
		rng := rand.New(rand.NewSource(o.Seed*7919 + int64(hi)))
		root := filepath.Join(o.Dir, fmt.Sprintf("node-%d-%d", o.Seed, hi))
		os.RemoveAll(root)
		if err := os.MkdirAll(root, 0o755); err != nil {
			return st, err
		}
		h := &hist{o: o, hi: hi, tw: tw, users: [2]string{p.a, p.b}, mode: "v2", nameIdx: map[string]int{}, ptIdx: map[string]int{}}
		if hi%3 == 1 || p.a == ".." || p.b == ".." {
			h.mode = "mix"
		}
		maxShardPts := int64(100000)
		if hi%2 == 1 {
			maxShardPts = 2 // several shards per collection
		}
		host, port := fmt.Sprintf("vh%d", hi), 9200+hi
		node, err := cluster.NewNode(cluster.ClusterNodeConfig{
			RootDir: root, Servers: []string{fmt.Sprintf("%s:%d", host, port)},
			RpcHost: host, RpcPort: port, RpcTimeout: 5, RpcRetries: 1,
			MaxShardSize: 1 << 30, MaxShardPointCount: maxShardPts, MaxSearchLimit: 75,
			ShardManager: cluster.ShardManagerConfig{RootDir: root, ShardTimeout: 3600, MaxCacheSize: -1},
		})
		if err != nil {
			return st, fmt.Errorf("new node: %w", err)
		}
		h.node = node
		h.oneShard = maxShardPts > 1000
		h.installHooks()
		// plans: one per user (small quotas) and a roomier one
		mk := func(name string, cols int, pts int64) models.UserPlan {
			return models.UserPlan{Name: name, MaxCollections: cols, MaxCollectionPointCount: pts, MaxPointSize: 1000}
		}
		h.plans = map[string]models.UserPlan{
			"PA": mk("PA", 2+rng.Intn(2), int64(2+rng.Intn(3))),
			"PB": mk("PB", 2+rng.Intn(2), int64(2+rng.Intn(3))),
			"PX": mk("PX", 5, 6),
		}
		h.planIds = []string{"PA", "PB", "PX"}
		h.home = [2]string{"PA", "PB"}
		if rng.Intn(4) == 0 {
			h.home = [2]string{"PA", "PA"} // both users on the same plan
		}
		mux := http.NewServeMux()
		mux.Handle("/v1/", http.StripPrefix("/v1", httpv1.SetupV1Handlers(node)))
		mux.Handle("/v2/", http.StripPrefix("/v2", httpv2.SetupV2Handlers(node)))
		var handler http.Handler = mux
		handler = middleware.AppHeaderMiddleware(h.plans, handler)
		handler = middleware.WhiteListIP([]string{"*"}, handler)
		handler = middleware.ProxySecret("", handler)
		handler = middleware.ZeroLoggerMetrics(nil, handler)
		handler = middleware.Recover(handler)
		h.handler = handler
		// names and points
		h.names = pool(p)
		nm := []M{}
		for i, n := range h.names {
			if _, dup := h.nameIdx[n.s]; !dup {
				h.nameIdx[n.s] = i + 1
			}
			nm = append(nm, M{"s": ascii(n.s), "len": len(n.s), "cls": n.cls})
			creatable := (n.cls == "lower" || (n.cls == "mixed" && h.mode == "mix")) && len(n.s) >= 3 && len(n.s) <= 24
			if creatable {
				h.probe = append(h.probe, i+1)
			}
		}
		h.hot = []int{1, 4, 5}
		np := 6
		for i := 0; i < np; i++ {
			var id uuid.UUID
			rng.Read(id[:])
			id[6] = (id[6] & 0x0f) | 0x40
			id[8] = (id[8] & 0x3f) | 0x80
			h.pts = append(h.pts, id)
			h.ptIdx[id.String()] = i + 1
		}
		dot := 0
		if p.dot {
			dot = 1
		}
		v1obs := 0
		if h.mode == "mix" {
			v1obs = 1
		}
		tw.Emit("Hist", M{"h": hi, "users": []string{ascii(p.a), ascii(p.b)}, "dot": dot, "mode": h.mode, "v1obs": v1obs,
			"names": nm, "probe": h.probe, "np": np, "maxShardPts": int(maxShardPts),
			"obs": []M{h.observe(0), h.observe(1)}})
		err = h.run(rng, p)
		cluster.VerifTimer, cluster.VerifYield = nil, nil
		st.Hists++
		st.HTTP += h.calls
		st.Pairs = append(st.Pairs, ascii(p.a)+" | "+ascii(p.b))
		if err != nil {
			return st, fmt.Errorf("history %d (%q, %q): %w", hi, p.a, p.b, err)
		}
		_ = node.Close()
		os.RemoveAll(root)
	}
	st.Requests = tw.N
	return st, nil
}
