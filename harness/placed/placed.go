// Package placed drives the real placement code of semadb for property C15:
//
//   - unit level: every small input of the enumeration checked at design level
//     by spec/Placement.tla, plus seeded larger random inputs, is fed to the
//     REAL cluster.distributePoints (hook cluster.VerifDistributePoints) and the
//     input and the returned assignment are logged ("Case" events);
//   - end to end: an in-process cluster.ClusterNode with tiny per-shard limits
//     runs sequences of CreateCollection / InsertPoints / DeleteCollection
//     around the quota boundaries; per request the outcome, the failed ranges
//     and afterwards the collection lists and per-shard point counts are logged.
//
// Nothing of the verdict is computed here: spec/PlacementTrace.tla (TLC) judges
// every logged line.
package placed

import (
	"bytes"
	"errors"
	"fmt"
	"math/rand"
	"os"
	"path/filepath"
	"sort"
	"strings"
	"sync"
	"time"

	"github.com/google/uuid"
	"github.com/vmihailenco/msgpack/v5"

	"github.com/semafind/semadb/cluster"
	"github.com/semafind/semadb/models"

	"verif/harness/trace"
)

type M = trace.M

// ---------------------------------------------------------------------------
// unit level

// Fill is the state of an existing shard.
type Fill struct{ C, Z int64 }

// Input of one placement call. D are the lengths of the points' data; the size
// the code under test attributes to a point (data plus id) is the spec's business.
type Input struct {
	Shards     []Fill
	D          []int
	MaxZ, MaxC int64
}

type diverged struct{}

// RunCase calls the real distributePoints and logs input and output. Existing
// shards are named by their list position 1..k, created shards k+1.. in
// creation order (the ids handed to the code are "s<i>" and "n<i>").
func RunCase(tw *trace.Writer, in Input, class string) {
	shards := make([]cluster.VerifShardInfo, len(in.Shards))
	pos := map[string]int{}
	for i, f := range in.Shards {
		id := fmt.Sprintf("s%d", i+1)
		shards[i] = cluster.VerifShardInfo{Id: id, Size: f.Z, PointCount: f.C}
		pos[id] = i + 1
	}
	points := make([]models.Point, len(in.D))
	for i, d := range in.D {
		var id uuid.UUID
		id[0], id[1], id[15] = byte(i>>8), byte(i), 1 // already sorted by id
		points[i] = models.Point{Id: id, Data: make([]byte, d)}
	}
	created := 0
	div := 0
	var asg map[string][2]int
	var err error
	func() {
		defer func() {
			if r := recover(); r != nil {
				if _, ok := r.(diverged); ok {
					div = 1
					return
				}
				panic(r)
			}
		}()
		asg, err = cluster.VerifDistributePoints(shards, points, in.MaxZ, in.MaxC, func() (string, error) {
			created++
			if created > len(points)+2 {
				// the code keeps opening shards: it would never return
				panic(diverged{})
			}
			id := fmt.Sprintf("n%d", created)
			pos[id] = len(in.Shards) + created
			return id, nil
		})
	}()
	out := make([]M, 0, len(asg))
	for id, r := range asg {
		p, ok := pos[id]
		if !ok {
			p = -1
		}
		out = append(out, M{"s": p, "lo": r[0], "hi": r[1]})
	}
	sort.Slice(out, func(a, b int) bool { return out[a]["s"].(int) < out[b]["s"].(int) })
	sh := make([]M, len(in.Shards))
	for i, f := range in.Shards {
		sh[i] = M{"c": f.C, "z": f.Z}
	}
	e := 0
	if err != nil {
		e = 1
	}
	tw.Emit("Case", M{"class": class, "sh": sh, "d": in.D, "maxZ": in.MaxZ, "maxC": in.MaxC,
		"asg": out, "created": created, "err": e, "diverged": div})
}

// EnumOpts describes the small-input enumeration (the same as the constants of
// spec/Placement.cfg): 0..Existing shards whose fill is drawn from the coupled
// fills (count = size = 0..Fill) or all pairs, 0..Pts points of size 1..2,
// size limits 1..ZMax, count limits 1..CMax, all sizes in units of Unit bytes
// (a point of size s has s*Unit - 16 bytes of data: 16 bytes are its id).
type EnumOpts struct {
	Existing, Fill, Pts, ZMax, CMax int
	AllFills                        bool
	Part, Of                        int
}

const Unit = 16

func Enumerate(tw *trace.Writer, o EnumOpts) int {
	var fills []Fill
	for c := 0; c <= o.Fill; c++ {
		if o.AllFills {
			for z := 0; z <= o.Fill; z++ {
				fills = append(fills, Fill{int64(c), int64(z) * Unit})
			}
		} else {
			fills = append(fills, Fill{int64(c), int64(c) * Unit})
		}
	}
	var shardLists [][]Fill
	var recS func(cur []Fill, k int)
	recS = func(cur []Fill, k int) {
		if len(cur) == k {
			shardLists = append(shardLists, append([]Fill(nil), cur...))
			return
		}
		for _, f := range fills {
			recS(append(cur, f), k)
		}
	}
	for k := 0; k <= o.Existing; k++ {
		recS(nil, k)
	}
	var ptLists [][]int
	var recP func(cur []int, n int)
	recP = func(cur []int, n int) {
		if len(cur) == n {
			ptLists = append(ptLists, append([]int(nil), cur...))
			return
		}
		for s := 1; s <= 2; s++ {
			recP(append(cur, s), n)
		}
	}
	for n := 0; n <= o.Pts; n++ {
		recP(nil, n)
	}
	cnt, emitted := 0, 0
	for _, sl := range shardLists {
		for _, pl := range ptLists {
			for z := 1; z <= o.ZMax; z++ {
				fits := true
				for _, s := range pl {
					if s > z {
						fits = false // outside the stated precondition (the code would not return)
					}
				}
				if !fits {
					continue
				}
				for c := 1; c <= o.CMax; c++ {
					cnt++
					if o.Of > 1 && cnt%o.Of != o.Part {
						continue
					}
					d := make([]int, len(pl))
					for i, s := range pl {
						d[i] = s*Unit - 16
					}
					RunCase(tw, Input{Shards: sl, D: d, MaxZ: int64(z) * Unit, MaxC: int64(c)}, "enum")
					emitted++
				}
			}
		}
	}
	return emitted
}

// Random feeds n seeded larger inputs (all within the precondition).
func Random(tw *trace.Writer, seed int64, n int) {
	rng := rand.New(rand.NewSource(seed))
	for t := 0; t < n; t++ {
		maxC := int64(1 + rng.Intn(40))
		if rng.Intn(4) == 0 {
			maxC = int64(1 + rng.Intn(3))
		}
		maxZ := int64(64 + rng.Intn(20000))
		maxD := int(maxZ) - 16
		if maxD > 700 {
			maxD = 700
		}
		if rng.Intn(3) == 0 { // many points per shard by size
			maxD = maxD / (2 + rng.Intn(20))
		}
		np := rng.Intn(120)
		if rng.Intn(5) == 0 {
			np = rng.Intn(4)
		}
		d := make([]int, np)
		for i := range d {
			switch rng.Intn(6) {
			case 0:
				d[i] = maxD // as large as a point may be
			case 1:
				d[i] = 0
			default:
				d[i] = rng.Intn(maxD + 1)
			}
		}
		ns := rng.Intn(7)
		sh := make([]Fill, ns)
		for i := range sh {
			var c, z int64
			switch rng.Intn(5) {
			case 0: // empty
			case 1: // count-full or above
				c, z = maxC+int64(rng.Intn(3)), rng.Int63n(maxZ+1)
			case 2: // size-full or nearly
				c, z = rng.Int63n(maxC+1), maxZ-int64(rng.Intn(40))+int64(rng.Intn(20))
			case 3: // one or two slots left
				c, z = maxC-1-int64(rng.Intn(2)), rng.Int63n(maxZ/2+1)
			default:
				c, z = rng.Int63n(maxC+1), rng.Int63n(maxZ+1)
			}
			if c < 0 {
				c = 0
			}
			if z < 0 {
				z = 0
			}
			sh[i] = Fill{c, z}
		}
		RunCase(tw, Input{Shards: sh, D: d, MaxZ: maxZ, MaxC: maxC}, "random")
	}
}

// ---------------------------------------------------------------------------
// end to end

type E2EOpts struct {
	Hang  time.Duration // how long an insert request may take before it is reported as not returning
	Seed  int64
	Hists int
	Steps int
	Dir   string
	Big   bool // thousand-point batches (the API takes 10000 points per request), per-shard maximum 3000
}

var errHang = errors.New("request did not return")

type hist struct {
	hang  time.Duration
	tw    *trace.Writer
	rng   *rand.Rand
	node  *cluster.ClusterNode
	users []string
	plans map[string]models.UserPlan
	known map[string][]uuid.UUID // user/col -> ids inserted so far (for deliberate re-inserts)
	seq   int
	big   bool
	root  string
	// idle timers of the shard manager (substituted through hook H3) and the shards that are loaded
	tmu    sync.Mutex
	timers []*time.Timer
	open   map[any]bool
}

func (h *hist) installHooks() {
	h.open = map[any]bool{}
	cluster.VerifTimer = func(dir string, t *time.Timer) *time.Timer {
		t.Stop()
		nt := time.NewTimer(24 * time.Hour)
		h.tmu.Lock()
		h.timers = append(h.timers, nt)
		h.tmu.Unlock()
		return nt
	}
	cluster.VerifYield = func(label string, key any) {
		h.tmu.Lock()
		switch label {
		case "ev.opened":
			h.open[key] = true
		case "ev.closed":
			delete(h.open, key)
		}
		h.tmu.Unlock()
	}
}

// unloadAll fires the idle timers until every loaded shard is closed.
func (h *hist) unloadAll() error {
	deadline := time.Now().Add(10 * time.Second)
	for round := 0; ; round++ {
		if round%50 == 0 {
			// (a cleanup goroutine that is re-arming its timer swallows a firing: fire again)
			h.tmu.Lock()
			ts := append([]*time.Timer{}, h.timers...)
			h.tmu.Unlock()
			for _, t := range ts {
				t.Reset(0)
			}
		}
		h.tmu.Lock()
		n := len(h.open)
		h.tmu.Unlock()
		if n == 0 {
			break
		}
		if time.Now().After(deadline) {
			return fmt.Errorf("unload: %d shards still open after 10 s", n)
		}
		time.Sleep(time.Millisecond)
	}
	time.Sleep(5 * time.Millisecond)
	h.tmu.Lock()
	h.timers = nil
	h.tmu.Unlock()
	return nil
}

var colPool = []string{"c1", "c2", "c3", "c4"}

func ascii(s string) string {
	var b strings.Builder
	for _, r := range s {
		if r >= 32 && r < 127 && r != '"' && r != '\\' {
			b.WriteRune(r)
		} else {
			b.WriteByte('?')
		}
	}
	if b.Len() > 200 {
		return b.String()[:200]
	}
	return b.String()
}

func outcome(err error) (string, string) {
	switch {
	case err == nil:
		return "ok", ""
	case errors.Is(err, cluster.ErrQuotaReached):
		return "quota", ""
	case errors.Is(err, cluster.ErrExists):
		return "exists", ""
	case errors.Is(err, cluster.ErrNotFound):
		return "notfound", ""
	}
	return "error", ascii(err.Error())
}

// observe lists every user's collections and the point count of every shard
// (in the order of the collection's shard list).
func (h *hist) observe() ([]M, error) {
	st := []M{}
	for _, u := range h.users {
		cols, err := h.node.ListCollections(u)
		if err != nil {
			return nil, fmt.Errorf("list collections: %w", err)
		}
		sort.Slice(cols, func(a, b int) bool { return cols[a].Id < cols[b].Id })
		for _, col := range cols {
			col.UserPlan = h.plans[u]
			infos, err := h.node.GetShardsInfo(col)
			if err != nil {
				return nil, fmt.Errorf("shards info: %w", err)
			}
			k := make([]int64, len(infos))
			for i, si := range infos {
				k[i] = si.PointCount
			}
			st = append(st, M{"u": col.UserId, "c": col.Id, "k": k})
		}
	}
	return st, nil
}

// where asks every shard of the collection (through the node's own shard-level
// search handler, _id lookup) which of the given ids it holds; result[i] lists
// the positions (in the collection's shard list) of the shards holding ids[i].
func (h *hist) where(col models.Collection, ids []uuid.UUID) ([][]int, error) {
	out := make([][]int, len(ids))
	for i := range out {
		out[i] = []int{}
	}
	if len(ids) == 0 {
		return out, nil
	}
	strs := make([]string, 0, len(ids))
	seen := map[uuid.UUID]bool{}
	for _, id := range ids {
		if !seen[id] {
			seen[id] = true
			strs = append(strs, id.String())
		}
	}
	for si, shardId := range col.ShardIds {
		req := cluster.RPCSearchPointsRequest{
			RPCRequestArgs: cluster.RPCRequestArgs{Source: h.node.MyHostname, Dest: h.node.MyHostname},
			Collection:     col, ShardId: shardId,
			SearchRequest: models.SearchRequest{Limit: len(strs) + 1, Query: models.Query{Property: "_id",
				StringArray: &models.SearchStringArrayOptions{Value: strs, Operator: models.OperatorContainsAny}}},
		}
		resp := cluster.RPCSearchPointsResponse{}
		if err := h.node.RPCSearchPoints(&req, &resp); err != nil {
			return nil, fmt.Errorf("shard lookup: %w", err)
		}
		held := map[uuid.UUID]bool{}
		for _, p := range resp.Points {
			held[p.Id] = true
		}
		for i, id := range ids {
			if held[id] {
				out[i] = append(out[i], si+1)
			}
		}
	}
	return out, nil
}

func (h *hist) newID() uuid.UUID {
	var id uuid.UUID
	h.rng.Read(id[:])
	return id
}

func (h *hist) point(id uuid.UUID) models.Point {
	h.seq++
	data, err := msgpack.Marshal(map[string]any{"n": h.seq, "pad": strings.Repeat("x", h.rng.Intn(120))})
	if err != nil {
		panic(err)
	}
	return models.Point{Id: id, Data: data}
}

// RunE2E runs o.Hists histories, each on a fresh single-server node.
func RunE2E(tw *trace.Writer, o E2EOpts) error {
	for hi := 0; hi < o.Hists; hi++ {
		rng := rand.New(rand.NewSource(o.Seed*1000 + int64(hi)))
		root := filepath.Join(o.Dir, fmt.Sprintf("node-%d-%d", o.Seed, hi))
		os.RemoveAll(root) // (left behind by a killed run)
		if err := os.MkdirAll(root, 0o755); err != nil {
			return err
		}
		maxC := []int64{1, 2, 3, 5}[rng.Intn(4)]
		maxZ := int64(1 << 30)
		if o.Big {
			maxC = 3000
		} else if hi%3 == 2 {
			// smaller than a shard file after its first insert: every request sees
			// the existing shards as full by size and opens new ones
			maxZ = 20000
		}
		host := fmt.Sprintf("vh%d", hi)
		port := 9000 + hi
		mkNode := func() (*cluster.ClusterNode, error) {
			return cluster.NewNode(cluster.ClusterNodeConfig{
				RootDir: root,
				Servers: []string{fmt.Sprintf("%s:%d", host, port)},
				RpcHost: host, RpcPort: port, RpcTimeout: 5, RpcRetries: 1,
				MaxShardSize: maxZ, MaxShardPointCount: maxC, MaxSearchLimit: 75,
				ShardManager: cluster.ShardManagerConfig{RootDir: root, ShardTimeout: 60, MaxCacheSize: -1},
			})
		}
		node, err := mkNode()
		if err != nil {
			return fmt.Errorf("new node: %w", err)
		}
		h := &hist{hang: o.Hang, tw: tw, rng: rng, node: node, users: []string{"al", "alice"},
			plans: map[string]models.UserPlan{}, known: map[string][]uuid.UUID{}, big: o.Big, root: root}
		h.installHooks()
		for _, u := range h.users {
			h.plans[u] = models.UserPlan{Name: "T", MaxCollections: 1 + rng.Intn(3),
				MaxCollectionPointCount: int64(3 + rng.Intn(18)), MaxPointSize: 100000,
				ShardBackupFrequency: 3600, ShardBackupCount: 1}
			if o.Big {
				p := h.plans[u]
				p.MaxCollectionPointCount = 1000000
				h.plans[u] = p
			}
		}
		tw.Emit("Node", M{"hist": hi, "maxC": maxC, "maxZ": maxZ, "users": h.users})
		for s := 0; s < o.Steps; s++ {
			err := h.step()
			if err == errHang {
				// logged; the trace ends here (the stuck request keeps the node busy)
				return nil
			}
			if err != nil {
				return fmt.Errorf("history %d step %d: %w", hi, s, err)
			}
		}
		if err := h.node.Close(); err != nil {
			return fmt.Errorf("close node: %w", err)
		}
	}
	return nil
}

func (h *hist) step() error {
	u := h.users[h.rng.Intn(len(h.users))]
	cols, err := h.node.ListCollections(u)
	if err != nil {
		return err
	}
	plan := h.plans[u]
	r := h.rng.Intn(100)
	switch {
	case r < 8 && !h.big:
		// the user's plan changes (also below what is already used)
		plan.MaxCollections = h.rng.Intn(4)
		plan.MaxCollectionPointCount = int64(h.rng.Intn(26))
		h.plans[u] = plan
		return h.step()
	case r < 26 || len(cols) == 0:
		return h.create(u, colPool[h.rng.Intn(len(colPool))])
	case r < 32:
		return h.deleteCol(u, cols[h.rng.Intn(len(cols))])
	case r < 38 && !h.big:
		return h.createRace(u)
	case r < 44 && !h.big:
		return h.sickInsert(u, cols[h.rng.Intn(len(cols))].Id)
	default:
		return h.insert(u, cols[h.rng.Intn(len(cols))].Id)
	}
}

func (h *hist) create(u, c string) error {
	plan := h.plans[u]
	err := h.node.CreateCollection(models.Collection{UserId: u, Id: c, Replicas: 1, Timestamp: 1, CreatedAt: 1,
		UserPlan: plan, IndexSchema: models.IndexSchema{}})
	res, msg := outcome(err)
	st, oerr := h.observe()
	if oerr != nil {
		return oerr
	}
	if res == "ok" {
		delete(h.known, u+"/"+c)
	}
	h.tw.Emit("Create", M{"u": u, "c": c, "maxCols": plan.MaxCollections, "res": res, "msg": msg, "state": st})
	return nil
}

// createRace sends several creation requests of one user at the same moment
// (names may repeat): whatever the order in which the node serves them, the
// quota holds afterwards and every refused request left nothing behind.
func (h *hist) createRace(u string) error {
	plan := h.plans[u]
	n := 2 + h.rng.Intn(3)
	names := make([]string, n)
	for i := range names {
		names[i] = colPool[h.rng.Intn(len(colPool))]
	}
	errs := make([]error, n)
	var wg sync.WaitGroup
	start := make(chan struct{})
	for i := range names {
		wg.Add(1)
		go func(i int) {
			defer wg.Done()
			<-start
			errs[i] = h.node.CreateCollection(models.Collection{UserId: u, Id: names[i], Replicas: 1, Timestamp: 1, CreatedAt: 1,
				UserPlan: plan, IndexSchema: models.IndexSchema{}})
		}(i)
	}
	close(start)
	wg.Wait()
	st, oerr := h.observe()
	if oerr != nil {
		return oerr
	}
	reqs := []M{}
	for i, c := range names {
		res, msg := outcome(errs[i])
		if res == "ok" {
			delete(h.known, u+"/"+c)
		}
		reqs = append(reqs, M{"c": c, "res": res, "msg": msg})
	}
	h.tw.Emit("CreateRace", M{"u": u, "maxCols": plan.MaxCollections, "reqs": reqs, "state": st})
	return nil
}

// sickInsert: an insert request while one shard of the collection cannot be
// opened (a directory sits in the place of its file; every shard was unloaded
// first, through the substituted idle timers of hook H3). What the other shards hold still counts: a request beyond
// the point quota is refused (or fails) and changes nothing. The file is put
// back before the state is observed.
func (h *hist) sickInsert(u, c string) error {
	plan := h.plans[u]
	col, err := h.node.GetCollection(u, c)
	if err != nil {
		return fmt.Errorf("get collection: %w", err)
	}
	if len(col.ShardIds) < 2 {
		return h.insert(u, c)
	}
	col.UserPlan = plan
	infos, err := h.node.GetShardsInfo(col)
	if err != nil {
		return err
	}
	total := int64(0)
	for _, si := range infos {
		total += si.PointCount
	}
	left := int(plan.MaxCollectionPointCount - total)
	n := []int{left + 1, left + 1, left + 2 + h.rng.Intn(3), 1, left}[h.rng.Intn(5)]
	if n < 1 {
		n = 1
	}
	if err := h.unloadAll(); err != nil {
		return err
	}
	k := h.rng.Intn(len(col.ShardIds))
	file := filepath.Join(h.root, cluster.USERCOLSDIR, u, c, col.ShardIds[k], "sharddb.bbolt")
	if _, err := os.Stat(file); err != nil {
		return fmt.Errorf("shard file: %w", err)
	}
	if err := os.Rename(file, file+".aside"); err != nil {
		return err
	}
	if err := os.Mkdir(file, 0o755); err != nil {
		return err
	}
	points := make([]models.Point, n)
	for i := range points {
		points[i] = h.point(h.newID())
	}
	_, ierr := h.node.InsertPoints(col, points)
	os.Remove(file)
	if err := os.Rename(file+".aside", file); err != nil {
		return err
	}
	res, msg := outcome(ierr)
	st, oerr := h.observe()
	if oerr != nil {
		return oerr
	}
	h.tw.Emit("SickInsert", M{"u": u, "c": c, "n": n, "maxPts": plan.MaxCollectionPointCount, "sick": k + 1, "res": res, "msg": msg, "state": st})
	return nil
}

func (h *hist) deleteCol(u string, col models.Collection) error {
	col.UserPlan = h.plans[u]
	_, err := h.node.DeleteCollection(col)
	res, msg := outcome(err)
	st, oerr := h.observe()
	if oerr != nil {
		return oerr
	}
	delete(h.known, u+"/"+col.Id)
	h.tw.Emit("DeleteCol", M{"u": u, "c": col.Id, "res": res, "msg": msg, "state": st})
	return nil
}

func (h *hist) insert(u, c string) error {
	plan := h.plans[u]
	// as the HTTP handlers do: fetch the collection, attach the active plan
	col, err := h.node.GetCollection(u, c)
	if err != nil {
		return fmt.Errorf("get collection: %w", err)
	}
	col.UserPlan = plan
	infos, err := h.node.GetShardsInfo(col)
	if err != nil {
		return err
	}
	total := int64(0)
	for _, si := range infos {
		total += si.PointCount
	}
	// batch sizes around what the quota still allows (request generation, not judgement)
	left := int(plan.MaxCollectionPointCount - total)
	var n int
	switch h.rng.Intn(8) {
	case 0:
		n = left + 1
	case 1:
		n = left
	case 2:
		n = left - 1
	case 3:
		n = left + 2 + h.rng.Intn(3)
	case 4:
		n = h.rng.Intn(2)
	default:
		n = 1 + h.rng.Intn(4)
	}
	if n < 0 {
		n = 1
	}
	if h.big {
		n = 1100 + h.rng.Intn(1500)
	}
	if !h.big && left <= 0 && h.rng.Intn(3) > 0 {
		// the collection is at its quota: mostly do something else
		if h.rng.Intn(2) == 0 {
			return h.deleteCol(u, col)
		}
		plan.MaxCollectionPointCount = total + int64(1+h.rng.Intn(8))
		h.plans[u] = plan
		col.UserPlan = plan
		left = int(plan.MaxCollectionPointCount - total)
		n = []int{left, left + 1, 1 + h.rng.Intn(left)}[h.rng.Intn(3)]
	}
	key := u + "/" + c
	points := make([]models.Point, 0, n)
	fresh := []uuid.UUID{}
	for i := 0; i < n; i++ {
		var id uuid.UUID
		x := h.rng.Intn(12)
		if h.big {
			// one stored id somewhere in every other batch, the rest new
			x = 5
			if i == n/2 && len(h.known[key])%2 == 1 {
				x = 0
			}
		}
		switch {
		case x == 0 && len(h.known[key]) > 0: // an id the collection already holds
			id = h.known[key][h.rng.Intn(len(h.known[key]))]
		case x == 1 && len(points) > 0: // an id twice in the batch
			id = points[h.rng.Intn(len(points))].Id
		default:
			id = h.newID()
			fresh = append(fresh, id)
		}
		points = append(points, h.point(id))
	}
	// reference order of the batch: ids compared bytewise (Go stdlib), ties kept in request order
	ref := make([]uuid.UUID, len(points))
	for i, p := range points {
		ref[i] = p.Id
	}
	sort.SliceStable(ref, func(a, b int) bool { return bytes.Compare(ref[a][:], ref[b][:]) < 0 })
	dup := make([]int, len(ref))
	for i := range ref {
		if (i > 0 && ref[i-1] == ref[i]) || (i+1 < len(ref) && ref[i+1] == ref[i]) {
			dup[i] = 1
		}
	}
	pre, err := h.where(col, ref)
	if err != nil {
		return err
	}
	// the request must return: under the precondition (a point fits an empty shard) placement terminates
	type insRes struct {
		failed []cluster.FailedRange
		err    error
	}
	done := make(chan insRes, 1)
	go func() {
		f, e := h.node.InsertPoints(col, points)
		done <- insRes{f, e}
	}()
	var failed []cluster.FailedRange
	select {
	case r := <-done:
		failed, err = r.failed, r.err
	case <-time.After(h.hang):
		h.tw.Emit("Insert", M{"u": u, "c": c, "n": n, "maxPts": plan.MaxCollectionPointCount, "res": "hang",
			"msg": "InsertPoints did not return", "failed": []M{}, "state": []M{}, "pre": pre, "w": pre, "dup": dup})
		return errHang
	}
	res, msg := outcome(err)
	after, gerr := h.node.GetCollection(u, c)
	if gerr != nil {
		return fmt.Errorf("get collection after insert: %w", gerr)
	}
	pos := map[string]int{}
	for i, id := range after.ShardIds {
		pos[id] = i + 1
	}
	fr := make([]M, 0, len(failed))
	for _, f := range failed {
		fr = append(fr, M{"s": pos[f.ShardId], "lo": f.Start, "hi": f.End, "msg": ascii(f.Err)})
	}
	sort.Slice(fr, func(a, b int) bool { return fr[a]["lo"].(int) < fr[b]["lo"].(int) })
	st, oerr := h.observe()
	if oerr != nil {
		return oerr
	}
	after.UserPlan = plan
	w, werr := h.where(after, ref)
	if werr != nil {
		return werr
	}
	if res == "ok" {
		h.known[key] = append(h.known[key], fresh...)
	}
	// pre / w: per position of the id-sorted batch, the shards holding that id before / after the request;
	// dup: the id occurs more than once in the batch
	h.tw.Emit("Insert", M{"u": u, "c": c, "n": n, "maxPts": plan.MaxCollectionPointCount, "res": res, "msg": msg,
		"failed": fr, "state": st, "pre": pre, "w": w, "dup": dup})
	return nil
}
