// Package proxy wraps a diskstore.DiskStore: it numbers every fallible storage
// operation issued inside a write transaction and can fail the k-th one, make
// the commit fail, kill the process at the k-th one / just before / just after
// the commit, or pause a transaction right after it begins / commits.
package proxy

import (
	"errors"
	"os"
	"sync"
	"sync/atomic"
	"time"

	"github.com/semafind/semadb/diskstore"
)

var ErrInjected = errors.New("injected storage fault")

// Plan says what happens to the next write transaction(s).
type Plan struct {
	FailAt      int64  // fail the k-th fallible operation (1-based); 0 = none
	FailCommit  bool   // the closure succeeds but the commit is refused
	PanicCommit bool   // the closure succeeds, then the goroutine that runs the transaction panics before the commit
	KillAt      int64  // os.Exit(3) at the k-th fallible operation
	KillWhen    string // "pre" = after the closure, before commit; "post" = right after commit
}

type Store struct {
	Inner diskstore.DiskStore
	mu    sync.Mutex
	plan  Plan
	// statistics of the last write transaction
	Ops      atomic.Int64
	Injected atomic.Bool
	// optional pause points (C09): called right after a transaction begins and
	// right after it ended (commit or rollback)
	OnBegin func(write bool)
	OnEnd   func(write bool, err error)
	// OnPreCommit: the write closure returned without error, the commit has not happened yet
	OnPreCommit func()
	// OnReadOp: a storage read (Get / scan) inside a READ transaction is about to happen
	// (only when set: read transactions then see wrapped buckets)
	OnReadOp func()
	// GetDelay: every Get inside a WRITE transaction takes this long (a slow disk: the workers of a write
	// batch then really overlap in their read-throughs)
	GetDelay time.Duration
}

func Wrap(inner diskstore.DiskStore) *Store { return &Store{Inner: inner} }

func (s *Store) SetPlan(p Plan) { s.mu.Lock(); s.plan = p; s.mu.Unlock() }

func (s *Store) Path() string                { return s.Inner.Path() }
func (s *Store) BackupToFile(p string) error { return s.Inner.BackupToFile(p) }
func (s *Store) SizeInBytes() (int64, error) { return s.Inner.SizeInBytes() }
func (s *Store) Close() error                { return s.Inner.Close() }

func (s *Store) Read(f func(diskstore.BucketManager) error) error {
	var ferr error
	err := s.Inner.Read(func(bm diskstore.BucketManager) error {
		if s.OnBegin != nil {
			s.OnBegin(false)
		}
		if s.OnReadOp != nil {
			bm = &rbm{s: s, inner: bm}
		}
		ferr = f(bm)
		return ferr
	})
	if s.OnEnd != nil {
		s.OnEnd(false, err)
	}
	return err
}

func (s *Store) Write(f func(diskstore.BucketManager) error) error {
	s.mu.Lock()
	plan := s.plan
	s.mu.Unlock()
	s.Ops.Store(0)
	s.Injected.Store(false)
	err := s.Inner.Write(func(bm diskstore.BucketManager) error {
		if s.OnBegin != nil {
			s.OnBegin(true)
		}
		w := &bm2{s: s, plan: plan, inner: bm}
		if err := f(w); err != nil {
			return err
		}
		if s.OnPreCommit != nil {
			s.OnPreCommit()
		}
		if plan.KillWhen == "pre" {
			os.Exit(3)
		}
		if plan.FailCommit {
			s.Injected.Store(true)
			return ErrInjected
		}
		if plan.PanicCommit {
			s.Injected.Store(true)
			panic("injected panic inside the write transaction")
		}
		return nil
	})
	if err == nil && plan.KillWhen == "post" {
		os.Exit(3)
	}
	if s.OnEnd != nil {
		s.OnEnd(true, err)
	}
	return err
}

// step numbers a fallible operation and applies the plan to it.
func (s *Store) step(plan Plan) error {
	n := s.Ops.Add(1)
	if plan.KillAt != 0 && n == plan.KillAt {
		os.Exit(3)
	}
	if plan.FailAt != 0 && n == plan.FailAt {
		s.Injected.Store(true)
		return ErrInjected
	}
	return nil
}

type bm2 struct {
	s     *Store
	plan  Plan
	inner diskstore.BucketManager
}

func (b *bm2) Get(name string) (diskstore.Bucket, error) {
	if err := b.s.step(b.plan); err != nil {
		return nil, err
	}
	bk, err := b.inner.Get(name)
	if err != nil {
		return nil, err
	}
	return &bucket{s: b.s, plan: b.plan, inner: bk}, nil
}

func (b *bm2) Delete(name string) error {
	if err := b.s.step(b.plan); err != nil {
		return err
	}
	return b.inner.Delete(name)
}

type bucket struct {
	s     *Store
	plan  Plan
	inner diskstore.Bucket
}

func (b *bucket) IsReadOnly() bool { return b.inner.IsReadOnly() }
func (b *bucket) Get(k []byte) []byte {
	if d := b.s.GetDelay; d > 0 {
		time.Sleep(d)
	}
	return b.inner.Get(k)
}

func (b *bucket) Put(k, v []byte) error {
	if err := b.s.step(b.plan); err != nil {
		return err
	}
	return b.inner.Put(k, v)
}

func (b *bucket) Delete(k []byte) error {
	if err := b.s.step(b.plan); err != nil {
		return err
	}
	return b.inner.Delete(k)
}

func (b *bucket) ForEach(f func(k, v []byte) error) error {
	if err := b.s.step(b.plan); err != nil {
		return err
	}
	return b.inner.ForEach(f)
}

func (b *bucket) PrefixScan(p []byte, f func(k, v []byte) error) error {
	if err := b.s.step(b.plan); err != nil {
		return err
	}
	return b.inner.PrefixScan(p, f)
}

func (b *bucket) RangeScan(st, en []byte, incl bool, f func(k, v []byte) error) error {
	if err := b.s.step(b.plan); err != nil {
		return err
	}
	return b.inner.RangeScan(st, en, incl, f)
}

// read-side wrappers: every storage read of a read transaction passes OnReadOp

type rbm struct {
	s     *Store
	inner diskstore.BucketManager
}

func (b *rbm) Get(name string) (diskstore.Bucket, error) {
	bk, err := b.inner.Get(name)
	if err != nil {
		return nil, err
	}
	return &rbucket{s: b.s, inner: bk}, nil
}

func (b *rbm) Delete(name string) error { return b.inner.Delete(name) }

type rbucket struct {
	s     *Store
	inner diskstore.Bucket
}

func (b *rbucket) op() {
	if f := b.s.OnReadOp; f != nil {
		f()
	}
}
func (b *rbucket) IsReadOnly() bool      { return b.inner.IsReadOnly() }
func (b *rbucket) Get(k []byte) []byte   { b.op(); return b.inner.Get(k) }
func (b *rbucket) Put(k, v []byte) error { return b.inner.Put(k, v) }
func (b *rbucket) Delete(k []byte) error { return b.inner.Delete(k) }
func (b *rbucket) ForEach(f func(k, v []byte) error) error {
	b.op()
	return b.inner.ForEach(f)
}
func (b *rbucket) PrefixScan(p []byte, f func(k, v []byte) error) error {
	b.op()
	return b.inner.PrefixScan(p, f)
}
func (b *rbucket) RangeScan(st, en []byte, incl bool, f func(k, v []byte) error) error {
	b.op()
	return b.inner.RangeScan(st, en, incl, f)
}
