// Package trace writes ndjson traces consumed by the TLA+ trace specifications.
package trace

import (
	"bufio"
	"encoding/json"
	"os"
	"reflect"
	"sync"
)

// clean rebuilds v as a tree of plain values in which nil slices and nil maps
// are empty ones (TLC's Json module cannot read null).
func clean(v any) any {
	if v == nil {
		return []any{}
	}
	rv := reflect.ValueOf(v)
	switch rv.Kind() {
	case reflect.Slice, reflect.Array:
		out := make([]any, rv.Len())
		for i := 0; i < rv.Len(); i++ {
			out[i] = clean(rv.Index(i).Interface())
		}
		return out
	case reflect.Map:
		out := make(map[string]any, rv.Len())
		it := rv.MapRange()
		for it.Next() {
			out[it.Key().String()] = clean(it.Value().Interface())
		}
		return out
	case reflect.Bool:
		if rv.Bool() {
			return 1
		}
		return 0
	}
	return v
}

// M is one JSON object.
type M = map[string]any

// Writer appends one JSON object per line. Safe for concurrent use; the
// sequence number is taken under the writer's lock.
type Writer struct {
	mu  sync.Mutex
	f   *os.File
	w   *bufio.Writer
	seq int
	N   int
}

func NewWriter(path string) (*Writer, error) {
	f, err := os.Create(path)
	if err != nil {
		return nil, err
	}
	return &Writer{f: f, w: bufio.NewWriterSize(f, 1<<20)}, nil
}

// Emit writes an event. The "ev" key names the spec action.
func (t *Writer) Emit(ev string, fields M) {
	t.mu.Lock()
	defer t.mu.Unlock()
	t.seq++
	t.N++
	m := M{"ev": ev, "seq": t.seq}
	for k, v := range fields {
		m[k] = v
	}
	b, err := json.Marshal(clean(m))
	if err != nil {
		panic(err)
	}
	t.w.Write(b)
	t.w.WriteByte('\n')
}

func (t *Writer) Flush() { t.mu.Lock(); t.w.Flush(); t.mu.Unlock() }

func (t *Writer) Close() error {
	t.mu.Lock()
	defer t.mu.Unlock()
	t.w.Flush()
	return t.f.Close()
}
