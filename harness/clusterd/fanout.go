package clusterd

import (
	"bytes"
	"fmt"
	"math/rand"
	"os"
	"path/filepath"
	"sort"
	"strings"
	"sync"
	"time"

	"github.com/google/uuid"
	"github.com/semafind/semadb/cluster"
	"github.com/semafind/semadb/models"
	"github.com/vmihailenco/msgpack/v5"

	"verif/harness/sd"
	"verif/harness/trace"
)

type M = trace.M

// FanCfg is the shard-level configuration used for the collection.
var FanCfg = sd.Config{Name: "fan", NoExtras: true, NIDs: 24, Props: []sd.Prop{
	{Name: "fl", Type: models.IndexTypeVectorFlat, Metric: models.DistanceEuclidean, Dim: 3},
	{Name: "i", Type: models.IndexTypeInteger},
	{Name: "s", Type: models.IndexTypeString},
}}

type FanOpts struct {
	Servers   int // total servers (the last one is a child process when KillOne)
	MaxShard  int64
	Batches   int
	KillOne   bool
	Wide      bool          // 90-id universe, update requests of 40-100 points
	Soak      time.Duration // after the history: small update requests back to back for this long (connections grow old)
	Exe       string
	KillAfter int // batch index after which the child is killed
	Mux       int // > 0: before the history, the fresh-connection probe on a collection of this many points
}

type fan struct {
	r       *rand.Rand
	g       *sd.Gen
	tw      *trace.Writer
	nodes   []*cluster.ClusterNode
	names   []string
	child   *Child
	col     models.Collection
	live    map[int]bool
	down    int // index (1-based) of the server that is down, 0 = none
	userSrv int
	onSrv   map[int]int // id -> server of the shard that held it at the last placement
	wide    bool        // 90 ids, large update requests
	soaking bool        // inside the soak phase (no placement read after every request)
}

func (f *fan) entry() *cluster.ClusterNode { return f.nodes[f.r.Intn(len(f.nodes))] }

func (f *fan) refresh() error {
	c, err := f.nodes[0].GetCollection(f.col.UserId, f.col.Id)
	if err != nil {
		return err
	}
	c.UserPlan = f.col.UserPlan
	f.col = c
	return nil
}

func serverIdx(names []string, s string) int {
	for i, n := range names {
		if n == s {
			return i + 1
		}
	}
	return 0
}

// place logs which shard lives on which server and which ids each shard holds
// (asked from every shard directly through the RPC layer).
func (f *fan) place() {
	var shards []M
	for si, sid := range f.col.ShardIds {
		srv := cluster.RendezvousHash(sid, f.names, 1)[0]
		sidx := serverIdx(f.names, srv)
		if sidx == f.down {
			shards = append(shards, M{"shard": si + 1, "server": sidx, "up": 0, "ids": []int{}})
			continue
		}
		req := cluster.RPCSearchPointsRequest{RPCRequestArgs: cluster.RPCRequestArgs{Source: f.nodes[0].MyHostname, Dest: srv},
			Collection: f.col, ShardId: sid, SearchRequest: models.SearchRequest{Query: sd.IDQuery(allIDs(FanCfg.N())), Limit: 100000}}
		var resp cluster.RPCSearchPointsResponse
		if err := f.nodes[0].RPCSearchPoints(&req, &resp); err != nil {
			f.tw.Emit("Err", M{"what": "place", "err": err.Error()})
			return
		}
		ids := make([]int, len(resp.Points))
		for i, p := range resp.Points {
			ids[i] = sd.IDOf(p.Id)
		}
		sort.Ints(ids)
		for _, id := range ids {
			f.onSrv[id] = sidx
		}
		shards = append(shards, M{"shard": si + 1, "server": sidx, "up": 1, "ids": ids})
	}
	f.tw.Emit("CPlace", M{"shards": shards, "down": f.down, "max": 0})
}

func allIDs(n int) []int {
	out := make([]int, n)
	for i := range out {
		out[i] = i + 1
	}
	return out
}

func (f *fan) pick(n int, wantLive float64) []int {
	seen := map[int]bool{}
	var out []int
	for tries := 0; len(out) < n && tries < 50*n+50; tries++ {
		id := 1 + f.r.Intn(FanCfg.N())
		if f.r.Float64() < wantLive && !f.live[id] {
			continue
		}
		if seen[id] {
			continue
		}
		seen[id] = true
		out = append(out, id)
	}
	return out
}

func (f *fan) points(ids []int, forUpdate bool) ([]models.Point, []M) {
	pts := make([]models.Point, len(ids))
	abs := make([]M, len(ids))
	for i, id := range ids {
		d := f.g.DocFrom(forUpdate, 0.85, nil)
		data, _ := msgpack.Marshal(d.Real)
		pts[i] = models.Point{Id: sd.UUIDOf(id), Data: data}
		abs[i] = M{"id": id, "doc": d.Abs}
	}
	return pts, abs
}

func (f *fan) insert() {
	var ids []int
	nins := 1 + f.r.Intn(9)
	if f.wide {
		nins = 20 + f.r.Intn(40)
	}
	for _, id := range f.pick(nins, 0) {
		if !f.live[id] { // ids are unique per collection, as the API requires
			ids = append(ids, id)
		}
	}
	pts, abs := f.points(ids, false)
	// the batch is sorted by id bytes before distribution: log the order the ranges refer to
	order := make([]int, len(ids))
	copy(order, ids)
	sort.Slice(order, func(a, b int) bool {
		ua, ub := sd.UUIDOf(order[a]), sd.UUIDOf(order[b])
		return bytes.Compare(ua[:], ub[:]) < 0
	})
	failed, err := f.entry().InsertPoints(f.col, pts)
	if err != nil {
		f.tw.Emit("CInsert", M{"pts": abs, "order": order, "ok": 0, "failed": [][2]int{}, "err": err.Error()})
	} else {
		fr := make([][2]int, len(failed))
		for i, x := range failed {
			fr[i] = [2]int{x.Start, x.End}
		}
		f.tw.Emit("CInsert", M{"pts": abs, "order": order, "ok": 1, "failed": fr})
		bad := map[int]bool{}
		for _, x := range failed {
			for k := x.Start; k < x.End; k++ {
				bad[order[k]] = true
			}
		}
		for _, id := range ids {
			if !bad[id] {
				f.live[id] = true
			}
		}
	}
	if e := f.refresh(); e != nil && f.down != f.userSrv {
		f.tw.Emit("Err", M{"what": "refresh", "err": e.Error()})
	}
	f.place()
}

func failedList(fp []cluster.FailedPoint) []M {
	out := make([]M, len(fp))
	for i, p := range fp {
		out[i] = M{"id": sd.IDOf(p.Id), "nf": b2i(p.Err == "not found")}
	}
	return out
}

func b2i(b bool) int {
	if b {
		return 1
	}
	return 0
}

func (f *fan) update() {
	n := 1 + f.r.Intn(6)
	if f.wide {
		// many points in request order (not id order) for every shard of the entry node at once
		n = 40 + f.r.Intn(60)
	}
	ids := f.pick(n, 0.7)
	if len(ids) > 0 && (f.wide || f.r.Intn(3) == 0) {
		// the same point named more than once in one request: the entries are merged in request order
		// (the last one wins), on whichever shard the point lives
		for k := 1 + f.r.Intn(4); k > 0; k-- {
			id := ids[f.r.Intn(len(ids))]
			at := f.r.Intn(len(ids) + 1)
			ids = append(ids[:at], append([]int{id}, ids[at:]...)...)
		}
	}
	f.updateVia(f.entry(), ids)
}

func (f *fan) updateVia(n *cluster.ClusterNode, ids []int) {
	pts, abs := f.points(ids, true)
	failed, err := n.UpdatePoints(f.col, pts)
	f.tw.Emit("CUpdate", M{"pts": abs, "ok": b2i(err == nil), "failed": failedList(failed)})
	if !f.soaking {
		f.place()
	}
}

func (f *fan) delete() { f.deleteVia(f.entry(), f.pick(1+f.r.Intn(5), 0.7)) }

// probeDown: the first request of every entry node after a shard server died
// (each still holds a connection to it) names an id held by the dead server, an
// id that does not exist and a reachable one.
func (f *fan) probeDown() {
	for k, n := range f.nodes {
		var ids []int
		for id := 1; id <= FanCfg.N(); id++ {
			if f.live[id] && f.onSrv[id] == f.down {
				ids = append(ids, id)
				break
			}
		}
		for id := FanCfg.N(); id >= 1; id-- {
			if !f.live[id] {
				ids = append(ids, id)
				break
			}
		}
		for id := 1; id <= FanCfg.N(); id++ {
			if f.live[id] && f.onSrv[id] != f.down {
				ids = append(ids, id)
				break
			}
		}
		if (k+int(f.r.Int63()))%2 == 0 {
			f.updateVia(n, ids)
		} else {
			f.deleteVia(n, ids)
		}
	}
}

func (f *fan) deleteVia(n *cluster.ClusterNode, ids []int) {
	us := make([]uuid.UUID, len(ids))
	for i, id := range ids {
		us[i] = sd.UUIDOf(id)
	}
	failed, err := n.DeletePoints(f.col, us)
	f.tw.Emit("CDelete", M{"ids": ids, "ok": b2i(err == nil), "failed": failedList(failed)})
	bad := map[int]bool{}
	for _, p := range failed {
		bad[sd.IDOf(p.Id)] = true
	}
	for _, id := range ids {
		if !bad[id] {
			delete(f.live, id)
		}
	}
	f.place()
}

func docsOf(res []models.SearchResult) ([]M, error) {
	out := make([]M, len(res))
	for i, sr := range res {
		var m map[string]any
		if len(sr.Data) > 0 {
			if err := msgpack.Unmarshal(sr.Data, &m); err != nil {
				return nil, err
			}
		} else if sr.DecodedData != nil {
			m = sr.DecodedData
		}
		out[i] = M{"id": sd.IDOf(sr.Id), "f": sd.VisibleOf(m)}
	}
	return out, nil
}

func (f *fan) observe(leaves []sd.Q) {
	n := f.entry()
	// every stored point is found exactly once through any node
	res, err := n.SearchPoints(f.col, models.SearchRequest{Query: sd.IDQuery(allIDs(FanCfg.N())), Select: []string{"*"}, Limit: 100})
	if err != nil {
		f.tw.Emit("CSearchErr", M{"what": "get"})
	} else if docs, e := docsOf(res); e == nil {
		f.tw.Emit("CGet", M{"docs": docs})
	}
	// filters
	for k := 0; k < 6; k++ {
		q := leaves[f.r.Intn(len(leaves))]
		limit := []int{1, 3, 10, 100}[f.r.Intn(4)]
		res, err := f.entry().SearchPoints(f.col, models.SearchRequest{Query: sd.CopyQuery(q.Real), Limit: limit, Offset: 0})
		if err != nil {
			f.tw.Emit("CSearchErr", M{"what": "filter"})
			continue
		}
		ids := make([]int, len(res))
		for i, sr := range res {
			ids[i] = sd.IDOf(sr.Id)
		}
		f.tw.Emit("CFilter", M{"q": q.Abs, "limit": limit, "ids": ids})
	}
	// ranking across shards
	for k := 0; k < 6; k++ {
		vec, avec := f.g.Vec(3, models.DistanceEuclidean)
		limit := []int{1, 2, 5, 10, 30}[f.r.Intn(5)]
		w4 := []int{-4, 2, 4, 8}[f.r.Intn(4)]
		w := float32(w4) / 4
		q := models.Query{Property: "fl", VectorFlat: &models.SearchVectorFlatOptions{Vector: vec, Operator: models.OperatorNear, Limit: min(limit, 75), Weight: &w}}
		sreq := models.SearchRequest{Query: q, Limit: limit}
		if f.r.Intn(2) == 0 {
			sreq.Sort = []models.SortOption{} // "sort": [] in a request: present but empty, same as no sort
		}
		res, err := f.entry().SearchPoints(f.col, sreq)
		if err != nil {
			f.tw.Emit("CSearchErr", M{"what": "flat"})
			continue
		}
		hits := make([]M, len(res))
		ok := true
		for i, sr := range res {
			if sr.Distance == nil {
				ok = false
				break
			}
			hits[i] = M{"id": sd.IDOf(sr.Id), "d": sd.Scaled(*sr.Distance, 1), "h4": sd.Scaled(sr.HybridScore, 4)}
		}
		if ok {
			f.tw.Emit("CFlat", M{"p": "fl", "vec": avec, "limit": limit, "w4": w4, "hits": hits})
		}
	}
	// explicit sort keys across shards
	for k := 0; k < 3; k++ {
		q := leaves[f.r.Intn(len(leaves))]
		desc := f.r.Intn(2) == 0
		limit := []int{2, 5, 100}[f.r.Intn(3)]
		res, err := f.entry().SearchPoints(f.col, models.SearchRequest{Query: sd.CopyQuery(q.Real), Select: []string{"i"}, Sort: []models.SortOption{{Property: "i", Descending: desc}}, Limit: limit})
		if err != nil {
			f.tw.Emit("CSearchErr", M{"what": "sort"})
			continue
		}
		ids := make([]int, len(res))
		for i, sr := range res {
			ids[i] = sd.IDOf(sr.Id)
		}
		f.tw.Emit("CSort", M{"q": q.Abs, "limit": limit, "desc": b2i(desc), "p": "i", "ids": ids})
	}
}

// muxProbe: the FIRST calls node 1 ever sends to node 2 are a search that reads
// many points (a slow answer) and, a moment later, an update that the shards
// refuse as a whole (an error answer of the remote handler): both travel on the
// same fresh connection. Everything the probe needs was set up through node 2,
// so that node 1 has not talked to it before. The search must find every point
// exactly once, whatever happens to the refused request (RpcMux.tla).
func (f *fan) muxProbe(histNo int, n int) error {
	a, b := f.nodes[0], f.nodes[1]
	col := models.Collection{UserId: fmt.Sprintf("mux%d", histNo), Id: "mux", Replicas: 1, IndexSchema: FanCfg.Schema(),
		UserPlan: models.UserPlan{Name: "verif", MaxCollections: 5, MaxCollectionPointCount: 1 << 30, MaxPointSize: 20000}}
	// (a user whose records live on node 2: creating and fetching the collection stays local to it)
	for k := 0; serverIdx(f.names, cluster.RendezvousHash(col.UserId, f.names, 1)[0]) != 2 && k < 500; k++ {
		col.UserId = fmt.Sprintf("mux%d-%d", histNo, k)
	}
	if err := b.CreateCollection(col); err != nil {
		return fmt.Errorf("mux: create: %w", err)
	}
	pts := make([]models.Point, n)
	want := map[uuid.UUID]bool{}
	for i := range pts {
		var id uuid.UUID
		f.r.Read(id[:])
		data, _ := msgpack.Marshal(map[string]any{"i": int64(i), "pad": strings.Repeat("p", 200)})
		pts[i] = models.Point{Id: id, Data: data}
		want[id] = true
	}
	if failed, err := b.InsertPoints(col, pts); err != nil || len(failed) > 0 {
		return fmt.Errorf("mux: insert: %v (%d failed ranges)", err, len(failed))
	}
	col, err := b.GetCollection(col.UserId, col.Id)
	if err != nil {
		return fmt.Errorf("mux: get: %w", err)
	}
	col.UserPlan = models.UserPlan{Name: "verif", MaxCollections: 5, MaxCollectionPointCount: 1 << 30, MaxPointSize: 20000}
	remote := 0
	for _, sid := range col.ShardIds {
		if serverIdx(f.names, cluster.RendezvousHash(sid, f.names, 1)[0]) == 2 {
			remote++
		}
	}
	var wg sync.WaitGroup
	var res []models.SearchResult
	var serr error
	refused := 0
	wg.Add(2)
	go func() {
		defer wg.Done()
		res, serr = a.SearchPoints(col, models.SearchRequest{Query: models.Query{Property: "i", Integer: &models.SearchIntegerOptions{Value: 0, Operator: models.OperatorGreaterOrEq}}, Limit: n + 10})
	}()
	go func() {
		defer wg.Done()
		time.Sleep(300 * time.Microsecond)
		big, _ := msgpack.Marshal(map[string]any{"pad": strings.Repeat("x", 21000)})
		var ups []models.Point
		for k := 0; k < 6; k++ {
			ups = append(ups, models.Point{Id: pts[f.r.Intn(n)].Id, Data: big})
		}
		failed, err := a.UpdatePoints(col, ups)
		if err != nil || len(failed) > 0 {
			refused = 1
		}
	}()
	wg.Wait()
	found, extra, dups := 0, 0, 0
	seen := map[uuid.UUID]bool{}
	for _, sr := range res {
		switch {
		case seen[sr.Id]:
			dups++
		case want[sr.Id]:
			found++
		default:
			extra++
		}
		seen[sr.Id] = true
	}
	f.tw.Emit("CMux", M{"n": n, "shards": len(col.ShardIds), "remote": remote, "err": b2i(serr != nil), "found": found, "extra": extra, "dups": dups, "refused": refused})
	return nil
}

// RunFanout runs one history on a fresh deployment.
func RunFanout(histNo int, seed int64, root string, tw *trace.Writer, o FanOpts) error {
	dir := filepath.Join(root, fmt.Sprintf("fan%d", histNo))
	os.RemoveAll(dir)
	defer os.RemoveAll(dir)
	r := rand.New(rand.NewSource(seed))
	if o.Wide {
		FanCfg.NIDs = 90
	}
	ports := FreePorts(o.Servers)
	names := make([]string, o.Servers)
	for i, p := range ports {
		names[i] = ServerName(p)
	}
	f := &fan{r: r, g: &sd.Gen{R: r, Cfg: FanCfg}, tw: tw, names: names, live: map[int]bool{}, onSrv: map[int]int{}, wide: o.Wide}
	inproc := o.Servers
	if o.KillOne {
		inproc = o.Servers - 1
	}
	for i := 0; i < inproc; i++ {
		nc := NodeConfig(filepath.Join(dir, fmt.Sprintf("n%d", i+1)), ports[i], names, o.MaxShard, 1<<40)
		if o.Mux > 0 {
			nc.MaxSearchLimit = o.Mux + 10 // (the probe's search reads every point of its collection)
		}
		n, err := StartNode(nc, false)
		if err != nil {
			return err
		}
		f.nodes = append(f.nodes, n)
	}
	if o.KillOne {
		c, err := StartChild(o.Exe, filepath.Join(dir, fmt.Sprintf("n%d", o.Servers)), ports[o.Servers-1], names, o.MaxShard, false, nil)
		if err != nil {
			return err
		}
		f.child = c
		defer c.Kill()
	}
	defer func() {
		for _, n := range f.nodes {
			n.Close()
		}
	}()
	if o.Mux > 0 && len(f.nodes) >= 2 {
		if err := f.muxProbe(histNo, o.Mux); err != nil {
			return err
		}
	}
	user := fmt.Sprintf("user%d", histNo)
	f.userSrv = serverIdx(names, cluster.RendezvousHash(user, names, 1)[0])
	f.col = models.Collection{UserId: user, Id: "col", Replicas: 1, IndexSchema: FanCfg.Schema(),
		UserPlan: models.UserPlan{Name: "verif", MaxCollections: 5, MaxCollectionPointCount: 1 << 30, MaxPointSize: 100000}}
	tw.Emit("CReset", M{"schema": FanCfg.AbsSchema(), "pool": sd.PoolRelations(FanCfg.N()), "servers": o.Servers, "maxshard": o.MaxShard,
		"usersrv": f.userSrv, "limit": sd.LimitModel})
	if err := f.nodes[0].CreateCollection(f.col); err != nil {
		if o.KillOne && f.userSrv == o.Servers {
			return nil // the user's server is the child; fine, nothing to test in this history
		}
		return fmt.Errorf("create collection: %w", err)
	}
	leaves := FanCfg.LeafQueries()
	for b := 0; b < o.Batches; b++ {
		if o.KillOne && b == o.KillAfter && f.down == 0 {
			f.child.Kill()
			f.down = o.Servers
			tw.Emit("CDown", M{"server": o.Servers})
			f.place()
			f.probeDown()
			// a collection of a user whose server is the dead one, created through every live node: the record has
			// one home, so the request fails -- or, if a node says it succeeded, every node can read the record back
			ghost := ""
			for k := 0; k < 200 && ghost == ""; k++ {
				if u := fmt.Sprintf("ghost%d-%d", histNo, k); serverIdx(names, cluster.RendezvousHash(u, names, 1)[0]) == o.Servers {
					ghost = u
				}
			}
			if ghost != "" {
				oks, reads := []int{}, []int{}
				for k, n := range f.nodes {
					gc := f.col
					gc.UserId, gc.Id = ghost, fmt.Sprintf("g%d", k)
					oks = append(oks, b2i(n.CreateCollection(gc) == nil))
				}
				for k := range f.nodes {
					for _, n := range f.nodes {
						_, err := n.GetCollection(ghost, fmt.Sprintf("g%d", k))
						if oks[k] == 1 {
							reads = append(reads, b2i(err == nil))
						}
					}
				}
				tw.Emit("CCreateDown", M{"oks": oks, "reads": reads})
			}
		}
		x := f.r.Float64()
		switch {
		case x < 0.5 && f.down == 0 || len(f.live) < 4 && f.down == 0:
			f.insert()
		case x < 0.75:
			f.update()
		default:
			f.delete()
		}
		f.observe(leaves)
	}
	if o.Soak > 0 && f.down == 0 {
		// four workers on disjoint ids (their requests commute), so that a request is in flight on every
		// connection practically all the time
		f.soaking = true
		end := time.Now().Add(o.Soak)
		var wg sync.WaitGroup
		var noiseIDs []int
		for w := 0; w < 4; w++ {
			var mine []int
			for id := range f.live {
				if id%4 == w {
					mine = append(mine, id)
				}
			}
			sort.Ints(mine)
			if len(mine) == 0 {
				continue
			}
			if w == 3 && len(f.nodes) > 1 {
				noiseIDs = mine
				continue
			}
			wg.Add(1)
			go func(w int, mine []int) {
				defer wg.Done()
				wr := rand.New(rand.NewSource(seed*31 + int64(w)))
				g := &sd.Gen{R: wr, Cfg: FanCfg}
				for time.Now().Before(end) {
					k := 1 + wr.Intn(min(3, len(mine)))
					perm := wr.Perm(len(mine))[:k]
					pts := make([]models.Point, k)
					abs := make([]M, k)
					for i, x := range perm {
						d := g.DocFrom(true, 0.85, nil)
						data, _ := msgpack.Marshal(d.Real)
						pts[i] = models.Point{Id: sd.UUIDOf(mine[x]), Data: data}
						abs[i] = M{"id": mine[x], "doc": d.Abs}
					}
					failed, err := f.nodes[wr.Intn(len(f.nodes))].UpdatePoints(f.col, pts)
					f.tw.Emit("CUpdate", M{"pts": abs, "ok": b2i(err == nil), "failed": failedList(failed)})
				}
			}(w, mine)
		}
		// the fourth client sends, through every node, updates that the shard refuses as a whole (the merged
		// point would exceed the plan's point size): an error of the remote handler, which travels over the very
		// connections the other clients' updates use. Such a request changes nothing, and nothing of it
		// concerns the others.
		if len(f.nodes) > 1 && len(noiseIDs) > 0 {
			wg.Add(1)
			go func() {
				defer wg.Done()
				wr := rand.New(rand.NewSource(seed*31 + 99))
				asked, refused := 0, 0
				big := strings.Repeat("x", int(f.col.UserPlan.MaxPointSize)+1000)
				for time.Now().Before(end) {
					id := noiseIDs[wr.Intn(len(noiseIDs))]
					data, _ := msgpack.Marshal(map[string]any{"pad": big})
					failed, err := f.nodes[wr.Intn(len(f.nodes))].UpdatePoints(f.col, []models.Point{{Id: sd.UUIDOf(id), Data: data}})
					asked++
					if err != nil || len(failed) > 0 {
						refused++
					}
					time.Sleep(time.Duration(2+wr.Intn(15)) * time.Millisecond)
				}
				f.tw.Emit("CNoise", M{"asked": asked, "refused": refused})
			}()
		}
		wg.Wait()
		f.soaking = false
		f.place()
		f.observe(leaves)
	}
	_ = strings.Join
	return nil
}
