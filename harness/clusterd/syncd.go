package clusterd

import (
	"crypto/sha256"
	"fmt"
	"github.com/semafind/semadb/diskstore"
	"io"
	"math/rand"
	"os"
	"path/filepath"
	"sort"
	"strings"
	"time"

	"github.com/google/uuid"
	"github.com/semafind/semadb/cluster"
	"github.com/semafind/semadb/models"
	"github.com/vmihailenco/msgpack/v5"

	"verif/harness/sd"
	"verif/harness/trace"
)

const ChunkSize = cluster.CHUNKSIZE

// SyncOpts describes one rebalancing scenario.
type SyncOpts struct {
	Exe      string
	OldN     int    // servers before
	NewKind  string // grow | shrink | replace
	Fault    string // "" or role:chunk:mode applied to one node in the first round; "down:0:off" = an owner of records is not running in the first round
	SepRoot  bool   // shard files live in their own directory (shardManager.rootDir differs from rootDir)
	BigFiles bool   // synthetic shard files around the chunk size
}

type syncFile struct {
	idx    int
	rel    string // user/col/shard
	hash   string
	chunks int
	real   bool
}

type syncRun struct {
	tw    *trace.Writer
	r     *rand.Rand
	dir   string
	names []string // all server names ever used (index+1 = node number)
	roots []string
	files []syncFile
	recs  []string // record keys user/col
}

func fileHash(path string) string {
	f, err := os.Open(path)
	if err != nil {
		return ""
	}
	defer f.Close()
	h := sha256.New()
	io.Copy(h, f)
	return fmt.Sprintf("%x", h.Sum(nil))
}

func idxOf(names []string, s string) int {
	for i, n := range names {
		if n == s {
			return i + 1
		}
	}
	return 0
}

// tree logs, for every node directory, which shard files are there and whether
// each is byte-identical to the original (2), something else (1) or absent (0).
func (s *syncRun) tree(nodes []int) {
	var files [][3]int
	for _, n := range nodes {
		for _, f := range s.files {
			p := filepath.Join(ShardRoot(s.roots[n-1]), cluster.USERCOLSDIR, f.rel, "sharddb.bbolt")
			st := 0
			if _, err := os.Stat(p); err == nil {
				st = 1
				if fileHash(p) == f.hash {
					st = 2
				}
			}
			files = append(files, [3]int{n, f.idx, st})
		}
	}
	s.tw.Emit("STree", M{"files": files})
}

// records asks every live node for the collection records it holds.
func (s *syncRun) records(obs *cluster.ClusterNode, live map[int]bool, users []string) {
	var recs [][3]int
	for n := range s.names {
		if !live[n+1] {
			continue
		}
		have := map[string]bool{}
		for _, u := range users {
			req := cluster.RPCListCollectionsRequest{RPCRequestArgs: cluster.RPCRequestArgs{Source: obs.MyHostname, Dest: s.names[n]}, UserId: u}
			var resp cluster.RPCListCollectionsResponse
			if err := obs.RPCListCollections(&req, &resp); err != nil {
				s.tw.Emit("Err", M{"what": "records", "node": n + 1, "err": err.Error()})
				return
			}
			for _, c := range resp.Collections {
				have[c.UserId+"/"+c.Id] = true
			}
		}
		for i, k := range s.recs {
			recs = append(recs, [3]int{n + 1, i + 1, b2i(have[k])})
		}
	}
	s.tw.Emit("SRecs", M{"recs": recs})
}

// RunSync runs one scenario.
func RunSync(no int, seed int64, root string, tw *trace.Writer, o SyncOpts) error {
	dir := filepath.Join(root, fmt.Sprintf("sync%d", no))
	os.RemoveAll(dir)
	defer os.RemoveAll(dir)
	if o.SepRoot {
		os.Setenv("VERIF_SHARD_SUBDIR", "shardfiles")
	} else {
		os.Unsetenv("VERIF_SHARD_SUBDIR")
	}
	r := rand.New(rand.NewSource(seed))
	total := o.OldN + 3
	ports := FreePorts(total + 1)
	s := &syncRun{tw: tw, r: r, dir: dir}
	for i := 0; i < total; i++ {
		s.names = append(s.names, ServerName(ports[i]))
		s.roots = append(s.roots, filepath.Join(dir, fmt.Sprintf("n%d", i+1)))
	}
	old := s.names[:o.OldN]
	var neu []string
	switch o.NewKind {
	case "grow":
		neu = s.names[:o.OldN+1+r.Intn(2)]
	case "shrink":
		if o.OldN < 2 {
			neu = s.names[:o.OldN+1]
		} else {
			neu = s.names[:o.OldN-1]
		}
	case "scatter": // every old server leaves, three new ones take over: records go to several destinations at once
		neu = s.names[o.OldN : o.OldN+3]
	default: // replace one server by a new one
		neu = append(append([]string{}, s.names[1:o.OldN]...), s.names[o.OldN])
	}
	// ---- phase 1: build data under the old server list (in-process nodes)
	var oldNodes []*cluster.ClusterNode
	for i := range old {
		cfg := NodeConfig(s.roots[i], ports[i], old, 3, 1<<40)
		cfg.ShardManager.ShardTimeout = 1
		n, err := StartNode(cfg, false)
		if err != nil {
			return err
		}
		oldNodes = append(oldNodes, n)
	}
	// (ids that are prefixes of one another: a key "user1/..." sorts right before "user10/...")
	users := []string{"alice", "alice2", "bob", "bo", "user1", "user10", "user100", "dave"}
	g := &sd.Gen{R: r, Cfg: FanCfg}
	points := map[string][]int{} // record -> ids
	var cols []models.Collection
	for ui, u := range users {
		for c := 0; c < 1+r.Intn(2); c++ {
			col := models.Collection{UserId: u, Id: fmt.Sprintf("c%d", c), Replicas: 1, IndexSchema: FanCfg.Schema(),
				UserPlan: models.UserPlan{Name: "verif", MaxCollections: 5, MaxCollectionPointCount: 1 << 30, MaxPointSize: 1 << 20}}
			if err := oldNodes[ui%len(oldNodes)].CreateCollection(col); err != nil {
				return fmt.Errorf("create: %w", err)
			}
			n := 2 + r.Intn(7)
			pts := make([]models.Point, n)
			var ids []int
			for k := 0; k < n; k++ {
				d := g.DocFrom(false, 0.9, nil)
				data, _ := msgpack.Marshal(d.Real)
				pts[k] = models.Point{Id: sd.UUIDOf(k + 1), Data: data}
				ids = append(ids, k+1)
			}
			if _, err := oldNodes[0].InsertPoints(col, pts); err != nil {
				return fmt.Errorf("insert: %w", err)
			}
			col, _ = oldNodes[0].GetCollection(u, col.Id)
			col.UserPlan = models.UserPlan{Name: "verif", MaxCollections: 5, MaxCollectionPointCount: 1 << 30, MaxPointSize: 1 << 20}
			cols = append(cols, col)
			key := u + "/" + col.Id
			s.recs = append(s.recs, key)
			points[key] = ids
		}
	}
	for _, n := range oldNodes {
		n.Close()
	}
	time.Sleep(1600 * time.Millisecond) // idle unload releases the shard files
	// synthetic shard files of exact sizes on old server 1
	if o.BigFiles {
		sizes := []int{100, ChunkSize, 2*ChunkSize + 1}
		if r.Intn(2) == 0 {
			sizes = []int{ChunkSize - 1, 2 * ChunkSize, 2*ChunkSize - 1}
		}
		for i, sz := range sizes {
			rel := filepath.Join("synth", fmt.Sprintf("s%d", i), uuid.NewString())
			p := filepath.Join(ShardRoot(s.roots[r.Intn(len(old))]), cluster.USERCOLSDIR, rel)
			os.MkdirAll(p, 0755)
			buf := make([]byte, sz)
			r.Read(buf)
			if err := os.WriteFile(filepath.Join(p, "sharddb.bbolt"), buf, 0644); err != nil {
				return err
			}
		}
	}
	// inventory of shard files
	for i := range old {
		base := filepath.Join(ShardRoot(s.roots[i]), cluster.USERCOLSDIR)
		filepath.Walk(base, func(p string, info os.FileInfo, err error) error {
			if err == nil && filepath.Base(p) == "sharddb.bbolt" {
				rel, _ := filepath.Rel(base, filepath.Dir(p))
				chunks := int((info.Size() + ChunkSize - 1) / ChunkSize)
				s.files = append(s.files, syncFile{rel: rel, hash: fileHash(p), chunks: chunks, real: !strings.HasPrefix(rel, "synth")})
			}
			return nil
		})
	}
	sort.Slice(s.files, func(a, b int) bool { return s.files[a].rel < s.files[b].rel })
	var finfo, rinfo []M
	for i := range s.files {
		s.files[i].idx = i + 1
		shardID := filepath.Base(s.files[i].rel)
		finfo = append(finfo, M{"f": i + 1, "owner": idxOf(s.names, cluster.RendezvousHash(shardID, neu, 1)[0]), "chunks": s.files[i].chunks})
	}
	for i, k := range s.recs {
		rinfo = append(rinfo, M{"r": i + 1, "owner": idxOf(s.names, cluster.RendezvousHash(strings.Split(k, "/")[0], neu, 1)[0])})
	}
	// "stale:0:copy": the destination of a moving record already holds an OLD version of it (the copy a sender
	// leaves behind when it dies after the acknowledgement and before its own delete, in an earlier change of
	// the server list that was later undone): the version without the shards. What the owner hands over replaces it.
	if o.Fault == "stale:0:copy" {
		planted := 0
		for i, k := range s.recs {
			u := strings.Split(k, "/")[0]
			dest := idxOf(s.names, cluster.RendezvousHash(u, neu, 1)[0])
			src := idxOf(s.names, cluster.RendezvousHash(u, old, 1)[0])
			if dest == src || planted >= 3 {
				continue
			}
			stale := cols[i]
			stale.ShardIds = nil
			val, err := msgpack.Marshal(stale)
			if err != nil {
				return err
			}
			os.MkdirAll(s.roots[dest-1], 0755)
			db, err := diskstore.Open(filepath.Join(s.roots[dest-1], "nodedb.bbolt"))
			if err != nil {
				return fmt.Errorf("plant stale record: %w", err)
			}
			werr := db.Write(func(bm diskstore.BucketManager) error {
				b, err := bm.Get(cluster.USERCOLSBUCKETKEY)
				if err != nil {
					return err
				}
				return b.Put([]byte(k), val)
			})
			db.Close()
			if werr != nil {
				return fmt.Errorf("plant stale record: %w", werr)
			}
			planted++
		}
		tw.Emit("SPlant", M{"n": planted})
	}
	// every node that holds data or is in the new list takes part
	part := map[int]bool{}
	for i := range old {
		part[i+1] = true
	}
	for _, n := range neu {
		part[idxOf(s.names, n)] = true
	}
	var nodes []int
	for n := range part {
		nodes = append(nodes, n)
	}
	sort.Ints(nodes)
	tw.Emit("SReset", M{"nodes": nodes, "files": finfo, "recs": rinfo, "old": len(old), "kind": o.NewKind, "fault": o.Fault})
	s.tree(nodes)
	// ---- phase 2: start every participant with the new list, then synchronise
	obsCfg := NodeConfig(filepath.Join(dir, "obs"), ports[total], neu, 3, 1<<40)
	obs, err := StartNode(obsCfg, false)
	if err != nil {
		return err
	}
	defer obs.Close()
	children := map[int]*Child{}
	defer func() {
		for _, c := range children {
			c.Kill()
		}
	}()
	faultNode := 0
	if o.Fault != "" {
		role := strings.Split(o.Fault, ":")[0]
		// sender faults on a node that has something to send, receiver faults on an owner
		var cand []int
		for _, n := range nodes {
			if role == "down" {
				// a destination of collection records that differs from where they are now
				for _, rc := range rinfo {
					if rc["owner"].(int) == n && (n > len(old) || len(old) > 1) {
						cand = append(cand, n)
						break
					}
				}
			} else if role == "recv" {
				for _, f := range finfo {
					if f["owner"].(int) == n {
						cand = append(cand, n)
						break
					}
				}
			} else if n <= len(old) {
				cand = append(cand, n)
			}
		}
		if len(cand) > 0 && role != "stale" { // (the stale copies are planted in files: no node runs with a fault)
			faultNode = cand[r.Intn(len(cand))]
		}
	}
	start := func(n int, env []string) error {
		c, err := StartChild(o.Exe, s.roots[n-1], ports[n-1], neu, 3, false, env)
		if err != nil {
			return err
		}
		children[n] = c
		return nil
	}
	for _, n := range nodes {
		var env []string
		if n == faultNode {
			if strings.HasPrefix(o.Fault, "down") {
				continue // not running during the first round
			}
			env = []string{"VERIF_SYNC_FAULT=" + o.Fault}
			if strings.HasPrefix(o.Fault, "records") {
				// the sender towards ONE destination of records is slow: the others finish (and clean up) meanwhile
				dest := rinfo[r.Intn(len(rinfo))]["owner"].(int)
				for i, name := range neu {
					if idxOf(s.names, name) == dest {
						env = []string{fmt.Sprintf("VERIF_SYNC_FAULT=records:%d:sleep", i)}
					}
				}
			}
		}
		if err := start(n, env); err != nil {
			return err
		}
	}
	live := func() map[int]bool {
		time.Sleep(20 * time.Millisecond)
		m := map[int]bool{}
		for n, c := range children {
			if c.Dead() {
				c.Kill()
				delete(children, n)
				tw.Emit("SDied", M{"node": n})
				continue
			}
			m[n] = true
		}
		return m
	}
	round := func(clean bool) bool {
		allOK := true
		order := append([]int{}, nodes...)
		r.Shuffle(len(order), func(i, j int) { order[i], order[j] = order[j], order[i] })
		for _, n := range order {
			c, okc := children[n]
			if !okc || c.Dead() {
				allOK = false
				continue
			}
			st := c.Sync(120 * time.Second)
			ok := st == "SYNCOK"
			if !ok {
				allOK = false
			}
			died := st == "EXIT"
			tw.Emit("SSync", M{"node": n, "ok": b2i(ok), "died": b2i(died), "clean": b2i(clean)})
			if died {
				c.Kill()
				delete(children, n)
			}
			s.tree(nodes)
			s.records(obs, live(), users)
		}
		return allOK
	}
	if o.Fault != "" {
		round(false)
		// restart whatever died, and the faulty node without its fault
		for _, n := range nodes {
			if c, ok := children[n]; ok && n == faultNode {
				c.Kill()
				delete(children, n)
			}
			if _, ok := children[n]; !ok {
				if err := start(n, nil); err != nil {
					return err
				}
			}
		}
		s.tree(nodes)
	}
	// later synchronisations complete the move: two clean rounds (a node may
	// receive something it must forward only in the next one)
	ok1 := round(true)
	ok2 := round(true)
	tw.Emit("SRound", M{"ok": b2i(ok1 && ok2)})
	s.tree(nodes)
	s.records(obs, live(), users)
	// all previously stored points remain readable through the deployment
	for _, col := range cols {
		c2, err := obs.GetCollection(col.UserId, col.Id)
		if err != nil {
			tw.Emit("SRead", M{"rec": idxOf(s.recs, col.UserId+"/"+col.Id), "ok": 0, "ids": []int{}})
			continue
		}
		c2.UserPlan = col.UserPlan
		res, err := obs.SearchPoints(c2, models.SearchRequest{Query: sd.IDQuery(allIDs(12)), Limit: 100})
		ids := []int{}
		for _, sr := range res {
			ids = append(ids, sd.IDOf(sr.Id))
		}
		sort.Ints(ids)
		tw.Emit("SRead", M{"rec": idxOf(s.recs, col.UserId+"/"+col.Id), "ok": b2i(err == nil), "ids": ids, "want": points[col.UserId+"/"+col.Id]})
	}
	return nil
}
