// Package clusterd drives multi-node deployments: in-process cluster nodes for
// entry points and child node processes (vh node) that can be killed.
package clusterd

import (
	"bufio"
	"fmt"
	"io"
	"net"
	"os"
	"os/exec"
	"path/filepath"
	"strings"
	"sync/atomic"
	"time"

	"github.com/semafind/semadb/cluster"
)

// FreePorts returns n free TCP ports on localhost.
func FreePorts(n int) []int {
	var ls []net.Listener
	var ports []int
	for i := 0; i < n; i++ {
		l, err := net.Listen("tcp", "127.0.0.1:0")
		if err != nil {
			panic(err)
		}
		ls = append(ls, l)
		ports = append(ports, l.Addr().(*net.TCPAddr).Port)
	}
	for _, l := range ls {
		l.Close()
	}
	return ports
}

func ServerName(port int) string { return fmt.Sprintf("localhost:%d", port) }

// NodeConfig builds the configuration of one node.
// ShardRoot is where a node with root directory root keeps its shard files: the
// root itself, or (VERIF_SHARD_SUBDIR set, inherited by node processes) a
// separate directory, as a deployment with its own shardManager.rootDir has.
func ShardRoot(root string) string {
	if sub := os.Getenv("VERIF_SHARD_SUBDIR"); sub != "" {
		return filepath.Join(root, sub)
	}
	return root
}

func NodeConfig(root string, port int, servers []string, maxShardPoints int64, maxShardSize int64) cluster.ClusterNodeConfig {
	return cluster.ClusterNodeConfig{
		RootDir: root, RpcHost: "localhost", RpcPort: port, RpcTimeout: 5, RpcRetries: 1,
		Servers:      servers,
		ShardManager: cluster.ShardManagerConfig{RootDir: ShardRoot(root), ShardTimeout: 3600, MaxCacheSize: -1},
		MaxShardSize: maxShardSize, MaxShardPointCount: maxShardPoints, MaxSearchLimit: 75,
	}
}

// StartNode creates and serves an in-process node (sync = run the start-up synchronisation first).
func StartNode(cfg cluster.ClusterNodeConfig, sync bool) (*cluster.ClusterNode, error) {
	n, err := cluster.NewNode(cfg)
	if err != nil {
		return nil, err
	}
	if err := n.Serve(); err != nil {
		return nil, err
	}
	if err := waitPort(cfg.RpcPort, 3*time.Second); err != nil {
		return nil, err
	}
	if sync {
		if err := n.Sync(); err != nil {
			return n, fmt.Errorf("sync: %w", err)
		}
	}
	return n, nil
}

func waitPort(port int, d time.Duration) error {
	deadline := time.Now().Add(d)
	for time.Now().Before(deadline) {
		c, err := net.DialTimeout("tcp", fmt.Sprintf("127.0.0.1:%d", port), 200*time.Millisecond)
		if err == nil {
			c.Close()
			return nil
		}
		time.Sleep(10 * time.Millisecond)
	}
	return fmt.Errorf("port %d did not open", port)
}

// Child is a node running in a child process (vh node ...).
type Child struct {
	Cmd    *exec.Cmd
	Port   int
	Out    *bufio.Reader
	In     io.WriteCloser
	Status string // last status line: READY | SYNCFAIL <msg>
	lines  chan string
	dead   atomic.Bool
}

// Dead reports whether the child's output has closed (the process is gone).
func (c *Child) Dead() bool { return c.dead.Load() }

// StartChild starts `exe node` and waits for its status line. env adds
// environment variables (fault points).
func StartChild(exe, root string, port int, servers []string, maxShardPoints int64, sync bool, env []string) (*Child, error) {
	args := []string{"node", "-ondemand", "-root", root, "-port", fmt.Sprint(port), "-servers", strings.Join(servers, ","), "-maxshardpoints", fmt.Sprint(maxShardPoints)}
	if sync {
		args = append(args, "-sync")
	}
	cmd := exec.Command(exe, args...)
	cmd.Env = append(os.Environ(), env...)
	stdout, err := cmd.StdoutPipe()
	if err != nil {
		return nil, err
	}
	cmd.Stderr = nil
	stdin, err := cmd.StdinPipe() // the child exits when stdin closes
	if err != nil {
		return nil, err
	}
	if err := cmd.Start(); err != nil {
		return nil, err
	}
	c := &Child{Cmd: cmd, Port: port, Out: bufio.NewReader(stdout), In: stdin, lines: make(chan string, 16)}
	go func() {
		for {
			line, err := c.Out.ReadString('\n')
			line = strings.TrimSpace(line)
			if strings.HasPrefix(line, "READY") || strings.HasPrefix(line, "SYNC") {
				c.lines <- line
			}
			if err != nil {
				c.dead.Store(true)
				c.lines <- "EXIT"
				return
			}
		}
	}()
	select {
	case s := <-c.lines:
		c.Status = s
	case <-time.After(60 * time.Second):
		c.Kill()
		return nil, fmt.Errorf("child node on port %d did not come up", port)
	}
	return c, nil
}

// Sync asks an on-demand child to run its synchronisation; returns the status
// line (SYNCOK | SYNCFAIL ... | EXIT if the process died).
func (c *Child) Sync(d time.Duration) string {
	if _, err := io.WriteString(c.In, "sync\n"); err != nil {
		return "EXIT"
	}
	select {
	case s := <-c.lines:
		return s
	case <-time.After(d):
		return "TIMEOUT"
	}
}

// Kill terminates the child at once (SIGKILL) and waits for it.
func (c *Child) Kill() {
	if c.Cmd.Process != nil {
		c.Cmd.Process.Kill()
		c.Cmd.Wait()
	}
}

// Wait waits for the child to exit by itself and returns its exit code.
func (c *Child) Wait(d time.Duration) (int, bool) {
	ch := make(chan error, 1)
	go func() { ch <- c.Cmd.Wait() }()
	select {
	case err := <-ch:
		if err == nil {
			return 0, true
		}
		if ee, ok := err.(*exec.ExitError); ok {
			return ee.ExitCode(), true
		}
		return -1, true
	case <-time.After(d):
		return 0, false
	}
}

// RunNodeMain is the body of `vh node`.
func RunNodeMain(root string, port int, servers []string, maxShardPoints int64, sync bool, onDemand bool) {
	cfg := NodeConfig(root, port, servers, maxShardPoints, 1<<40)
	n, err := cluster.NewNode(cfg)
	if err != nil {
		fmt.Println("SYNCFAIL newnode:", err)
		os.Exit(5)
	}
	if err := n.Serve(); err != nil {
		fmt.Println("SYNCFAIL serve:", err)
		os.Exit(5)
	}
	waitPort(port, 3*time.Second)
	if sync {
		if err := n.Sync(); err != nil {
			fmt.Println("SYNCFAIL", strings.ReplaceAll(err.Error(), "\n", " "))
			os.Exit(6)
		}
	}
	fmt.Println("READY")
	// run until the parent closes our stdin (or kills us); with onDemand every
	// line "sync" on stdin runs the start-up synchronisation and reports it
	rd := bufio.NewReader(os.Stdin)
	for {
		line, err := rd.ReadString('\n')
		if err != nil {
			break
		}
		if onDemand && strings.TrimSpace(line) == "sync" {
			if err := n.Sync(); err != nil {
				fmt.Println("SYNCFAIL", strings.ReplaceAll(err.Error(), "\n", " "))
			} else {
				fmt.Println("SYNCOK")
			}
		}
	}
	n.Close()
}
