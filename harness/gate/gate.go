// Package gate turns labelled yield points into scheduler gates: a goroutine
// arriving at a yield parks until the scheduler releases it. Actors are named
// by the harness (goroutines it starts register themselves by goroutine id;
// goroutines spawned by the code under test are named from the hook's key).
package gate

import (
	"bytes"
	"fmt"
	"runtime"
	"strconv"
	"sync"
	"time"
)

// GoID returns the id of the calling goroutine (parsed from the stack header).
func GoID() uint64 {
	var buf [64]byte
	n := runtime.Stack(buf[:], false)
	// "goroutine 123 [running]:"
	b := buf[:n]
	b = bytes.TrimPrefix(b, []byte("goroutine "))
	i := bytes.IndexByte(b, ' ')
	id, _ := strconv.ParseUint(string(b[:i]), 10, 64)
	return id
}

type parked struct {
	label string
	ch    chan struct{}
}

// Sched is a cooperative scheduler over named actors.
type Sched struct {
	mu      sync.Mutex
	cond    *sync.Cond
	byGoID  map[uint64]string
	parked  map[string]*parked // actor -> where it is parked
	done    map[string]bool    // actor finished
	arrived map[string]int     // number of arrivals per actor (monotone)
	free    bool               // free-run: yields return immediately
}

func New() *Sched {
	s := &Sched{byGoID: map[uint64]string{}, parked: map[string]*parked{}, done: map[string]bool{}, arrived: map[string]int{}}
	s.cond = sync.NewCond(&s.mu)
	return s
}

// Go starts fn as actor name; the actor is marked done when fn returns.
func (s *Sched) Go(name string, fn func()) {
	started := make(chan struct{})
	go func() {
		s.mu.Lock()
		s.byGoID[GoID()] = name
		s.done[name] = false // an actor name may be used again for a later call
		s.mu.Unlock()
		close(started)
		defer func() {
			s.mu.Lock()
			s.done[name] = true
			s.cond.Broadcast()
			s.mu.Unlock()
		}()
		fn()
	}()
	<-started
}

// Actor returns the registered name of the calling goroutine ("" if none).
func (s *Sched) Actor() string {
	id := GoID()
	s.mu.Lock()
	defer s.mu.Unlock()
	return s.byGoID[id]
}

// Bind names the calling goroutine (for goroutines spawned by the code under test).
func (s *Sched) Bind(name string) {
	id := GoID()
	s.mu.Lock()
	s.byGoID[id] = name
	s.mu.Unlock()
}

// Yield parks the calling actor at label until released.
func (s *Sched) Yield(actor, label string) {
	s.mu.Lock()
	if s.free {
		s.mu.Unlock()
		return
	}
	p := &parked{label: label, ch: make(chan struct{})}
	s.parked[actor] = p
	s.arrived[actor]++
	s.cond.Broadcast()
	s.mu.Unlock()
	<-p.ch
}

// Where reports where the actor is: "@label" parked, "done", or "" (running / blocked).
func (s *Sched) Where(actor string) string {
	s.mu.Lock()
	defer s.mu.Unlock()
	return s.whereLocked(actor)
}

func (s *Sched) whereLocked(actor string) string {
	if p, ok := s.parked[actor]; ok {
		return "@" + p.label
	}
	if s.done[actor] {
		return "done"
	}
	return ""
}

// Wait blocks until the actor is parked or done, or the timeout expires.
// Returns Where(actor) ("" on timeout).
func (s *Sched) Wait(actor string, timeout time.Duration) string {
	deadline := time.Now().Add(timeout)
	timer := time.AfterFunc(timeout, func() { s.mu.Lock(); s.cond.Broadcast(); s.mu.Unlock() })
	defer timer.Stop()
	s.mu.Lock()
	defer s.mu.Unlock()
	for {
		if w := s.whereLocked(actor); w != "" {
			return w
		}
		if time.Now().After(deadline) {
			return ""
		}
		s.cond.Wait()
	}
}

// Release lets a parked actor continue. Returns false if it was not parked.
func (s *Sched) Release(actor string) bool {
	s.mu.Lock()
	p, ok := s.parked[actor]
	if ok {
		delete(s.parked, actor)
	}
	s.mu.Unlock()
	if ok {
		close(p.ch)
	}
	return ok
}

// FreeRun releases everybody and makes all further yields no-ops.
func (s *Sched) FreeRun() {
	s.mu.Lock()
	s.free = true
	ps := s.parked
	s.parked = map[string]*parked{}
	s.mu.Unlock()
	for _, p := range ps {
		close(p.ch)
	}
}

// AllDone waits until every listed actor is done.
func (s *Sched) AllDone(actors []string, timeout time.Duration) (pending []string) {
	deadline := time.Now().Add(timeout)
	timer := time.AfterFunc(timeout, func() { s.mu.Lock(); s.cond.Broadcast(); s.mu.Unlock() })
	defer timer.Stop()
	s.mu.Lock()
	defer s.mu.Unlock()
	for {
		pending = pending[:0]
		for _, a := range actors {
			if !s.done[a] {
				pending = append(pending, a)
			}
		}
		if len(pending) == 0 || time.Now().After(deadline) {
			return pending
		}
		s.cond.Wait()
	}
}

// Dump returns the stacks of all goroutines.
func Dump() string {
	buf := make([]byte, 1<<20)
	n := runtime.Stack(buf, true)
	return string(buf[:n])
}

// BlockedOnLock reports, for the goroutine ids given, whether each is blocked
// in a sync lock / channel operation according to the goroutine dump.
func BlockedOnLock(dump string, goids map[uint64]string) map[string]string {
	out := map[string]string{}
	for _, block := range bytes.Split([]byte(dump), []byte("\n\n")) {
		if !bytes.HasPrefix(block, []byte("goroutine ")) {
			continue
		}
		hdr := block
		if i := bytes.IndexByte(block, '\n'); i >= 0 {
			hdr = block[:i]
		}
		f := bytes.Fields(hdr)
		if len(f) < 3 {
			continue
		}
		id, _ := strconv.ParseUint(string(f[1]), 10, 64)
		name, ok := goids[id]
		if !ok {
			continue
		}
		state := string(bytes.Trim(bytes.Join(f[2:], []byte(" ")), "[]:"))
		where := ""
		for _, fn := range []string{"sync.(*RWMutex).Lock", "sync.(*RWMutex).RLock", "sync.(*Mutex).Lock", "flock", "chan receive", "chan send"} {
			if bytes.Contains(block, []byte(fn)) {
				where = fn
				break
			}
		}
		out[name] = fmt.Sprintf("%s %s", state, where)
	}
	return out
}

// GoIDs returns the registered goroutine ids by actor name.
func (s *Sched) GoIDs() map[uint64]string {
	s.mu.Lock()
	defer s.mu.Unlock()
	out := make(map[uint64]string, len(s.byGoID))
	for k, v := range s.byGoID {
		out[k] = v
	}
	return out
}

// Alive reports whether the goroutine bound to the actor still exists.
func (s *Sched) Alive(actor string) bool {
	s.mu.Lock()
	var id uint64
	found := false
	for g, a := range s.byGoID {
		if a == actor {
			id, found = g, true
		}
	}
	s.mu.Unlock()
	if !found {
		return false
	}
	return bytes.Contains([]byte(Dump()), []byte(fmt.Sprintf("goroutine %d [", id)))
}

// WaitSpawned is Wait for goroutines spawned by the code under test (whose end
// is not announced): "done" is reported when the goroutine no longer exists.
func (s *Sched) WaitSpawned(actor string, timeout time.Duration) string {
	deadline := time.Now().Add(timeout)
	for {
		if w := s.Where(actor); w != "" {
			return w
		}
		if !s.Alive(actor) {
			return "done"
		}
		if time.Now().After(deadline) {
			return ""
		}
		time.Sleep(200 * time.Microsecond)
	}
}
