SPECIFICATION Spec
CONSTANTS
  NCalls = 3
  OnErrorBody = "fail"
INVARIANTS TypeOK OwnAnswer NoPhantom Isolation
CHECK_DEADLOCK FALSE
