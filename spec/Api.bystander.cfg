SPECIFICATION Spec
CONSTANTS
  Server = "bystander"
  CatalogueFile = ""
INVARIANTS Judged
CHECK_DEADLOCK FALSE
