------------------------------- MODULE RpcMux -------------------------------
(***************************************************************************)
(* One connection of the cluster's rpc layer (net/rpc with the MessagePack  *)
(* codec of cluster/mrpc/codec.go): several calls are in flight at once,    *)
(* the server answers them in any order, every answer is a header (the      *)
(* call's sequence number, an error text or none) followed by a body (the   *)
(* reply, or an empty value when the header carries an error).  One reader  *)
(* goroutine of the client takes the frames off the stream and completes    *)
(* the call the header names.                                               *)
(*                                                                          *)
(* What the fan-out (C17), placement (C15) and the synchronisation (C14)    *)
(* rely on: a call is completed only by the answer the server gave to THAT  *)
(* call, and a call that the server refuses concerns nobody else.           *)
(*                                                                          *)
(* OnErrorBody is what the reader does with the body of an error answer:    *)
(*   "skip"   read it and throw it away (the code after fix 6883c97)        *)
(*   "fail"   the code as pinned: Decode(nil) is an error for the           *)
(*            MessagePack library, net/rpc takes it as a broken stream,      *)
(*            closes the connection and fails every call in flight           *)
(*   "leave"  return without reading it (seeded change C17-H): the empty     *)
(*            value stays in the stream and is taken for the next header;    *)
(*            it decodes to sequence number 0 and no error                   *)
(***************************************************************************)
EXTENDS Naturals, Sequences, FiniteSets, TLC

CONSTANTS NCalls,       \* calls 0 .. NCalls-1, numbered in the order they are sent
          OnErrorBody,  \* "skip" | "fail" | "leave"
          OnTimeout     \* "keep" = the code as pinned: a call that waited too long gives up, the connection stays;
                        \* "close" = the cached client of that server is closed on a timeout (seeded change C17-J)

Calls == 0..NCalls - 1

VARIABLES sent,      \* calls written to the connection so far (a prefix of Calls)
          served,    \* [call -> "none" | "reply" | "refused"]: what the server did with it
          wire,      \* frames on their way to the client: <<"hdr", seq, err>> | <<"body">>
          rd,        \* reader: "hdr" | "body" | "dead"
          cur,       \* the header the reader holds: [seq, err]
          outcome    \* [call -> "none" | "reply" | "refused" | "connerr" | "phantom" | "timeout"]
vars == <<sent, served, wire, rd, cur, outcome>>

Pending == {c \in sent : outcome[c] = "none"}

Init ==
  /\ sent = {} /\ served = [c \in Calls |-> "none"] /\ wire = <<>>
  /\ rd = "hdr" /\ cur = [seq |-> 0, err |-> FALSE]
  /\ outcome = [c \in Calls |-> "none"]

\* client.Go: the next call is written (sequence numbers in sending order)
Send ==
  /\ rd # "dead"
  /\ \E c \in Calls \ sent :
        /\ \A d \in Calls : d < c => d \in sent
        /\ sent' = sent \cup {c}
  /\ UNCHANGED <<served, wire, rd, cur, outcome>>

\* the server runs a request (in any order) and writes header + body
Serve(c, how) ==
  /\ c \in sent /\ served[c] = "none" /\ rd # "dead"
  /\ served' = [served EXCEPT ![c] = how]
  /\ wire' = wire \o << <<"hdr", c, how = "refused">>, <<"body">> >>
  /\ UNCHANGED <<sent, rd, cur, outcome>>

\* input(): ReadResponseHeader
ReadHeader ==
  /\ rd = "hdr" /\ wire # <<>>
  /\ LET f == Head(wire) IN
       \* a body left in the stream is taken for a header: the empty value decodes to Seq 0, no error
       cur' = IF f[1] = "hdr" THEN [seq |-> f[2], err |-> f[3]] ELSE [seq |-> 0, err |-> FALSE]
  /\ wire' = Tail(wire) /\ rd' = "body"
  /\ UNCHANGED <<sent, served, outcome>>

Complete(c, how) == outcome' = IF c \in Pending THEN [outcome EXCEPT ![c] = how] ELSE outcome

\* input(): ReadResponseBody, then call.done()
ReadBody ==
  /\ rd = "body"
  /\ IF cur.err
     THEN CASE OnErrorBody = "skip" ->
                 /\ wire # <<>> /\ wire' = Tail(wire) /\ rd' = "hdr"
                 /\ Complete(cur.seq, "refused")
            [] OnErrorBody = "fail" ->
                 \* the refused call is completed, then the read error ends the loop: every pending call fails
                 /\ rd' = "dead" /\ wire' = <<>>
                 /\ outcome' = [c \in Calls |-> IF c = cur.seq /\ c \in Pending THEN "refused"
                                                ELSE IF c \in Pending THEN "connerr" ELSE outcome[c]]
            [] OnErrorBody = "leave" ->
                 /\ rd' = "hdr" /\ UNCHANGED wire
                 /\ Complete(cur.seq, "refused")
     ELSE /\ wire # <<>> /\ wire' = Tail(wire) /\ rd' = "hdr"
          \* (a frame that was not written as this call's body: the reply the caller gets is not the server's)
          /\ Complete(cur.seq, IF Head(wire)[1] = "body" /\ served[cur.seq] = "reply" THEN "reply" ELSE "phantom")
  /\ UNCHANGED <<sent, served, cur>>

\* internalRoute: RpcTimeout fires for a call that is still pending (its answer, if it comes, finds no
\* pending call and is discarded by net/rpc)
Timeout(c) ==
  /\ c \in Pending /\ rd # "dead"
  /\ IF OnTimeout = "close"
     THEN /\ rd' = "dead" /\ wire' = <<>>
          /\ outcome' = [d \in Calls |-> IF d = c THEN "timeout" ELSE IF d \in Pending THEN "connerr" ELSE outcome[d]]
     ELSE /\ outcome' = [outcome EXCEPT ![c] = "timeout"] /\ UNCHANGED <<rd, wire>>
  /\ UNCHANGED <<sent, served, cur>>

Next ==
  \/ Send \/ ReadHeader \/ ReadBody \/ (\E c \in Calls : Timeout(c))
  \/ \E c \in Calls, how \in {"reply", "refused"} : Serve(c, how)
Spec == Init /\ [][Next]_vars /\ WF_vars(ReadHeader) /\ WF_vars(ReadBody)

----------------------------------------------------------------------------
TypeOK ==
  /\ sent \subseteq Calls /\ rd \in {"hdr", "body", "dead"}
  /\ \A c \in Calls : served[c] \in {"none", "reply", "refused"}
  /\ \A c \in Calls : outcome[c] \in {"none", "reply", "refused", "connerr", "phantom", "timeout"}

\* a call is completed only by the answer the server gave to that call
OwnAnswer == \A c \in Calls : outcome[c] \in {"reply", "refused"} => outcome[c] = served[c]
NoPhantom == \A c \in Calls : outcome[c] # "phantom"
\* a call that the server refuses concerns nobody else (no other failure is modelled here)
Isolation == \A c \in Calls : outcome[c] # "connerr"
\* every answered call is completed
Delivered == <>[](\A c \in Calls : served[c] # "none" => outcome[c] # "none")
=============================================================================
