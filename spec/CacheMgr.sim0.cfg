SPECIFICATION SimSpec
CONSTANTS
 Tx = {"t1", "t2", "t3"}
 Names = {"A", "B"}
 MaxSize = 0
 MaxObj = 14
 MaxRelease = 2
 SkipWrittenByName = FALSE
 RecordHist = TRUE
 ProgFamily <- SimFamily
 CFailFamily <- AnyCFail
INVARIANTS PrintBehaviour
CHECK_DEADLOCK FALSE
