------------------------------ MODULE ApiTrace ------------------------------
(***************************************************************************)
(* C18 conformance: TLC judges every request `vh api` sent to the REAL     *)
(* handler chain of semadb (recovery, logging, proxy, white list, app      *)
(* headers, both API versions; in process and as a server child process).  *)
(*                                                                         *)
(* A trace is one driver run:                                              *)
(*   Begin  which slice of the catalogue this run executes                 *)
(*   Case   one catalogue case: its descriptor as materialised, the status *)
(*          code, crashed / aborted / hang flags, and the digests of every *)
(*          collection of every user read before and after the request     *)
(*   Rand   a seeded random body / byte-level mutation of a valid body     *)
(*   Reset  the harness restored the reference world (after a request      *)
(*          changed something): must succeed and reproduce the reference   *)
(*   End    counters                                                       *)
(* For a Case line TLC looks the case up in ITS catalogue (ApiCat), checks *)
(* that the driver materialised exactly that descriptor and that the run   *)
(* executes its slice completely and in order, and applies Conforms with   *)
(* the label of the catalogue; the driver's opinion is nowhere used.       *)
(* Known findings are accepted by signature only when named in             *)
(* KnownFindings, and recorded in kf.                                      *)
(***************************************************************************)
EXTENDS ApiCat, Json

CONSTANTS TraceFile, KnownFindings
Trace == ndJsonDeserialize(TraceFile)
\* debugging aid (cfg: Collect <- DebugOn): print the non-conforming lines instead of stopping at the first one
Collect == FALSE
DebugOn == TRUE

VARIABLES l,      \* next line
          pos,    \* next position in this run's slice of the catalogue
          cur,    \* the digests read last (the "before" of a request is the "after" of the previous one: nothing is sent in between)
          kf      \* known findings matched
vars == <<l, pos, cur, kf>>
TraceView == l

IsEvent(name) == l <= Len(Trace) /\ Trace[l].ev = name /\ l' = l + 1
Hd == Trace[1]

(* ---- the slice of the catalogue this run must execute ---- *)
Sel == SelectSeq([i \in 1..NCases |-> i], LAMBDA i : Catalogue[i].risk = Hd.risky)
NMine == IF Hd.risky \notin {0, 1} \/ Hd.only = 1 \/ Hd.part >= Len(Sel) THEN 0 ELSE (Len(Sel) - Hd.part + Hd.of - 1) \div Hd.of
Mine(k) == Sel[Hd.part + 1 + (k - 1) * Hd.of]

(* ---- observation of a line ---- *)
ObsOf(e) == [status |-> e.status, crashed |-> e.crashed,
             aborted |-> IF e.aborted = 1 \/ e.hang = 1 THEN 1 ELSE 0,
             pre |-> e.pre, post |-> e.post]

(* ---- known findings: exact signatures ---- *)
\* select paths of the catalogue that descend below a stored number or string (the driver logs the same fact,
\* selscalar, for random bodies)
ScalarDescents == {"num.x", "nest.n.z", "num|num.x", "flt.x", "str.x.y", "txt.x"}
Quiet500(e) == e.status = 500 /\ e.crashed = 0 /\ e.aborted = 0 /\ e.pre = e.post
Refused400(e) == e.status = 400 /\ e.crashed = 0 /\ e.aborted = 0 /\ e.pre = e.post
Sig(name, c, e, isRand) ==
  CASE name = "C18-v1-on-v2-collection" ->
         \* (D8) a v1 endpoint meets a collection without a vectorVamana property "vector": recovered nil dereference, 500
         /\ IsV1(c) /\ Quiet500(e)
         /\ \/ c.col \notin {"", "*"} /\ ~V1Ok(c.u, c.col)
            \/ c.ep = "v1.list" /\ ~UserV1Ok(c.u)
    [] name = "C18-select-into-scalar" ->
         \* (D11) a select path that descends below a stored number or string: 500 from the partial MessagePack decoder
         /\ c.ep = "v2.search" /\ Quiet500(e)
         /\ IF isRand THEN e.selscalar = 1 ELSE c.p = "select" /\ c.k = "strs" /\ c.s \in ScalarDescents
    [] name = "emptykey" ->
         \* the empty string cannot be indexed on the file backend: the batch fails as a whole (200 + failed range / point)
         /\ ~isRand /\ c.ep \in {"v2.insert", "v2.update"} /\ e.status = 200 /\ e.nfail > 0 /\ e.pre = e.post /\ e.crashed = 0
         /\ \/ c.k = "str" /\ c.s = "" /\ c.p = "points/0/str"
            \/ c.k = "elemstr" /\ c.s = "" /\ c.p = "points/0/tags"
    [] name = "C18-msgpack-dup-key-any" ->
         \* a MessagePack map that repeats a key whose field is decoded into an `any` (v1 metadata): recovered panic, 500
         /\ c.ep \in {"v1.insert", "v1.update"} /\ c.enc = "mp" /\ Quiet500(e)
         /\ IF isRand THEN e.dupkey = 1 ELSE c.k = "dupsame" /\ c.p \in {"points", "points/0/metadata"}
    [] name = "C18-nan-alpha-accepted" ->
         \* alpha = NaN passes the range check 1.1 .. 1.5 and the collection is created
         /\ ~isRand /\ c.ep = "v2.create" /\ c.t = "float" /\ c.k = "nan32" /\ c.lab = "reject"
         /\ e.status = 200 /\ e.crashed = 0
    [] name = "C18-offset-overflow-crash" ->
         \* offset + limit overflows int: slice bounds panic in a shard goroutine, the PROCESS dies
         /\ c.ep = "v2.search" /\ e.crashed = 1
         /\ IF isRand THEN e.bigoffset = 1 ELSE c.p = "offset" /\ c.k = "numstr" /\ c.s = "9223372036854775807"
    [] name = "C18-msgpack-deep-nesting-crash" ->
         \* millions of nested MessagePack arrays in a free-form field: the recursive decoder overflows the stack, the PROCESS dies
         /\ c.enc = "mp" /\ e.crashed = 1
         /\ IF isRand THEN e.depth >= 100000 ELSE c.k = "deep" /\ c.a >= 1000000
    [] name = "C18-msgpack-length-header-alloc" ->
         \* a MessagePack array header announcing 2^32-1 elements: the decoder allocates the announced length, the PROCESS dies (out of memory)
         /\ c.enc = "mp" /\ (e.crashed = 1 \/ e.hang = 1)
         /\ IF isRand THEN e.bigclaim = 1 ELSE c.k = "body" /\ c.s = "mpbiglen"
    [] OTHER -> FALSE

Judge(c, e, ok, isRand) ==
  LET names == {n \in KnownFindings : Sig(n, c, e, isRand)}
  IN  /\ IF ok \/ names # {} THEN TRUE
         ELSE Collect /\ PrintT(<<"BAD", l, e.ev, c.cid, c.lab, c.eff, e.status, e.crashed, e.aborted, e.pre = e.post, e.ans>>)
      /\ kf' = IF ok THEN kf ELSE kf \cup names

(* ---- actions ---- *)
TraceInit == l = 1 /\ pos = 1 /\ cur = <<>> /\ kf = {}

Begin == /\ IsEvent("Begin") /\ l = 1
         /\ Hd.ncat = NCases /\ Hd.of >= 1 /\ Hd.part >= 0 /\ Hd.part < Hd.of
         /\ cur' = Hd.ref
         /\ UNCHANGED <<pos, kf>>

CaseStep ==
  /\ IsEvent("Case") /\ l > 1
  /\ LET e == Trace[l]
     IN  /\ e.cid \in 1..NCases
         /\ e.pre = cur /\ cur' = e.post
         /\ Hd.only = 0 => (pos <= NMine /\ e.cid = Mine(pos))
         /\ LET c == Catalogue[e.cid]
            IN  /\ Descr(c) = <<e.ep, e.var, e.p, e.k, e.a, e.s, e.enc>>
                /\ Judge(c, e, Conforms(c, ObsOf(e)), FALSE)
  /\ pos' = pos + 1

\* the case just judged, sent once more without a Content-Length (chunked transfer encoding) from the same
\* state: transport framing is not part of a request's meaning, the same catalogue entry judges it
ChunkStep ==
  /\ IsEvent("CaseChunked") /\ l > 1
  /\ LET e == Trace[l]
     IN  /\ e.cid \in 1..NCases
         /\ e.pre = cur /\ cur' = e.post
         /\ Hd.only = 0 => (pos > 1 /\ e.cid = Mine(pos - 1))
         /\ LET c == Catalogue[e.cid]
            IN  /\ Descr(c) = <<e.ep, e.var, e.p, e.k, e.a, e.s, e.enc>>
                /\ Judge(c, e, Conforms(c, ObsOf(e)), FALSE)
  /\ UNCHANGED pos

RandStep ==
  /\ IsEvent("Rand") /\ l > 1
  /\ LET e == Trace[l]
     IN  /\ e.bid \in 1..NCases
         /\ e.pre = cur /\ cur' = e.post
         /\ LET c == Catalogue[e.bid]
            IN  /\ c.t = "base" /\ c.ep = e.ep /\ c.var = e.var /\ c.enc = e.enc
                /\ Judge(c, e, RandConforms(c, e.nonfinite, ObsOf(e)), TRUE)
  /\ UNCHANGED pos

\* restoring the reference world consists of valid requests only: they succeed and the digests are the reference again
ResetStep == /\ IsEvent("Reset") /\ l > 1
             /\ LET e == Trace[l] IN IF e.ok = 1 /\ e.dig = Hd.ref THEN TRUE ELSE Collect /\ PrintT(<<"BADRESET", l>>)
             /\ cur' = Trace[l].dig
             /\ UNCHANGED <<pos, kf>>

EndStep == /\ IsEvent("End") /\ l = Len(Trace)
           /\ Hd.only = 0 => (pos = NMine + 1 /\ Trace[l].cases = NMine)
           /\ Trace[l].rands = Hd.rand
           /\ UNCHANGED <<pos, cur, kf>>

TraceNext == Begin \/ CaseStep \/ ChunkStep \/ RandStep \/ ResetStep \/ EndStep
TraceSpec == TraceInit /\ [][TraceNext]_vars

WF == l \in 1..(Len(Trace) + 1) /\ pos >= 1
TraceAccepted == TLCGet("stats").diameter - 1 = Len(Trace)
ReportKF == (l = Len(Trace) + 1) => (\A n \in kf : PrintT(<<"KF", {n}>>))
=============================================================================
