---------------------------- MODULE ClusterTrace ----------------------------
(***************************************************************************)
(* Multi-server, multi-shard fan-out (cluster/actions.go: InsertPoints,     *)
(* UpdatePoints, DeletePoints, SearchPoints over RPC) validated against the *)
(* collection-level reference model (C17).                                  *)
(*                                                                          *)
(* Model state: pts (id -> document, the whole collection), where (id ->    *)
(* shard), srvOf (shard -> server), down (a server that is unavailable).    *)
(* The placement is LEARNED from CPlace events (every reachable shard is    *)
(* asked directly for its ids) and checked to be a partition of the live    *)
(* ids.  Rules:                                                             *)
(*  - a stored point is found / updated / deleted exactly once whichever    *)
(*    shard and server hold it;                                             *)
(*  - update / delete list as failed exactly the requested ids that no      *)
(*    shard processed; "not found" only if every shard answered;            *)
(*  - a search returns at most `limit` points, no duplicates, all from the  *)
(*    collection-level match set with the model's distance, ordered         *)
(*    globally by hybrid score or by the sort key (missing last); the       *)
(*    per-shard limit heuristic is NOT part of the oracle.                  *)
(***************************************************************************)
EXTENDS Docs, Json

CONSTANTS TraceFile, KnownFindings
Trace == ndJsonDeserialize(TraceFile)

VARIABLES l, pts, where, srvOf, down, S, U, lim, kf
vars == <<l, pts, where, srvOf, down, S, U, lim, kf>>

Sh == INSTANCE Shard WITH nodeOf <- <<>>, free <- {}, next <- 2, count <- 0

TraceInit == l = 1 /\ pts = <<>> /\ where = <<>> /\ srvOf = <<>> /\ down = 0 /\ S = <<>> /\ U = <<>> /\ lim = 0 /\ kf = {}

E == Trace[l]
IsEvent(name) == l <= Len(Trace) /\ Trace[l].ev = name /\ l' = l + 1
AsSet(s) == {s[i] : i \in DOMAIN s}
Env == UNCHANGED <<S, U, lim, kf>>

\* shards that cannot answer, ids that live in them
DownShards == {s \in DOMAIN srvOf : srvOf[s] = down}
AllAnswered == DownShards = {}
Reachable(i) == i \in DOMAIN where /\ where[i] \notin DownShards

TReset ==
  /\ IsEvent("CReset")
  /\ pts' = <<>> /\ where' = <<>> /\ srvOf' = <<>> /\ down' = 0
  /\ S' = E.schema /\ U' = E.pool /\ lim' = E.limit /\ UNCHANGED kf

\* insert: the points of the ranges not reported failed are stored (ids are
\* fresh per collection, as the API requires)
RangeIds(order, rs) == {order[k] : k \in {j \in DOMAIN order : \E r \in DOMAIN rs : j > rs[r][1] /\ j <= rs[r][2]}}
TInsert ==
  /\ IsEvent("CInsert") /\ Env /\ UNCHANGED <<where, srvOf, down>>
  /\ IF E.ok = 0 THEN UNCHANGED pts
     ELSE LET bad == RangeIds(E.order, E.failed)
              good == {k \in DOMAIN E.pts : E.pts[k].id \notin bad}
          IN  /\ \A k \in good : E.pts[k].id \notin DOMAIN pts
              /\ pts' = [i \in DOMAIN pts \cup {E.pts[k].id : k \in good} |->
                           IF i \in DOMAIN pts THEN pts[i]
                           ELSE E.pts[CHOOSE k \in good : E.pts[k].id = i].doc]

\* placement: the reachable shards hold pairwise disjoint id sets whose union is
\* the set of live ids that are not in an unreachable shard
TPlace ==
  /\ IsEvent("CPlace") /\ Env /\ UNCHANGED <<pts, down>>
  /\ LET up == {k \in DOMAIN E.shards : E.shards[k].up = 1}
         idsOf(k) == AsSet(E.shards[k].ids)
     IN  /\ \A j, k \in up : j # k => idsOf(j) \cap idsOf(k) = {}
         /\ \A k \in up : Len(E.shards[k].ids) = Cardinality(idsOf(k))
         /\ LET seen == UNION {idsOf(k) : k \in up}
                hidden == {i \in DOMAIN where : where[i] \in {E.shards[k].shard : k \in DOMAIN E.shards \ up}}
            IN  /\ seen \cup (hidden \cap DOMAIN pts) = DOMAIN pts
                /\ seen \cap hidden = {}
                /\ where' = [i \in seen \cup (hidden \cap DOMAIN pts) |->
                               IF i \in seen THEN E.shards[CHOOSE k \in up : i \in idsOf(k)].shard ELSE where[i]]
         /\ srvOf' = [s \in {E.shards[k].shard : k \in DOMAIN E.shards} |->
                        E.shards[CHOOSE k \in DOMAIN E.shards : E.shards[k].shard = s].server]

TDown == IsEvent("CDown") /\ down' = E.server /\ Env /\ UNCHANGED <<pts, where, srvOf>>

\* failed list of an update / delete: exactly the requested ids no shard processed
\* (an id is listed at most as often as the request named it: once, unless the request repeats it)
FailedOK(reqSeq, requested, processed) ==
  /\ \A i \in requested : Cardinality({k \in DOMAIN E.failed : E.failed[k].id = i}) <= Cardinality({k \in DOMAIN reqSeq : reqSeq[k] = i})
  /\ {E.failed[k].id : k \in DOMAIN E.failed} = requested \ processed
  /\ \A k \in DOMAIN E.failed : E.failed[k].nf = 1 => AllAnswered

RECURSIVE ApplyOn(_, _, _)
ApplyOn(P, b, ok) ==
  IF b = <<>> THEN P
  ELSE LET h == Head(b)
       IN  ApplyOn(IF h.id \in ok THEN [P EXCEPT ![h.id] = Merge(@, h.doc)] ELSE P, Tail(b), ok)

TUpdate ==
  /\ IsEvent("CUpdate") /\ Env /\ UNCHANGED <<where, srvOf, down>>
  /\ E.ok = 1
  /\ LET req == {E.pts[k].id : k \in DOMAIN E.pts}
         proc == {i \in req \cap DOMAIN pts : Reachable(i)}
     IN  /\ FailedOK([k \in DOMAIN E.pts |-> E.pts[k].id], req, proc)
         /\ pts' = ApplyOn(pts, E.pts, proc)

TDelete ==
  /\ IsEvent("CDelete") /\ Env /\ UNCHANGED <<where, srvOf, down>>
  /\ E.ok = 1
  /\ LET req == AsSet(E.ids)
         proc == {i \in req \cap DOMAIN pts : Reachable(i)}
     IN  /\ FailedOK(E.ids, req, proc)
         /\ pts' = [i \in DOMAIN pts \ proc |-> pts[i]]

Obs == UNCHANGED <<pts, where, srvOf, down>> /\ Env

\* a collection of a user whose server is down, created through every live node: a record has one home
\* (the routing function of C13), so the request fails -- or what a node acknowledged can be read back
\* through every node (E.reads: one entry per acknowledged creation and live node)
\* update requests that the shard refuses as a whole (merged point beyond the plan's point size) with an error
\* of the remote handler, while other clients' updates are in flight on the same connections: every one is
\* refused, nothing changes (the reads that follow see the old documents), and the others are not concerned
TNoise == IsEvent("CNoise") /\ Obs /\ E.refused = E.asked

\* the first calls on a fresh connection: a search that reads many points and an update the shards refuse as a
\* whole, at the same moment (RpcMux.tla: a call is completed only by the server's answer to that call).  Every
\* server is up: the search answers, with every stored point exactly once; the refused request is refused.
TMux == IsEvent("CMux") /\ UNCHANGED <<pts, where, srvOf, down>> /\ Env
        /\ E.err = 0 /\ E.found = E.n /\ E.extra = 0 /\ E.dups = 0 /\ E.refused = 1

TCreateDown == IsEvent("CCreateDown") /\ Obs /\ \A k \in DOMAIN E.reads : E.reads[k] = 1

\* a search may fail only if some shard could not answer
TSearchErr == IsEvent("CSearchErr") /\ Obs /\ ~AllAnswered

\* every stored point is found exactly once, with its document
TGet ==
  /\ IsEvent("CGet") /\ Obs
  /\ Len(E.docs) = Cardinality({E.docs[k].id : k \in DOMAIN E.docs})
  /\ {E.docs[k].id : k \in DOMAIN E.docs} = DOMAIN pts
  /\ \A k \in DOMAIN E.docs : E.docs[k].f = Visible(pts[E.docs[k].id])

TFilter ==
  /\ IsEvent("CFilter") /\ Obs
  /\ Len(E.ids) = Cardinality(AsSet(E.ids))
  /\ Len(E.ids) <= E.limit
  /\ AsSet(E.ids) \subseteq EvalQ(S, U, pts, E.q)

TFlat ==
  /\ IsEvent("CFlat") /\ Obs
  /\ LET ids == [k \in DOMAIN E.hits |-> E.hits[k].id]
     IN  /\ NoDup(ids)
         /\ Len(E.hits) <= E.limit
         /\ \A k \in DOMAIN E.hits :
               /\ HasIx(S, pts[E.hits[k].id], E.p)
               /\ E.hits[k].d = PDist(S, U, pts, E.p, E.vec, E.hits[k].id)
               /\ E.hits[k].h4 = 0 - E.w4 * E.hits[k].d
         \* several shards: merged by hybrid score, highest first; a single shard
         \* answers in its own (distance) order
         /\ \A k \in DOMAIN E.hits : k > 1 =>
               IF Cardinality(DOMAIN srvOf) > 1 THEN E.hits[k - 1].h4 >= E.hits[k].h4
               ELSE E.hits[k - 1].d <= E.hits[k].d

\* explicit sort key across shards: missing values last, ties free
KeyLE(a, b, desc) ==
  LET ha == HasIx(S, pts[a], E.p)  hb == HasIx(S, pts[b], E.p)
  IN  IF ~ha THEN ~hb
      ELSE IF ~hb THEN TRUE
      ELSE IF desc = 1 THEN IxOf(S, pts[a], E.p) >= IxOf(S, pts[b], E.p)
           ELSE IxOf(S, pts[a], E.p) <= IxOf(S, pts[b], E.p)
TSort ==
  /\ IsEvent("CSort") /\ Obs
  /\ Len(E.ids) = Cardinality(AsSet(E.ids))
  /\ Len(E.ids) <= E.limit
  /\ AsSet(E.ids) \subseteq EvalQ(S, U, pts, E.q)
  /\ \A k \in DOMAIN E.ids : k > 1 => KeyLE(E.ids[k - 1], E.ids[k], E.desc)

TraceNext == TReset \/ TInsert \/ TPlace \/ TDown \/ TCreateDown \/ TNoise \/ TMux \/ TUpdate \/ TDelete \/ TSearchErr \/ TGet \/ TFilter \/ TFlat \/ TSort
TraceSpec == TraceInit /\ [][TraceNext]_vars

WF == DOMAIN where \subseteq DOMAIN pts \cup DOMAIN where
TraceView == l
TraceAccepted == TLCGet("stats").diameter - 1 = Len(Trace)
ReportKF == (l = Len(Trace) + 1) => PrintT(<<"KF", kf>>)
=============================================================================
