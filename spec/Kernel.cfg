SPECIFICATION Spec
CONSTANTS
  Part = "sched"
  Lens <- LensSmall
  Unroll = 4
  Lanes = 8
  Variant = "real"
  W = 64
  BitLens <- BitLensSmall
  Vals <- Vals3
  Thrs <- Thr1
  Family = "all"
  BitVariant = "real"
INVARIANTS InBounds Progress ExactlyOnce AllLanesOnce SplitRight
PROPERTY Returns
