SPECIFICATION Spec
CONSTANTS Freq = 2
 Count = 2
 MaxNow = 7
 MaxVer = 3
 KeepOldest = FALSE
INVARIANTS TypeOK AtMostCount Spaced Faithful FreshWhenTaken
PROPERTIES NewestKept
CHECK_DEADLOCK FALSE
