-------------------------------- MODULE Sync --------------------------------
(***************************************************************************)
(* Start-up rebalancing (cluster/sync.go, RPCSendShard in rpchandlers.go).  *)
(* After the server list changed every node walks its shard files and sends *)
(* those it no longer owns to their owner, chunk by chunk; the receiver     *)
(* writes chunk 0.. to the file and answers the final (empty) chunk with a  *)
(* checksum; the sender deletes its copy only if the checksum matches,      *)
(* otherwise its synchronisation fails (the node process exits and is       *)
(* restarted later).  Sender or receiver may crash at any chunk.            *)
(*                                                                          *)
(* A file at a node is abstracted to                                        *)
(*    0 = absent, 1..K = a correct prefix of that many chunks,              *)
(*    K = complete, Garbage = bytes that can never match the checksum.      *)
(* TruncateOnFirst = FALSE is the code as pinned: the receiver opens the    *)
(* file in APPEND mode even for chunk 0, so a retry after an interrupted    *)
(* transfer appends to the partial file and produces Garbage for ever.      *)
(* TRUE is the repaired receiver (chunk 0 truncates).                       *)
(***************************************************************************)
EXTENDS Integers, FiniteSets, TLC

CONSTANTS Nodes, Files, K, Owner, Start, MaxCrash, TruncateOnFirst
\* Owner : [Files -> Nodes] designated by routing under the new server list
\* Start : [Files -> Nodes] where each file is before the synchronisation

Garbage == K + 1

VARIABLES file,     \* [Nodes -> [Files -> 0..K+1]]
          pc,       \* [Nodes -> "down" | "idle" | "send" | "failed" | "done"]
          cur,      \* [Nodes -> file being sent (or the empty set marker)]
          nxt,      \* [Nodes -> next chunk index to send, 0..K (K = the final empty chunk)]
          crashes
vars == <<file, pc, cur, nxt, crashes>>
NoFile == "-"

Init ==
  /\ file = [n \in Nodes |-> [f \in Files |-> IF Start[f] = n THEN K ELSE 0]]
  /\ pc = [n \in Nodes |-> "idle"] /\ cur = [n \in Nodes |-> NoFile] /\ nxt = [n \in Nodes |-> 0]
  /\ crashes = 0

Complete(n, f) == file[n][f] = K
ToSend(n) == {f \in Files : file[n][f] # 0 /\ Owner[f] # n}

\* the node's synchronisation picks the next file it holds but does not own
Pick(n) ==
  /\ pc[n] = "idle"
  /\ IF ToSend(n) = {}
     THEN pc' = [pc EXCEPT ![n] = "done"] /\ UNCHANGED <<cur, nxt>>
     ELSE \E f \in ToSend(n) : /\ pc' = [pc EXCEPT ![n] = "send"]
                               /\ cur' = [cur EXCEPT ![n] = f] /\ nxt' = [nxt EXCEPT ![n] = 0]
  /\ UNCHANGED <<file, crashes>>

\* what the receiver's file becomes when chunk c (0-based) of a complete source arrives
Recv(old, c) ==
  IF c = 0 /\ TruncateOnFirst THEN 1
  ELSE IF old = c THEN c + 1          \* exactly the chunks before c are there
  ELSE Garbage

\* a partial source can only send what it has: its checksum is of the partial file;
\* the receiver then holds an identical partial copy (never more than the source)
SendChunk(n) ==
  /\ pc[n] = "send" /\ nxt[n] < K
  /\ LET f == cur[n]  d == Owner[f]  have == file[n][f] IN
       /\ pc[d] # "down"
       /\ IF have = Garbage
          THEN file' = [file EXCEPT ![d][f] = Garbage]
          ELSE IF nxt[n] < have
               THEN file' = [file EXCEPT ![d][f] = Recv(@, nxt[n])]
               ELSE UNCHANGED file           \* nothing left to read: EOF comes next
       /\ nxt' = [nxt EXCEPT ![n] = IF have # Garbage /\ nxt[n] + 1 >= have THEN K ELSE @ + 1]
  /\ UNCHANGED <<pc, cur, crashes>>

\* final empty chunk: checksum of the receiver's file against the sender's;
\* equal => delete the source copy, otherwise the synchronisation fails
Finish(n) ==
  /\ pc[n] = "send" /\ nxt[n] = K
  /\ LET f == cur[n]  d == Owner[f] IN
       /\ pc[d] # "down"
       /\ IF file[d][f] = file[n][f] /\ file[n][f] # Garbage
          THEN /\ file' = [file EXCEPT ![n][f] = 0]
               /\ pc' = [pc EXCEPT ![n] = "idle"]
          ELSE /\ UNCHANGED file
               /\ pc' = [pc EXCEPT ![n] = "failed"]     \* node exits with a fatal error
  /\ cur' = [cur EXCEPT ![n] = NoFile] /\ nxt' = [nxt EXCEPT ![n] = 0]
  /\ UNCHANGED crashes

\* a send to a node that is down fails the sender's synchronisation
SendToDown(n) ==
  /\ pc[n] = "send" /\ pc[Owner[cur[n]]] = "down"
  /\ pc' = [pc EXCEPT ![n] = "failed"] /\ cur' = [cur EXCEPT ![n] = NoFile] /\ nxt' = [nxt EXCEPT ![n] = 0]
  /\ UNCHANGED <<file, crashes>>

Crash(n) ==
  /\ crashes < MaxCrash /\ pc[n] # "down"
  /\ crashes' = crashes + 1
  /\ pc' = [pc EXCEPT ![n] = "down"] /\ cur' = [cur EXCEPT ![n] = NoFile] /\ nxt' = [nxt EXCEPT ![n] = 0]
  /\ UNCHANGED file

\* restart (after a crash or a failed synchronisation): synchronise again
Restart(n) ==
  /\ pc[n] \in {"down", "failed"}
  /\ pc' = [pc EXCEPT ![n] = "idle"]
  /\ UNCHANGED <<file, cur, nxt, crashes>>

\* a node that finished re-runs its synchronisation at its next start
Again(n) ==
  /\ pc[n] = "done" /\ ToSend(n) # {}
  /\ pc' = [pc EXCEPT ![n] = "idle"] /\ UNCHANGED <<file, cur, nxt, crashes>>

Progress(n) == Pick(n) \/ SendChunk(n) \/ Finish(n) \/ SendToDown(n) \/ Restart(n) \/ Again(n)
Next == \E n \in Nodes : Progress(n) \/ Crash(n)
Spec == Init /\ [][Next]_vars /\ \A n \in Nodes : WF_vars(Progress(n))

---------------------------------------------------------------------------
\* every file always has at least one complete copy somewhere
NoLoss == \A f \in Files : \E n \in Nodes : Complete(n, f)
\* a complete source copy disappears only when the owner holds a complete copy
SourceDeletedOnlyAfterVerifiedCopy ==
  [][\A n \in Nodes, f \in Files : (file[n][f] = K /\ file'[n][f] = 0) => file'[Owner[f]][f] = K]_vars
Placed == \A f \in Files : \A n \in Nodes : file[n][f] = (IF n = Owner[f] THEN K ELSE 0)
\* after finitely many crashes the synchronisations complete the move
EventuallyPlaced == <>[]Placed
=============================================================================
