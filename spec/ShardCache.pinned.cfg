SPECIFICATION Spec
CONSTANTS
 Readers = {"r1","r2"}
 Keys = {"k1","k2"}
 MaxVer = 2
 MaxObj = 3
 Defect_SharedBucketHandle = TRUE
 Defect_NoVersionCheck = TRUE
 AllowEvict = TRUE
 Defect_ReaderUnlocked = FALSE
INVARIANTS G_NoClosedBucketRead G_ReaderSnapshotConsistent G_CoherentWhenIdle
CHECK_DEADLOCK FALSE
