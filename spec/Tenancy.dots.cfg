\* user ids may contain '.', but are not '.' or '..' (ids a, aa, a., .a); collection names a, aa, aaa
SPECIFICATION Spec
CONSTANTS
  UserAlpha = {"a", "."}
  UserMaxLen = 2
  AllowDotIds = FALSE
  ColAlpha = {"a"}
  UriSlash = TRUE
  ColMaxLen = 3
  Points = {1}
  MaxCols1 = 1
  MaxCols2 = 2
  MaxPts = 1
  Sids = {s1, s2, s3}
  ScanDelim = TRUE
  DirMode = "usercol"
  QuotaMode = "prefix"
INVARIANTS TypeOK Isolation Conforms DirsDisjoint
SYMMETRY SidPerm
CHECK_DEADLOCK FALSE
