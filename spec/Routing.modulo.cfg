\* negative configuration: hash modulo the number of servers; order independent and well formed,
\* but adding / removing one server moves keys between old servers -> MinimalDisruption must fail
SPECIFICATION Spec
CONSTANTS
  N = 4
  Variant = "modulo"
INVARIANTS TypeOK TopKPrefix OrderIndependent Share MinimalDisruption
CHECK_DEADLOCK FALSE
