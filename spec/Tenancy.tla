------------------------------ MODULE Tenancy ------------------------------
(***************************************************************************)
(* C16, design level: two tenants on one node.                             *)
(*                                                                         *)
(* What is modelled (cluster/rpchandlers.go, cluster/shardmgr.go):         *)
(*   db    the node database bucket "userCollections": a FLAT key space of *)
(*         character strings  user ++ "/" ++ collection ; exact-key get /  *)
(*         put / delete, PREFIX SCANS for list and for the collection      *)
(*         quota of RPCCreateCollection; the stored value carries the      *)
(*         user id, the collection id and the shard id of the collection;  *)
(*   dirs  the shard directories rootDir/userCollections/<user>/<col>/<sid>*)
(*         (filepath.Join: the string is split at "/" and "." / ".."       *)
(*         components are resolved) with the point set each one holds;     *)
(*         deleting a collection removes EVERY directory below             *)
(*         <user>/<col> (os.ReadDir + os.RemoveAll of each entry); a shard *)
(*         whose directory is gone is recreated empty on the next access.  *)
(* Strings are sequences of one-character strings so that prefix pairs and *)
(* user++collection concatenation coincidences are real (ids and names are *)
(* drawn from a tiny alphabet).                                            *)
(*                                                                         *)
(* Two users (every ordered pair of distinct ids) create / delete          *)
(* collections and insert / delete points.  Reads (list, get, search,      *)
(* point counts, the quota count) are not actions: View(u) is everything   *)
(* user u can read in a state, and it is compared in EVERY reachable state.*)
(*                                                                         *)
(*   Isolation  a step of one user leaves View of the other user unchanged *)
(*   Conforms   the flat implementation refines two INDEPENDENT per-user   *)
(*              reference models (ideal): every response of a write and    *)
(*              every readable value equals the one of the user's own      *)
(*              model; in particular the quota counts the user's own       *)
(*              collections only.                                          *)
(*                                                                         *)
(* Assumptions made explicit as switches (each has a negative              *)
(* configuration in which TLC must report the violation):                  *)
(*   user ids contain no "/"          (Tenancy.delim.cfg)                  *)
(*   user ids are not "." or ".."     (Tenancy.dotid.cfg)                  *)
(* and deliberately wrong variants of the code:                            *)
(*   prefix scans without the "/"     (Tenancy.noscandelim.cfg)            *)
(*   shard directory without the user (Tenancy.dirnouser.cfg)              *)
(*   quota counted over all users     (Tenancy.quotaall.cfg)               *)
(***************************************************************************)
EXTENDS Naturals, Sequences, FiniteSets, TLC

CONSTANTS
  UserAlpha,    \* characters of user ids
  UserMaxLen,
  AllowDotIds,  \* FALSE: the ids "." and ".." are excluded (stated assumption)
  ColAlpha,     \* characters of collection names accepted by create (the API demands [a-z0-9])
  ColMaxLen,
  UriSlash,     \* TRUE: URI names with an (escaped) "/" are tried as well
  Points,       \* abstract point ids
  MaxCols1,     \* collection quota of the first user
  MaxCols2,     \* collection quota of the second user
  MaxPts,       \* points per collection
  Sids,         \* shard ids (model values, interchangeable: SYMMETRY SidPerm); bounds the shards in use at a time
  ScanDelim,    \* TRUE: prefix scans use user ++ "/" (the code); FALSE: user only
  DirMode,      \* "usercol" (the code) | "col": shard directory without the user component
  QuotaMode     \* "prefix" (the code) | "all": quota counted over the whole bucket

D == "/"
MaxCols == <<MaxCols1, MaxCols2>>
Strs(A, n) == UNION {[1..k -> A] : k \in 1..n}
Dot == <<".">>
DotDot == <<".", ".">>
UserIds == Strs(UserAlpha, UserMaxLen) \ (IF AllowDotIds THEN {} ELSE {Dot, DotDot})
ColNames == Strs(ColAlpha, ColMaxLen)
\* names usable in a URI: the URI middleware checks the length only, and a path value may carry an escaped "/"
UriNames == ColNames \cup (IF UriSlash THEN {<<x, D, y>> : x \in ColAlpha, y \in ColAlpha} ELSE {})

VARIABLES users, db, dirs, ideal, isoOK, confOK
vars == <<users, db, dirs, ideal, isoOK, confOK>>

IsPrefix(p, s) == Len(p) <= Len(s) /\ SubSeq(s, 1, Len(p)) = p
Key(u, c) == u \o <<D>> \o c

\* ---------------------------------------------------------------------------
\* paths: filepath.Join(root, "userCollections", user, col, sid)
U == <<"userCollections">>
RECURSIVE Split(_)
Split(s) ==
  IF \A i \in 1..Len(s) : s[i] # D THEN <<s>>
  ELSE LET i == CHOOSE j \in 1..Len(s) : s[j] = D /\ \A k \in 1..j - 1 : s[k] # D
       IN  <<SubSeq(s, 1, i - 1)>> \o Split(SubSeq(s, i + 1, Len(s)))
RECURSIVE Norm(_, _)
Norm(acc, rest) ==
  IF rest = <<>> THEN acc
  ELSE LET h == Head(rest)
       IN  IF h = <<>> \/ h = Dot THEN Norm(acc, Tail(rest))
           ELSE IF h = DotDot THEN Norm(IF acc = <<>> THEN acc ELSE SubSeq(acc, 1, Len(acc) - 1), Tail(rest))
           ELSE Norm(Append(acc, h), Tail(rest))
ColDir(rec) == Norm(<<>>, <<U>> \o (IF DirMode = "col" THEN <<>> ELSE Split(rec.user)) \o Split(rec.col))
ShardPath(rec) == [p |-> ColDir(rec), s |-> rec.sid]
PtsIn(dd, rec) == IF ShardPath(rec) \in DOMAIN dd THEN dd[ShardPath(rec)] ELSE {}
\* DeleteCollectionShards: every directory entry of the collection directory is removed recursively
RemoveBelow(dd, P) == [e \in {x \in DOMAIN dd : ~IsPrefix(P, x.p)} |-> dd[e]]

\* ---------------------------------------------------------------------------
\* what a user can read
ScanPrefix(u) == IF ScanDelim THEN u \o <<D>> ELSE u
Scan(b, u) == {k \in DOMAIN b : IsPrefix(ScanPrefix(u), k)}
QuotaCount(b, u) == IF QuotaMode = "all" THEN Cardinality(DOMAIN b) ELSE Cardinality(Scan(b, u))
NotFound == [found |-> FALSE, id |-> <<>>, pts |-> {}]
View(b, dd, u) ==
  [list  |-> {b[k].col : k \in Scan(b, u)},
   n     |-> Cardinality(Scan(b, u)),
   quota |-> QuotaCount(b, u),
   cols  |-> [c \in UriNames |-> IF Key(u, c) \in DOMAIN b
                                 THEN [found |-> TRUE, id |-> b[Key(u, c)].col, pts |-> PtsIn(dd, b[Key(u, c)])]
                                 ELSE NotFound]]
\* the same for the per-user reference model f: collection name -> point set
IdealView(f) ==
  [list  |-> DOMAIN f,
   n     |-> Cardinality(DOMAIN f),
   quota |-> Cardinality(DOMAIN f),
   cols  |-> [c \in UriNames |-> IF c \in DOMAIN f THEN [found |-> TRUE, id |-> c, pts |-> f[c]] ELSE NotFound]]

Drop(f, x) == [y \in DOMAIN f \ {x} |-> f[y]]

\* ---------------------------------------------------------------------------
Init ==
  /\ users \in {p \in UserIds \X UserIds : p[1] # p[2]}
  /\ db = <<>> /\ dirs = <<>>
  /\ ideal = <<<<>>, <<>>>>
  /\ isoOK = TRUE /\ confOK = TRUE

\* bookkeeping common to all steps of user i: the other user's view before and after, response vs reference
Judge(i, resp, iresp) ==
  LET o == users[3 - i]
  IN  /\ isoOK' = (View(db', dirs', o) = View(db, dirs, o))
      /\ confOK' = (resp = iresp)

\* The code names a new shard by a fresh uuid.  Abstraction: any id that no stored collection and no existing
\* directory carries (which one is immaterial: the ids are symmetric); an id is reused only after every trace of it is gone.
UsedSids == {db[k].sid : k \in DOMAIN db} \cup {e.s : e \in DOMAIN dirs}
FreshSid == CHOOSE s \in Sids : s \notin UsedSids
SidPerm == Permutations(Sids)

Create(i, c) ==
  LET u == users[i]
      k == Key(u, c)
      resp == IF k \in DOMAIN db THEN "exists" ELSE IF QuotaCount(db, u) >= MaxCols[i] THEN "quota" ELSE "ok"
      f == ideal[i]
      iresp == IF c \in DOMAIN f THEN "exists" ELSE IF Cardinality(DOMAIN f) >= MaxCols[i] THEN "quota" ELSE "ok"
  IN  /\ resp = "ok" => \E s \in Sids : s \notin UsedSids      \* (bound of the model; refusals are always explored)
      /\ db' = IF resp = "ok" THEN db @@ (k :> [user |-> u, col |-> c, sid |-> FreshSid]) ELSE db
      \* (the directory of the new shard appears with the first access; every observation is one)
      /\ dirs' = IF resp = "ok" THEN (ShardPath([user |-> u, col |-> c, sid |-> FreshSid]) :> {}) @@ dirs ELSE dirs
      /\ ideal' = IF iresp = "ok" THEN [ideal EXCEPT ![i] = f @@ (c :> {})] ELSE ideal
      /\ UNCHANGED users
      /\ Judge(i, resp, iresp)

DelCol(i, c) ==
  LET u == users[i]
      k == Key(u, c)
      found == k \in DOMAIN db
      f == ideal[i]
  IN  /\ db' = IF found THEN Drop(db, k) ELSE db
      /\ dirs' = IF found THEN RemoveBelow(dirs, ColDir(db[k])) ELSE dirs
      /\ ideal' = IF c \in DOMAIN f THEN [ideal EXCEPT ![i] = Drop(f, c)] ELSE ideal
      /\ UNCHANGED users
      /\ Judge(i, IF found THEN "ok" ELSE "notfound", IF c \in DOMAIN f THEN "ok" ELSE "notfound")

\* the point quota is checked on the collection's own shard before anything is written
Ins(i, c, p) ==
  LET u == users[i]
      k == Key(u, c)
      found == k \in DOMAIN db
      cur == PtsIn(dirs, db[k])
      resp == IF ~found THEN "notfound" ELSE IF Cardinality(cur) + 1 > MaxPts THEN "quota" ELSE "ok"
      f == ideal[i]
      iresp == IF c \notin DOMAIN f THEN "notfound" ELSE IF Cardinality(f[c]) + 1 > MaxPts THEN "quota" ELSE "ok"
  IN  /\ dirs' = IF resp = "ok" THEN (ShardPath(db[k]) :> (cur \cup {p})) @@ dirs ELSE dirs
      /\ ideal' = IF iresp = "ok" THEN [ideal EXCEPT ![i] = [f EXCEPT ![c] = @ \cup {p}]] ELSE ideal
      /\ UNCHANGED <<users, db>>
      /\ Judge(i, resp, iresp)

DelPt(i, c, p) ==
  LET u == users[i]
      k == Key(u, c)
      found == k \in DOMAIN db
      cur == PtsIn(dirs, db[k])
      f == ideal[i]
  IN  /\ dirs' = IF found THEN (ShardPath(db[k]) :> (cur \ {p})) @@ dirs ELSE dirs
      /\ ideal' = IF c \in DOMAIN f THEN [ideal EXCEPT ![i] = [f EXCEPT ![c] = @ \ {p}]] ELSE ideal
      /\ UNCHANGED <<users, db>>
      /\ Judge(i, IF found THEN "ok" ELSE "notfound", IF c \in DOMAIN f THEN "ok" ELSE "notfound")

Next ==
  \E i \in 1..2 :
    \/ \E c \in ColNames : Create(i, c)
    \/ \E c \in UriNames : DelCol(i, c)
    \/ \E c \in UriNames, p \in Points : Ins(i, c, p) \/ DelPt(i, c, p)

Spec == Init /\ [][Next]_vars

\* ---------------------------------------------------------------------------
TypeOK ==
  /\ users \in UserIds \X UserIds
  /\ \A k \in DOMAIN db : db[k].sid \in Sids
  /\ \A e \in DOMAIN dirs : dirs[e] \subseteq Points

\* no step of one user changes anything the other user can read
Isolation == isoOK

\* every response and every readable value is the one of the user's own reference model
\* (the quota component says: the quota usage of a user counts that user's collections only)
Conforms ==
  /\ confOK
  /\ \A i \in 1..2 : View(db, dirs, users[i]) = IdealView(ideal[i])

\* shard directories of different collections never coincide and never nest
DirsDisjoint ==
  \A k1, k2 \in DOMAIN db : k1 # k2 =>
     ~IsPrefix(ColDir(db[k1]), ColDir(db[k2]))
=============================================================================
