---------------------------- MODULE RoutingTrace ----------------------------
(***************************************************************************)
(* C13 conformance: TLC validates what the REAL cluster.RendezvousHash      *)
(* returned (driver harness/routed, sub-command `vh routing`).              *)
(*                                                                          *)
(* Trace lines                                                              *)
(*   Universe(u, names)     the server names a scenario draws from; later   *)
(*                          lines name a server by its index in `names`     *)
(*   Scenario(u, n, base, ks, pk, perms, adds, rems, nkeys)                  *)
(*        base   the server list (n distinct universe indices)              *)
(*        ks     the topK values asked for the base list (ks[1] = 1 is what *)
(*               every call site uses, ks[2] = n is the full ranking)       *)
(*        perms  re-arrangements of base, each asked with topK = pk         *)
(*        adds   for EVERY server s outside base a list base + s            *)
(*        rems   for EVERY server s of base the list base - s   (n >= 2)    *)
(*   Key(k, rk, b, p, a, r [, h, q])   one key:                              *)
(*        rk     reference fact from the hash library alone: rank of every  *)
(*               universe server by xxhash(key ++ server), 1 = lowest,      *)
(*               equal scores = equal rank                                  *)
(*        h      (first keys of a scenario) the raw 64-bit scores as three  *)
(*               limbs of 22/21/21 bits: TLC checks the rank abstraction    *)
(*        b[i]   answer of the real function for (base, ks[i])              *)
(*        p[i]   answer for (perms[i], pk)                                  *)
(*        a[i]   owner (the single element of the top-1 answer, 0 if the    *)
(*               answer did not have exactly one known element) for         *)
(*               adds[i].list;  r[i] likewise for rems[i].list              *)
(*        q      (first keys of a scenario) answer of a SECOND PROCESS for   *)
(*               (base, n)                                                  *)
(*   EndScenario(nkeys)     share law over the keys of the scenario         *)
(*   Done                   coverage facts are printed for the orchestrator *)
(*                                                                          *)
(* What is checked per key (the names are printed when a line is refused):  *)
(*   Shape         an answer has min(topK, |list|) distinct servers of the  *)
(*                 list; the answers for the several topK are prefixes of   *)
(*                 the full ranking (topK = n); an owner is a list member   *)
(*   Arrangement   every re-arrangement (the same list again, reversed,     *)
(*                 rotated, shuffled) gets the very same answer             *)
(*   AddLaw        owner over base + s  \in {owner over base, s}            *)
(*   RemoveLaw     owner over base - s = owner over base unless that was s  *)
(*   Peer          (q present) a second operating-system process running    *)
(*                 the same function returns the same full ranking: every   *)
(*                 node computes the same owner                             *)
(*   Share         (EndScenario) with >= ShareMul * n keys every server of  *)
(*                 the list owns at least one key                           *)
(*   ScoreOrder    every answer is THE ascending-score prefix of its list   *)
(*                 under the library's score order rk (the function Route   *)
(*                 of Routing.tla instantiated with rk)                     *)
(* Shape .. Share are judged on the answers alone and are what the property *)
(* states; a line that breaks one of them is refused.  ScoreOrder pins the  *)
(* function to "ascending xxhash(key ++ server)", which is what the code    *)
(* does today but more than the property demands (descending order or       *)
(* another hash would route just as well): a line that breaks ScoreOrder    *)
(* only is accepted and counted in `drift`, which the orchestrator reports  *)
(* as SPEC-DRIFT, not as a violation.                                       *)
(* Arrangement / AddLaw / RemoveLaw are waived for a key with two equal     *)
(* 64-bit scores (none expected: the order of equal scores is not           *)
(* specified); ScoreOrder accepts any order of equal ranks.                 *)
(***************************************************************************)
EXTENDS Integers, Sequences, FiniteSets, TLC, Json

CONSTANTS TraceFile, KnownFindings
Trace == ndJsonDeserialize(TraceFile)

ShareMul == 40   \* P(some server of 16 owns none of 640 keys) < 1e-16 for a uniform hash

VARIABLES l,       \* next line
          univ,    \* universe id -> line of its Universe event
          sl,      \* line of the open Scenario event, 0 = none
          cnt,     \* keys seen in the open scenario
          owners,  \* owners (over base) of the keys seen in the open scenario
          shared,  \* set sizes for which the share law has been evaluated
          sizes,   \* set sizes seen
          tot,     \* keys seen
          peers,   \* keys whose ranking was also asked from the second process
          drift,   \* keys accepted although their answers are not the reference score order
          kf
vars == <<l, univ, sl, cnt, owners, shared, sizes, tot, peers, drift, kf>>

TraceInit ==
  /\ l = 1 /\ univ = <<>> /\ sl = 0 /\ cnt = 0 /\ owners = {} /\ shared = {} /\ sizes = {} /\ tot = 0
  /\ peers = 0 /\ drift = 0 /\ kf = {}

E == Trace[l]
IsEvent(name) == l <= Len(Trace) /\ Trace[l].ev = name /\ l' = l + 1

Range(s) == {s[i] : i \in DOMAIN s}
Min(a, b) == IF a < b THEN a ELSE b
USize(u) == Len(Trace[univ[u]].names)

(***************************************************************************)
(* Inputs: universes and scenarios must be what the header says (a guard   *)
(* on the driver, so that the laws below are not judged on malformed input) *)
(***************************************************************************)
TUniverse ==
  /\ IsEvent("Universe") /\ sl = 0
  /\ E.u = Len(univ) + 1
  /\ Cardinality(Range(E.names)) = Len(E.names)      \* distinct names
  /\ univ' = Append(univ, l)
  /\ UNCHANGED <<sl, cnt, owners, shared, sizes, tot, peers, drift, kf>>

ScenarioOK(sc) ==
  LET m == USize(sc.u)
      n == sc.n
      S == Range(sc.base)
  IN /\ n >= 1 /\ Len(sc.base) = n /\ Cardinality(S) = n /\ S \subseteq 1..m
     /\ Len(sc.ks) >= 2 /\ sc.ks[1] = 1 /\ sc.ks[2] = n /\ \A i \in DOMAIN sc.ks : sc.ks[i] >= 0
     /\ sc.pk \in {1, n}
     /\ \A i \in DOMAIN sc.perms : Len(sc.perms[i]) = n /\ Range(sc.perms[i]) = S
     /\ n >= 2 => \E i \in DOMAIN sc.perms : sc.perms[i] # sc.base
     /\ \E i \in DOMAIN sc.perms : sc.perms[i] = sc.base                 \* the same list again
     /\ {sc.adds[i].s : i \in DOMAIN sc.adds} = (1..m) \ S              \* every single addition
     /\ \A i \in DOMAIN sc.adds :
          Len(sc.adds[i].list) = n + 1 /\ Range(sc.adds[i].list) = S \cup {sc.adds[i].s}
     /\ {sc.rems[i].s : i \in DOMAIN sc.rems} = (IF n >= 2 THEN S ELSE {})   \* every single removal
     /\ \A i \in DOMAIN sc.rems :
          Len(sc.rems[i].list) = n - 1 /\ Range(sc.rems[i].list) = S \ {sc.rems[i].s}

TScenario ==
  /\ IsEvent("Scenario") /\ sl = 0
  /\ E.u \in DOMAIN univ
  /\ ScenarioOK(E)
  /\ sl' = l /\ cnt' = 0 /\ owners' = {}
  /\ sizes' = sizes \cup {E.n}
  /\ UNCHANGED <<univ, shared, tot, peers, drift, kf>>

(***************************************************************************)
(* The oracle.  rk is the key's score order (the `rank` of Routing.tla);    *)
(* r is the ascending-score prefix of length min(K, |T|) of the set T:      *)
(* with a strict order exactly one r qualifies (= Routing!Route).           *)
(***************************************************************************)
IsPrefix(rk, T, K, r) ==
  LET len == Len(r)
      got == {r[i] : i \in 1..len}
  IN /\ len = Min(K, Cardinality(T))
     /\ got \subseteq T
     /\ Cardinality(got) = len
     /\ \A i \in 1..len - 1 : rk[r[i]] <= rk[r[i + 1]]
     /\ len > 0 => \A t \in T \ got : rk[t] >= rk[r[len]]

IsOwner(rk, T, o) == o \in T /\ \A t \in T : rk[t] >= rk[o]

LexLess(x, y) ==
  \/ x[1] < y[1]
  \/ x[1] = y[1] /\ x[2] < y[2]
  \/ x[1] = y[1] /\ x[2] = y[2] /\ x[3] < y[3]

\* the ranks are the order of the raw library scores
LimbsAgree(h, rk, m) ==
  /\ Len(h) = m
  /\ \A i \in 1..m : Len(h[i]) = 3 /\ \A c \in 1..3 : h[i][c] \in 0..4194303
  /\ \A i, j \in 1..m : (rk[i] < rk[j]) <=> LexLess(h[i], h[j])

\* an answer r for (list with server set T, topK K): K-or-all distinct members of T
IsShape(T, K, r) ==
  LET got == Range(r)
  IN Len(r) = Min(K, Cardinality(T)) /\ got \subseteq T /\ Cardinality(got) = Len(r)

\* names of the laws the key line e violates under scenario sc
Failed(sc, e) ==
  LET m == USize(sc.u)
      n == sc.n
      S == Range(sc.base)
      rk == e.rk
      okrk == Len(rk) = m /\ \A j \in 1..m : rk[j] \in 1..m
      strict == Cardinality({rk[j] : j \in 1..m}) = m
      lens == /\ Len(e.b) = Len(sc.ks) /\ Len(e.p) = Len(sc.perms)
              /\ Len(e.a) = Len(sc.adds) /\ Len(e.r) = Len(sc.rems)
      bo == IF Len(e.b[1]) = 1 THEN e.b[1][1] ELSE 0          \* the owner over base
      bfull == e.b[2]                                          \* the full ranking of base
      bpk == e.b[IF sc.pk = 1 THEN 1 ELSE 2]                   \* the base answer for topK = pk
  IN IF ~(okrk /\ lens) THEN {"Malformed"}
     ELSE
       (IF "h" \in DOMAIN e /\ ~LimbsAgree(e.h, rk, m) THEN {"RankAbstraction"} ELSE {})
       \cup
       (IF /\ \A i \in DOMAIN sc.ks :
                /\ IsShape(S, sc.ks[i], e.b[i])
                /\ Len(e.b[i]) <= Len(bfull) /\ e.b[i] = SubSeq(bfull, 1, Len(e.b[i]))   \* top-k = prefix
           /\ \A i \in DOMAIN sc.perms : IsShape(S, sc.pk, e.p[i])
           /\ \A i \in DOMAIN sc.adds : e.a[i] \in S \cup {sc.adds[i].s}
           /\ \A i \in DOMAIN sc.rems : e.r[i] \in S \ {sc.rems[i].s}
        THEN {} ELSE {"Shape"})
       \cup
       (IF strict => \A i \in DOMAIN sc.perms : e.p[i] = bpk THEN {} ELSE {"Arrangement"})
       \cup
       (IF strict => \A i \in DOMAIN sc.adds : e.a[i] \in {bo, sc.adds[i].s} /\ e.a[i] # 0
        THEN {} ELSE {"AddLaw"})
       \cup
       (IF strict => \A i \in DOMAIN sc.rems : (bo # sc.rems[i].s => e.r[i] = bo) /\ e.r[i] # 0
        THEN {} ELSE {"RemoveLaw"})
       \cup
       (IF "q" \in DOMAIN e /\ strict /\ e.q # bfull THEN {"Peer"} ELSE {})
       \cup
       (IF /\ \A i \in DOMAIN sc.ks : IsPrefix(rk, S, sc.ks[i], e.b[i])
           /\ \A i \in DOMAIN sc.perms : IsPrefix(rk, S, sc.pk, e.p[i])
           /\ \A i \in DOMAIN sc.adds : IsOwner(rk, S \cup {sc.adds[i].s}, e.a[i])
           /\ \A i \in DOMAIN sc.rems : IsOwner(rk, S \ {sc.rems[i].s}, e.r[i])
        THEN {} ELSE {"ScoreOrder"})

\* a refused line names the violated laws in TLC's output; a line that only departs from the
\* reference score order is accepted and counted
TKey ==
  /\ IsEvent("Key") /\ sl > 0
  /\ LET f == Failed(Trace[sl], E)
     IN /\ IF f \subseteq {"ScoreOrder"} THEN TRUE ELSE PrintT(<<"REFUSED", l, f>>) /\ FALSE
        /\ drift' = (IF f = {} THEN drift ELSE drift + 1)
        /\ (f # {} /\ drift = 0) => PrintT(<<"DRIFT", l>>)
  /\ cnt' = cnt + 1 /\ tot' = tot + 1
  /\ peers' = (IF "q" \in DOMAIN E THEN peers + 1 ELSE peers)
  /\ owners' = owners \cup {E.b[1][1]}
  /\ UNCHANGED <<univ, sl, shared, sizes, kf>>

\* every server owns a share of a large key set
ShareDue(sc) == cnt >= ShareMul * sc.n
TEndScenario ==
  /\ IsEvent("EndScenario") /\ sl > 0
  /\ E.nkeys = cnt /\ Trace[sl].nkeys = cnt
  /\ ShareDue(Trace[sl]) => owners = Range(Trace[sl].base)
  /\ shared' = (IF ShareDue(Trace[sl]) THEN shared \cup {Trace[sl].n} ELSE shared)
  /\ sl' = 0 /\ cnt' = 0 /\ owners' = {}
  /\ UNCHANGED <<univ, sizes, tot, peers, drift, kf>>

TEndRefused ==
  /\ IsEvent("EndScenario") /\ sl > 0
  /\ ShareDue(Trace[sl]) /\ owners # Range(Trace[sl].base)
  /\ PrintT(<<"REFUSED", l, {"Share"}, Range(Trace[sl].base) \ owners>>)
  /\ FALSE
  /\ UNCHANGED <<univ, sl, cnt, owners, shared, sizes, tot, peers, drift, kf>>

TDone ==
  /\ IsEvent("Done") /\ sl = 0 /\ l = Len(Trace)
  /\ E.keys = tot
  /\ PrintT(<<"COVER", "shared", shared, "sizes", sizes, "keys", tot, "peers", peers, "drift", drift>>)
  /\ UNCHANGED <<univ, sl, cnt, owners, shared, sizes, tot, peers, drift, kf>>

TraceNext == TUniverse \/ TScenario \/ TKey \/ TEndScenario \/ TEndRefused \/ TDone
TraceSpec == TraceInit /\ [][TraceNext]_vars

WF ==
  /\ sl \in 0..Len(Trace) /\ cnt >= 0
  /\ sl > 0 => owners \subseteq Range(Trace[sl].base)

TraceAccepted == TLCGet("stats").diameter - 1 = Len(Trace)
ReportKF == (l = Len(Trace) + 1) => PrintT(<<"KF", kf>>)
=============================================================================
