----------------------------- MODULE ShardCache -----------------------------
(***************************************************************************)
(* bbolt MVCC snapshots x ONE shared index cache (shard/cache/itemcache.go  *)
(* used through cache.Manager by the Vamana / flat indexes).                *)
(*                                                                          *)
(*  ver / hist   committed versions of the storage (hist[v+1] = key -> the   *)
(*               version that wrote it)                                     *)
(*  readers      RBegin takes a snapshot; RAttach* obtains the shared cache *)
(*               object, a new one, or a private cold copy; RGet reads an   *)
(*               item: cache hit or read-through of the INSTALLED bucket    *)
(*  writer       one batch at a time (bbolt); holds the cache until after   *)
(*               the storage commit; WFail scraps it                        *)
(*  Evict        the manager drops the object at any time                   *)
(*                                                                          *)
(* The two behaviours of the pinned code are switches:                      *)
(*  Defect_SharedBucketHandle  every attaching reader installs ITS bucket   *)
(*      handle in the shared object (UpdateBucket), so a read-through may   *)
(*      use the bucket of a reader whose transaction has ended  -> crash    *)
(*  Defect_NoVersionCheck      a reader attaches / creates the shared cache *)
(*      although its snapshot is not the cache's content version, and       *)
(*      inserts what it reads  -> stale cache, readers see other versions   *)
(* One more switch is a change that was seeded into the code (FALSE in the  *)
(* pinned code): Defect_ReaderUnlocked lets the writer attach while readers *)
(* still work on the object (ShardCache.unlocked.cfg: a reader then sees    *)
(* what the open batch has written).                                        *)
(* With both FALSE (per-reader bucket handle, version check) the unguarded  *)
(* invariants hold.  With both TRUE the invariants hold only outside the    *)
(* signatures sigA / sigB of the two known findings C09-a / C09-b.          *)
(***************************************************************************)
EXTENDS Integers, Sequences, FiniteSets, TLC
CONSTANTS Readers, Keys, MaxVer, MaxObj, Defect_SharedBucketHandle, Defect_NoVersionCheck, AllowEvict,
          Defect_ReaderUnlocked    \* a reader does not keep the cache's read lock while it works on the shared object (seeded change C09-F)
Objs == 1..MaxObj
NC == -1          \* not cached
W == "w"
NoTx == "none"
VARIABLES ver, hist,            \* committed storage: hist[v+1] = [Keys -> value] at version v (value = version that wrote it, 0 = initial)
          rst, rsnap, robj, rcold, robs,   \* readers
          wst, wobj, wov,                   \* writer: state, attached object, overlay (uncommitted)
          inMap, nextObj, items, bucketOf, contentVer, creaders, cwriter,
          closedTx, crashed, stale, sigA, sigB
vars == <<ver,hist,rst,rsnap,robj,rcold,robs,wst,wobj,wov,inMap,nextObj,items,bucketOf,contentVer,creaders,cwriter,closedTx,crashed,stale,sigA,sigB>>
Disk == hist[ver + 1]
Snap(tx) == IF tx = W THEN [k \in Keys |-> IF wov[k] # NC THEN wov[k] ELSE Disk[k]] ELSE hist[rsnap[tx] + 1]
Init == /\ ver = 0 /\ hist = << [k \in Keys |-> 0] >>
        /\ rst = [r \in Readers |-> "idle"] /\ rsnap = [r \in Readers |-> 0] /\ robj = [r \in Readers |-> 0]
        /\ rcold = [r \in Readers |-> [k \in Keys |-> NC]] /\ robs = [r \in Readers |-> [k \in Keys |-> NC]]
        /\ wst = "idle" /\ wobj = 0 /\ wov = [k \in Keys |-> NC]
        /\ inMap = 0 /\ nextObj = 1 /\ items = [o \in Objs |-> [k \in Keys |-> NC]]
        /\ bucketOf = [o \in Objs |-> NoTx] /\ contentVer = [o \in Objs |-> 0]
        /\ creaders = [o \in Objs |-> {}] /\ cwriter = [o \in Objs |-> FALSE]
        /\ closedTx = {} /\ crashed = FALSE /\ stale = FALSE /\ sigA = FALSE /\ sigB = FALSE

\* ---------------- readers
RBegin(r) == /\ rst[r] = "idle" /\ rst' = [rst EXCEPT ![r] = "open"] /\ rsnap' = [rsnap EXCEPT ![r] = ver]
             /\ UNCHANGED <<ver,hist,robj,rcold,robs,wst,wobj,wov,inMap,nextObj,items,bucketOf,contentVer,creaders,cwriter,closedTx,crashed,stale,sigA,sigB>>
RAttachNew(r) == /\ rst[r] = "open" /\ inMap = 0 /\ nextObj <= MaxObj /\ (Defect_NoVersionCheck \/ rsnap[r] = ver)
                 /\ sigB' = (sigB \/ rsnap[r] # ver \/ wst # "idle") /\ UNCHANGED sigA
                 /\ inMap' = nextObj /\ nextObj' = nextObj + 1
                 /\ creaders' = [creaders EXCEPT ![nextObj] = {r}] /\ bucketOf' = [bucketOf EXCEPT ![nextObj] = r]
                 /\ contentVer' = [contentVer EXCEPT ![nextObj] = rsnap[r]]
                 /\ robj' = [robj EXCEPT ![r] = nextObj] /\ rst' = [rst EXCEPT ![r] = "shared"]
                 /\ UNCHANGED <<ver,hist,rsnap,rcold,robs,wst,wobj,wov,items,cwriter,closedTx,crashed,stale>>
CanShare(r, o) == ~cwriter[o] /\ (Defect_NoVersionCheck \/ contentVer[o] = rsnap[r])
RAttachShared(r) == /\ rst[r] = "open" /\ inMap # 0 /\ CanShare(r, inMap)
                    /\ sigA' = (sigA \/ creaders[inMap] # {}) /\ sigB' = (sigB \/ contentVer[inMap] # rsnap[r] \/ rsnap[r] # ver)
                    /\ creaders' = [creaders EXCEPT ![inMap] = @ \cup {r}]
                    /\ bucketOf' = IF Defect_SharedBucketHandle \/ creaders[inMap] = {} THEN [bucketOf EXCEPT ![inMap] = r] ELSE bucketOf
                    /\ robj' = [robj EXCEPT ![r] = inMap] /\ rst' = [rst EXCEPT ![r] = "shared"]
                    /\ UNCHANGED <<ver,hist,rsnap,rcold,robs,wst,wobj,wov,inMap,nextObj,items,contentVer,cwriter,closedTx,crashed,stale>>
RAttachCold(r) == /\ rst[r] = "open" /\ ((inMap # 0 /\ ~CanShare(r, inMap)) \/ (inMap = 0 /\ ~Defect_NoVersionCheck /\ rsnap[r] # ver))
                  /\ rst' = [rst EXCEPT ![r] = "cold"]
                  /\ UNCHANGED <<ver,hist,rsnap,robj,rcold,robs,wst,wobj,wov,inMap,nextObj,items,bucketOf,contentVer,creaders,cwriter,closedTx,crashed,stale,sigA,sigB>>
\* read item k: cache hit, or read-through of the INSTALLED bucket (ideal design: the reader's own bucket)
RGetShared(r, k) == LET o == robj[r]
                        b == IF Defect_SharedBucketHandle THEN bucketOf[o] ELSE r IN
    /\ rst[r] = "shared" /\ robs[r][k] = NC
    /\ IF items[o][k] # NC
       THEN /\ robs' = [robs EXCEPT ![r][k] = items[o][k]] /\ UNCHANGED <<items,crashed>>
       ELSE IF b \in closedTx
            THEN /\ crashed' = TRUE /\ UNCHANGED <<items,robs>>
            ELSE /\ items' = [items EXCEPT ![o][k] = Snap(b)[k]]
                 /\ robs' = [robs EXCEPT ![r][k] = Snap(b)[k]] /\ UNCHANGED crashed
    /\ UNCHANGED <<ver,hist,rst,rsnap,robj,rcold,wst,wobj,wov,inMap,nextObj,bucketOf,contentVer,creaders,cwriter,closedTx,stale,sigA,sigB>>
RGetCold(r, k) == /\ rst[r] = "cold" /\ robs[r][k] = NC
                  /\ robs' = [robs EXCEPT ![r][k] = Snap(r)[k]]
                  /\ UNCHANGED <<ver,hist,rst,rsnap,robj,rcold,wst,wobj,wov,inMap,nextObj,items,bucketOf,contentVer,creaders,cwriter,closedTx,crashed,stale,sigA,sigB>>
REnd(r) == /\ rst[r] \in {"shared","cold"}
           /\ IF rst[r] = "shared" THEN creaders' = [creaders EXCEPT ![robj[r]] = @ \ {r}] ELSE UNCHANGED creaders
           /\ rst' = [rst EXCEPT ![r] = "done"] /\ closedTx' = closedTx \cup {r}
           /\ UNCHANGED <<ver,hist,rsnap,robj,rcold,robs,wst,wobj,wov,inMap,nextObj,items,bucketOf,contentVer,cwriter,crashed,stale,sigA,sigB>>

\* ---------------- writer (one batch at a time; bbolt single writer)
WBegin == /\ wst = "idle" /\ ver < MaxVer /\ wst' = "open" /\ wov' = [k \in Keys |-> NC] /\ closedTx' = closedTx \ {W}
          /\ UNCHANGED <<ver,hist,rst,rsnap,robj,rcold,robs,wobj,inMap,nextObj,items,bucketOf,contentVer,creaders,cwriter,crashed,stale,sigA,sigB>>
\* (ideal design: a writer, too, refuses a cache whose content version is not
\* the current one and builds a new one)
WUsable == inMap # 0 /\ (Defect_NoVersionCheck \/ contentVer[inMap] = ver)
WAttach == /\ wst = "open"
           /\ IF ~WUsable
              THEN /\ nextObj <= MaxObj /\ inMap' = nextObj /\ nextObj' = nextObj + 1 /\ wobj' = nextObj
                   /\ cwriter' = [cwriter EXCEPT ![nextObj] = TRUE] /\ bucketOf' = [bucketOf EXCEPT ![nextObj] = W]
                   /\ contentVer' = [contentVer EXCEPT ![nextObj] = ver]
              ELSE /\ (Defect_ReaderUnlocked \/ creaders[inMap] = {}) /\ ~cwriter[inMap] /\ wobj' = inMap
                   /\ cwriter' = [cwriter EXCEPT ![inMap] = TRUE] /\ bucketOf' = [bucketOf EXCEPT ![inMap] = W]
                   /\ UNCHANGED <<inMap,nextObj,contentVer>>
           /\ wst' = "attached"
           /\ UNCHANGED <<ver,hist,rst,rsnap,robj,rcold,robs,wov,items,creaders,closedTx,crashed,stale,sigA,sigB>>
WPut(k) == /\ wst = "attached" /\ wov[k] = NC
           /\ items' = [items EXCEPT ![wobj][k] = ver + 1] /\ wov' = [wov EXCEPT ![k] = ver + 1]   \* put + flush collapsed
           /\ UNCHANGED <<ver,hist,rst,rsnap,robj,rcold,robs,wst,wobj,inMap,nextObj,bucketOf,contentVer,creaders,cwriter,closedTx,crashed,stale,sigA,sigB>>
WCommit == /\ wst = "attached" /\ \E k \in Keys : wov[k] # NC
           /\ hist' = Append(hist, Snap(W)) /\ ver' = ver + 1
           /\ cwriter' = [cwriter EXCEPT ![wobj] = FALSE] /\ contentVer' = [contentVer EXCEPT ![wobj] = ver + 1]
           /\ wst' = "idle" /\ closedTx' = closedTx \cup {W} /\ wov' = [k \in Keys |-> NC]
           /\ UNCHANGED <<rst,rsnap,robj,rcold,robs,wobj,inMap,nextObj,items,bucketOf,creaders,crashed,stale,sigA,sigB>>
WFail == /\ wst = "attached"
         /\ cwriter' = [cwriter EXCEPT ![wobj] = FALSE] /\ inMap' = IF inMap = wobj THEN 0 ELSE inMap   \* scrap + remove
         /\ wst' = "idle" /\ closedTx' = closedTx \cup {W} /\ wov' = [k \in Keys |-> NC]
         /\ UNCHANGED <<ver,hist,rst,rsnap,robj,rcold,robs,wobj,nextObj,items,bucketOf,contentVer,creaders,crashed,stale,sigA,sigB>>
Evict == /\ AllowEvict /\ inMap # 0 /\ inMap' = 0
         /\ UNCHANGED <<ver,hist,rst,rsnap,robj,rcold,robs,wst,wobj,wov,nextObj,items,bucketOf,contentVer,creaders,cwriter,closedTx,crashed,stale,sigA,sigB>>

Next == \/ \E r \in Readers : RBegin(r) \/ RAttachNew(r) \/ RAttachShared(r) \/ RAttachCold(r) \/ REnd(r)
        \/ \E r \in Readers, k \in Keys : RGetShared(r, k) \/ RGetCold(r, k)
        \/ WBegin \/ WAttach \/ WCommit \/ WFail \/ Evict \/ \E k \in Keys : WPut(k)
Spec == Init /\ [][Next]_vars

\* ---------------- properties
NoClosedBucketRead == ~crashed
ReaderSnapshotConsistent == \A r \in Readers, k \in Keys : robs[r][k] # NC => robs[r][k] = hist[rsnap[r] + 1][k]
CoherentWhenIdle == (wst = "idle" /\ inMap # 0 /\ creaders[inMap] = {}) => \A k \in Keys : items[inMap][k] \in {NC, Disk[k]}
\* with version checks a cache created while a writer was open may lag behind the
\* disk after the commit; it must then agree with ITS OWN content version (and
\* is never attached by a reader of another version, see CanShare)
CoherentWithOwnVersion == (inMap # 0 /\ creaders[inMap] = {} /\ ~cwriter[inMap]) =>
                             \A k \in Keys : items[inMap][k] \in {NC, hist[contentVer[inMap] + 1][k]}
\* ---------------- known-finding signatures (history-free approximations usable on logged events)
\* C09-a : two readers attached to one shared object at the same time
SigA == \E r1, r2 \in Readers : r1 # r2 /\ robj[r1] # 0 /\ robj[r1] = robj[r2] /\ rst[r1] \in {"shared","done"} /\ rst[r2] \in {"shared","done"}
\* C09-b : a reader attached a shared object whose content version differs from its snapshot
SigB == \E r \in Readers : rst[r] \in {"shared","done"} /\ robj[r] # 0 /\ (contentVer[robj[r]] # rsnap[r])
G_NoClosedBucketRead == sigA \/ sigB \/ NoClosedBucketRead
G_ReaderSnapshotConsistent == sigB \/ sigA \/ ReaderSnapshotConsistent
G_CoherentWhenIdle == sigB \/ sigA \/ CoherentWhenIdle
=============================================================================
