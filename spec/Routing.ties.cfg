\* negative configuration: coarse (colliding) scores, ties keep list order -> OrderIndependent must fail
SPECIFICATION Spec
CONSTANTS
  N = 4
  Variant = "ties"
INVARIANTS TypeOK TopKPrefix OrderIndependent
CHECK_DEADLOCK FALSE
