SPECIFICATION Spec
CONSTANTS
 NFull = 2
 NPage = 2
 Variant = "offset_after_limit"
INVARIANTS ImplAccepted
CHECK_DEADLOCK FALSE
