SPECIFICATION Spec
CONSTANTS
  Server = "ideal"
  CatalogueFile = "catalogue.ndjson"
INVARIANTS Judged RejectUnchanged NoServerError
CHECK_DEADLOCK FALSE
