SPECIFICATION Spec
CONSTANTS Retries = 2
 MaxCrashes = 0
 CountShutdown = FALSE
INVARIANTS AtMostOnce
CHECK_DEADLOCK FALSE
