--------------------------- MODULE KeyCodecTrace ---------------------------
(***************************************************************************)
(* C19 conformance: TLC judges the facts logged by `vh codec` while it     *)
(* calls the REAL encoders / decoders / key builders / bucket scans of     *)
(* semadb on model values lifted to the real width.                        *)
(*                                                                         *)
(* All words are logged as big-endian byte lists ("patterns", radix 256),  *)
(* keys and encodings as the byte lists the real code returned.  The       *)
(* numeric meaning of a 64-bit pattern cannot be formed in TLC; the order  *)
(* of two patterns is decided by IntRel / UintRel / FloatRel of            *)
(* KeyCodecOps.tla, which KeyCodec.tla proves equal to the arithmetic      *)
(* order on every small width, and is cross-checked here against the       *)
(* relation Go's own comparison operators gave (vrel).                     *)
(*                                                                         *)
(* A line is accepted only if it satisfies what the PROPERTY demands:      *)
(*   Batch    round trip (floats up to ==), and for every pair in the      *)
(*            batch: bytes.Compare of the real keys = numeric relation of   *)
(*            the values (so equal keys <=> equal values)                  *)
(*   Fill / Range / Prefix   a scan over a bucket holding real keys visits *)
(*            exactly the stored values in the range / with the prefix,    *)
(*            each once, and every visited key decodes to its value        *)
(*   Fixed    node / point keys: equal keys <=> equal (kind, id, suffix);  *)
(*            NodeIdFromKey returns the id for the right suffix and        *)
(*            refuses every other key                                      *)
(*   Words    vector / edge list / uint64 / float32 encodings decode to    *)
(*            the same bit patterns                                        *)
(*   TextKeys the text index stores one key per distinct term, one per     *)
(*            document and one counter: no two objects share a key         *)
(* Whether the real bytes are the ones the transcribed algorithm of        *)
(* KeyCodecOps produces at width 64 is NOT part of the verdict (another    *)
(* correct codec would be fine); disagreements are counted in `drift` and  *)
(* reported, because the lifting argument rests on that agreement.         *)
(***************************************************************************)
EXTENDS KeyCodecOps, TLC, Json

CONSTANTS TraceFile, KnownFindings
Trace == ndJsonDeserialize(TraceFile)

VARIABLES l,        \* next line
          tab,      \* contents of the bucket filled last: sequence of [p, k, ok]
          knd,      \* its kind
          kf,       \* known findings matched
          drift     \* number of encodings that differ from the width-64 instance of the model
vars == <<l, tab, knd, kf, drift>>

TraceInit == l = 1 /\ tab = <<>> /\ knd = "none" /\ kf = {} /\ drift = 0

E == Trace[l]
IsEvent(name) == l <= Len(Trace) /\ Trace[l].ev = name /\ l' = l + 1

K8 == 8          \* bits per byte
EB64 == 11       \* exponent bits of a float64
V == "ok"        \* the model instance is the code as it is

NumKinds == {"i64", "u64", "f64"}
Kinds == NumKinds \cup {"str"}

\* the model's key for a value pattern
ModelKey(kind, pat) ==
  CASE kind = "i64" -> EncInt(pat, K8, V)
    [] kind = "u64" -> EncUint(pat, K8, V)
    [] kind = "f64" -> EncFloat(pat, K8, EB64, V)
    [] kind = "str" -> pat
\* numeric relation of two values, from their patterns
ModelRel(kind, pa, pb) ==
  CASE kind = "i64" -> IntRel(pa, pb, K8)
    [] kind = "u64" -> UintRel(pa, pb)
    [] kind = "f64" -> FloatRel(pa, pb, K8)
    [] kind = "str" -> LexRel(pa, pb)
\* value equality (Go's ==)
SameVal(kind, pa, pb) == IF kind = "f64" THEN FloatEq(pa, pb, K8) ELSE pa = pb
Legal(kind, pat) ==
  /\ \A i \in 1..Len(pat) : pat[i] \in 0..255
  /\ kind \in NumKinds => Len(pat) = 8
  /\ kind = "f64" => ~IsNaN(pat, K8, EB64)

DriftCount(kind, vals) == Cardinality({i \in 1..Len(vals) : vals[i].k # ModelKey(kind, vals[i].p)})

(* ---------------- Batch: round trip and pairwise order ----------------- *)
BatchOK(kind, vals, vrel, krel) ==
  LET n == Len(vals) IN
  /\ kind \in Kinds /\ n >= 1
  /\ \A i \in 1..n :
       /\ Legal(kind, vals[i].p)
       /\ vals[i].e = 0 /\ vals[i].de = 0
       /\ SameVal(kind, vals[i].d, vals[i].p)
       /\ kind = "f64" => ~IsNaN(vals[i].d, K8, EB64)
  /\ Len(vrel) = n - 1 /\ Len(krel) = n - 1
  /\ \A i \in 1..(n - 1) :
       /\ Len(vrel[i]) = n - i /\ Len(krel[i]) = n - i
       /\ \A j \in (i + 1)..n :
            LET kr == LexRel(vals[i].k, vals[j].k)
                vr == ModelRel(kind, vals[i].p, vals[j].p)
            IN /\ krel[i][j - i] = kr      \* the logged byte relation is the relation of the logged keys
               /\ vrel[i][j - i] = vr      \* Go's own comparison agrees with the model's reading of the patterns
               /\ kr = vr                  \* key order = value order (C19)

TBatch ==
  /\ IsEvent("Batch")
  /\ BatchOK(E.kind, E.vals, E.vrel, E.krel)
  /\ drift' = drift + DriftCount(E.kind, E.vals)
  /\ UNCHANGED <<tab, knd, kf>>

(* ---------------- buckets: fill, range scan, prefix scan --------------- *)
\* bbolt refuses the empty key (known finding `emptykey`): only that entry may be missing
FillOK(ent) ==
  \/ ent.ok = 1
  \/ ent.ok = 0 /\ Len(ent.k) = 0 /\ E.be = "file" /\ "emptykey" \in KnownFindings

TFill ==
  /\ IsEvent("Fill")
  /\ E.kind \in Kinds /\ E.be \in {"mem", "file"}
  /\ \A i \in 1..Len(E.vals) : Legal(E.kind, E.vals[i].p) /\ FillOK(E.vals[i])
  /\ tab' = E.vals /\ knd' = E.kind
  /\ kf' = kf \cup (IF \E i \in 1..Len(E.vals) : E.vals[i].ok = 0 THEN {"emptykey"} ELSE {})
  /\ drift' = drift + DriftCount(E.kind, E.vals)

Stored == {i \in 1..Len(tab) : tab[i].ok = 1}

\* lo / hi: <<>> (open) or <<[p, k]>>
InRange(pat, lo, hi, incl) ==
  /\ Len(lo) = 1 => (IF incl = 1 THEN ModelRel(knd, pat, lo[1].p) >= 0 ELSE ModelRel(knd, pat, lo[1].p) > 0)
  /\ Len(hi) = 1 => (IF incl = 1 THEN ModelRel(knd, pat, hi[1].p) <= 0 ELSE ModelRel(knd, pat, hi[1].p) < 0)

\* got = keys in the order visited, dec = what fromByteSortable made of each
ScanOK(want, got, dec) ==
  LET wantKeys == {tab[i].k : i \in want}
  IN /\ Len(dec) = Len(got)
     /\ Range(got) = wantKeys
     /\ Len(got) = Cardinality(wantKeys)
     /\ \A j \in 1..Len(got) : \E i \in want : tab[i].k = got[j] /\ SameVal(knd, dec[j], tab[i].p)

TRange ==
  /\ IsEvent("Range")
  /\ E.err = 0 /\ E.incl \in {0, 1} /\ Len(E.lo) <= 1 /\ Len(E.hi) <= 1
  /\ \A i \in 1..Len(E.lo) : Legal(knd, E.lo[i].p)
  /\ \A i \in 1..Len(E.hi) : Legal(knd, E.hi[i].p)
  /\ ScanOK({i \in Stored : InRange(tab[i].p, E.lo, E.hi, E.incl)}, E.got, E.dec)
  /\ drift' = drift + DriftCount(knd, E.lo) + DriftCount(knd, E.hi)
  /\ UNCHANGED <<tab, knd, kf>>

TPrefix ==
  /\ IsEvent("Prefix")
  /\ E.err = 0 /\ knd = "str"
  /\ ScanOK({i \in Stored : IsPrefix(E.q.p, tab[i].p)}, E.got, E.dec)
  /\ drift' = drift + DriftCount(knd, <<E.q>>)
  /\ UNCHANGED <<tab, knd, kf>>

(* ---------------- node / point keys ------------------------------------ *)
CharN == 110
CharP == 112
CharT == 116
CharS == 115
CharD == 100
NumDocsKey == <<95, 110, 117, 109, 68, 111, 99, 117, 109, 101, 110, 116, 115>>   \* "_numDocuments"

FixedModelKey(o) == IF o.t = "node" THEN NodeKey(CharN, o.id, o.s) ELSE PointKey(CharP, o.id, o.s)

FixedOK(objs) ==
  /\ \A i \in 1..Len(objs) :
       LET o == objs[i] IN
       /\ o.t \in {"node", "point"} /\ Len(o.id) = (IF o.t = "node" THEN 8 ELSE 16) /\ o.s \in 0..255
       \* NodeIdFromKey(key, suffix) for several suffixes, the own one among them
       /\ o.t = "node" => \E q \in 1..Len(o.probes) : o.probes[q].s = o.s
       /\ \A q \in 1..Len(o.probes) :
            LET pr == o.probes[q]
            IN /\ (pr.ok = 1) <=> (o.t = "node" /\ pr.s = o.s)
               /\ pr.ok = 1 => pr.id = o.id
  /\ \A i, j \in 1..Len(objs) :
       (objs[i].k = objs[j].k) <=> (objs[i].t = objs[j].t /\ objs[i].id = objs[j].id /\ objs[i].s = objs[j].s)

TFixed ==
  /\ IsEvent("Fixed")
  /\ FixedOK(E.objs)
  /\ drift' = drift + Cardinality({i \in 1..Len(E.objs) : E.objs[i].k # FixedModelKey(E.objs[i])})
  /\ UNCHANGED <<tab, knd, kf>>

(* ---------------- value layouts: vectors, edge lists, uint64, float32 -- *)
\* in / out: big-endian bytes of the words, flat; bytes: what the encoder returned
TWords ==
  /\ IsEvent("Words")
  /\ E.w \in {4, 8} /\ Len(E.inp) = E.n * E.w /\ E.n >= 1
  /\ E.outp = E.inp
  /\ drift' = drift + (IF E.bytes = LEFlat(E.inp, E.w) THEN 0 ELSE 1)
  /\ UNCHANGED <<tab, knd, kf>>

(* ---------------- text index keys (termKey / documentKey are unexported) *)
TTextKeys ==
  /\ IsEvent("TextKeys")
  /\ LET terms == UNION {Range(E.docs[i].terms) : i \in 1..Len(E.docs)}
         ids == {E.docs[i].id : i \in {x \in 1..Len(E.docs) : Len(E.docs[x].terms) > 0}}
         model == {NumDocsKey} \cup {TermKey(CharT, CharS, w) : w \in terms} \cup {DocKey(CharD, i) : i \in ids}
     IN /\ Cardinality(Range(E.keys)) = Len(E.keys)
        /\ Len(E.keys) = 1 + Cardinality(terms) + Cardinality(ids)
        /\ drift' = drift + (IF Range(E.keys) = model THEN 0 ELSE 1)
  /\ UNCHANGED <<tab, knd, kf>>

TNote == IsEvent("Note") /\ UNCHANGED <<tab, knd, kf, drift>>

TraceNext == TBatch \/ TFill \/ TRange \/ TPrefix \/ TFixed \/ TWords \/ TTextKeys \/ TNote
TraceSpec == TraceInit /\ [][TraceNext]_vars

WF == drift >= 0
TraceAccepted == TLCGet("stats").diameter - 1 = Len(Trace)
ReportKF == (l = Len(Trace) + 1) => PrintT(<<"KF", kf>>) /\ PrintT(<<"DRIFT", drift>>)
=============================================================================
