------------------------------- MODULE Routing -------------------------------
(***************************************************************************)
(* C13: routing by rendezvous (highest-random-weight) hashing.              *)
(*                                                                          *)
(* cluster.RendezvousHash(key, servers, topK) gives every server of the     *)
(* list the score hash(key ++ server), sorts by ascending score and         *)
(* returns the first min(topK, n) servers; every call site takes element 1  *)
(* (the owner) of the top-1 list over the node's configured server list.    *)
(*                                                                          *)
(* The model fixes ONE key.  What the hash function contributes for one key *)
(* is a score per server name; for a good hash every strict order of the    *)
(* servers occurs for some key, so the model lets `rank` be an ARBITRARY     *)
(* strict order (a bijection Servers -> 1..N) and TLC enumerates all of      *)
(* them.  `list` is the server list of one node: an arbitrary arrangement   *)
(* of an arbitrary non-empty subset.  The actions permute the list, add one *)
(* server at any position and remove one server; the laws of the property   *)
(* are invariants quantified over every such step.                          *)
(*                                                                          *)
(* Variant selects the scoring rule:                                        *)
(*   "hrw"        score = rank[server]           (the design; all laws hold) *)
(*   "positional" score = rank[server] + 2*index (the position in the list  *)
(*                leaks into the score)          -> order dependence         *)
(*   "ties"       score = rank[server] \div 2, equal scores keep list order *)
(*                (a coarse hash + stable sort)  -> order dependence         *)
(*   "modulo"     owner = h-th server (mod n) of the name-sorted list       *)
(*                (classic mod-N placement: order independent, but NOT      *)
(*                minimally disruptive)          -> disruption laws fail     *)
(* The last three are the negative configurations (self-test against        *)
(* vacuity of the invariants).                                              *)
(***************************************************************************)
EXTENDS Integers, Sequences, FiniteSets, TLC

CONSTANTS N,        \* servers are 1..N (the number doubles as the name order)
          Variant   \* "hrw" | "positional" | "ties" | "modulo"

Servers == 1..N
Range(s) == {s[i] : i \in DOMAIN s}
Min(a, b) == IF a < b THEN a ELSE b

Bijections == {f \in [Servers -> 1..N] : \A a, b \in Servers : a # b => f[a] # f[b]}
Identity == [s \in Servers |-> s]
HMax == 59   \* residues of 0..59 modulo 1..5 cover every combination (lcm = 60)

VARIABLES rank,   \* the key's strict score order over all server names
          h,      \* the key's plain hash (variant "modulo" only)
          list    \* the server list of the node, no duplicates
vars == <<rank, h, list>>

(***************************************************************************)
(* The function, as the code computes it: score every list element, sort   *)
(* ascending by (score, position) -- a sort that is stable on equal scores, *)
(* with strict scores the tie-break is never consulted -- cut at topK.      *)
(***************************************************************************)
NameIdx(s, S) == Cardinality({t \in S : t < s})          \* 0-based index in the name-sorted set

Score(rk, hh, ls, i) ==
  CASE Variant = "hrw"        -> rk[ls[i]]
    [] Variant = "positional" -> rk[ls[i]] + 2 * i
    [] Variant = "ties"       -> rk[ls[i]] \div 2
    [] Variant = "modulo"     -> (NameIdx(ls[i], Range(ls)) + Len(ls) - (hh % Len(ls))) % Len(ls)

Ranking(rk, hh, ls) ==
  LET n == Len(ls)
      sc == [i \in 1..n |-> Score(rk, hh, ls, i)]
      Less(i, j) == sc[i] < sc[j] \/ (sc[i] = sc[j] /\ i < j)
      Before(i) == Cardinality({j \in 1..n : Less(j, i)})
  IN [p \in 1..n |-> ls[CHOOSE i \in 1..n : Before(i) = p - 1]]

Route(rk, hh, ls, topK) == SubSeq(Ranking(rk, hh, ls), 1, Min(topK, Len(ls)))
\* element 1 of the top-1 list, computed directly (TopKPrefix states that it is Route(..., 1)[1])
Owner(rk, hh, ls) ==
  LET n == Len(ls)
      sc == [i \in 1..n |-> Score(rk, hh, ls, i)]
  IN ls[CHOOSE i \in 1..n : \A j \in 1..n : sc[i] < sc[j] \/ (sc[i] = sc[j] /\ i <= j)]

R(ls, k) == Route(rank, h, ls, k)
O(ls) == Owner(rank, h, ls)

(***************************************************************************)
(* List surgery                                                             *)
(***************************************************************************)
InsertAt(ls, p, s) == SubSeq(ls, 1, p - 1) \o <<s>> \o SubSeq(ls, p, Len(ls))
RemoveAt(ls, p) == SubSeq(ls, 1, p - 1) \o SubSeq(ls, p + 1, Len(ls))
Swap(ls, p, q) == [i \in 1..Len(ls) |-> IF i = p THEN ls[q] ELSE IF i = q THEN ls[p] ELSE ls[i]]
\* the canonical arrangement of a set: ascending names
Canon(S) == LET n == Cardinality(S) IN [p \in 1..n |-> CHOOSE s \in S : NameIdx(s, S) = p - 1]

(***************************************************************************)
(* Behaviour: every (rank, list) pair is reachable.                         *)
(***************************************************************************)
Init ==
  /\ rank \in (IF Variant = "modulo" THEN {Identity} ELSE Bijections)
  /\ h \in (IF Variant = "modulo" THEN 0..HMax ELSE {0})
  /\ \E s \in Servers : list = <<s>>

Add == \E s \in Servers \ Range(list), p \in 1..Len(list) + 1 : list' = InsertAt(list, p, s)
Remove == Len(list) >= 2 /\ \E p \in 1..Len(list) : list' = RemoveAt(list, p)
Permute == \E p \in 1..Len(list) - 1 : list' = Swap(list, p, p + 1)   \* adjacent swaps generate every arrangement

Next == (Add \/ Remove \/ Permute) /\ UNCHANGED <<rank, h>>
Spec == Init /\ [][Next]_vars

(***************************************************************************)
(* The laws                                                                 *)
(***************************************************************************)
TypeOK ==
  /\ Len(list) \in 1..N /\ Range(list) \subseteq Servers
  /\ Cardinality(Range(list)) = Len(list)

\* the result is a list of distinct members of the list, of length min(topK, n), for
\* every topK including 0 and values beyond the list; top-k = prefix of the full ranking
TopKPrefix ==
  LET n == Len(list)
      full == R(list, n)
  IN /\ Len(full) = n /\ Range(full) = Range(list)
     /\ \A k \in 0..N + 2 : R(list, k) = SubSeq(full, 1, Min(k, n))
     /\ O(list) = full[1] /\ <<O(list)>> = R(list, 1)

\* the full ranking (hence the owner and every top-k) depends on the SET only: every
\* arrangement of the set is a reachable state and is compared with the canonical one
OrderIndependent == R(list, Len(list)) = R(Canon(Range(list)), Len(list))

\* one server joins (at any position): a key either stays or moves to the new server
AddLaw ==
  \A s \in Servers \ Range(list), p \in 1..Len(list) + 1 :
    O(InsertAt(list, p, s)) \in {O(list), s}

\* one server leaves: only the keys it owned move
RemoveLaw ==
  Len(list) >= 2 =>
    \A p \in 1..Len(list) :
      O(list) # list[p] => O(RemoveAt(list, p)) = O(list)

MinimalDisruption == AddLaw /\ RemoveLaw

\* the same laws as properties of the steps actually taken
StepLaw ==
  [][LET old == O(list)
         new == O(list')
         S == Range(list)
         T == Range(list')
     IN /\ T = S => new = old
        /\ S \subseteq T => new \in {old} \cup (T \ S)
        /\ T \subseteq S => (old \in T => new = old)]_vars

\* every server of the list is the owner for some key (some score order); evaluated once
\* per list (in the states of the identity order) to keep the run short
Share ==
  rank = Identity =>
    \A s \in Range(list) :
      \E rk \in (IF Variant = "modulo" THEN {Identity} ELSE Bijections),
         hh \in (IF Variant = "modulo" THEN 0..HMax ELSE {0}) : Owner(rk, hh, list) = s
=============================================================================
