SPECIFICATION Spec
CONSTANTS TFirst = FALSE
 OtherIs = "reader"
INVARIANTS MutexOK NoDeadlock
PROPERTY Finishes
CHECK_DEADLOCK FALSE
