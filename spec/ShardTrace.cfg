SPECIFICATION TraceSpec
CONSTANTS TraceFile = "trace.ndjson"
 KnownFindings = {"emptykey"}
INVARIANT WF
CONSTRAINT ReportKF
POSTCONDITION TraceAccepted
CHECK_DEADLOCK FALSE
