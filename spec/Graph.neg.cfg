SPECIFICATION Spec
CONSTANTS MaxId = 4
 R = 2
 Slack = 1
 SplitBack = FALSE
INVARIANTS TypeOK AtRest BoundAlways SearchSafe
CHECK_DEADLOCK FALSE
