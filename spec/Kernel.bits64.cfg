SPECIFICATION Spec
CONSTANTS
  Part = "bits"
  Lens <- LensSmall
  Unroll = 4
  Lanes = 8
  Variant = "real"
  W = 64
  BitLens <- BitLens64
  Vals <- Vals2
  Thrs <- Thr0
  Family = "hot"
  BitVariant = "real"
INVARIANTS WordCount BitPlace PaddingZero HammingDef JaccardDef BitSymmetry
PROPERTY Returns
