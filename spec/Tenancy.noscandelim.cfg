\* NEGATIVE: list / quota scan with the prefix user (without '/'): user a sees and counts the collections of user ab -> Isolation must fail
SPECIFICATION Spec
CONSTANTS
  UserAlpha = {"a", "b"}
  UserMaxLen = 2
  AllowDotIds = FALSE
  ColAlpha = {"a", "b"}
  UriSlash = FALSE
  ColMaxLen = 2
  Points = {1}
  MaxCols1 = 1
  MaxCols2 = 2
  MaxPts = 1
  Sids = {s1, s2, s3}
  ScanDelim = FALSE
  DirMode = "usercol"
  QuotaMode = "prefix"
INVARIANTS TypeOK Isolation
SYMMETRY SidPerm
CHECK_DEADLOCK FALSE
