------------------------------- MODULE Shard -------------------------------
(***************************************************************************)
(* Abstract shard (shard/shard.go, pointstore, idcounter.go).              *)
(*                                                                         *)
(* State: pts (id -> document), nodeOf (id -> internal node id), free      *)
(* (persisted free list, as a set), next (next fresh node id), count (the  *)
(* separately persisted point counter).  Every write batch is ONE action:  *)
(* it is one db.Write closure, atomic at the storage commit.  The node-id  *)
(* allocation is a parameter of the actions (N, F, X = the new nodeOf,     *)
(* free, next) constrained only by AllocOK, so that any correct allocator  *)
(* is admitted; the design-level Next instantiates it with the pinned      *)
(* policy (pop any free id, else next++), trace validation instantiates it *)
(* with the projection logged from the real shard.                         *)
(***************************************************************************)
EXTENDS Docs

VARIABLES pts, nodeOf, free, next, count
shardVars == <<pts, nodeOf, free, next, count>>

ShardInit ==
  /\ pts = <<>>          \* the empty function
  /\ nodeOf = <<>>
  /\ free = {}
  /\ next = 2            \* 0 = nil, 1 = graph entry node
  /\ count = 0

---------------------------------------------------------------------------
(* Well-formedness of the id bookkeeping (C01 / C10, id half)             *)

\* (injectivity is stated through cardinalities: linear instead of quadratic
\* for TLC, which matters when traces with thousands of points are validated)
Injective(f) == Cardinality({f[i] : i \in DOMAIN f}) = Cardinality(DOMAIN f)
Bijection ==
  /\ DOMAIN nodeOf = DOMAIN pts
  /\ Injective(nodeOf)
FreeDisjointLive == \A i \in DOMAIN nodeOf : nodeOf[i] \notin free
NextBoundsAll ==
  /\ \A i \in DOMAIN nodeOf : nodeOf[i] >= 2 /\ nodeOf[i] < next
  /\ \A n \in free : n >= 2 /\ n < next
CountIsCard == count = Cardinality(DOMAIN pts)
ShardWF == Bijection /\ FreeDisjointLive /\ NextBoundsAll /\ CountIsCard

\* what a new allocation (N, F, X) must satisfy given the new live set D:
\* surviving points keep their node, ids are unique, never live and free
AllocOK(N, F, X, D) ==
  /\ DOMAIN N = D
  /\ \A i \in D \cap DOMAIN nodeOf : N[i] = nodeOf[i]
  /\ Injective(N)
  /\ \A i \in D : N[i] >= 2 /\ N[i] < X /\ N[i] \notin F
  /\ \A n \in F : n >= 2 /\ n < X
  /\ X >= next

---------------------------------------------------------------------------
(* Batches: sequences of [id, doc]                                        *)

BIds(b) == {b[k].id : k \in DOMAIN b}
DocIn(b, i) == b[CHOOSE k \in DOMAIN b : b[k].id = i].doc

\* a field whose value has the wrong type for the index declared on it
BadDoc(doc) == \E f \in DOMAIN doc : doc[f].bad = 1

InsertValid(b) ==
  /\ Cardinality(BIds(b)) = Len(b)    \* no id twice (linear; TLC unfolds a quantifier in an action recursively)
  /\ BIds(b) \cap DOMAIN pts = {}
  /\ \A k \in DOMAIN b : ~BadDoc(b[k].doc)

\* sequential application of an update batch, unknown ids skipped
RECURSIVE ApplyUpd(_, _)
ApplyUpd(P, b) ==
  IF b = <<>> THEN P
  ELSE LET h == Head(b)
       IN  ApplyUpd(IF h.id \in DOMAIN P THEN [P EXCEPT ![h.id] = Merge(@, h.doc)] ELSE P,
                    Tail(b))

\* the update is rejected as a whole: some merged document (at the moment it
\* is merged) exceeds the limit, or a processed point carries a wrong-typed field
RECURSIVE UpdOversize(_, _, _)
UpdOversize(P, b, Limit) ==
  IF b = <<>> THEN FALSE
  ELSE LET h == Head(b)
       IN  IF h.id \in DOMAIN P
           THEN \/ DocWeight(Merge(P[h.id], h.doc)) > Limit
                \/ BadDoc(h.doc)
                \/ UpdOversize([P EXCEPT ![h.id] = Merge(@, h.doc)], Tail(b), Limit)
           ELSE UpdOversize(P, Tail(b), Limit)

UpdatedIds(b) == BIds(b) \cap DOMAIN pts

---------------------------------------------------------------------------
(* Actions                                                                *)

InsertBatch(b, N, F, X) ==
  /\ InsertValid(b)
  /\ pts' = [i \in DOMAIN pts \cup BIds(b) |-> IF i \in DOMAIN pts THEN pts[i] ELSE DocIn(b, i)]
  /\ AllocOK(N, F, X, DOMAIN pts \cup BIds(b))
  /\ nodeOf' = N /\ free' = F /\ next' = X
  /\ count' = count + Len(b)

UpdateBatch(b, Limit) ==
  /\ ~UpdOversize(pts, b, Limit)
  /\ pts' = ApplyUpd(pts, b)
  /\ UNCHANGED <<nodeOf, free, next, count>>

DeleteBatch(ids, N, F, X) ==
  LET D == DOMAIN pts \ ids
  IN  /\ pts' = [i \in D |-> pts[i]]
      /\ AllocOK(N, F, X, D)
      /\ nodeOf' = N /\ free' = F /\ next' = X
      /\ count' = count - Cardinality(ids \cap DOMAIN pts)

\* rejected / failed / crashed-before-commit batch, reopen, eviction, search
FailBatch == UNCHANGED shardVars
Quiet     == UNCHANGED shardVars

=============================================================================
