SPECIFICATION Spec
CONSTANTS
 NFull = 2
 NPage = 2
 Variant = "assign"
INVARIANTS ImplAccepted
CHECK_DEADLOCK FALSE
