-------------------------------- MODULE Rpc --------------------------------
(***************************************************************************)
(* One call of cluster.internalRoute (cluster/rpc.go): the retry loop over *)
(* a cached connection to one destination, with the destination crashing   *)
(* and restarting at any moment.                                           *)
(*                                                                         *)
(*   for i := 0; i < Retries; i++ {                                        *)
(*     client := cache or dial            -- dial error: retryErr, continue*)
(*     call on client                                                      *)
(*       ErrShutdown (dead cached client): drop it, i--, continue          *)
(*       other error: return error                                         *)
(*       reply: return nil                                                 *)
(*       timeout: retryErr, continue                                       *)
(*   }                                                                     *)
(*   return retryErr                                                       *)
(*                                                                         *)
(* The fan-out (C17) and the rebalancing (C14) rely on: nil is returned    *)
(* only for a reply that a server produced by executing the request.       *)
(* CountShutdown = TRUE models the change "a dead cached connection counts *)
(* as an attempt" (the last attempt then falls out of the loop with the    *)
(* error variable reset to nil).                                           *)
(***************************************************************************)
EXTENDS Naturals, TLC

CONSTANTS
  \* @type: Int;
  Retries,        \* cfg.RpcRetries (>= 1)
  \* @type: Int;
  MaxCrashes,     \* crash / restart budget of the destination
  \* @type: Bool;
  CountShutdown   \* FALSE = the code as pinned

VARIABLES
  \* @type: Str;
  pc,        \* "top" | "call" | "wait" | "done"
  \* @type: Int;
  i,         \* loop counter
  \* @type: Str;
  retryErr,  \* "nil" | "dial" | "timeout"
  \* @type: Str;
  cache,     \* "none" | "live" | "dead": the cached client of the destination
  \* @type: Str;
  server,    \* "up" | "down"
  \* @type: Bool;
  inflight,  \* a request is on the wire / being executed
  \* @type: Int;
  executed,  \* how often the destination executed the request
  \* @type: Bool;
  replied,   \* a reply to an execution is on its way back
  \* @type: Str;
  result,    \* "none" | "nil" | "err"
  \* @type: Int;
  crashes
vars == <<pc, i, retryErr, cache, server, inflight, executed, replied, result, crashes>>

Init ==
  /\ pc = "top" /\ i = 0 /\ retryErr = "nil"
  /\ cache \in {"none", "live", "dead"}        \* earlier calls may have left any of these
  /\ server \in {"up", "down"}
  /\ (cache = "live" => server = "up")
  /\ inflight = FALSE /\ executed = 0 /\ replied = FALSE /\ result = "none" /\ crashes = 0

\* loop head: leave with retryErr, or reset it and fetch a client
Top ==
  /\ pc = "top"
  /\ IF i >= Retries
     THEN /\ pc' = "done" /\ result' = (IF retryErr = "nil" THEN "nil" ELSE "err")
          /\ UNCHANGED <<i, retryErr, cache>>
     ELSE \/ /\ cache # "none"                       \* cached client (alive or not)
             /\ pc' = "call" /\ retryErr' = "nil" /\ UNCHANGED <<i, cache, result>>
          \/ /\ cache = "none" /\ server = "up"      \* dial succeeds
             /\ cache' = "live" /\ pc' = "call" /\ retryErr' = "nil" /\ UNCHANGED <<i, result>>
          \/ /\ cache = "none" /\ server = "down"    \* dial fails: counts as an attempt
             /\ retryErr' = "dial" /\ i' = i + 1 /\ UNCHANGED <<pc, cache, result>>
  /\ UNCHANGED <<server, inflight, executed, replied, crashes>>

\* client.Go on the client fetched at the loop head
Call ==
  /\ pc = "call"
  /\ IF cache = "dead"
     THEN \* rpc.ErrShutdown: nothing was sent
          /\ cache' = "none" /\ pc' = "top"
          /\ i' = (IF CountShutdown THEN i + 1 ELSE i)
          /\ UNCHANGED <<inflight, result>>
     ELSE /\ inflight' = TRUE /\ pc' = "wait" /\ UNCHANGED <<i, cache, result>>
  /\ UNCHANGED <<retryErr, server, executed, replied, crashes>>

\* the destination executes the request
Execute ==
  /\ inflight /\ server = "up" /\ cache = "live"
  /\ inflight' = FALSE /\ executed' = executed + 1 /\ replied' = TRUE
  /\ UNCHANGED <<pc, i, retryErr, cache, server, result, crashes>>

\* the reply arrives: return nil
Reply ==
  /\ pc = "wait" /\ replied /\ cache = "live"
  /\ replied' = FALSE /\ pc' = "done" /\ result' = "nil"
  /\ UNCHANGED <<i, retryErr, cache, server, inflight, executed, crashes>>

\* the connection broke while waiting: a non-shutdown error is returned as is
ConnError ==
  /\ pc = "wait" /\ cache = "dead"
  /\ pc' = "done" /\ result' = "err"
  /\ UNCHANGED <<i, retryErr, cache, server, inflight, executed, replied, crashes>>

\* RpcTimeout fires first (slow or stopped destination)
Timeout ==
  /\ pc = "wait"
  /\ retryErr' = "timeout" /\ i' = i + 1 /\ pc' = "top"
  /\ UNCHANGED <<cache, server, inflight, executed, replied, result, crashes>>

Crash ==
  /\ server = "up" /\ crashes < MaxCrashes
  /\ server' = "down" /\ crashes' = crashes + 1
  /\ cache' = (IF cache = "live" THEN "dead" ELSE cache)
  /\ inflight' = FALSE /\ replied' = FALSE
  /\ UNCHANGED <<pc, i, retryErr, executed, result>>

Restart ==
  /\ server = "down"
  /\ server' = "up"
  /\ UNCHANGED <<pc, i, retryErr, cache, inflight, executed, replied, result, crashes>>

Next == Top \/ Call \/ Execute \/ Reply \/ ConnError \/ Timeout \/ Crash \/ Restart
Spec == Init /\ [][Next]_vars /\ WF_vars(Top) /\ WF_vars(Call) /\ WF_vars(Reply \/ ConnError \/ Timeout)

TypeOK ==
  /\ pc \in {"top", "call", "wait", "done"} /\ i \in 0..Retries
  /\ retryErr \in {"nil", "dial", "timeout"} /\ cache \in {"none", "live", "dead"}
  /\ server \in {"up", "down"} /\ result \in {"none", "nil", "err"}

\* nil only for a reply some execution produced
NilMeansExecuted == result = "nil" => executed >= 1
\* an error is never reported for ... nothing to say: the request may have run (timeout); documented
ResultOnlyAtEnd == (result # "none") <=> (pc = "done")
\* every call returns (the destination crashes finitely often)
Terminates == <>(pc = "done")
\* ---- unbounded argument (Apalache): NilMeansExecuted for EVERY number of retries and every crash budget.
\* IndInv holds initially and is preserved by every step (checked symbolically with the constants left open:
\*   apalache-mc check --cinit=ConstInit --init=IndInit --inv=IndInv --length=1 Rpc.tla, and --init=Init --length=0)
ConstInit == Retries \in 1..1000 /\ MaxCrashes \in 0..1000 /\ CountShutdown = FALSE
ConstInitNeg == Retries \in 1..1000 /\ MaxCrashes \in 0..1000 /\ CountShutdown = TRUE   \* (self-test: must be refuted)
IndInv ==
  /\ TypeOK
  /\ executed >= 0 /\ crashes >= 0 /\ i >= 0
  /\ NilMeansExecuted
  /\ ResultOnlyAtEnd
  /\ (replied => executed >= 1)
  \* the loop is left through the counter only with an error recorded
  /\ (pc \in {"call", "wait"} => i < Retries)
  /\ ((pc = "top" /\ retryErr = "nil") => i < Retries)
IndInit ==
  /\ pc \in {"top", "call", "wait", "done"} /\ i \in Nat
  /\ retryErr \in {"nil", "dial", "timeout"} /\ cache \in {"none", "live", "dead"}
  /\ server \in {"up", "down"} /\ inflight \in BOOLEAN /\ executed \in Nat /\ replied \in BOOLEAN
  /\ result \in {"none", "nil", "err"} /\ crashes \in Nat
  /\ IndInv

\* NOT an invariant of the design (see Rpc.dup.cfg): a retry after a timeout can run the request twice
AtMostOnce == executed <= 1
=============================================================================
