------------------------------ MODULE CacheMgr ------------------------------
(***************************************************************************)
(* shard/cache/manager.go: Transaction.With / Commit, Manager.Release and   *)
(* checkAndPrune, label by label.  One goroutine per transaction; each      *)
(* transaction runs a short program of accesses                             *)
(*     [name, ro, cbFail, ctorFail]                                         *)
(* chosen non-deterministically from ProgFamily in the initial state.       *)
(* Go sync.RWMutex semantics: a pending Lock() makes TryRLock() fail.       *)
(* The pc values tryR / wlock / chk are the hook-H2 yield points; lookup,   *)
(* cb, cbRun and the commit are gates of the harness' own callbacks.        *)
(*                                                                          *)
(* Environment assumption (bbolt's single writer): a transaction with a     *)
(* writing access starts only when every other writing transaction has      *)
(* finished all its accesses (its cache commit may still be pending).       *)
(***************************************************************************)
EXTENDS Integers, Sequences, FiniteSets, TLC, Json
CONSTANTS Tx, Names, ProgFamily, CFailFamily, MaxSize, MaxObj, MaxRelease,
          SkipWrittenByName,  \* TRUE = pinned: a repeated write access to a NAME skips locking
          RecordHist
Objs == 1..MaxObj
VARIABLES shared, nextObj, readers, writer, waiting, scrapped, objSize, lastAcc, clock,
          pc, ip, cur, exist, holdR, written, failed, inCb, committed, Progs, cfail, released, hist
vars == <<shared,nextObj,readers,writer,waiting,scrapped,objSize,lastAcc,clock,pc,ip,cur,exist,holdR,written,failed,inCb,committed,Progs,cfail,released,hist>>
view == <<shared,nextObj,readers,writer,waiting,scrapped,objSize,lastAcc,clock,pc,ip,cur,exist,holdR,written,failed,inCb,committed,Progs,cfail,released>>
mgrVars == <<shared,nextObj,readers,writer,waiting,scrapped,objSize,lastAcc,clock>>
Rec(a, t) == hist' = IF RecordHist THEN Append(hist, <<a, t>>) ELSE hist
NoObj == 0
NoTx == "none"
Acc(t) == Progs[t][ip[t]]
Init == /\ shared = [n \in Names |-> NoObj] /\ nextObj = 1
        /\ readers = [o \in Objs |-> {}] /\ writer = [o \in Objs |-> NoTx] /\ waiting = [o \in Objs |-> {}]
        /\ scrapped = [o \in Objs |-> FALSE] /\ objSize = [o \in Objs |-> 0] /\ lastAcc = [o \in Objs |-> 0] /\ clock = 1
        /\ pc = [t \in Tx |-> "idle"] /\ ip = [t \in Tx |-> 1] /\ cur = [t \in Tx |-> NoObj] /\ exist = [t \in Tx |-> NoObj]
        /\ holdR = [t \in Tx |-> NoObj] /\ written = [t \in Tx |-> [n \in Names |-> NoObj]] /\ failed = [t \in Tx |-> FALSE]
        /\ inCb = [t \in Tx |-> NoObj] /\ committed = [t \in Tx |-> FALSE]
        /\ Progs \in ProgFamily /\ cfail \in CFailFamily /\ released = 0 /\ hist = <<>>

InMap == {o \in Objs : \E n \in Names : shared[n] = o}
RECURSIVE Sum(_)
Sum(X) == IF X = {} THEN 0 ELSE LET x == CHOOSE y \in X : TRUE IN objSize[x] + Sum(X \ {x})
RECURSIVE PruneSet(_)
PruneSet(S) == IF S = {} \/ Sum(S) <= MaxSize THEN S
               ELSE LET v == CHOOSE x \in S : \A y \in S : lastAcc[x] <= lastAcc[y] IN PruneSet(S \ {v})
Pruned == IF MaxSize = -1 THEN shared
          ELSE IF MaxSize = 0 THEN [n \in Names |-> NoObj]
          ELSE LET keep == PruneSet(InMap) IN [n \in Names |-> IF shared[n] \in keep THEN shared[n] ELSE NoObj]

\* ---- With(): entry
IsWriter(t) == \E i \in DOMAIN Progs[t] : ~Progs[t][i].ro
AccessesDone(t) == ip[t] > Len(Progs[t]) /\ pc[t] = "idle"
Untouched(t) == ip[t] = 1 /\ pc[t] = "idle" /\ ~committed[t]
Start0(t) ==
    /\ pc[t] = "idle" /\ ip[t] <= Len(Progs[t]) /\ ~committed[t]
    /\ (IsWriter(t) => \A u \in Tx \ {t} : IsWriter(u) => (Untouched(u) \/ AccessesDone(u)))
    /\ IF failed[t] THEN ip' = [ip EXCEPT ![t] = @ + 1] /\ UNCHANGED pc
                    ELSE pc' = [pc EXCEPT ![t] = "lookup"] /\ UNCHANGED ip
    /\ UNCHANGED <<mgrVars,cur,exist,holdR,written,failed,inCb,committed>>

AccessFails(t) ==   \* constructor failed: tx marked failed, access returns
    /\ failed' = [failed EXCEPT ![t] = TRUE] /\ ip' = [ip EXCEPT ![t] = @ + 1] /\ pc' = [pc EXCEPT ![t] = "idle"]

LookupExisting0(t) ==
    LET a == Acc(t) IN
    /\ pc[t] = "lookup" /\ shared[a.name] # NoObj
    /\ exist' = [exist EXCEPT ![t] = shared[a.name]]
    /\ lastAcc' = [lastAcc EXCEPT ![shared[a.name]] = clock] /\ clock' = clock + 1
    /\ pc' = [pc EXCEPT ![t] = IF a.ro THEN "tryR" ELSE "wlock"]
    /\ UNCHANGED <<shared,nextObj,readers,writer,waiting,scrapped,objSize,ip,cur,holdR,written,failed,inCb,committed>>

LookupNewFail0(t) ==
    LET a == Acc(t) IN
    /\ pc[t] = "lookup" /\ shared[a.name] = NoObj /\ a.ctorFail
    /\ AccessFails(t)
    /\ UNCHANGED <<mgrVars,cur,exist,holdR,written,inCb,committed>>

LookupNew0(t) ==
    LET a == Acc(t) o == nextObj IN
    /\ pc[t] = "lookup" /\ shared[a.name] = NoObj /\ ~a.ctorFail /\ nextObj <= MaxObj
    /\ nextObj' = o + 1
    /\ shared' = IF MaxSize # 0 THEN [shared EXCEPT ![a.name] = o] ELSE shared
    /\ lastAcc' = [lastAcc EXCEPT ![o] = clock] /\ clock' = clock + 1
    /\ IF a.ro THEN /\ readers' = [readers EXCEPT ![o] = {t}] /\ holdR' = [holdR EXCEPT ![t] = o]
                    /\ UNCHANGED <<writer,written>>
               ELSE /\ writer' = [writer EXCEPT ![o] = t] /\ written' = [written EXCEPT ![t][a.name] = o]
                    /\ UNCHANGED <<readers,holdR>>
    /\ cur' = [cur EXCEPT ![t] = o] /\ exist' = [exist EXCEPT ![t] = NoObj]
    /\ pc' = [pc EXCEPT ![t] = "cb"]
    /\ UNCHANGED <<waiting,scrapped,objSize,ip,failed,inCb,committed>>

\* cold temporary copy (createFn): fresh private object
ColdOk(t) == /\ nextObj <= MaxObj /\ nextObj' = nextObj + 1 /\ cur' = [cur EXCEPT ![t] = nextObj]
             /\ pc' = [pc EXCEPT ![t] = "cb"] /\ UNCHANGED <<failed,ip>>
ColdFail(t) == AccessFails(t) /\ UNCHANGED <<nextObj,cur>>
Cold(t) == IF Acc(t).ctorFail THEN ColdFail(t) ELSE ColdOk(t)

TryRSameTx0(t) ==
    LET a == Acc(t) e == exist[t] IN
    /\ pc[t] = "tryR" /\ written[t][a.name] # NoObj
    /\ cur' = [cur EXCEPT ![t] = e] /\ pc' = [pc EXCEPT ![t] = "chk"]
    /\ UNCHANGED <<mgrVars,ip,exist,holdR,written,failed,inCb,committed>>
TryROk0(t) ==
    LET a == Acc(t) e == exist[t] IN
    /\ pc[t] = "tryR" /\ written[t][a.name] = NoObj /\ writer[e] = NoTx /\ waiting[e] = {}
    /\ readers' = [readers EXCEPT ![e] = @ \cup {t}] /\ holdR' = [holdR EXCEPT ![t] = e]
    /\ cur' = [cur EXCEPT ![t] = e] /\ pc' = [pc EXCEPT ![t] = "chk"]
    /\ UNCHANGED <<shared,nextObj,writer,waiting,scrapped,objSize,lastAcc,clock,ip,exist,written,failed,inCb,committed>>
TryRFail0(t) ==
    LET a == Acc(t) e == exist[t] IN
    /\ pc[t] = "tryR" /\ written[t][a.name] = NoObj /\ ~(writer[e] = NoTx /\ waiting[e] = {})
    /\ Cold(t)
    /\ UNCHANGED <<shared,readers,writer,waiting,scrapped,objSize,lastAcc,clock,exist,holdR,written,inCb,committed>>

\* pinned: the name is already in writtenCaches of this tx: no locking, uses
\* whatever object is in the map now; repaired: only if it is the same object
HoldsWrite(t, n, e) == IF SkipWrittenByName THEN written[t][n] # NoObj ELSE written[t][n] = e
WLockSkip0(t) ==
    LET a == Acc(t) e == exist[t] IN
    /\ pc[t] = "wlock" /\ HoldsWrite(t, a.name, e)
    /\ cur' = [cur EXCEPT ![t] = e] /\ pc' = [pc EXCEPT ![t] = "chk"]
    /\ UNCHANGED <<mgrVars,ip,exist,holdR,written,failed,inCb,committed>>
WLockReq0(t) ==
    LET a == Acc(t) e == exist[t] IN
    /\ pc[t] = "wlock" /\ ~HoldsWrite(t, a.name, e)
    /\ waiting' = [waiting EXCEPT ![e] = @ \cup {t}] /\ pc' = [pc EXCEPT ![t] = "wlockWait"]
    /\ UNCHANGED <<shared,nextObj,readers,writer,scrapped,objSize,lastAcc,clock,ip,cur,exist,holdR,written,failed,inCb,committed>>
WLockGet0(t) ==
    LET a == Acc(t) e == exist[t] IN
    /\ pc[t] = "wlockWait" /\ writer[e] = NoTx /\ readers[e] = {}
    /\ writer' = [writer EXCEPT ![e] = t] /\ waiting' = [waiting EXCEPT ![e] = @ \ {t}]
    /\ written' = [written EXCEPT ![t][a.name] = e] /\ cur' = [cur EXCEPT ![t] = e] /\ pc' = [pc EXCEPT ![t] = "chk"]
    /\ UNCHANGED <<shared,nextObj,readers,scrapped,objSize,lastAcc,clock,ip,exist,holdR,failed,inCb,committed>>

ChkOk0(t) == /\ pc[t] = "chk" /\ ~scrapped[cur[t]] /\ pc' = [pc EXCEPT ![t] = "cb"]
            /\ UNCHANGED <<mgrVars,ip,cur,exist,holdR,written,failed,inCb,committed>>
ChkScrapped0(t) == /\ pc[t] = "chk" /\ scrapped[cur[t]] /\ Cold(t)
                  /\ UNCHANGED <<shared,readers,writer,waiting,scrapped,objSize,lastAcc,clock,exist,holdR,written,inCb,committed>>

CbEnter0(t) ==
    /\ pc[t] = "cb" /\ inCb' = [inCb EXCEPT ![t] = cur[t]] /\ pc' = [pc EXCEPT ![t] = "cbRun"]
    /\ objSize' = [objSize EXCEPT ![cur[t]] = IF Acc(t).ro THEN (IF @ = 0 THEN 1 ELSE @) ELSE 2]
    /\ UNCHANGED <<shared,nextObj,readers,writer,waiting,scrapped,lastAcc,clock,ip,cur,exist,holdR,written,failed,committed>>

ReleaseR(t) == IF holdR[t] # NoObj
               THEN readers' = [readers EXCEPT ![holdR[t]] = @ \ {t}] /\ holdR' = [holdR EXCEPT ![t] = NoObj]
               ELSE UNCHANGED <<readers,holdR>>
CbExitOk0(t) ==   \* deferred checkAndPrune only when the shared/new object was used
    LET a == Acc(t) o == cur[t]
        prunes == (exist[t] # NoObj /\ o = exist[t]) \/ (exist[t] = NoObj /\ MaxSize # 0) IN
    /\ pc[t] = "cbRun" /\ ~a.cbFail
    /\ inCb' = [inCb EXCEPT ![t] = NoObj]
    /\ shared' = IF prunes THEN Pruned ELSE shared
    /\ ReleaseR(t)
    /\ ip' = [ip EXCEPT ![t] = @ + 1] /\ pc' = [pc EXCEPT ![t] = "idle"]
    /\ UNCHANGED <<nextObj,writer,waiting,scrapped,objSize,lastAcc,clock,cur,exist,written,failed,committed>>
CbExitErr0(t) ==  \* scrap the object used and delete the NAME from the map
    LET a == Acc(t) o == cur[t] IN
    /\ pc[t] = "cbRun" /\ a.cbFail
    /\ inCb' = [inCb EXCEPT ![t] = NoObj]
    /\ failed' = [failed EXCEPT ![t] = TRUE] /\ scrapped' = [scrapped EXCEPT ![o] = TRUE]
    /\ shared' = [shared EXCEPT ![a.name] = NoObj]
    /\ ReleaseR(t)
    /\ ip' = [ip EXCEPT ![t] = @ + 1] /\ pc' = [pc EXCEPT ![t] = "idle"]
    /\ UNCHANGED <<nextObj,writer,waiting,objSize,lastAcc,clock,cur,exist,written,committed>>

Commit0(t) ==
    LET W == {n \in Names : written[t][n] # NoObj}
        WO == {written[t][n] : n \in W} IN
    /\ pc[t] = "idle" /\ ip[t] > Len(Progs[t]) /\ ~committed[t]
    /\ committed' = [committed EXCEPT ![t] = TRUE]
    /\ writer' = [o \in Objs |-> IF o \in WO THEN NoTx ELSE writer[o]]
    /\ IF failed[t] \/ cfail[t]    \* Commit(fail): the storage transaction did not commit
       THEN /\ scrapped' = [o \in Objs |-> IF o \in WO THEN TRUE ELSE scrapped[o]]
            /\ shared' = [n \in Names |-> IF n \in W THEN NoObj ELSE shared[n]]
       ELSE UNCHANGED <<scrapped,shared>>
    /\ UNCHANGED <<nextObj,readers,waiting,objSize,lastAcc,clock,pc,ip,cur,exist,holdR,written,failed,inCb>>

Start(t) == Start0(t) /\ Rec("Start", t) /\ UNCHANGED <<Progs, cfail, released>>
LookupExisting(t) == LookupExisting0(t) /\ Rec("LookupExisting", t) /\ UNCHANGED <<Progs, cfail, released>>
LookupNewFail(t) == LookupNewFail0(t) /\ Rec("LookupNewFail", t) /\ UNCHANGED <<Progs, cfail, released>>
LookupNew(t) == LookupNew0(t) /\ Rec("LookupNew", t) /\ UNCHANGED <<Progs, cfail, released>>
TryRSameTx(t) == TryRSameTx0(t) /\ Rec("TryRSameTx", t) /\ UNCHANGED <<Progs, cfail, released>>
TryROk(t) == TryROk0(t) /\ Rec("TryROk", t) /\ UNCHANGED <<Progs, cfail, released>>
TryRFail(t) == TryRFail0(t) /\ Rec("TryRFail", t) /\ UNCHANGED <<Progs, cfail, released>>
WLockSkip(t) == WLockSkip0(t) /\ Rec("WLockSkip", t) /\ UNCHANGED <<Progs, cfail, released>>
WLockReq(t) == WLockReq0(t) /\ Rec("WLockReq", t) /\ UNCHANGED <<Progs, cfail, released>>
WLockGet(t) == WLockGet0(t) /\ Rec("WLockGet", t) /\ UNCHANGED <<Progs, cfail, released>>
ChkOk(t) == ChkOk0(t) /\ Rec("ChkOk", t) /\ UNCHANGED <<Progs, cfail, released>>
ChkScrapped(t) == ChkScrapped0(t) /\ Rec("ChkScrapped", t) /\ UNCHANGED <<Progs, cfail, released>>
CbEnter(t) == CbEnter0(t) /\ Rec("CbEnter", t) /\ UNCHANGED <<Progs, cfail, released>>
CbExitOk(t) == CbExitOk0(t) /\ Rec("CbExitOk", t) /\ UNCHANGED <<Progs, cfail, released>>
CbExitErr(t) == CbExitErr0(t) /\ Rec("CbExitErr", t) /\ UNCHANGED <<Progs, cfail, released>>
Commit(t) == Commit0(t) /\ Rec("Commit", t) /\ UNCHANGED <<Progs, cfail, released>>

\* Manager.Release(name) at any moment (shard close / eviction)
Release(n) ==
    /\ released < MaxRelease /\ released' = released + 1
    /\ shared' = [shared EXCEPT ![n] = NoObj]
    /\ Rec("Release", n)
    /\ UNCHANGED <<nextObj,readers,writer,waiting,scrapped,objSize,lastAcc,clock,pc,ip,cur,exist,holdR,written,failed,inCb,committed,Progs,cfail>>

Done == \A t \in Tx : committed[t]
Step(t) == \/ Start(t) \/ LookupExisting(t) \/ LookupNewFail(t) \/ LookupNew(t)
           \/ TryRSameTx(t) \/ TryROk(t) \/ TryRFail(t) \/ WLockSkip(t) \/ WLockReq(t) \/ WLockGet(t)
           \/ ChkOk(t) \/ ChkScrapped(t) \/ CbEnter(t) \/ CbExitOk(t) \/ CbExitErr(t) \/ Commit(t)
Next == (\E t \in Tx : Step(t)) \/ (\E n \in Names : Release(n)) \/ (Done /\ UNCHANGED vars)
Spec == Init /\ [][Next]_vars
SimNext == (\E t \in Tx : Step(t)) \/ (\E n \in Names : Release(n))
SimSpec == Init /\ [][SimNext]_vars

\* ---- properties (C11)
Owners(o) == {t \in Tx : ~committed[t] /\ \E n \in Names : written[t][n] = o}
\* from a transaction's first write access to an object until its commit no
\* other transaction's callback runs on that object
WriterIsolation == \A t \in Tx : inCb[t] # NoObj => Owners(inCb[t]) \subseteq {t}
NoConcurrentRW == \A t, u \in Tx : (t # u /\ inCb[t] # NoObj /\ inCb[t] = inCb[u]) => (Acc(t).ro /\ Acc(u).ro)
\* a scrapped object is never handed out again: whoever passes the scrapped
\* check on a shared object does so while it is not scrapped (a reader that
\* already passed the check may still share the object with the reader whose
\* failure scraps it: that is sharing, not a hand-out after the fact)
NoScrappedHandout ==
  [][\A t \in Tx : (pc[t] = "chk" /\ pc'[t] = "cb" /\ cur'[t] = cur[t]) => ~scrapped[cur[t]]]_vars
\* after every transaction committed or aborted no reachable object is locked
LocksFreeAtEnd == Done => \A o \in Objs : ((\E n \in Names : shared[n] = o) => (writer[o] = NoTx /\ readers[o] = {}))
\* a reader never waits for a cache lock: every read-only access can move
ReadersNeverBlock == \A t \in Tx : (pc[t] \in {"tryR", "chk", "cb", "cbRun"} /\ Acc(t).ro) => ENABLED Step(t)
\* nothing is pending while nothing can move
NoDeadlock == Done \/ ENABLED (\E t \in Tx : Step(t))

PrintBehaviour == (~ENABLED SimNext) => PrintT("BEHAVIOUR " \o ToJson([progs |-> Progs, cfail |-> cfail, hist |-> hist]))
=============================================================================
