------------------------------- MODULE Docs -------------------------------
(***************************************************************************)
(* Pure operators of the semadb reference model: documents, shallow merge, *)
(* index projections, filter predicates, exact kNN, tf-idf, hybrid score,  *)
(* sorting and paging.  Everything here is a function of a point map       *)
(*      pts : id -> document                                               *)
(* and of two constants-in-data that the harness supplies per trace:       *)
(*   S : prop -> [type, fld, cs, metric, scale, thr]   (index schema)      *)
(*   U : [lower, less, prefix, log]                      (pool relations)  *)
(*                                                                         *)
(* Abstraction contract (DESIGN.md 4.4): ids are small integers; integer   *)
(* and float index values are ranks in a fixed ladder (IEEE-equal values   *)
(* share a rank); strings are indices into a pool with relations lower /   *)
(* less (byte order) / prefix given as 0-1 matrices; vectors are integer   *)
(* valued; text is a term -> frequency map plus a token count.             *)
(*                                                                         *)
(* A document is a function  field -> [c, ix, d, sz]  where c is the       *)
(* canonical JSON of the field value, ix the index values the field        *)
(* induces (prop -> abstract value), d = 1 iff the value is the literal    *)
(* "_delete", and sz an abstract weight used for the size limit.           *)
(***************************************************************************)
EXTENDS Integers, Sequences, FiniteSets, TLC

Range(s) == {s[i] : i \in DOMAIN s}
Min2(a, b) == IF a < b THEN a ELSE b
Max2(a, b) == IF a > b THEN a ELSE b
Abs(a) == IF a < 0 THEN -a ELSE a
NoDup(s) == \A i, j \in DOMAIN s : i # j => s[i] # s[j]

RECURSIVE SumSeq(_)
SumSeq(s) == IF s = <<>> THEN 0 ELSE Head(s) + SumSeq(Tail(s))

\* sum of a function's values over a finite set T \subseteq DOMAIN f
RECURSIVE SumOver(_, _)
SumOver(f, T) == IF T = {} THEN 0
                 ELSE LET x == CHOOSE y \in T : TRUE IN f[x] + SumOver(f, T \ {x})

---------------------------------------------------------------------------
(* Documents *)

\* shallow merge: incoming fields replace stored ones, d = 1 removes the field
Merge(old, inc) ==
  LET keep == {f \in DOMAIN old : f \notin DOMAIN inc}
      add  == {f \in DOMAIN inc : inc[f].d = 0}
  IN  [f \in keep \cup add |-> IF f \in add THEN inc[f] ELSE old[f]]

\* An inserted document is stored as given ("_delete" has no meaning on insert)
DocWeight(doc) == SumOver([f \in DOMAIN doc |-> doc[f].sz], DOMAIN doc)

\* what a reader sees: field -> canonical JSON
Visible(doc) == [f \in DOMAIN doc |-> doc[f].c]

HasIx(S, doc, p) == /\ S[p].fld \in DOMAIN doc
                    /\ p \in DOMAIN doc[S[p].fld].ix
IxOf(S, doc, p) == doc[S[p].fld].ix[p]

---------------------------------------------------------------------------
(* Filter predicates *)

NumSat(op, v, q, e) ==
  CASE op = "equals"              -> v = q
    [] op = "notEquals"           -> v # q
    [] op = "greaterThan"         -> v > q
    [] op = "greaterThanOrEquals" -> v >= q
    [] op = "lessThan"            -> v < q
    [] op = "lessThanOrEquals"    -> v <= q
    [] op = "inRange"             -> v >= q /\ v <= e
    [] OTHER                      -> FALSE

\* strings: indices into the pool; byte order and prefix from U
StrLess(U, a, b) == U.less[a][b] = 1
StrSat(U, op, v, q, e) ==
  CASE op = "equals"              -> v = q
    [] op = "notEquals"           -> v # q
    [] op = "startsWith"          -> U.prefix[q][v] = 1
    [] op = "greaterThan"         -> StrLess(U, q, v)
    [] op = "greaterThanOrEquals" -> ~StrLess(U, v, q)
    [] op = "lessThan"            -> StrLess(U, v, q)
    [] op = "lessThanOrEquals"    -> ~StrLess(U, q, v)
    [] op = "inRange"             -> ~StrLess(U, v, q) /\ ~StrLess(U, e, v)
    [] OTHER                      -> FALSE

\* case folding under the index's declared sensitivity
Norm(S, U, p, s) == IF S[p].cs = 1 THEN s ELSE U.lower[s]

LeafSat(S, U, doc, q) ==
  /\ HasIx(S, doc, q.p)
  /\ LET t == S[q.p].type
         v == IxOf(S, doc, q.p)
     IN  CASE t \in {"integer", "float"} -> NumSat(q.op, v, q.v, q.e)
           [] t = "string" ->
                StrSat(U, q.op, Norm(S, U, q.p, v), Norm(S, U, q.p, q.v), Norm(S, U, q.p, q.e))
           [] t = "stringArray" ->
                LET sv == {Norm(S, U, q.p, v[i]) : i \in DOMAIN v}
                    qv == {Norm(S, U, q.p, q.v[i]) : i \in DOMAIN q.v}
                IN  IF q.op = "containsAll" THEN qv \subseteq sv ELSE qv \cap sv # {}
           [] OTHER -> FALSE

\* q.k \in {"and","or","id","leaf","all"}
RECURSIVE EvalQ(_, _, _, _)
EvalQ(S, U, pts, q) ==
  CASE q.k = "leaf" -> {i \in DOMAIN pts : LeafSat(S, U, pts[i], q)}
    [] q.k = "id"   -> Range(q.ids) \cap DOMAIN pts
    [] q.k = "all"  -> DOMAIN pts
    [] q.k = "and"  ->
         LET sets == [j \in DOMAIN q.sub |-> EvalQ(S, U, pts, q.sub[j])]
         IN  {i \in DOMAIN pts : \A j \in DOMAIN sets : i \in sets[j]}
    [] q.k = "or"   ->
         LET sets == [j \in DOMAIN q.sub |-> EvalQ(S, U, pts, q.sub[j])]
         IN  {i \in DOMAIN pts : \E j \in DOMAIN sets : i \in sets[j]}

---------------------------------------------------------------------------
(* Vector distances on integer-valued vectors.  All results are integers  *)
(* scaled by S[p].scale (1 for the integer metrics).                      *)

RECURSIVE DotI(_, _)
DotI(a, b) == IF a = <<>> THEN 0 ELSE Head(a) * Head(b) + DotI(Tail(a), Tail(b))
RECURSIVE SqI(_, _)
SqI(a, b) == IF a = <<>> THEN 0
             ELSE (Head(a) - Head(b)) * (Head(a) - Head(b)) + SqI(Tail(a), Tail(b))

\* thresholded bit sets: bit i is set iff 2*v[i] > thr2 (thr2 = 2*threshold)
Bits(v, thr2) == {i \in DOMAIN v : 2 * v[i] > thr2}

\* haversine: table of reference distances (metres) supplied with the trace
Hav(U, a, b) == (CHOOSE t \in Range(U.hav) : t.a = a /\ t.b = b).d

Dist(U, metric, scale, thr2, a, b) ==
  CASE metric = "euclidean" -> scale * SqI(a, b)
    [] metric = "haversine" -> Hav(U, a, b)
    [] metric = "dot"       -> scale * (0 - DotI(a, b))
    [] metric = "cosine"    -> scale * (1 - DotI(a, b))
    [] metric = "hamming"   ->
         LET A == Bits(a, thr2)  B == Bits(b, thr2)
         IN  scale * Cardinality((A \ B) \cup (B \ A))
    [] metric = "jaccard"   ->
         LET A == Bits(a, thr2)  B == Bits(b, thr2)
             u == Cardinality(A \cup B)  n == Cardinality(A \cap B)
         IN  IF u = 0 THEN 0 ELSE (scale * (u - n)) \div u

---------------------------------------------------------------------------
(* Exact kNN predicate (flat index; Vamana in its exact regimes)          *)
(* hits : Seq([id, d, h]); tol = tolerance on scaled distances.           *)

Cands(S, U, pts, p, filter) == {i \in EvalQ(S, U, pts, filter) : HasIx(S, pts[i], p)}

PDist(S, U, pts, p, vec, i) ==
  Dist(U, S[p].metric, S[p].scale, S[p].thr2, vec, IxOf(S, pts[i], p))

\* every hit is a live in-filter holder of the field, reported distance and
\* hybrid score are right, order is non-decreasing, no duplicates, <= limit
HitsSound(S, U, pts, p, vec, limit, w4, filter, hits, tol) ==
  LET cand == Cands(S, U, pts, p, filter)
      ids  == [k \in DOMAIN hits |-> hits[k].id]
  IN  /\ NoDup(ids)
      /\ Range(ids) \subseteq cand
      /\ Len(hits) <= limit
      /\ \A k \in DOMAIN hits :
            /\ Abs(hits[k].d - PDist(S, U, pts, p, vec, hits[k].id)) <= tol
            /\ Abs(hits[k].h4 + w4 * hits[k].d) <= tol * Max2(1, Abs(w4)) + 1
      /\ \A k \in DOMAIN hits : k > 1 => hits[k - 1].d <= hits[k].d

\* ... and they are the `limit` nearest (any tie-break at the cut)
HitsExact(S, U, pts, p, vec, limit, w4, filter, hits, tol) ==
  LET cand == Cands(S, U, pts, p, filter)
      got  == {hits[k].id : k \in DOMAIN hits}
  IN  /\ HitsSound(S, U, pts, p, vec, limit, w4, filter, hits, tol)
      /\ Len(hits) = Min2(limit, Cardinality(cand))
      /\ \A i \in cand \ got : \A j \in got :
            PDist(S, U, pts, p, vec, i) + tol >= PDist(S, U, pts, p, vec, j)

---------------------------------------------------------------------------
(* Text: tf-idf.  A text index value is [tf : term -> freq, len : Nat];   *)
(* a field that analyses to zero tokens is *not* in the corpus.           *)
(* U.log[n][k] = round(1e5 * log10(n / k)) for 1 <= n,k <= Nmax           *)

InCorpus(S, doc, p) == HasIx(S, doc, p) /\ IxOf(S, doc, p).len > 0
Corpus(S, pts, p) == {i \in DOMAIN pts : InCorpus(S, pts[i], p)}
HasTerm(S, doc, p, t) == t \in DOMAIN IxOf(S, doc, p).tf
DF(S, pts, p, t) == Cardinality({i \in Corpus(S, pts, p) : HasTerm(S, pts[i], p, t)})

TextMatch(S, U, pts, p, terms, op, filter) ==
  LET base == Corpus(S, pts, p) \cap EvalQ(S, U, pts, filter)
  IN  IF op = "containsAll"
      THEN {i \in base : \A t \in terms : HasTerm(S, pts[i], p, t)}
      ELSE {i \in base : \E t \in terms : HasTerm(S, pts[i], p, t)}

\* score scaled by 1e5 (integer division per term: error < 1 per term)
TextScore(S, U, pts, p, terms, i) ==
  LET n   == Cardinality(Corpus(S, pts, p))
      d   == IxOf(S, pts[i], p)
      one(t) == IF t \in DOMAIN d.tf
                THEN (d.tf[t] * U.log[n][DF(S, pts, p, t) + 1]) \div d.len
                ELSE 0
  IN  SumOver([t \in terms |-> one(t)], terms)

\* hits : Seq([id, s, h4]) with s = round(score * 1e5), h4 = round(hybrid*4e5)
TextOK(S, U, pts, p, terms, op, limit, w4, filter, hits, tol) ==
  LET match == TextMatch(S, U, pts, p, terms, op, filter)
      got   == {hits[k].id : k \in DOMAIN hits}
      ids   == [k \in DOMAIN hits |-> hits[k].id]
  IN  /\ NoDup(ids)
      /\ got \subseteq match
      /\ Len(hits) = Min2(limit, Cardinality(match))
      /\ \A k \in DOMAIN hits :
            /\ Abs(hits[k].s - TextScore(S, U, pts, p, terms, hits[k].id)) <= tol
            /\ Abs(hits[k].h4 - w4 * hits[k].s) <= Max2(1, Abs(w4)) * 2
      /\ \A k \in DOMAIN hits : k > 1 => hits[k - 1].s >= hits[k].s
      /\ \A i \in match \ got : \A j \in got :
            TextScore(S, U, pts, p, terms, i) <= TextScore(S, U, pts, p, terms, j) + 2 * tol

=============================================================================
