------------------------------ MODULE FilterMC ------------------------------
(***************************************************************************)
(* Design-level sanity of the filter semantics of Docs.tla: for EVERY      *)
(* assignment of (optional) values to a few points, the operators satisfy  *)
(* the algebra a user relies on (trichotomy, complement within holders,    *)
(* range = intersection of bounds, prefix implies >=, case folding,        *)
(* _and / _or = intersection / union, missing field never matches).        *)
(* Every assignment is an initial state; the algebra is an invariant.      *)
(***************************************************************************)
EXTENDS Docs

CONSTANT NIds
Ids == 1..NIds
Ranks == 1..3
\* pool: 1 = "a", 2 = "A", 3 = "ab", 4 = "b" ; lower: A -> a
MU == [lower  |-> <<1, 1, 3, 4>>,
       less   |-> << <<0,0,1,1>>, <<1,0,1,1>>, <<0,0,0,1>>, <<0,0,0,0>> >>,
       prefix |-> << <<1,0,1,0>>, <<0,1,0,0>>, <<0,0,1,0>>, <<0,0,0,1>> >>,
       log |-> <<>>, empty |-> 0]
Pool == 1..4
MS == [i  |-> [type |-> "integer", fld |-> "i", cs |-> 1],
       s  |-> [type |-> "string", fld |-> "s", cs |-> 0],
       sc |-> [type |-> "string", fld |-> "sc", cs |-> 1]]

VARIABLE pts

Fld(p, v) == [c |-> "x", ix |-> [q \in {p} |-> v], d |-> 0, sz |-> 0, bad |-> 0]
\* a document from optional values (0 = absent)
MkDoc(iv, sv, scv) ==
  LET fs == (IF iv = 0 THEN {} ELSE {"i"}) \cup (IF sv = 0 THEN {} ELSE {"s"}) \cup (IF scv = 0 THEN {} ELSE {"sc"})
  IN  [f \in fs |-> IF f = "i" THEN Fld("i", iv) ELSE IF f = "s" THEN Fld("s", sv) ELSE Fld("sc", scv)]

Init == \E iv \in [Ids -> 0..3], sv \in [Ids -> 0..4] :
          pts = [k \in Ids |-> MkDoc(iv[k], sv[k], sv[k])]
Next == UNCHANGED pts
Spec == Init /\ [][Next]_pts

L(p, op, v, e) == [k |-> "leaf", p |-> p, op |-> op, v |-> v, e |-> e]
Ev(q) == EvalQ(MS, MU, pts, q)
Holders(p) == {k \in Ids : HasIx(MS, pts[k], p)}

IntAlgebra ==
  \A v \in Ranks :
    /\ Ev(L("i","lessThan",v,v)) \cup Ev(L("i","equals",v,v)) \cup Ev(L("i","greaterThan",v,v)) = Holders("i")
    /\ Ev(L("i","lessThan",v,v)) \cap Ev(L("i","greaterThan",v,v)) = {}
    /\ Ev(L("i","notEquals",v,v)) = Holders("i") \ Ev(L("i","equals",v,v))
    /\ Ev(L("i","greaterThanOrEquals",v,v)) = Ev(L("i","greaterThan",v,v)) \cup Ev(L("i","equals",v,v))
    /\ Ev(L("i","lessThanOrEquals",v,v)) = Holders("i") \ Ev(L("i","greaterThan",v,v))
    /\ \A e \in Ranks : Ev(L("i","inRange",v,e)) =
                          Ev(L("i","greaterThanOrEquals",v,v)) \cap Ev(L("i","lessThanOrEquals",e,e))

StrAlgebra(p) ==
  \A v \in Pool :
    /\ Ev(L(p,"lessThan",v,v)) \cup Ev(L(p,"equals",v,v)) \cup Ev(L(p,"greaterThan",v,v)) = Holders(p)
    /\ Ev(L(p,"notEquals",v,v)) = Holders(p) \ Ev(L(p,"equals",v,v))
    /\ Ev(L(p,"startsWith",v,v)) \subseteq Ev(L(p,"greaterThanOrEquals",v,v))
    /\ Ev(L(p,"equals",v,v)) \subseteq Ev(L(p,"startsWith",v,v))
    /\ \A e \in Pool : Ev(L(p,"inRange",v,e)) =
                         Ev(L(p,"greaterThanOrEquals",v,v)) \cap Ev(L(p,"lessThanOrEquals",e,e))

\* case-insensitive index: a query and its case variant give the same answer,
\* and a stored "A" is found by "a"
CaseFolding ==
  /\ \A op \in {"equals","notEquals","startsWith","greaterThan","lessThan"} :
        Ev(L("s",op,1,1)) = Ev(L("s",op,2,2))
  /\ Ev(L("s","inRange",2,4)) = Ev(L("s","inRange",1,4))
  /\ \A k \in Ids : (HasIx(MS, pts[k], "sc") /\ IxOf(MS, pts[k], "sc") = 2)
                      => (k \in Ev(L("s","equals",1,1)) /\ k \notin Ev(L("sc","equals",1,1)))

Boolean ==
  \A v, w \in Ranks :
    LET a == L("i","greaterThan",v,v)
        b == L("s","equals",1,1)
        c == L("i","equals",w,w)
    IN  /\ Ev([k |-> "and", sub |-> <<a, b>>]) = Ev(a) \cap Ev(b)
        /\ Ev([k |-> "or", sub |-> <<a, b, c>>]) = Ev(a) \cup Ev(b) \cup Ev(c)
        /\ Ev([k |-> "and", sub |-> <<a>>]) = Ev(a)
        /\ Ev([k |-> "or", sub |-> <<[k |-> "and", sub |-> <<a, c>>], b>>]) = (Ev(a) \cap Ev(c)) \cup Ev(b)
        /\ Ev([k |-> "id", ids |-> <<1, 2, 7>>]) = {1, 2}

Algebra == IntAlgebra /\ StrAlgebra("s") /\ StrAlgebra("sc") /\ CaseFolding /\ Boolean
=============================================================================
