------------------------------ MODULE Placement ------------------------------
(***************************************************************************)
(* C15, design level: cluster/placement.go distributePoints transcribed     *)
(* step by step (one action per loop head), run on EVERY small input, and   *)
(* checked against the relation ValidAssignment of PlacementRel.tla.        *)
(*                                                                          *)
(*   start:  if len(shards) == 0 && len(points) > 0 { create a shard }      *)
(*   outer:  for lastPointIndex, i := 0, 0; i < len(shards); i++ {          *)
(*             j := lastPointIndex; running totals := fill of shard i       *)
(*   inner:    for ; j < len(points); j++ {                                 *)
(*               add point j; if size > maxSize || count > maxCount {break} *)
(*             }                                                            *)
(*             if j > lastPointIndex { assignment[shard i] = [last, j) }    *)
(*             lastPointIndex = j                                           *)
(*             if i == len(shards)-1 && lastPointIndex < len(points) {      *)
(*               create a shard (appended, empty) }                         *)
(*           }                                                              *)
(*                                                                          *)
(* Variant selects deliberately wrong algorithms for the negative           *)
(* configurations (self-test against vacuity):                              *)
(*   "geq"       limit test with >= instead of >                            *)
(*   "nofresh"   no shard is opened when the last one is exhausted          *)
(*   "testfirst" limits tested before the point is added (one too many)     *)
(***************************************************************************)
EXTENDS PlacementRel, TLC

CONSTANTS MaxExisting,   \* existing shards 0..MaxExisting
          ShardFills,    \* set of [c |-> count, z |-> size] an existing shard may have
          MaxPts,        \* batch of 0..MaxPts points
          PointSizes,    \* set of point sizes
          SizeLimits, CountLimits,
          Variant

VARIABLES sh0, pts, maxZ, maxC,          \* the input (never changes)
          pc, ns, i, j, last, rz, rc, asg
vars == <<sh0, pts, maxZ, maxC, pc, ns, i, j, last, rz, rc, asg>>

In == [sh |-> sh0, pts |-> pts, maxZ |-> maxZ, maxC |-> maxC]
Out == [asg |-> asg, created |-> ns - Len(sh0)]
N == Len(pts)

\* CoupledFills(F) = fills in which size and count agree
CoupledFills(F) == {[c |-> f, z |-> f] : f \in F}
AllFills(C, Z) == {[c |-> c, z |-> z] : c \in C, z \in Z}
QuickFills == CoupledFills(0..3)
DeepFills == AllFills(0..3, 0..3)

Init ==
  /\ sh0 \in UNION {[1..k -> ShardFills] : k \in 0..MaxExisting}
  /\ pts \in UNION {[1..n -> PointSizes] : n \in 0..MaxPts}
  /\ maxZ \in SizeLimits /\ maxC \in CountLimits
  /\ Pre([sh |-> sh0, pts |-> pts, maxZ |-> maxZ, maxC |-> maxC])
  /\ pc = "start" /\ ns = 0 /\ i = 0 /\ j = 0 /\ last = 0 /\ rz = 0 /\ rc = 0 /\ asg = <<>>

Start ==
  /\ pc = "start"
  /\ ns' = IF Len(sh0) = 0 /\ N > 0 THEN 1 ELSE Len(sh0)
  /\ pc' = "outer"
  /\ UNCHANGED <<sh0, pts, maxZ, maxC, i, j, last, rz, rc, asg>>

Outer ==
  /\ pc = "outer"
  /\ IF i < ns
     THEN /\ j' = last /\ rz' = Siz0(In, i + 1) /\ rc' = Cnt0(In, i + 1) /\ pc' = "inner"
     ELSE /\ pc' = "done" /\ UNCHANGED <<j, rz, rc>>
  /\ UNCHANGED <<sh0, pts, maxZ, maxC, ns, i, last, asg>>

Over(z, c) == IF Variant = "geq" THEN z >= maxZ \/ c >= maxC ELSE z > maxZ \/ c > maxC

\* the point at j is taken (stay in the inner loop) ...
Takes ==
  /\ j < N
  /\ IF Variant = "testfirst" THEN ~Over(rz, rc) ELSE ~Over(rz + pts[j + 1], rc + 1)

\* shards the real code could ever open on this input (beyond that the wrong variants run away)
Bound == Len(sh0) + N + 1

Inner ==
  /\ pc = "inner"
  /\ IF Takes
     THEN /\ j' = j + 1 /\ rz' = rz + pts[j + 1] /\ rc' = rc + 1
          /\ UNCHANGED <<pc, ns, i, last, asg>>
     ELSE /\ asg' = IF j > last THEN Append(asg, [s |-> i + 1, lo |-> last, hi |-> j]) ELSE asg
          /\ last' = j
          /\ IF i = ns - 1 /\ j < N /\ Variant # "nofresh"
             THEN IF ns + 1 > Bound
                  THEN pc' = "diverged" /\ UNCHANGED <<ns, i>>
                  ELSE ns' = ns + 1 /\ i' = i + 1 /\ pc' = "outer"
             ELSE i' = i + 1 /\ pc' = "outer" /\ UNCHANGED ns
          /\ UNCHANGED <<j, rz, rc>>
  /\ UNCHANGED <<sh0, pts, maxZ, maxC>>

Next == Start \/ Outer \/ Inner
Spec == Init /\ [][Next]_vars /\ WF_vars(Next)

Done == pc = "done"
Terminates == pc # "diverged"
InvWellFormed == Done => WellFormed(In, Out)
InvPartition == Done => Partition(In, Out)
InvCountLimit == Done => CountLimit(In, Out)
InvSizeLimit == Done => SizeLimit(In, Out)
InvFresh == Done => FreshOnlyWhenNeeded(In, Out)
InvValid == Done => ValidAssignment(In, Out)
\* the functional transcription used by the trace oracle for coverage is the same algorithm
InvFunctional == Done => Out = Dist(In)
\* ranges are handed out in shard order and the running variables stay within the batch
InvShape == /\ 0 <= last /\ last <= N /\ (pc = "inner" => last <= j /\ j <= N)
            /\ \A x \in 1..Len(asg) : asg[x].hi <= last
Finishes == <>(pc \in {"done", "diverged"})
=============================================================================
