SPECIFICATION Spec
CONSTANTS
  Part = "sched"
  Lens <- LensSmall
  Unroll = 4
  Lanes = 8
  Variant = "drop_acc"
  W = 64
  BitLens <- BitLensSmall
  Vals <- Vals3
  Thrs <- Thr1
  Family = "all"
  BitVariant = "real"
INVARIANTS AllLanesOnce
