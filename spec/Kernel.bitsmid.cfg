SPECIFICATION Spec
CONSTANTS
  Part = "bits"
  Lens <- LensSmall
  Unroll = 4
  Lanes = 8
  Variant = "real"
  W = 4
  BitLens <- BitLensMid
  Vals <- Vals2
  Thrs <- Thr0
  Family = "all"
  BitVariant = "real"
INVARIANTS WordCount BitPlace PaddingZero HammingDef JaccardDef BitSymmetry
PROPERTY Returns
