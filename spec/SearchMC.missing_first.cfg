SPECIFICATION Spec
CONSTANTS
 NFull = 2
 NPage = 2
 Variant = "missing_first"
INVARIANTS ImplAccepted
CHECK_DEADLOCK FALSE
