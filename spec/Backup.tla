------------------------------- MODULE Backup -------------------------------
(***************************************************************************)
(* Rotation of shard backups (utils.BackupBBolt, called by the shard       *)
(* manager's idle routine through Shard.Backup): backup files are named by *)
(* the second they were taken; a call takes a new backup when the newest   *)
(* one is at least Freq seconds old, then removes all but the Count newest.*)
(* A backup is a copy taken inside a read transaction: the content of one  *)
(* committed version.  The only caller (the shard manager's idle routine)  *)
(* passes Freq >= 1; with Freq = 0 two calls within one second write the   *)
(* same file name twice and the rotation then removes that file (observed  *)
(* on the real function, outside the caller's domain).                     *)
(* Not one of the listed properties; part of the behaviour of the system   *)
(* the shard manager specification (C12) leaves abstract.                  *)
(***************************************************************************)
EXTENDS Integers, FiniteSets

CONSTANTS Freq, Count, MaxNow, MaxVer,
          KeepOldest     \* FALSE = the code as pinned; TRUE = the rotation removes from the wrong end

VARIABLES now,    \* clock (seconds)
          ver,    \* committed version of the database
          files,  \* timestamps of the backup files present
          snap,   \* timestamp -> version the file holds
          took    \* the last step was a call that copied the database
vars == <<now, ver, files, snap, took>>

MaxOf(S) == IF S = {} THEN 0 ELSE CHOOSE t \in S : \A u \in S : u <= t
Keep(F) == IF KeepOldest THEN {t \in F : Cardinality({u \in F : u < t}) < Count}
           ELSE {t \in F : Cardinality({u \in F : u > t}) < Count}

Init == now = 1 /\ ver = 0 /\ files = {} /\ snap = <<>> /\ took = FALSE

Tick == now < MaxNow /\ now' = now + 1 /\ took' = FALSE /\ UNCHANGED <<ver, files, snap>>
Write == ver < MaxVer /\ ver' = ver + 1 /\ took' = FALSE /\ UNCHANGED <<now, files, snap>>

\* one call; copied = FALSE models a failing copy (the rotation still runs)
Call(copied) ==
  LET due == files = {} \/ now - MaxOf(files) >= Freq     \* (no backup yet: the newest one counts as taken at time 0)
      F1 == IF due /\ copied THEN files \cup {now} ELSE files
  IN  /\ files' = Keep(F1)
      /\ snap' = [t \in Keep(F1) |-> IF t = now /\ due /\ copied THEN ver ELSE snap[t]]
      /\ took' = (due /\ copied)
      /\ UNCHANGED <<now, ver>>

Next == Tick \/ Write \/ Call(TRUE) \/ Call(FALSE)
Spec == Init /\ [][Next]_vars

TypeOK == files \subseteq 1..MaxNow /\ DOMAIN snap = files
AtMostCount == Cardinality(files) <= Count
Spaced == \A t, u \in files : t < u => u - t >= Freq
Faithful == /\ \A t \in files : snap[t] <= ver
            /\ \A t, u \in files : t < u => snap[t] <= snap[u]
\* the newest backup is never given up, and a backup that is due and succeeds holds the current version
NewestKept == [][MaxOf(files') >= MaxOf(files)]_vars
\* a copy that was taken is there afterwards, as the newest file, holding the current version
FreshWhenTaken == took => (now \in files /\ MaxOf(files) = now /\ snap[now] = ver)
=============================================================================
