--------------------------- MODULE ShardCacheSim ---------------------------
(***************************************************************************)
(* ShardCache.tla with a record of the actions taken, for the forced        *)
(* schedules of C09 (vh shard -mode sched): TLC prints behaviours (random   *)
(* simulation of the model with both pinned behaviours switched on, so that *)
(* the schedules behind the two known findings are among them).  The        *)
(* behaviours are replayed on a real shard; what the real searches answer   *)
(* is judged by ShardTrace.tla, not by this model.                          *)
(***************************************************************************)
EXTENDS ShardCache, Json
VARIABLE sched
Rec(a, x) == sched' = Append(sched, <<a, x>>)
SimInit == Init /\ sched = <<>>
SimNext ==
  \/ \E r \in Readers :
        \/ RBegin(r) /\ Rec("RBegin", r)
        \/ RAttachNew(r) /\ Rec("RAttachNew", r)
        \/ RAttachShared(r) /\ Rec("RAttachShared", r)
        \/ RAttachCold(r) /\ Rec("RAttachCold", r)
        \/ REnd(r) /\ Rec("REnd", r)
  \/ \E r \in Readers, k \in Keys :
        \/ RGetShared(r, k) /\ Rec("RGetShared", r)
        \/ RGetCold(r, k) /\ Rec("RGetCold", r)
  \/ WBegin /\ Rec("WBegin", "")
  \/ WAttach /\ Rec("WAttach", "")
  \/ WCommit /\ Rec("WCommit", "")
  \/ WFail /\ Rec("WFail", "")
  \/ Evict /\ Rec("Evict", "")
  \/ \E k \in Keys : WPut(k) /\ UNCHANGED sched
SimSpec == SimInit /\ [][SimNext]_<<vars, sched>>
SimView == vars
PrintBehaviour == (~ENABLED SimNext) => PrintT("BEHAVIOUR " \o ToJson([hist |-> sched]))
=============================================================================
