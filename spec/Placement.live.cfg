SPECIFICATION Spec
CONSTANTS
  MaxExisting = 2
  ShardFills <- QuickFills
  MaxPts = 3
  PointSizes = {1, 2}
  SizeLimits = {1, 2, 3, 4, 5, 6}
  CountLimits = {1, 2, 3}
  Variant = "real"
PROPERTY Finishes
CHECK_DEADLOCK FALSE
