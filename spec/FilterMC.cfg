SPECIFICATION Spec
CONSTANT NIds = 2
INVARIANT Algebra
CHECK_DEADLOCK FALSE
