SPECIFICATION Spec
CONSTANTS MaxId = 4
 R = 2
 Slack = 0
 SplitBack = FALSE
INVARIANTS TypeOK AtRest BoundAlways SearchSafe
CHECK_DEADLOCK FALSE
