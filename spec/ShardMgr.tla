------------------------------ MODULE ShardMgr ------------------------------
(***************************************************************************)
(* cluster/shardmgr.go: shard loading (DoWithShard / loadShard), the        *)
(* per-shard idle-unload goroutine (cleanupRoutine) and collection deletion *)
(* (DeleteCollectionShards), for ONE shard directory.                       *)
(*                                                                          *)
(* One action per critical section; the labels in comments are the names of *)
(* the hook-H3 yield points at which the real goroutine parks before the    *)
(* action.  Go sync.RWMutex semantics: a pending Lock() blocks new RLock()  *)
(* (lsWaiting).  FixLockOrder = FALSE is the code as it was pinned          *)
(* (cleanup: ls.mu then shardLock; deletion: shardLock then ls.mu);         *)
(* TRUE is the repaired order (cleanup releases ls.mu before taking         *)
(* shardLock and removes the map entry only if it is still its own).        *)
(* GuardUnstore = FALSE models the half repair that forgets that guard.     *)
(***************************************************************************)
EXTENDS Integers, FiniteSets, Sequences, TLC, Json

CONSTANTS Reqs,          \* request ids
          MaxLS,         \* bound on loadedShard objects created
          MaxDel,        \* number of DeleteCollectionShards calls
          FixLockOrder, GuardUnstore,
          MaxOpenFail,   \* how often opening the shard file may fail (damaged file, no descriptors)
          StoreBeforeOpen, \* FALSE = the code as pinned; TRUE = the entry is put into the store before the open
          RecordHist     \* TRUE only for simulation (behaviour extraction)

LS == 1..MaxLS
None == 0

VARIABLES
  shardLock,   \* "free" | "req" | "cl" | "del"
  store,       \* None or the ls stored under the shard dir
  nextLS,
  lsOpen,      \* [LS -> BOOLEAN]   ls.shard # nil
  lsReaders,   \* [LS -> SUBSET Reqs]
  lsWriter,    \* [LS -> "none" | "cl" | "del"]
  lsWaiting,   \* [LS -> SUBSET {"cl","del"}]  pending Lock() callers
  clPc,        \* [LS -> "none","select","fired","wantMu","haveMu","wantSL","done"]
  rPc, rLs,    \* request program counter / the ls it obtained
  dPc, dLs, dRound,
  fileOpen,    \* number of open database handles on the shard file
  dirExists,
  fails,       \* failed opens so far
  hist         \* history of actions (excluded from the VIEW)

vars == <<shardLock, store, nextLS, lsOpen, lsReaders, lsWriter, lsWaiting, clPc, rPc, rLs,
          dPc, dLs, dRound, fileOpen, dirExists, fails, hist>>
view == <<shardLock, store, nextLS, lsOpen, lsReaders, lsWriter, lsWaiting, clPc, rPc, rLs,
          dPc, dLs, dRound, fileOpen, dirExists, fails>>

Rec(a, x) == hist' = IF RecordHist THEN Append(hist, <<a, x>>) ELSE hist

Init ==
  /\ shardLock = "free" /\ store = None /\ nextLS = 1
  /\ lsOpen = [l \in LS |-> FALSE] /\ lsReaders = [l \in LS |-> {}]
  /\ lsWriter = [l \in LS |-> "none"] /\ lsWaiting = [l \in LS |-> {}]
  /\ clPc = [l \in LS |-> "none"]
  /\ rPc = [r \in Reqs |-> "start"] /\ rLs = [r \in Reqs |-> None]
  /\ dPc = "start" /\ dLs = None /\ dRound = 0
  /\ fileOpen = 0 /\ dirExists = FALSE /\ fails = 0
  /\ hist = <<>>

---------------------------------------------------------------------------
(* Requests: DoWithShard                                                   *)

\* [req.lockStore]  shardLock.Lock(); reuse + touch, or mkdir + open + spawn; Unlock()
ReqLoad(r) ==
  /\ rPc[r] = "start" /\ shardLock = "free"
  /\ IF store # None
     THEN /\ rLs' = [rLs EXCEPT ![r] = store]
          /\ rPc' = [rPc EXCEPT ![r] = "rlock"]
          /\ Rec("ReqLoad", r)
          /\ UNCHANGED <<store, nextLS, lsOpen, clPc, fileOpen, dirExists, fails>>
     ELSE /\ nextLS <= MaxLS
          /\ \/ \* mkdir + open + spawn the cleanup goroutine
                /\ store' = nextLS /\ rLs' = [rLs EXCEPT ![r] = nextLS]
                /\ lsOpen' = [lsOpen EXCEPT ![nextLS] = TRUE]
                /\ clPc' = [clPc EXCEPT ![nextLS] = "select"]
                /\ fileOpen' = fileOpen + 1 /\ dirExists' = TRUE
                /\ nextLS' = nextLS + 1
                /\ rPc' = [rPc EXCEPT ![r] = "rlock"]
                /\ Rec("ReqLoad", r)
                /\ UNCHANGED fails
             \/ \* the open fails: the call returns the error; nothing may stay behind
                /\ fails < MaxOpenFail
                /\ fails' = fails + 1 /\ dirExists' = TRUE
                /\ rPc' = [rPc EXCEPT ![r] = "err"]
                /\ IF StoreBeforeOpen
                   THEN \* a dead entry (no shard, no cleanup goroutine) is left in the store
                        /\ store' = nextLS /\ nextLS' = nextLS + 1
                   ELSE UNCHANGED <<store, nextLS>>
                /\ Rec("ReqLoadFail", r)
                /\ UNCHANGED <<rLs, lsOpen, clPc, fileOpen>>
  /\ UNCHANGED <<shardLock, lsReaders, lsWriter, lsWaiting, dPc, dLs, dRound>>

\* [req.rlock]  ls.mu.RLock(); nil check
ReqRLock(r) ==
  /\ rPc[r] = "rlock"
  /\ LET l == rLs[r] IN
       /\ lsWriter[l] = "none" /\ lsWaiting[l] = {}
       /\ lsReaders' = [lsReaders EXCEPT ![l] = @ \cup {r}]
       /\ rPc' = [rPc EXCEPT ![r] = IF lsOpen[l] THEN "inF" ELSE "errClosed"]
  /\ Rec("ReqRLock", r)
  /\ UNCHANGED <<shardLock, store, nextLS, lsOpen, lsWriter, lsWaiting, clPc, rLs, dPc, dLs, dRound, fileOpen, dirExists, fails>>

\* [req.run / return]  f(ls.shard) returns (or the clean error), RUnlock()
ReqDone(r) ==
  /\ rPc[r] \in {"inF", "errClosed"}
  /\ lsReaders' = [lsReaders EXCEPT ![rLs[r]] = @ \ {r}]
  /\ rPc' = [rPc EXCEPT ![r] = IF rPc[r] = "inF" THEN "ok" ELSE "err"]
  /\ Rec("ReqDone", r)
  /\ UNCHANGED <<shardLock, store, nextLS, lsOpen, lsWriter, lsWaiting, clPc, rLs, dPc, dLs, dRound, fileOpen, dirExists, fails>>

---------------------------------------------------------------------------
(* Cleanup goroutine of ls l                                               *)

\* the idle timer fires (at any time while the goroutine sits in its select)
ClTimer(l) ==
  /\ clPc[l] = "select" /\ clPc' = [clPc EXCEPT ![l] = "fired"]
  /\ Rec("ClTimer", l)
  /\ UNCHANGED <<shardLock, store, nextLS, lsOpen, lsReaders, lsWriter, lsWaiting, rPc, rLs, dPc, dLs, dRound, fileOpen, dirExists, fails>>

\* [cl.fired]  ls.mu.Lock() is requested: from now on new readers wait
ClLockReq(l) ==
  /\ clPc[l] = "fired" /\ clPc' = [clPc EXCEPT ![l] = "wantMu"]
  /\ lsWaiting' = [lsWaiting EXCEPT ![l] = @ \cup {"cl"}]
  /\ Rec("ClLockReq", l)
  /\ UNCHANGED <<shardLock, store, nextLS, lsOpen, lsReaders, lsWriter, rPc, rLs, dPc, dLs, dRound, fileOpen, dirExists, fails>>

ClLock(l) ==
  /\ clPc[l] = "wantMu" /\ lsWriter[l] = "none" /\ lsReaders[l] = {}
  /\ lsWriter' = [lsWriter EXCEPT ![l] = "cl"]
  /\ lsWaiting' = [lsWaiting EXCEPT ![l] = @ \ {"cl"}]
  /\ clPc' = [clPc EXCEPT ![l] = "haveMu"]
  /\ Rec("ClLock", l)
  /\ UNCHANGED <<shardLock, store, nextLS, lsOpen, lsReaders, rPc, rLs, dPc, dLs, dRound, fileOpen, dirExists, fails>>

\* nil check, (backup,) Close(), ls.shard = nil
ClClose(l) ==
  /\ clPc[l] = "haveMu"
  /\ IF ~lsOpen[l]
     THEN /\ lsWriter' = [lsWriter EXCEPT ![l] = "none"]
          /\ clPc' = [clPc EXCEPT ![l] = "done"]
          /\ UNCHANGED <<lsOpen, fileOpen, fails>>
     ELSE /\ lsOpen' = [lsOpen EXCEPT ![l] = FALSE] /\ fileOpen' = fileOpen - 1
          /\ lsWriter' = IF FixLockOrder THEN [lsWriter EXCEPT ![l] = "none"] ELSE lsWriter
          /\ clPc' = [clPc EXCEPT ![l] = "wantSL"]
  /\ Rec("ClClose", l)
  /\ UNCHANGED <<shardLock, store, nextLS, lsReaders, lsWaiting, rPc, rLs, dPc, dLs, dRound, dirExists, fails>>

\* [cl.lockStore]  shardLock.Lock(); delete(store, dir); Unlock(); (deferred ls.mu.Unlock())
ClUnstore(l) ==
  /\ clPc[l] = "wantSL" /\ shardLock = "free"
  /\ store' = IF FixLockOrder /\ GuardUnstore /\ store # l THEN store ELSE None
  /\ lsWriter' = IF FixLockOrder THEN lsWriter ELSE [lsWriter EXCEPT ![l] = "none"]
  /\ clPc' = [clPc EXCEPT ![l] = "done"]
  /\ Rec("ClUnstore", l)
  /\ UNCHANGED <<shardLock, nextLS, lsOpen, lsReaders, lsWaiting, rPc, rLs, dPc, dLs, dRound, fileOpen, dirExists, fails>>

---------------------------------------------------------------------------
(* DeleteCollectionShards                                                  *)

\* [del.lockStore]  shardLock.Lock(); stat / readdir; look the dir up in the store
DelStart ==
  /\ dPc = "start" /\ dRound < MaxDel /\ shardLock = "free"
  /\ shardLock' = "del" /\ dLs' = store
  /\ dPc' = IF ~dirExists THEN "unlock" ELSE IF store # None THEN "atLs" ELSE "remove"
  /\ Rec("DelStart", 0)
  /\ UNCHANGED <<store, nextLS, lsOpen, lsReaders, lsWriter, lsWaiting, clPc, rPc, rLs, dRound, fileOpen, dirExists, fails>>

\* [del.lockLs]  ls.mu.Lock() requested
DelLockReq ==
  /\ dPc = "atLs" /\ dPc' = "wantMu"
  /\ lsWaiting' = [lsWaiting EXCEPT ![dLs] = @ \cup {"del"}]
  /\ Rec("DelLockReq", 0)
  /\ UNCHANGED <<shardLock, store, nextLS, lsOpen, lsReaders, lsWriter, clPc, rPc, rLs, dLs, dRound, fileOpen, dirExists, fails>>

\* Lock acquired; signal the cleanup goroutine (non-blocking send succeeds only
\* if it sits in its select), Close(), ls.shard = nil, Unlock(); delete(store, dir)
DelLock ==
  /\ dPc = "wantMu" /\ lsWriter[dLs] = "none" /\ lsReaders[dLs] = {}
  /\ lsWaiting' = [lsWaiting EXCEPT ![dLs] = @ \ {"del"}]
  /\ IF lsOpen[dLs]
     THEN /\ lsOpen' = [lsOpen EXCEPT ![dLs] = FALSE] /\ fileOpen' = fileOpen - 1
          /\ clPc' = IF clPc[dLs] = "select" THEN [clPc EXCEPT ![dLs] = "done"] ELSE clPc
     ELSE UNCHANGED <<lsOpen, fileOpen, clPc, fails>>
  /\ store' = None
  /\ dPc' = "remove"
  /\ Rec("DelLock", 0)
  /\ UNCHANGED <<shardLock, nextLS, lsReaders, lsWriter, rPc, rLs, dLs, dRound, dirExists, fails>>

\* [del.remove]  os.RemoveAll(shardDir)
DelRemove ==
  /\ dPc = "remove" /\ store' = None /\ dirExists' = FALSE /\ dPc' = "unlock"
  /\ Rec("DelRemove", 0)
  /\ UNCHANGED <<shardLock, nextLS, lsOpen, lsReaders, lsWriter, lsWaiting, clPc, rPc, rLs, dLs, dRound, fileOpen, fails>>

DelUnlock ==
  /\ dPc = "unlock" /\ shardLock' = "free"
  /\ dRound' = dRound + 1
  /\ dPc' = "start"
  /\ Rec("DelUnlock", 0)
  /\ UNCHANGED <<store, nextLS, lsOpen, lsReaders, lsWriter, lsWaiting, clPc, rPc, rLs, dLs, fileOpen, dirExists, fails>>

---------------------------------------------------------------------------
ReqsDone == \A r \in Reqs : rPc[r] \in {"ok", "err"}
DelDone == dPc = "start" /\ dRound = MaxDel
Quiescent == \A l \in LS : clPc[l] \in {"none", "done", "select"}
Terminated == ReqsDone /\ DelDone /\ Quiescent

Step ==
  \/ \E r \in Reqs : ReqLoad(r) \/ ReqRLock(r) \/ ReqDone(r)
  \/ \E l \in LS : ClTimer(l) \/ ClLockReq(l) \/ ClLock(l) \/ ClClose(l) \/ ClUnstore(l)
  \/ DelStart \/ DelLockReq \/ DelLock \/ DelRemove \/ DelUnlock

Next == Step \/ (Terminated /\ UNCHANGED vars)
Spec == Init /\ [][Next]_vars

\* every call returns: fairness on everything but the timer (it may never fire)
Fair ==
  /\ \A r \in Reqs : WF_vars(ReqLoad(r)) /\ WF_vars(ReqRLock(r)) /\ WF_vars(ReqDone(r))
  /\ \A l \in LS : WF_vars(ClLockReq(l)) /\ WF_vars(ClLock(l)) /\ WF_vars(ClClose(l)) /\ WF_vars(ClUnstore(l))
  /\ WF_vars(DelStart) /\ WF_vars(DelLockReq) /\ WF_vars(DelLock) /\ WF_vars(DelRemove) /\ WF_vars(DelUnlock)
LiveSpec == Spec /\ Fair
EveryCallReturns == <>(ReqsDone /\ DelDone)

\* simulation: no terminal stuttering, a behaviour ends where nothing is enabled
SimSpec == Init /\ [][Step]_vars

---------------------------------------------------------------------------
(* Safety (C12)                                                            *)

NoUseAfterClose == \A r \in Reqs : rPc[r] = "inF" => lsOpen[rLs[r]]
NeverOpenTwice == fileOpen <= 1
NoRemoveWhileInUse == (dPc = "remove") => \A r \in Reqs : rPc[r] # "inF"
\* afterwards new requests can load shards again: nothing is left locked and
\* the store never keeps a closed shard for ever
AfterwardsLoadable ==
  Terminated => /\ shardLock = "free"
                /\ (store # None => (lsOpen[store] /\ lsWriter[store] = "none" /\ lsWaiting[store] = {}))
\* no state in which something is pending and nothing can move (deadlock)
NoDeadlock == (ENABLED Step) \/ Terminated

\* simulation helper: print finished behaviours (one line of JSON-like data)
PrintBehaviour == (~ENABLED Step) => PrintT("BEHAVIOUR " \o ToJson(hist))
=============================================================================
