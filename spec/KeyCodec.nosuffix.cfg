SPECIFICATION Spec
CONSTANTS
  Variant = "nosuffix"
  Models <- ModelsNegFixed
INVARIANTS RoundTrip KeyLength OrderIff StructuralOrder FixedKeys ScanOK
CHECK_DEADLOCK FALSE
