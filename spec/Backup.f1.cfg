SPECIFICATION Spec
CONSTANTS Freq = 1
 Count = 1
 MaxNow = 7
 MaxVer = 3
 KeepOldest = FALSE
INVARIANTS TypeOK AtMostCount Spaced Faithful FreshWhenTaken
PROPERTIES NewestKept
CHECK_DEADLOCK FALSE
