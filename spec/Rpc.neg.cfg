SPECIFICATION Spec
CONSTANTS Retries = 1
 MaxCrashes = 1
 CountShutdown = TRUE
INVARIANTS TypeOK NilMeansExecuted
CHECK_DEADLOCK FALSE
