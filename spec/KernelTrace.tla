---------------------------- MODULE KernelTrace ----------------------------
(***************************************************************************)
(* C20 oracle: TLC recomputes, from the abstract inputs logged by the       *)
(* driver `vh kernel`, the exact value every real distance function must    *)
(* have returned, and requires equality and symmetry.                       *)
(*                                                                          *)
(*  Meta  which implementation the dispatcher selected (asm / pure Go)      *)
(*  F     float kernels on integer-valued vectors x, y of length n given    *)
(*        as value patterns (expanded HERE by Vec): the results of          *)
(*        euclidean, dot, cosine (exported, dispatching) and of the         *)
(*        assembly kernels called directly, for the argument orders xy,     *)
(*        yx and xx (one slice twice).  Inputs are generated so that every  *)
(*        partial sum in any order is an integer below 2^24: float32        *)
(*        arithmetic is then exact and the result must be THE integer       *)
(*            euclidean = SUM (x[i]-y[i])^2     dot = -SUM x[i]*y[i]        *)
(*            cosine = 1 - SUM x[i]*y[i]                                    *)
(*  B     binary quantiser + hamming / jaccard: component i is above the    *)
(*        threshold iff  x[i] * td > SUM_j tn[j][i]  (threshold = tn/td;    *)
(*        for a learned threshold tn are the fitted vectors, td their       *)
(*        number).  The persisted words (four 16-bit chunks per 64-bit      *)
(*        word) must hold component i in word i div 64 at position          *)
(*        i mod 64 (the packing of Kernel.tla); every distance, whichever   *)
(*        route it was obtained by (fresh encoding, stored point, reopened  *)
(*        store, exported bit function on the persisted words):             *)
(*        hamming = |S symdiff T|; jaccard (logged as round(d*10^5)) =      *)
(*        1 - |S cap T| / |S cup T| within one unit, 0 when both empty.     *)
(*  S     arbitrary float inputs: the bit patterns of f(x,y) and f(y,x)     *)
(*        must be identical (symmetry is exact even under rounding).        *)
(***************************************************************************)
EXTENDS Integers, Sequences, FiniteSets, TLC, Json, Functions

CONSTANTS TraceFile, KnownFindings
Trace == ndJsonDeserialize(TraceFile)

VARIABLES l, kf
vars == <<l, kf>>

TraceInit == l = 1 /\ kf = {}

E == Trace[l]
IsEvent(name) == l <= Len(Trace) /\ Trace[l].ev = name /\ l' = l + 1

\* ------------------------------------------------------------ value patterns
\* s itself, for a sequence s.  (TLC keeps [k \in 1..n |-> e] as an unevaluated closure and evaluates e
\* anew at every application; concatenation makes it tabulate the values once.)
Tab(s) == s \o <<>>

\* s with the first m spikes of pattern p written over it (spikes do not repeat a position)
RECURSIVE Spiked(_, _, _)
Spiked(s, p, m) == IF m = 0 THEN s ELSE [Spiked(s, p, m - 1) EXCEPT ![p.at[m] + 1] = p.cs[m]]

\* The vector of length n described by pattern p, as a sequence: element k of the sequence is the
\* component with the 0-based index i = k - 1.  Twin of kd.Pat.Val in the driver.
Vec(p, n) ==
  CASE p.k = "zero"  -> Tab([k \in 1..n |-> 0])
    [] p.k = "const" -> Tab([k \in 1..n |-> p.c])
    [] p.k = "lit"   -> SubSeq(p.v, 1, n)
    [] p.k = "spike" -> Spiked(Tab([k \in 1..n |-> p.bg]), p, Len(p.at))
    [] p.k = "ramp"  -> Tab([k \in 1..n |-> ((p.a * (k - 1) + p.b) % p.m) - p.s])
    [] p.k = "alt"   -> Tab([k \in 1..n |-> IF (k - 1) % 2 = 0 THEN p.c ELSE 0 - p.c])
    [] p.k = "hash"  -> Tab([k \in 1..n |-> (((((k - 1) + p.b) * 7919) % 8191) % p.m) - p.s])
    [] p.k = "lane"  -> Tab([k \in 1..n |-> IF (k - 1) % p.m = p.r THEN p.c ELSE p.bg])

\* SUM of the values of a function with a finite domain
SumFn(f) == FoldFunction(LAMBDA a, b : a + b, 0, f)

\* the definitions, on vectors X, Y given as sequences of integers of equal length
SqDist(X, Y) == SumFn([k \in 1..Len(X) |-> LET d == X[k] - Y[k] IN d * d])
DotProd(X, Y) == SumFn([k \in 1..Len(X) |-> X[k] * Y[k]])

\* ------------------------------------------------------------------- Meta
TMeta ==
  /\ IsEvent("Meta")
  /\ E.impl \in {"asm", "pure"}
  /\ E.want = "pure" => E.impl = "pure"
  /\ E.direct = 1 => E.impl = "asm"
  /\ UNCHANGED kf

\* ---------------------------------------------------------------------- F
FloatFns == {"euclidean", "dot", "cosine", "asm.sqeuclid", "asm.dot"}

\* the definition, from squared distance sq and dot product dt of the two arguments
Expected(f, sq, dt) ==
  CASE f = "euclidean"    -> sq
    [] f = "asm.sqeuclid" -> sq
    [] f = "dot"          -> 0 - dt
    [] f = "asm.dot"      -> dt
    [] f = "cosine"       -> 1 - dt

FloatResults(R, sq, dt, xx) ==
  /\ R # {}
  /\ \A res \in R :
       /\ res.f \in FloatFns /\ res.o \in {"xy", "yx", "xx"}
       /\ res.c = "int"             \* an integer: not NaN / Inf / fractional / a memory fault
       /\ res.v = (IF res.o = "xx" THEN Expected(res.f, 0, xx) ELSE Expected(res.f, sq, dt))
  \* symmetry, stated on its own: both argument orders were measured and agree
  /\ \A a \in R : a.o = "xy" => \E b \in R : b.f = a.f /\ b.o = "yx" /\ b.c = a.c /\ b.v = a.v

FloatCase(X, Y) == FloatResults({E.r[j] : j \in 1..Len(E.r)}, SqDist(X, Y), DotProd(X, Y), DotProd(X, X))

TF ==
  /\ IsEvent("F")
  /\ E.n >= 1 /\ E.n <= 4096
  /\ FloatCase(Vec(E.x, E.n), Vec(E.y, E.n))
  /\ UNCHANGED kf

\* ---------------------------------------------------------------------- B
Pow2(k) == CASE k = 0 -> 1 [] k = 1 -> 2 [] k = 2 -> 4 [] k = 3 -> 8 [] k = 4 -> 16 [] k = 5 -> 32 [] k = 6 -> 64
             [] k = 7 -> 128 [] k = 8 -> 256 [] k = 9 -> 512 [] k = 10 -> 1024 [] k = 11 -> 2048 [] k = 12 -> 4096
             [] k = 13 -> 8192 [] k = 14 -> 16384 [] k = 15 -> 32768 [] k = 16 -> 65536

WordBits == 64
JaccardScale == 100000

\* (Style note: TLC remembers the value of an operator ARGUMENT but re-evaluates a LET definition
\* at every use inside an action; whatever is used once per component is therefore passed down as
\* an argument.)

\* numerator of the threshold of every component: the sum of the vectors TV[j]
ThrOf(TV, n) == Tab([k \in 1..n |-> SumFn([j \in 1..Len(TV) |-> TV[j][k]])])
ThrNum == ThrOf(Tab([j \in 1..Len(E.tn) |-> Vec(E.tn[j], E.n)]), E.n)
\* the thresholded vector: the indicator sequence of the set {i : x[i] > threshold[i]},
\* threshold[i] = TN[i] / td
BitsOf(X, TN, td) == Tab([k \in 1..Len(X) |-> X[k] * td > TN[k]])
\* |{k : P[k]}|
Card(P) == SumFn([k \in 1..Len(P) |-> IF P[k] THEN 1 ELSE 0])
SymDiffCard(S, T) == Card([k \in 1..Len(S) |-> S[k] # T[k]])     \* |S symdiff T|
UnionCard(S, T) == Card([k \in 1..Len(S) |-> S[k] \/ T[k]])      \* |S cup T|
InterCard(S, T) == Card([k \in 1..Len(S) |-> S[k] /\ T[k]])      \* |S cap T|

\* chunk c (0..3) of word w (0-based) of the packing of S: bit i -> word i div 64, position i mod 64
\* (positions >= n contribute nothing)
Chunk(S, w, c) ==
  SumFn([j \in 0..15 |-> LET i == w * WordBits + c * 16 + j IN IF i < Len(S) /\ S[i + 1] THEN Pow2(j) ELSE 0])
\* number of positions of chunk c of word w that are components (< n); the rest is padding
Valid(S, w, c) == LET left == Len(S) - (w * WordBits + c * 16) IN IF left <= 0 THEN 0 ELSE IF left >= 16 THEN 16 ELSE left
\* the words hold every component at its place.  Padding positions are not constrained here: the
\* property speaks about the distances, and those are checked against the sets themselves.
Packed(ws, S) ==
  /\ Len(ws) >= (Len(S) + WordBits - 1) \div WordBits
  /\ \A w \in 1..Len(ws) :
       /\ Len(ws[w]) = 4
       /\ \A c \in 1..4 : ws[w][c] >= 0 /\ ws[w][c] < 65536
                           /\ ws[w][c] % Pow2(Valid(S, w - 1, c - 1)) = Chunk(S, w - 1, c - 1)

\* v is an acceptable scaled jaccard distance for intersection i and union u
JacOK(v, i, u) == IF u = 0 THEN v = 0
                  ELSE /\ v >= 0 /\ v <= JaccardScale
                       /\ v * u - JaccardScale * (u - i) <= u
                       /\ JaccardScale * (u - i) - v * u <= u

BitResults(R, met, ham, uni, inter, us) ==
  /\ {res.f : res \in R} = {"sf", "sp", "fn", "cold", "coldf"}
  /\ \A res \in R :
       /\ res.c = "int"
       /\ IF met = "hamming"
            THEN res.v = (IF res.o = "xx" THEN 0 ELSE ham)
            ELSE IF res.o = "xx" THEN JacOK(res.v, us, us) ELSE JacOK(res.v, inter, uni)
  \* symmetry, stated on its own
  /\ \A a \in R : a.o = "xy" /\ a.f # "coldf" => \E b \in R : b.f = a.f /\ b.o = "yx" /\ b.v = a.v

BitCase(S, T) ==
  /\ Packed(E.wx, S) /\ Packed(E.wy, T)
  /\ BitResults({E.r[j] : j \in 1..Len(E.r)}, E.met, SymDiffCard(S, T), UnionCard(S, T), InterCard(S, T), Card(S))

BitCaseThr(TN) == BitCase(BitsOf(Vec(E.x, E.n), TN, E.td), BitsOf(Vec(E.y, E.n), TN, E.td))

TB ==
  /\ IsEvent("B")
  /\ E.n >= 1 /\ E.n <= 4096 /\ E.td >= 1 /\ E.met \in {"hamming", "jaccard"}
  /\ BitCaseThr(ThrNum)
  /\ UNCHANGED kf

\* ---------------------------------------------------------------------- S
TS ==
  /\ IsEvent("S")
  /\ Len(E.r) >= 1
  /\ \A j \in 1..Len(E.r) : E.r[j].xy = E.r[j].yx
  /\ UNCHANGED kf

TraceNext == TMeta \/ TF \/ TB \/ TS
TraceSpec == TraceInit /\ [][TraceNext]_vars

WF == l >= 1 /\ kf \subseteq KnownFindings
TraceAccepted == TLCGet("stats").diameter - 1 = Len(Trace)
ReportKF == (l = Len(Trace) + 1) => PrintT(<<"KF", kf>>)
=============================================================================
