---------------------------- MODULE BackupTrace ----------------------------
(***************************************************************************)
(* Trace validation of the real Shard.Backup / utils.BackupBBolt against   *)
(* the rotation rule of Backup.tla.  The driver (vh backup) interleaves    *)
(* write batches, sleeps and backup calls on a real shard file and logs,   *)
(* after every call, the backup files present and a digest of the content  *)
(* each of them holds when it is opened as a shard; digests of the live    *)
(* shard are logged after every batch.  Times are seconds relative to the  *)
(* start of the history; a call that straddles a second boundary may have  *)
(* read either second.  Lines of the shard vocabulary (Insert, Update, ...) *)
(* in the same trace are skipped here.                                     *)
(***************************************************************************)
EXTENDS Integers, Sequences, FiniteSets, TLC, Json

CONSTANTS TraceFile, KnownFindings
Trace == ndJsonDeserialize(TraceFile)

VARIABLES l, kf,
          freq, count,
          cur,     \* digest of the live content
          files    \* timestamp -> digest of the content of that backup file
vars == <<l, kf, freq, count, cur, files>>

E == Trace[l]
Mine == {"BReset", "BWrite", "BBackup"}
IsEvent(name) == l <= Len(Trace) /\ Trace[l].ev = name /\ l' = l + 1

MaxOf(S) == IF S = {} THEN 0 ELSE CHOOSE t \in S : \A u \in S : u <= t
Keep(F) == {t \in F : Cardinality({u \in F : u > t}) < count}

TReset ==
  /\ IsEvent("BReset")
  /\ freq' = E.freq /\ count' = E.count /\ cur' = E.dig /\ files' = <<>> /\ UNCHANGED kf

\* a batch that failed leaves the content as it was
TWrite ==
  /\ IsEvent("BWrite")
  /\ IF E.ok = 1 THEN cur' = E.dig ELSE E.dig = cur /\ cur' = cur
  /\ UNCHANGED <<kf, freq, count, files>>

Obs == [t \in {E.files[k].t : k \in DOMAIN E.files} |-> E.files[CHOOSE k \in DOMAIN E.files : E.files[k].t = t].dig]

TBackup ==
  /\ IsEvent("BBackup")
  /\ Len(E.files) = Cardinality({E.files[k].t : k \in DOMAIN E.files})
  /\ E.err = 0
  /\ \E now \in E.t0..E.t1 :
        LET due == DOMAIN files = {} \/ now - MaxOf(DOMAIN files) >= freq
            F1 == IF due THEN DOMAIN files \cup {now} ELSE DOMAIN files
            K == Keep(F1)
        IN  /\ DOMAIN Obs = K
            /\ \A t \in K : Obs[t] = (IF t = now /\ due THEN cur ELSE files[t])
  /\ files' = Obs
  /\ UNCHANGED <<kf, freq, count, cur>>

TOther == l <= Len(Trace) /\ Trace[l].ev \notin Mine /\ l' = l + 1 /\ UNCHANGED <<kf, freq, count, cur, files>>

TraceInit == l = 1 /\ kf = {} /\ freq = 0 /\ count = 0 /\ cur = "" /\ files = <<>>
TraceNext == TReset \/ TWrite \/ TBackup \/ TOther
TraceSpec == TraceInit /\ [][TraceNext]_vars
TraceView == l
WF == Cardinality(DOMAIN files) <= count \/ l = 1
TraceAccepted == TLCGet("stats").diameter - 1 = Len(Trace)
ReportKF == (l = Len(Trace) + 1) => PrintT(<<"KF", kf>>)
=============================================================================
