\* NEGATIVE: collection quota counted over all keys of the bucket: a creation of one user changes what the other may create -> Isolation must fail
SPECIFICATION Spec
CONSTANTS
  UserAlpha = {"a", "b"}
  UserMaxLen = 2
  AllowDotIds = FALSE
  ColAlpha = {"a", "b"}
  UriSlash = FALSE
  ColMaxLen = 2
  Points = {1}
  MaxCols1 = 1
  MaxCols2 = 2
  MaxPts = 1
  Sids = {s1, s2, s3}
  ScanDelim = TRUE
  DirMode = "usercol"
  QuotaMode = "all"
INVARIANTS TypeOK Isolation
SYMMETRY SidPerm
CHECK_DEADLOCK FALSE
