------------------------------- MODULE Quant -------------------------------
(***************************************************************************)
(* Life cycle of a quantised vector store (shard/vectorstore/binary.go,     *)
(* product.go over cache.ItemCache): which keys of the index bucket hold a  *)
(* point's vector before and after the quantiser is trained.                *)
(*                                                                          *)
(*   'v'<id>  the full vector          'q'<id>  the quantised form          *)
(*                                                                          *)
(* A write batch sets vectors (insert / update), removes some, then calls   *)
(* Fit (trains once, when the store holds at least Trigger vectors; the     *)
(* entry node of a graph index counts) and flushes:                         *)
(*   binary   untrained: 'v' only.  Training encodes EVERY point and        *)
(*            rewrites it; a point with a quantised form is written under   *)
(*            'q' only, so points stored before the training keep their     *)
(*            'v' key besides the new 'q' key, later ones have 'q' only.    *)
(*            A cold read prefers 'q'.  (A fixed threshold = trained from   *)
(*            the start.)                                                   *)
(*   product  'v' always, 'q' in addition once trained; cold enumeration    *)
(*            goes by 'v'.                                                  *)
(* Removing a point removes both keys (DeleteBoth = FALSE is the seeded     *)
(* change C04-G: only the key the point is "stored under").                 *)
(*                                                                          *)
(* Warm answers = cold answers (C04, C08) needs: every live point can be    *)
(* found and read from the bucket alone, nothing else can, and once the     *)
(* quantiser is trained every point has its quantised form.                 *)
(***************************************************************************)
EXTENDS Naturals, FiniteSets

CONSTANTS Ids, Trigger,
          Kind,        \* "binary" | "product"
          Fixed,       \* binary with a threshold given in the schema: trained from the start
          Entry,       \* 1 for a graph index (its entry node holds a vector and counts), 0 for a flat one
          DeleteBoth   \* TRUE = the code as pinned

VARIABLES W,        \* ids holding a vector
          trained,
          kv, kq    \* ids with a 'v' / 'q' key in the bucket
vars == <<W, trained, kv, kq>>

Init == W = {} /\ trained = Fixed /\ kv = {} /\ kq = {}

\* one successful write batch: vectors set for ids in set (new or existing), ids in del removed
Batch(set, del) ==
  /\ set \cap del = {} /\ del \subseteq W /\ set \cup del # {}
  /\ LET W2    == (W \ del) \cup set
         train == ~trained /\ Cardinality(W2) + Entry >= Trigger
         now   == trained \/ train
         \* keys that survive the removals
         v0 == IF DeleteBoth THEN kv \ del ELSE kv \ (del \ kq)
         q0 == kq \ del
     IN  /\ W' = W2 /\ trained' = now
         /\ IF Kind = "product"
            THEN /\ kv' = v0 \cup set
                 /\ kq' = IF train THEN W2 ELSE IF now THEN q0 \cup set ELSE q0
            ELSE /\ kv' = IF now THEN v0 ELSE v0 \cup set
                 /\ kq' = IF train THEN W2 ELSE IF now THEN q0 \cup set ELSE q0

Next == \E set, del \in SUBSET Ids : Batch(set, del)
Spec == Init /\ [][Next]_vars

----------------------------------------------------------------------------
TypeOK == W \subseteq Ids /\ kv \subseteq Ids /\ kq \subseteq Ids /\ trained \in BOOLEAN
\* nothing but live points can be read from the bucket
NoOrphan == kv \cup kq \subseteq W
\* every live point can be read from the bucket alone
Readable == W \subseteq kv \cup kq
\* once trained, every point has its quantised form; before, none has
TrainedAllQ == trained => kq = W
UntrainedNoQ == ~trained => (kq = {} /\ kv = W)
\* a product-quantised store is enumerated by its 'v' keys
ProductByV == Kind = "product" => kv = W
\* training happens when, and only when, the store has reached the trigger (it is never undone)
TrainedWhenDue == (~trained) => Cardinality(W) + Entry < Trigger
=============================================================================
