\* C16 design check: every ordered pair of user ids over {a,b} of length 1..2 (prefix pairs a/ab, b/ba, user+collection coincidences a+ba = ab+a), names of length 1..2
SPECIFICATION Spec
CONSTANTS
  UserAlpha = {"a", "b"}
  UserMaxLen = 2
  AllowDotIds = FALSE
  ColAlpha = {"a", "b"}
  UriSlash = FALSE
  ColMaxLen = 2
  Points = {1}
  MaxCols1 = 1
  MaxCols2 = 2
  MaxPts = 1
  Sids = {s1, s2, s3}
  ScanDelim = TRUE
  DirMode = "usercol"
  QuotaMode = "prefix"
INVARIANTS TypeOK Isolation Conforms DirsDisjoint
SYMMETRY SidPerm
CHECK_DEADLOCK FALSE
