----------------------------- MODULE SyncTrace -----------------------------
(***************************************************************************)
(* Monitor for C14 on real node processes: after the server list changed,   *)
(* every participating node (a child process started with the new list)     *)
(* runs its start-up synchronisation, possibly under an injected fault      *)
(* (hook H4: fail / exit at send chunk k, receive chunk k, between the two  *)
(* phases); afterwards fault-free synchronisations must complete the move.  *)
(*                                                                          *)
(*  SReset  nodes, files [f, owner, chunks], recs [r, owner], fault         *)
(*  STree   for every node directory and file: 0 absent, 1 present but not  *)
(*          identical to the original, 2 byte-identical                     *)
(*  SRecs   for every LIVE node and collection record: present or not       *)
(*  SSync   a node ran its synchronisation: ok, died, clean (no fault       *)
(*          injected any more)                                              *)
(*  SDied   a node process is gone                                          *)
(*  SRound  two clean rounds are over                                       *)
(*  SRead   a collection's points read through the new deployment           *)
(***************************************************************************)
EXTENDS Integers, Sequences, FiniteSets, TLC, Json

CONSTANTS TraceFile, KnownFindings
Trace == ndJsonDeserialize(TraceFile)

VARIABLES l, nodes, fowner, rowner, fault, prev, placedDue, kf
vars == <<l, nodes, fowner, rowner, fault, prev, placedDue, kf>>

TraceInit == l = 1 /\ nodes = {} /\ fowner = <<>> /\ rowner = <<>> /\ fault = "" /\ prev = <<>> /\ placedDue = FALSE /\ kf = {}

E == Trace[l]
IsEvent(name) == l <= Len(Trace) /\ Trace[l].ev = name /\ l' = l + 1
AsSet(s) == {s[i] : i \in DOMAIN s}

TReset ==
  /\ IsEvent("SReset")
  /\ nodes' = AsSet(E.nodes)
  /\ fowner' = [f \in {E.files[k].f : k \in DOMAIN E.files} |-> E.files[CHOOSE k \in DOMAIN E.files : E.files[k].f = f].owner]
  /\ rowner' = [r \in {E.recs[k].r : k \in DOMAIN E.recs} |-> E.recs[CHOOSE k \in DOMAIN E.recs : E.recs[k].r = r].owner]
  /\ fault' = E.fault /\ prev' = <<>> /\ placedDue' = FALSE /\ UNCHANGED kf

\* tree as a function <<node, file>> -> state
TreeOf(fs) == [p \in {<<fs[k][1], fs[k][2]>> : k \in DOMAIN fs} |->
                 fs[CHOOSE k \in DOMAIN fs : fs[k][1] = p[1] /\ fs[k][2] = p[2]][3]]

TTree ==
  /\ IsEvent("STree")
  /\ LET now == TreeOf(E.files) IN
       \* nothing is ever lost: a byte-identical complete copy exists somewhere
       /\ \A f \in DOMAIN fowner : \E n \in nodes : <<n, f>> \in DOMAIN now /\ now[<<n, f>>] = 2
       \* a source copy is removed only after the owner holds a verified copy
       /\ \A p \in DOMAIN now : (p \in DOMAIN prev /\ prev[p] = 2 /\ now[p] = 0) => now[<<fowner[p[2]], p[2]>>] = 2
       \* after the clean rounds every file resides on exactly its owner
       /\ placedDue => \A p \in DOMAIN now : now[p] = (IF p[1] = fowner[p[2]] THEN 2 ELSE 0)
       /\ prev' = now
  /\ UNCHANGED <<nodes, fowner, rowner, fault, placedDue, kf>>

TRecs ==
  /\ IsEvent("SRecs")
  /\ LET seen == {E.recs[k][1] : k \in DOMAIN E.recs}
         has(n, r) == \E k \in DOMAIN E.recs : E.recs[k][1] = n /\ E.recs[k][2] = r /\ E.recs[k][3] = 1
     IN  \* when every node answers, every record is somewhere ...
         /\ (seen = nodes => \A r \in DOMAIN rowner : \E n \in nodes : has(n, r))
         \* ... and after the clean rounds on exactly its owner
         /\ placedDue => (seen = nodes /\ \A r \in DOMAIN rowner : \A n \in nodes : has(n, r) <=> n = rowner[r])
  /\ UNCHANGED <<nodes, fowner, rowner, fault, prev, placedDue, kf>>

\* a fault-free synchronisation on a deployment where everybody is up succeeds
TSync ==
  /\ IsEvent("SSync")
  /\ (E.clean = 1 => (E.ok = 1 /\ E.died = 0))
  /\ (E.died = 1 => fault # "")
  /\ UNCHANGED <<nodes, fowner, rowner, fault, prev, placedDue, kf>>

\* a node process may disappear only where a fault was injected
TDied == IsEvent("SDied") /\ fault # "" /\ UNCHANGED <<nodes, fowner, rowner, fault, prev, placedDue, kf>>

TRound == IsEvent("SRound") /\ E.ok = 1 /\ placedDue' = TRUE /\ UNCHANGED <<nodes, fowner, rowner, fault, prev, kf>>

\* all previously stored points remain readable
TRead == IsEvent("SRead") /\ E.ok = 1 /\ E.ids = E.want /\ UNCHANGED <<nodes, fowner, rowner, fault, prev, placedDue, kf>>

\* old versions of moving records planted on their destinations before the synchronisation (no effect by itself)
TPlant == IsEvent("SPlant") /\ UNCHANGED <<nodes, fowner, rowner, fault, prev, placedDue, kf>>

TraceNext == TPlant \/ TReset \/ TTree \/ TRecs \/ TSync \/ TDied \/ TRound \/ TRead
TraceSpec == TraceInit /\ [][TraceNext]_vars

WF == TRUE
TraceView == l
TraceAccepted == TLCGet("stats").diameter - 1 = Len(Trace)
ReportKF == (l = Len(Trace) + 1) => PrintT(<<"KF", kf>>)
=============================================================================
