--------------------------------- MODULE Api ---------------------------------
(***************************************************************************)
(* C18, design level.  The server is abstracted to the digest of every     *)
(* collection of every user (a version counter per collection here).  One  *)
(* step = one request of the mutation catalogue (ApiCat) answered by a     *)
(* MODEL server, followed by the harness restoring the reference world.    *)
(*                                                                         *)
(* Server = "ideal" answers every case the way its label allows (all the   *)
(* allowed answers are explored): the invariant Judged says that the rule  *)
(* set Conforms of ApiCat accepts every such answer, on every case of the  *)
(* catalogue - i.e. the rules never raise a false alarm against a correct  *)
(* server, and `Reject => UNCHANGED` holds by RejectUnchanged.             *)
(* The other values of Server are deliberately wrong servers (negative     *)
(* configurations): TLC must report Judged violated for each of them.      *)
(*   leaky     refuses a mustReject request with 4xx but has already       *)
(*             changed the addressed collection                            *)
(*   lax       answers 2xx to a mustReject request                         *)
(*   fragile   answers 500 to a valid request                              *)
(*   bystander a valid write also changes another user's collection        *)
(*   crashy    dies on a request the label leaves open                     *)
(* TLC also writes the catalogue out (ASSUME below) for the Go driver.     *)
(***************************************************************************)
EXTENDS ApiCat, Json

CONSTANTS Server,         \* "ideal" | "leaky" | "lax" | "fragile" | "bystander" | "crashy"
          CatalogueFile   \* where the ndjson catalogue is written ("" = nowhere)

ASSUME CatalogueWF
ASSUME CatalogueFile = "" \/ ndJsonSerialize(CatalogueFile, Catalogue)
ASSUME PrintT(<<"CATALOGUE", NCases,
                Cardinality({i \in 1..NCases : Catalogue[i].lab = "reject"}),
                Cardinality({i \in 1..NCases : Catalogue[i].lab = "accept"}),
                Cardinality({i \in 1..NCases : Catalogue[i].lab = "either"}),
                Cardinality({i \in 1..NCases : Catalogue[i].lab = "nonfinite"}),
                Cardinality({i \in 1..NCases : Catalogue[i].risk = 1})>>)

VARIABLES st,     \* sequence of [u, c, d]: the digest of every collection (d = a version number as a string)
          last    \* the last observation: [cid, status, crashed, aborted, pre, post] or None
vars == <<st, last>>

Ref == [i \in 1..Len(World) |-> [u |-> World[i].u, c |-> World[i].c, d |-> "0"]]
None == [cid |-> 0, status |-> 0, crashed |-> 0, aborted |-> 0, pre |-> <<>>, post |-> <<>>]
Init == st = Ref /\ last = None

\* state transformers of the model server
Bump(s, u, c) == [i \in 1..Len(s) |-> IF s[i].u = u /\ s[i].c = c THEN [s[i] EXCEPT !.d = "1"] ELSE s[i]]
Drop(s, u, c) == SelectSeq(s, LAMBDA e : ~(e.u = u /\ e.c = c))
Add(s, u) == s \o <<[u |-> u, c |-> "~new", d |-> "0"]>>
Apply(c, s) ==
  CASE c.eff = "none" -> {s}
    [] c.eff = "change" -> {Bump(s, c.u, c.col)}
    [] c.eff = "maychange" -> {s, Bump(s, c.u, c.col)}
    [] c.eff = "addcol" -> {Add(s, c.u)}
    [] c.eff = "delcol" -> {Drop(s, c.u, c.col)}
SomeOther(c, s) == CHOOSE i \in 1..Len(s) : s[i].u # c.u

Obs(c, status, crashed, post) == [cid |-> c.cid, status |-> status, crashed |-> crashed, aborted |-> 0, pre |-> st, post |-> post]

\* the answers of the ideal server to case c in state st
Ideal(c) ==
  CASE c.lab = "reject" -> {Obs(c, 400, 0, st), Obs(c, 404, 0, st), Obs(c, 403, 0, st)}
    [] c.lab = "accept" -> {Obs(c, 200, 0, p) : p \in Apply(c, st)}
    [] c.lab = "either" -> {Obs(c, 400, 0, st)} \cup {Obs(c, 200, 0, p) : p \in Apply(c, st) \cup (IF c.eff \in {"change", "delcol"} THEN {st} ELSE {})}
    [] c.lab = "nonfinite" -> {Obs(c, 400, 0, st), Obs(c, 500, 0, st)}
                              \cup {Obs(c, sc, 0, p) : sc \in {200, 500}, p \in Apply(c, st)}

Faulty(c) ==
  CASE Server = "leaky" /\ c.lab = "reject" /\ c.eff \in {"change", "maychange"} -> {Obs(c, 400, 0, Bump(st, c.u, c.col))}
    [] Server = "lax" /\ c.lab = "reject" -> {Obs(c, 200, 0, st)}
    [] Server = "fragile" /\ c.lab = "accept" -> {Obs(c, 500, 0, st)}
    [] Server = "bystander" /\ c.lab = "accept" /\ c.eff = "change" ->
         {Obs(c, 200, 0, LET o == SomeOther(c, st) IN Bump(Bump(st, c.u, c.col), st[o].u, st[o].c))}
    [] Server = "crashy" /\ c.lab = "either" -> {[Obs(c, 0, 1, st) EXCEPT !.crashed = 1]}
    [] OTHER -> {}

Request == /\ last.cid = 0
           /\ \E i \in 1..NCases : \E o \in Ideal(Catalogue[i]) \cup Faulty(Catalogue[i]) :
                 last' = o /\ st' = o.post
\* the harness restores the reference world after every judged request
Restore == last.cid # 0 /\ last' = None /\ st' = Ref
Next == Request \/ Restore
Spec == Init /\ [][Next]_vars

\* the rules accept the observation
Judged == last.cid = 0 \/ Conforms(Catalogue[last.cid], last)
\* Reject => UNCHANGED, whatever else the rules say
RejectUnchanged == (last.cid # 0 /\ Catalogue[last.cid].lab = "reject") => last.pre = last.post
\* a case that is not "nonfinite" is never answered 5xx, and nothing ever crashes
NoServerError == last.cid = 0 \/ (last.crashed = 0 /\ (Catalogue[last.cid].lab # "nonfinite" => last.status < 500))
=============================================================================
