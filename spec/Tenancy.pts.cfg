\* C16 design check, thorough tier: as Tenancy.cfg with two points per collection and a point quota of 2
SPECIFICATION Spec
CONSTANTS
  UserAlpha = {"a", "b"}
  UserMaxLen = 2
  AllowDotIds = FALSE
  ColAlpha = {"a", "b"}
  UriSlash = FALSE
  ColMaxLen = 2
  Points = {1, 2}
  MaxCols1 = 1
  MaxCols2 = 2
  MaxPts = 2
  Sids = {s1, s2, s3}
  ScanDelim = TRUE
  DirMode = "usercol"
  QuotaMode = "prefix"
INVARIANTS TypeOK Isolation Conforms DirsDisjoint
SYMMETRY SidPerm
CHECK_DEADLOCK FALSE
