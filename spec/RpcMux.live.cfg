SPECIFICATION Spec
CONSTANTS
  NCalls = 3
  OnErrorBody = "skip"
PROPERTY Delivered
CHECK_DEADLOCK FALSE
