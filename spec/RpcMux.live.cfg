SPECIFICATION Spec
CONSTANTS
  NCalls = 3
  OnErrorBody = "skip"
  OnTimeout = "keep"
PROPERTY Delivered
CHECK_DEADLOCK FALSE
