---------------------------- MODULE PlacementRel ----------------------------
(***************************************************************************)
(* C15, variable-free part shared by Placement.tla (design level) and      *)
(* PlacementTrace.tla (oracle on outputs of the real code).                 *)
(*                                                                          *)
(* An INPUT of the placement step of an insert request is a record          *)
(*   [sh   |-> sequence of existing shards [c |-> point count, z |-> size], *)
(*    pts  |-> sequence of point sizes of the id-sorted batch,              *)
(*    maxZ |-> per-shard size maximum, maxC |-> per-shard count maximum]    *)
(* an OUTPUT is a record                                                    *)
(*   [asg |-> sequence of [s |-> shard, lo |-> , hi |-> ]   (points lo..hi-1 *)
(*            of the batch, 0-based, go to shard s),                        *)
(*    created |-> number of shards opened by the request]                   *)
(* Shards are named by their position in the collection's shard list:       *)
(* 1..Len(sh) are the existing ones, Len(sh)+1.. the created ones in        *)
(* creation order.                                                          *)
(*                                                                          *)
(* ValidAssignment is the RELATION the property demands between input and   *)
(* output; Dist is the transcription of cluster/placement.go as a function  *)
(* (Placement.tla proves it equal to the labelled step-by-step              *)
(* transcription on every small input).                                     *)
(***************************************************************************)
EXTENDS Integers, Sequences, FiniteSets

NPts(in) == Len(in.pts)
NOld(in) == Len(in.sh)

\* the stated precondition: a single point fits into an empty shard
Pre(in) == in.maxC >= 1 /\ \A p \in 1..NPts(in) : in.pts[p] <= in.maxZ

RECURSIVE SumRange(_, _, _)
SumRange(pts, lo, hi) == IF lo >= hi THEN 0 ELSE pts[hi] + SumRange(pts, lo, hi - 1)   \* sizes of points lo..hi-1 (0-based)

Cnt0(in, s) == IF s \in 1..NOld(in) THEN in.sh[s].c ELSE 0
Siz0(in, s) == IF s \in 1..NOld(in) THEN in.sh[s].z ELSE 0

NShards(in, out) == NOld(in) + out.created
Idx(out) == 1..Len(out.asg)

\* what shard s holds after the request (an unassigned shard keeps its fill)
Got(out, s) == {x \in Idx(out) : out.asg[x].s = s}
CntAfter(in, out, s) == Cnt0(in, s) + (IF Got(out, s) = {} THEN 0 ELSE LET a == out.asg[CHOOSE x \in Got(out, s) : TRUE] IN a.hi - a.lo)
SizAfter(in, out, s) == Siz0(in, s) + (IF Got(out, s) = {} THEN 0 ELSE LET a == out.asg[CHOOSE x \in Got(out, s) : TRUE] IN SumRange(in.pts, a.lo, a.hi))

\* --- the clauses -----------------------------------------------------------

\* every entry names a shard of the collection and a range of the batch, at most one range per shard
WellFormed(in, out) ==
  /\ out.created >= 0
  /\ \A x \in Idx(out) : LET a == out.asg[x] IN
       a.s \in 1..NShards(in, out) /\ 0 <= a.lo /\ a.lo <= a.hi /\ a.hi <= NPts(in)
  /\ \A x, y \in Idx(out) : x # y => out.asg[x].s # out.asg[y].s

\* the ranges are disjoint and cover the batch: every point goes to exactly one shard
\* (contiguity and the order of the id-sorted batch are built into the range representation)
Partition(in, out) ==
  \A p \in 0..NPts(in) - 1 : Cardinality({x \in Idx(out) : out.asg[x].lo <= p /\ p < out.asg[x].hi}) = 1

\* a shard that receives points does not end above the count maximum
CountLimit(in, out) ==
  \A x \in Idx(out) : LET a == out.asg[x] IN a.lo < a.hi => Cnt0(in, a.s) + (a.hi - a.lo) <= in.maxC

\* ... nor above the size maximum
SizeLimit(in, out) ==
  \A x \in Idx(out) : LET a == out.asg[x] IN a.lo < a.hi => Siz0(in, a.s) + SumRange(in.pts, a.lo, a.hi) <= in.maxZ

\* a shard is created only when the last shard of the list cannot take the next point:
\* it receives points, and the first of them does not fit into its predecessor
FreshOnlyWhenNeeded(in, out) ==
  \A c \in NOld(in) + 1..NShards(in, out) :
    \E x \in Idx(out) : LET a == out.asg[x] IN
      /\ a.s = c /\ a.lo < a.hi
      /\ \/ c = 1
         \/ CntAfter(in, out, c - 1) + 1 > in.maxC
         \/ SizAfter(in, out, c - 1) + in.pts[a.lo + 1] > in.maxZ

ValidAssignment(in, out) ==
  /\ WellFormed(in, out)
  /\ Partition(in, out)
  /\ CountLimit(in, out)
  /\ SizeLimit(in, out)
  /\ FreshOnlyWhenNeeded(in, out)

\* --- cluster/placement.go as a function -------------------------------------

\* inner loop: first index j >= from at which the running totals pass a limit (or the end of the batch)
RECURSIVE Take(_, _, _, _)
Take(in, j, rz, rc) ==
  IF j >= NPts(in) THEN j
  ELSE LET z == rz + in.pts[j + 1]
           c == rc + 1
       IN IF z > in.maxZ \/ c > in.maxC THEN j ELSE Take(in, j + 1, z, c)

\* outer loop over the (growing) shard list; i is 0-based, ns the current length of the list
RECURSIVE Loop(_, _, _, _, _)
Loop(in, i, last, ns, asg) ==
  IF i >= ns THEN [asg |-> asg, created |-> ns - NOld(in)]
  ELSE LET j == Take(in, last, Siz0(in, i + 1), Cnt0(in, i + 1))
           asg2 == IF j > last THEN Append(asg, [s |-> i + 1, lo |-> last, hi |-> j]) ELSE asg
           ns2 == IF i = ns - 1 /\ j < NPts(in) THEN ns + 1 ELSE ns
       IN Loop(in, i + 1, j, ns2, asg2)

Dist(in) == Loop(in, 0, 0, IF NOld(in) = 0 /\ NPts(in) > 0 THEN 1 ELSE NOld(in), <<>>)

\* same assignment, irrespective of the order in which the ranges are listed
SameOutput(o1, o2) ==
  /\ o1.created = o2.created
  /\ {o1.asg[x] : x \in 1..Len(o1.asg)} = {o2.asg[x] : x \in 1..Len(o2.asg)}
=============================================================================
