---------------------------- MODULE CacheMonitor ----------------------------
(***************************************************************************)
(* Property-level monitor for C11, evaluated by TLC on the events recorded  *)
(* while TLC-generated behaviours of CacheMgr.tla are forced on a real      *)
(* cache.Manager (hook H2).  Objects are identified by the identity of the  *)
(* Cachable handed to the callback (shared, new or private cold copy).      *)
(*                                                                          *)
(*  WithStart(t, name, ro)   an access begins                               *)
(*  Created(t, obj)          the constructor ran (new shared or cold copy)  *)
(*  CbEnter / CbExit(t, obj) the callback runs on obj (err = it failed)     *)
(*  WithReturn(t, err)       the access returned                            *)
(*  Commit(t, failed)        the transaction committed / aborted            *)
(*  Release(name)            Manager.Release                                *)
(*  Probe(ok)                afterwards a fresh transaction wrote and read  *)
(*                           every name                                     *)
(* t = the transaction, g = the goroutine that runs the access (g = t when  *)
(* a transaction runs its accesses one after the other; the write pipeline  *)
(* runs one stage per index on one transaction: several g per t).           *)
(*  Stuck                    some access or commit did not return           *)
(***************************************************************************)
EXTENDS Integers, Sequences, FiniteSets, TLC, Json

CONSTANTS TraceFile, KnownFindings
Trace == ndJsonDeserialize(TraceFile)

VARIABLES l,
          owner,     \* obj -> tx that wrote it and has not committed yet
          inCb,      \* goroutine (access) -> [obj, t]: the callback it is running, for which transaction
          scrapAt,   \* obj -> line at which it was discarded by a failure
          startAt,   \* goroutine (access) -> line of its WithStart
          wrote,     \* tx -> set of objects it wrote in this transaction
          dead,      \* objects written by a transaction whose abort has returned
          kf
vars == <<l, owner, inCb, scrapAt, startAt, wrote, dead, kf>>

Empty == <<>>
TraceInit == l = 1 /\ owner = Empty /\ inCb = Empty /\ scrapAt = Empty /\ startAt = Empty /\ wrote = Empty /\ dead = {} /\ kf = {}

E == Trace[l]
IsEvent(name) == l <= Len(Trace) /\ Trace[l].ev = name /\ l' = l + 1
Put(f, k, v) == [x \in DOMAIN f \cup {k} |-> IF x = k THEN v ELSE f[x]]
Drop(f, K) == [x \in DOMAIN f \ K |-> f[x]]
Get(f, k, d) == IF k \in DOMAIN f THEN f[k] ELSE d

TNew == IsEvent("NewBehaviour") /\ owner' = Empty /\ inCb' = Empty /\ scrapAt' = Empty /\ startAt' = Empty
        /\ wrote' = Empty /\ dead' = {} /\ UNCHANGED kf

TWithStart == IsEvent("WithStart") /\ startAt' = Put(startAt, E.g, l) /\ UNCHANGED <<owner, inCb, scrapAt, wrote, dead, kf>>
TCreated   == IsEvent("Created") /\ UNCHANGED <<owner, inCb, scrapAt, startAt, wrote, dead, kf>>
TRelease   == IsEvent("Release") /\ UNCHANGED <<owner, inCb, scrapAt, startAt, wrote, dead, kf>>

\* isolation: nobody else's callback runs on an object between its first write
\* access by a transaction and that transaction's commit; a discarded object
\* is never handed to an access that started after it was discarded
TCbEnter ==
  /\ IsEvent("CbEnter")
  /\ Get(owner, E.obj, E.t) = E.t
  /\ (E.ro = 0 => \A u \in DOMAIN inCb : inCb[u].obj = E.obj => inCb[u].t = E.t)
  /\ (E.obj \in DOMAIN scrapAt => scrapAt[E.obj] > Get(startAt, E.g, 0))
  \* once the abort of the transaction that wrote it has returned, the object is never handed out again
  \* (not even to an access that had looked it up before)
  /\ E.obj \notin dead
  /\ inCb' = Put(inCb, E.g, [obj |-> E.obj, t |-> E.t])
  /\ owner' = IF E.ro = 0 THEN Put(owner, E.obj, E.t) ELSE owner
  /\ wrote' = IF E.ro = 0 THEN Put(wrote, E.t, Get(wrote, E.t, {}) \cup {E.obj}) ELSE wrote
  /\ UNCHANGED <<scrapAt, startAt, dead, kf>>

TCbExit ==
  /\ IsEvent("CbExit")
  /\ E.g \in DOMAIN inCb /\ inCb[E.g].obj = E.obj
  /\ inCb' = Drop(inCb, {E.g})
  /\ scrapAt' = IF E.err = 1 /\ E.obj \notin DOMAIN scrapAt THEN Put(scrapAt, E.obj, l) ELSE scrapAt
  /\ UNCHANGED <<owner, startAt, wrote, dead, kf>>

TWithReturn == IsEvent("WithReturn") /\ UNCHANGED <<owner, inCb, scrapAt, startAt, wrote, dead, kf>>

\* commit / abort: the write locks are released; what a failed transaction
\* wrote is discarded
TCommit ==
  /\ IsEvent("Commit")
  /\ LET W == Get(wrote, E.t, {}) IN
       /\ owner' = Drop(owner, {o \in DOMAIN owner : owner[o] = E.t})
       /\ scrapAt' = IF E.failed = 1
                     THEN [o \in DOMAIN scrapAt \cup W |-> IF o \in DOMAIN scrapAt THEN scrapAt[o] ELSE l]
                     ELSE scrapAt
       /\ wrote' = Drop(wrote, {E.t})
       /\ dead' = IF E.failed = 1 THEN dead \cup W ELSE dead
  /\ UNCHANGED <<inCb, startAt, kf>>

\* after commit or abort every lock is released: later transactions make progress
TProbe == IsEvent("Probe") /\ E.ok = 1 /\ UNCHANGED <<owner, inCb, scrapAt, startAt, wrote, dead, kf>>

\* (no action consumes "Stuck": readers never block, every access returns)

TraceNext == TNew \/ TWithStart \/ TCreated \/ TRelease \/ TCbEnter \/ TCbExit \/ TWithReturn \/ TCommit \/ TProbe
TraceSpec == TraceInit /\ [][TraceNext]_vars

WF == \A t \in DOMAIN inCb : TRUE
\* states of a trace are told apart by the line counter alone (cheap fingerprints)
TraceView == l
TraceAccepted == TLCGet("stats").diameter - 1 = Len(Trace)
ReportKF == (l = Len(Trace) + 1) => PrintT(<<"KF", kf>>)
=============================================================================
