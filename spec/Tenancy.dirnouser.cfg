\* NEGATIVE: shard directory without the user component: deleting a collection removes the equally named collection's shards of the other user -> Isolation must fail
SPECIFICATION Spec
CONSTANTS
  UserAlpha = {"a", "b"}
  UserMaxLen = 2
  AllowDotIds = FALSE
  ColAlpha = {"a", "b"}
  UriSlash = FALSE
  ColMaxLen = 2
  Points = {1}
  MaxCols1 = 1
  MaxCols2 = 2
  MaxPts = 1
  Sids = {s1, s2, s3}
  ScanDelim = TRUE
  DirMode = "col"
  QuotaMode = "prefix"
INVARIANTS TypeOK Isolation
SYMMETRY SidPerm
CHECK_DEADLOCK FALSE
