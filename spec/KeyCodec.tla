------------------------------ MODULE KeyCodec ------------------------------
(***************************************************************************)
(* C19 design level: the key / value codecs of KeyCodecOps.tla, checked    *)
(* EXHAUSTIVELY on small widths.                                           *)
(*                                                                         *)
(* The state space is "pick a model instance mc and a value va" (phase 1), *)
(* "pick a second value vb" (phase 2): every pair of values of every model *)
(* instance is one state, and the invariants state, per pair,              *)
(*   - decode(encode(a)) = a          (floats: up to IEEE equality)        *)
(*   - bytes.Compare(key a, key b) = sign(value a - value b)               *)
(*     (hence equal keys <=> equal values, i.e. injectivity up to ==)      *)
(*   - the structural order on patterns used by KeyCodecTrace.tla agrees   *)
(*     with the arithmetic meaning of the patterns                         *)
(*   - fixed-layout keys (node / point / term / document) are injective,   *)
(*     never collide across kinds, and the IdFromKey decoders accept       *)
(*     exactly their own kind (and suffix)                                 *)
(* "scan" instances are a bucket (va) that grows and shrinks by Put /      *)
(* Delete; in every reachable bucket bbolt's cursor algorithms for         *)
(* PrefixScan / RangeScan visit exactly the keys with the prefix / in the  *)
(* range (each once).                                                      *)
(*                                                                         *)
(* Variant = "ok" is the code as it is; the other variants are the         *)
(* negative configurations (TLC must report the violation).                *)
(***************************************************************************)
EXTENDS KeyCodecOps, TLC

CONSTANTS Variant,   \* "ok" | "negzero" | "noflip" | "le" | "nosuffix"
          Models     \* set of model instances (see below)

(* ---------------- model instances -------------------------------------- *)
\* k = bits per byte, n = bytes per word, eb = exponent bits
IntM(k, n) == [kind |-> "int", k |-> k, n |-> n, eb |-> 0]
UintM(k, n) == [kind |-> "uint", k |-> k, n |-> n, eb |-> 0]
FloatM(k, n, eb) == [kind |-> "float", k |-> k, n |-> n, eb |-> eb]
\* strings over the bytes 0..2^k-1 up to length n
StrM(k, n) == [kind |-> "str", k |-> k, n |-> n, eb |-> 0]
\* node ids of n bytes, uuids of 2n bytes (as 8 : 16), terms up to length eb
FixedM(k, n, tl) == [kind |-> "fixed", k |-> k, n |-> n, eb |-> tl]
\* buckets of at most eb keys over the strings up to length n
ScanM(k, n, sz) == [kind |-> "scan", k |-> k, n |-> n, eb |-> sz]

ModelsQuick ==
  { IntM(2, 2), IntM(3, 2), IntM(4, 2), UintM(2, 3),
    FloatM(7, 1, 3), FloatM(3, 2, 3), FloatM(2, 3, 2), FloatM(4, 2, 3),
    StrM(2, 3), FixedM(2, 1, 2), ScanM(1, 2, 7), ScanM(2, 1, 5) }
ModelsDeep ==
  ModelsQuick \cup
  { IntM(2, 4), IntM(1, 8), IntM(8, 1), IntM(3, 3), IntM(5, 2), UintM(4, 2), UintM(3, 3),
    FloatM(2, 4, 4), FloatM(8, 1, 4), FloatM(1, 8, 3), FloatM(3, 3, 3), FloatM(5, 2, 4),
    FixedM(2, 2, 2), ScanM(1, 3, 3), ScanM(2, 2, 3) }
ModelsNegFloat == { FloatM(7, 1, 3), FloatM(3, 2, 3) }
ModelsNegInt == { IntM(2, 2), IntM(3, 2) }
ModelsNegFixed == { FixedM(2, 1, 2) }

\* NB the state variables must not be named like any parameter or LET name of
\* KeyCodecOps (a, b, c, k, p, ...): TLC then treats the constant tables below as
\* state dependent and recomputes them at every use (100x slower).
VARIABLES phase,   \* 1: one value chosen, 2: a pair chosen (scan models stay in 1)
          mc,      \* the model instance
          va, vb   \* the values (for scan models: va = the bucket)
vars == <<phase, mc, va, vb>>

W(m) == m.k * m.n
\* big-endian pattern of the word numbered x
Pat(m, x) == [i \in 1..m.n |-> (x \div Pow2(m.k * (m.n - i))) % Pow2(m.k)]

RECURSIVE Strings(_, _)
Strings(base, len) ==
  IF len = 0 THEN {<<>>}
  ELSE LET S == Strings(base, len - 1) IN S \cup {Append(s, x) : s \in {t \in S : Len(t) = len - 1}, x \in 0..(base - 1)}

\* letters of the fixed-layout keys as small byte codes (the real ones are 'n' 'p' 't' 'd' 's')
CN == 0
CP == 1
CT == 2
CD == 3
CS == 1

FixedObjs(m) ==
  LET B == Pow2(m.k)
      ids == 0..(Pow2(m.k * m.n) - 1)
      uus == 0..(Pow2(m.k * 2 * m.n) - 1)
      m2 == [m EXCEPT !.n = 2 * m.n]
  IN {[t |-> "node", id |-> Pat(m, i), s |-> s] : i \in ids, s \in 0..(B - 1)}
     \cup {[t |-> "point", id |-> Pat(m2, u), s |-> s] : u \in uus, s \in 0..(B - 1)}
     \cup {[t |-> "term", id |-> w, s |-> CS] : w \in Strings(B, m.eb)}
     \cup {[t |-> "doc", id |-> Pat(m, i), s |-> 0] : i \in ids}

Vals(m) ==
  CASE m.kind \in {"int", "uint"} -> 0..(Pow2(W(m)) - 1)
    [] m.kind = "float" -> {x \in 0..(Pow2(W(m)) - 1) : ~IsNaN(Pat(m, x), m.k, m.eb)}
    [] m.kind = "str" -> Strings(Pow2(m.k), m.n)
    [] m.kind = "fixed" -> FixedObjs(m)
    [] m.kind = "scan" -> {{}}

(* ---------------- what the patterns mean (arithmetic) ------------------ *)
P2big == <<1, 2, 4, 8, 16, 32, 64, 128, 256, 512, 1024, 2048, 4096, 8192, 16384, 32768, 65536, 131072, 262144, 524288, 1048576>>
ValInt(m, x) == IF x >= Pow2(W(m) - 1) THEN x - Pow2(W(m)) ELSE x
\* in units of the smallest subnormal; the infinities one binade above the largest finite value
ValFloat(m, x) ==
  LET bits == Unpack(Pat(m, x), m.k)
      mb == W(m) - 1 - m.eb
      e == BitsVal(bits, 2, 1 + m.eb)
      f == BitsVal(bits, 2 + m.eb, W(m))
      emax == Pow2(m.eb) - 1
      mag == IF e = emax THEN Pow2(mb) * P2big[emax]
             ELSE IF e = 0 THEN f ELSE (Pow2(mb) + f) * P2big[e]
  IN IF bits[1] = 1 THEN 0 - mag ELSE mag
Val(m, x) == CASE m.kind = "int" -> ValInt(m, x) [] m.kind = "uint" -> x [] m.kind = "float" -> ValFloat(m, x)

\* Go's comparison of strings, stated without recursion: first differing position
StrRel(s, t) ==
  LET n == IF Len(s) < Len(t) THEN Len(s) ELSE Len(t)
      D == {i \in 1..n : s[i] # t[i]}
  IN IF D = {} THEN Sgn(Len(s) - Len(t))
     ELSE LET d == CHOOSE x \in D : \A j \in D : x <= j IN IF s[d] < t[d] THEN -1 ELSE 1

(* ---------------- the codecs on model values --------------------------- *)
Enc(m, x) ==
  CASE m.kind = "int" -> EncInt(Pat(m, x), m.k, Variant)
    [] m.kind = "uint" -> EncUint(Pat(m, x), m.k, Variant)
    [] m.kind = "float" -> EncFloat(Pat(m, x), m.k, m.eb, Variant)
    [] m.kind = "str" -> x
    [] m.kind = "fixed" ->
         CASE x.t = "node" -> NodeKey(CN, x.id, x.s)
           [] x.t = "point" -> PointKey(CP, x.id, x.s)
           [] x.t = "term" -> TermKey(CT, CS, x.id)
           [] x.t = "doc" -> DocKey(CD, x.id)
Dec(m, kb) ==
  CASE m.kind = "int" -> DecInt(kb, m.k, Variant)
    [] m.kind = "uint" -> DecUint(kb, m.k, Variant)
    [] m.kind = "float" -> DecFloat(kb, m.k, Variant)
    [] m.kind = "str" -> kb

\* every key, decoded key, pattern and value is computed once (TLCEval forces TLC's lazy
\* function values into tables)
NumM == {x \in Models : x.kind \in {"int", "uint", "float"}}
KeyT == TLCEval([m \in {x \in Models : x.kind # "scan"} |-> [x \in Vals(m) |-> TLCEval(Enc(m, x))]])
PatT == TLCEval([m \in NumM |-> [x \in Vals(m) |-> TLCEval(Pat(m, x))]])
ValT == TLCEval([m \in NumM |-> [x \in Vals(m) |-> Val(m, x)]])
DecT == TLCEval([m \in {x \in Models : x.kind \in {"int", "uint", "float", "str"}} |-> [x \in Vals(m) |-> TLCEval(Dec(m, KeyT[m][x]))]])
ValsT == TLCEval([m \in Models |-> Vals(m)])

Init == phase = 1 /\ mc \in Models /\ va \in ValsT[mc] /\ vb = va

Universe(m) == Strings(Pow2(m.k), m.n)
Next ==
  \/ /\ phase = 1 /\ mc.kind # "scan"
     /\ phase' = 2 /\ vb' \in ValsT[mc] /\ UNCHANGED <<mc, va>>
  \/ /\ mc.kind = "scan"
     /\ \/ \E x \in Universe(mc) \ va : Cardinality(va) < mc.eb /\ va' = va \cup {x}
        \/ \E x \in va : va' = va \ {x}
     /\ vb' = va' /\ UNCHANGED <<phase, mc>>
Spec == Init /\ [][Next]_vars

(* ---------------- invariants ------------------------------------------- *)
Numeric == mc.kind \in {"int", "uint", "float"}
Key(x) == KeyT[mc][x]
PatOf(x) == PatT[mc][x]
ValOf(x) == ValT[mc][x]

\* decoding an encoded value returns the original (floats: an IEEE-equal, non-NaN value;
\* in fact the canonical form: -0.0 comes back as +0.0, everything else bit for bit)
RoundTrip ==
  /\ mc.kind \in {"int", "uint"} => DecT[mc][va] = PatOf(va)
  /\ mc.kind = "str" => DecT[mc][va] = va
  /\ mc.kind = "float" =>
       LET d == DecT[mc][va]
       IN /\ FloatEq(d, PatOf(va), mc.k) /\ ~IsNaN(d, mc.k, mc.eb)
          /\ d = (IF IsZeroF(PatOf(va), mc.k) THEN Zeros(mc.n) ELSE PatOf(va))
KeyLength == Numeric => Len(Key(va)) = mc.n

\* byte order of keys = numeric order of values; in particular equal keys <=> equal values
OrderIff ==
  /\ (phase = 2 /\ Numeric) => LexRel(Key(va), Key(vb)) = Sgn(ValOf(va) - ValOf(vb))
  /\ (phase = 2 /\ mc.kind = "str") =>
       /\ LexRel(Key(va), Key(vb)) = StrRel(va, vb)
       /\ IsPrefix(Key(va), Key(vb)) <=> (Len(va) <= Len(vb) /\ SubSeq(vb, 1, Len(va)) = va)
       \* a prefix sorts at or before everything it prefixes
       /\ IsPrefix(va, vb) => LexRel(Key(va), Key(vb)) <= 0

\* the structural order of KeyCodecOps (used at 64 bits, where TLC cannot form the numbers)
StructuralOrder ==
  (phase = 2 /\ Numeric) =>
     LET r == CASE mc.kind = "int" -> IntRel(PatOf(va), PatOf(vb), mc.k)
                [] mc.kind = "uint" -> UintRel(PatOf(va), PatOf(vb))
                [] mc.kind = "float" -> FloatRel(PatOf(va), PatOf(vb), mc.k)
     IN r = Sgn(ValOf(va) - ValOf(vb))

\* fixed-layout keys: injective, no collision across kinds, decoders accept exactly their own keys
FixedKeys ==
  (mc.kind = "fixed") =>
    /\ phase = 2 => ((Key(va) = Key(vb)) <=> (va = vb))
    /\ \A s \in 0..(Pow2(mc.k) - 1) :
         LET r == NodeIdFromKey(CN, mc.n, Key(va), s, Variant)
         IN /\ r[1] <=> (va.t = "node" /\ va.s = s)
            /\ r[1] => r[2] = va.id
    /\ LET r == TermFromKey(CT, CS, Key(va)) IN (r[1] <=> va.t = "term") /\ (r[1] => r[2] = va.id)
    /\ LET r == DocFromKey(CD, mc.n, Key(va)) IN (r[1] <=> va.t = "doc") /\ (r[1] => r[2] = va.id)

\* scans over a bucket: the cursor algorithms visit exactly the specified keys, once
ScanOK ==
  (mc.kind = "scan") =>
    LET U == Universe(mc)
        set(s) == {s[i] : i \in DOMAIN s}
    IN /\ \A p \in U :
            LET r == CursorPrefixScan(va, p) IN set(r) = PrefixSet(va, p) /\ Len(r) = Cardinality(PrefixSet(va, p))
       /\ \A s \in U, e \in U, hs \in BOOLEAN, he \in BOOLEAN, incl \in BOOLEAN :
            LET r == CursorRangeScan(va, hs, s, he, e, incl)
                x == RangeSet(va, hs, s, he, e, incl)
            IN set(r) = x /\ Len(r) = Cardinality(x)

\* at least one model instance of every kind is present and has values (against vacuity)
ASSUME NonVacuous == Models # {} /\ \A m \in Models : ValsT[m] # {}
=============================================================================
