SPECIFICATION Spec
CONSTANTS
 Readers = {"r1","r2"}
 Keys = {"k1","k2"}
 MaxVer = 2
 MaxObj = 3
 Defect_SharedBucketHandle = FALSE
 Defect_NoVersionCheck = FALSE
 AllowEvict = TRUE
 Defect_ReaderUnlocked = FALSE
INVARIANTS NoClosedBucketRead ReaderSnapshotConsistent CoherentWithOwnVersion
CHECK_DEADLOCK FALSE
