\* negative configuration: the list position leaks into the score -> OrderIndependent must fail
SPECIFICATION Spec
CONSTANTS
  N = 4
  Variant = "positional"
INVARIANTS TypeOK OrderIndependent
CHECK_DEADLOCK FALSE
