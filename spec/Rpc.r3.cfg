SPECIFICATION Spec
CONSTANTS Retries = 3
 MaxCrashes = 3
 CountShutdown = FALSE
INVARIANTS TypeOK NilMeansExecuted ResultOnlyAtEnd
PROPERTY Terminates
CHECK_DEADLOCK FALSE
