SPECIFICATION Spec
CONSTANT NIds = 3
INVARIANT Algebra
CHECK_DEADLOCK FALSE
