\* NEGATIVE: user ids may contain the delimiter: user a/a with collection b shares the key a/a/b with user a and URI name a/b -> Isolation must fail
SPECIFICATION Spec
CONSTANTS
  UserAlpha = {"a", "/"}
  UserMaxLen = 3
  AllowDotIds = FALSE
  ColAlpha = {"a", "b"}
  UriSlash = TRUE
  ColMaxLen = 1
  Points = {1}
  MaxCols1 = 1
  MaxCols2 = 2
  MaxPts = 1
  Sids = {s1, s2, s3}
  ScanDelim = TRUE
  DirMode = "usercol"
  QuotaMode = "prefix"
INVARIANTS TypeOK Isolation
SYMMETRY SidPerm
CHECK_DEADLOCK FALSE
