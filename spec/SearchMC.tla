------------------------------ MODULE SearchMC ------------------------------
(***************************************************************************)
(* Design-level check of the C06 oracle (SearchOps.tla): the declarative   *)
(* operators MergeRes / AcceptHybrid / AcceptKeys / SliceOK against an     *)
(* OPERATIONAL model of what a search does (merge the sub-results in       *)
(* order with a running score per point, sort the ranked ones by score,    *)
(* append the rest, sort by the keys with a comparator, cut the page),     *)
(* exhaustively over small inputs and over EVERY tie-break of every sort.  *)
(*                                                                         *)
(*   ImplAccepted  every answer the operational model can give is accepted *)
(*                 (the oracle raises no false alarm, whatever the ties);  *)
(*   OraclePins    the id sequences the oracle accepts are exactly the     *)
(*                 answers of the operational model (the oracle is         *)
(*                 satisfiable and pins the answer up to ties);            *)
(*   ScoresBind    an accepted answer with one score or ranked flag        *)
(*                 altered is rejected.                                    *)
(*                                                                         *)
(* Variant # "ok" switches one realistic mistake into the operational      *)
(* model; the negative configurations require TLC to report ImplAccepted   *)
(* violated (self-test against a vacuous oracle):                          *)
(*   "assign"             running score overwritten instead of summed      *)
(*   "nosort"             ranked list not re-sorted when nothing was summed*)
(*   "offset_after_limit" page cut at limit first, offset dropped after    *)
(*   "missing_first"      comparator puts missing sort values first        *)
(*   "ranked_last"        unranked points in front of the ranked ones      *)
(*                                                                         *)
(* Inputs are enumerated in two stages (root -> partial -> complete) so    *)
(* that TLC's workers share the work.                                      *)
(***************************************************************************)
EXTENDS SearchOps

CONSTANTS NFull,      \* ids of the merge / hybrid-order / page inputs
          NPage,      \* ids of the sort-key / page inputs
          Variant

None == 9999
Vals == {-10, 0, 20}               \* contributions (distinct sums differ by >= 10)
Opt  == Vals \cup {None}

VARIABLE inp

RECURSIVE Perms(_)
Perms(T) == IF T = {} THEN {<<>>}
            ELSE UNION {{<<x>> \o s : s \in Perms(T \ {x})} : x \in T}
SubPerms(T) == UNION {Perms(X) : X \in SUBSET T}

---------------------------------------------------------------------------
(* Inputs *)

FIds == 1..NFull
PIds == 1..NPage

Stage1 ==
  {[stage |-> 1, kind |-> "full", a |-> a, or |-> o] : a \in [FIds -> Opt], o \in BOOLEAN}
  \cup {[stage |-> 1, kind |-> "page", k1 |-> k, d1 |-> d] : k \in [PIds -> 0..2], d \in BOOLEAN}

Stage2(p) ==
  IF p.kind = "full"
  THEN {[stage |-> 2, kind |-> "full", a |-> p.a, or |-> p.or, b |-> b, withF |-> w[1], f |-> w[2],
         off |-> off, lim |-> lim] :
           b \in [FIds -> Opt],
           w \in {<<FALSE, {}>>} \cup {<<TRUE, f>> : f \in SUBSET FIds},
           off \in 0..(NFull + 1), lim \in 1..NFull}
  ELSE {[stage |-> 2, kind |-> "page", k1 |-> p.k1, d1 |-> p.d1, nk |-> x[1], k2 |-> x[2], d2 |-> x[3],
         present |-> pr, off |-> off, lim |-> lim] :
           x \in {<<1, [i \in PIds |-> 0], FALSE>>}
                 \cup {<<2, k, d>> : k \in [PIds -> {0, 1}], d \in BOOLEAN},
           pr \in SUBSET PIds,
           off \in 0..(NPage + 1), lim \in 1..NPage}

Init == inp = [stage |-> 0]
Next ==
  \/ inp.stage = 0 /\ inp' \in Stage1
  \/ inp.stage = 1 /\ inp' \in Stage2(inp)
Spec == Init /\ [][Next]_inp

Complete(kind) == inp.stage = 2 /\ inp.kind = kind

---------------------------------------------------------------------------
(* Operational model, hybrid part *)

Leaf(a) ==
  LET T == {i \in FIds : a[i] # None}
  IN  [set |-> T, rk |-> T, h |-> [i \in T |-> a[i]], t |-> [i \in T |-> 0],
       nc |-> [i \in T |-> 1], amb |-> FALSE]

Subs == IF inp.withF THEN <<Leaf(inp.a), Leaf(inp.b), NoRank(inp.f)>>
        ELSE <<Leaf(inp.a), Leaf(inp.b)>>

ISet(subs) ==
  LET all == UNION {subs[k].set : k \in DOMAIN subs}
  IN  IF inp.or THEN all ELSE {i \in all : \A k \in DOMAIN subs : i \in subs[k].set}

\* running score of point i after the results of sub-queries 1..k were merged
RECURSIVE Acc(_, _, _)
Acc(subs, i, k) ==
  IF k = 0 THEN None
  ELSE LET p == Acc(subs, i, k - 1)
       IN  IF i \notin subs[k].rk THEN p
           ELSE IF p = None THEN subs[k].h[i]
           ELSE IF Variant = "assign" THEN subs[k].h[i]
           ELSE p + subs[k].h[i]

SortedDesc(T, sc) == {p \in Perms(T) : \A k \in 2..Len(p) : sc[p[k - 1]] >= sc[p[k]]}

MkHits(p, rkset, sc) ==
  [k \in DOMAIN p |-> [id |-> p[k], rk |-> IF p[k] \in rkset THEN 1 ELSE 0,
                       h |-> IF p[k] \in rkset THEN sc[p[k]] ELSE 0]]

Cut(list, off, lim) ==
  IF Variant = "offset_after_limit"
  THEN SubSeq(list, off + 1, Min2(lim, Len(list)))
  ELSE SubSeq(list, off + 1, Min2(off + lim, Len(list)))

FullOutputs ==
  LET subs   == Subs
      set    == ISet(subs)
      ranked == {i \in set : \E k \in DOMAIN subs : i \in subs[k].rk}
      sc     == [i \in ranked |-> Acc(subs, i, Len(subs))]
      summed == \E i \in ranked : Cardinality({k \in DOMAIN subs : i \in subs[k].rk}) > 1
      ra     == subs[1].rk \cap set
      rb     == (subs[2].rk \cap set) \ ra
      orders == IF Variant = "nosort" /\ ~summed
                THEN {x \o y : x \in SortedDesc(ra, subs[1].h), y \in SortedDesc(rb, subs[2].h)}
                ELSE SortedDesc(ranked, sc)
      lists  == IF Variant = "ranked_last"
                THEN {u \o r : r \in orders, u \in Perms(set \ ranked)}
                ELSE {r \o u : r \in orders, u \in Perms(set \ ranked)}
  IN  {MkHits(Cut(p, inp.off, inp.lim), ranked, sc) : p \in lists}

FullR == MergeRes(Subs, inp.or)

FullImplAccepted ==
  Complete("full") => \A out \in FullOutputs : AcceptHybrid(FullR, out, inp.off, inp.lim)

FullPins ==
  Complete("full") =>
    LET R == FullR
    IN  {s \in SubPerms(FIds) : AcceptHybrid(R, MkHits(s, R.rk, R.h), inp.off, inp.lim)}
          = {IdsOf(o) : o \in FullOutputs}

FullScoresBind ==
  Complete("full") =>
    \A out \in FullOutputs : \A k \in DOMAIN out :
       /\ out[k].rk = 1 => ~AcceptHybrid(FullR, [out EXCEPT ![k].h = @ + 5], inp.off, inp.lim)
       /\ ~AcceptHybrid(FullR, [out EXCEPT ![k].rk = 1 - @], inp.off, inp.lim)

---------------------------------------------------------------------------
(* Operational model, sort part: the comparator as the code writes it     *)
(* (value 0 = the property is missing on that point)                      *)

KeyOf(j, i) == IF j = 1 THEN inp.k1[i] ELSE inp.k2[i]
DescOf(j) == IF j = 1 THEN inp.d1 ELSE inp.d2
Sgn(x, y) == IF x < y THEN 0 - 1 ELSE IF x > y THEN 1 ELSE 0

RECURSIVE Cmp(_, _, _)
Cmp(a, b, j) ==
  IF j > inp.nk THEN 0
  ELSE LET av == KeyOf(j, a)
           bv == KeyOf(j, b)
           first == IF Variant = "missing_first" THEN 1 ELSE 0 - 1
       IN  IF av # 0 /\ bv = 0 THEN first
           ELSE IF av = 0 /\ bv # 0 THEN 0 - first
           ELSE IF av = 0 /\ bv = 0 THEN Cmp(a, b, j + 1)
           ELSE LET r == IF DescOf(j) THEN Sgn(bv, av) ELSE Sgn(av, bv)
                IN  IF r # 0 THEN r ELSE Cmp(a, b, j + 1)

PageOutputs ==
  LET lists == {p \in Perms(inp.present) : \A k \in 2..Len(p) : Cmp(p[k - 1], p[k], 1) <= 0}
  IN  {MkHits(Cut(p, inp.off, inp.lim), {}, <<>>) : p \in lists}

\* the oracle's view: key vectors, missing = MissingKey, descending = negated
OVal(v, d) == IF v = 0 THEN MissingKey ELSE IF d THEN 0 - v ELSE v
PageKV == [i \in PIds |-> IF inp.nk = 1 THEN <<OVal(inp.k1[i], inp.d1)>>
                          ELSE <<OVal(inp.k1[i], inp.d1), OVal(inp.k2[i], inp.d2)>>]
PageR == NoRank(inp.present)

PageImplAccepted ==
  Complete("page") => \A out \in PageOutputs : AcceptKeys(PageR, PageKV, out, inp.off, inp.lim)

PagePins ==
  Complete("page") =>
    {s \in SubPerms(PIds) : AcceptKeys(PageR, PageKV, MkHits(s, {}, <<>>), inp.off, inp.lim)}
      = {IdsOf(o) : o \in PageOutputs}

---------------------------------------------------------------------------
ImplAccepted == FullImplAccepted /\ PageImplAccepted
OraclePins   == FullPins /\ PagePins
ScoresBind   == FullScoresBind
=============================================================================
