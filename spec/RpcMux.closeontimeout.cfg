SPECIFICATION Spec
CONSTANTS
  NCalls = 3
  OnErrorBody = "skip"
  OnTimeout = "close"
INVARIANTS TypeOK OwnAnswer NoPhantom Isolation
CHECK_DEADLOCK FALSE
