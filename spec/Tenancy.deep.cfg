\* C16 design check, thorough tier: every ordered pair of ids over {a,b} of length 1..3 (182 pairs, prefix chains a / ab / aba), names of length 1..2
SPECIFICATION Spec
CONSTANTS
  UserAlpha = {"a", "b"}
  UserMaxLen = 3
  AllowDotIds = FALSE
  ColAlpha = {"a", "b"}
  UriSlash = FALSE
  ColMaxLen = 2
  Points = {1}
  MaxCols1 = 1
  MaxCols2 = 2
  MaxPts = 1
  Sids = {s1, s2, s3}
  ScanDelim = TRUE
  DirMode = "usercol"
  QuotaMode = "prefix"
INVARIANTS TypeOK Isolation Conforms DirsDisjoint
SYMMETRY SidPerm
CHECK_DEADLOCK FALSE
