------------------------------ MODULE ShardMC ------------------------------
(***************************************************************************)
(* Design-level instantiation of Shard.tla for exhaustive checking: small  *)
(* id / document universes and the pinned node-id allocator (pop any free  *)
(* id, else next++).                                                       *)
(***************************************************************************)
EXTENDS Shard

CONSTANTS Ids, DocsU, UpdU, MaxBatch, MaxSteps, Limit
VARIABLE steps

\* allocate node ids for the new ids one at a time: pop any free id, else next
RECURSIVE Allocs(_, _, _, _)
Allocs(todo, N, F, X) ==
  IF todo = {} THEN {<<N, F, X>>}
  ELSE LET i == CHOOSE x \in todo : TRUE
           ext(n) == [j \in DOMAIN N \cup {i} |-> IF j = i THEN n ELSE N[j]]
       IN  IF F = {}
           THEN Allocs(todo \ {i}, ext(X), F, X + 1)
           ELSE UNION {Allocs(todo \ {i}, ext(n), F \ {n}, X) : n \in F}

SeqsUpTo(T, n) == UNION {[1..k -> T] : k \in 0..n}

DInit == ShardInit /\ steps = 0

DInsert == \E b \in SeqsUpTo([id : Ids, doc : DocsU], MaxBatch) :
             IF InsertValid(b)
             THEN \E a \in Allocs(BIds(b), nodeOf, free, next) : InsertBatch(b, a[1], a[2], a[3])
             ELSE FailBatch
DUpdate == \E b \in SeqsUpTo([id : Ids, doc : UpdU], MaxBatch) :
             IF UpdOversize(pts, b, Limit) THEN FailBatch ELSE UpdateBatch(b, Limit)
DDelete == \E ids \in SUBSET Ids :
             LET D == DOMAIN pts \ ids
                 freed == {nodeOf[i] : i \in ids \cap DOMAIN pts}
             IN  DeleteBatch(ids, [i \in D |-> nodeOf[i]], free \cup freed, next)

DNext == /\ steps < MaxSteps
         /\ steps' = steps + 1
         /\ (DInsert \/ DUpdate \/ DDelete)
DSpec == DInit /\ [][DNext]_<<shardVars, steps>>

\* small universes for the exhaustive configuration
Fv(c, w) == [c |-> c, ix |-> <<>>, d |-> 0, sz |-> w, bad |-> 0]
Del == [c |-> "_delete", ix |-> <<>>, d |-> 1, sz |-> 0, bad |-> 0]
Bad == [c |-> "oops", ix |-> <<>>, d |-> 0, sz |-> 0, bad |-> 1]
MCDocs == { <<>>, [a |-> Fv("1", 0)], [a |-> Fv("2", 0), b |-> Fv("B", 700)], [a |-> Bad] }
MCUpd  == { [a |-> Fv("3", 0)], [a |-> Del], [c |-> Fv("B", 700)], [b |-> Del, a |-> Fv("1", 0)], [b |-> Bad] }

\* action properties of the design
OnlyInsertAdds == [][DOMAIN pts' \ DOMAIN pts # {} => count' > count]_<<shardVars, steps>>
NodeStable == [][\A i \in DOMAIN pts \cap DOMAIN pts' : nodeOf'[i] = nodeOf[i]]_<<shardVars, steps>>
=============================================================================
