SPECIFICATION Spec
CONSTANTS
  Nodes = {1, 2, 3}
  Files = {"f1", "f2", "f3"}
  K = 2
  Owner <- MCOwner
  Start <- MCStart
  MaxCrash = 2
  TruncateOnFirst = FALSE
INVARIANTS NoLoss
PROPERTIES SourceDeletedOnlyAfterVerifiedCopy EventuallyPlaced
CHECK_DEADLOCK FALSE
