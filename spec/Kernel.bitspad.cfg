SPECIFICATION Spec
CONSTANTS
  Part = "bits"
  Lens <- LensSmall
  Unroll = 4
  Lanes = 8
  Variant = "real"
  W = 3
  BitLens <- BitLensSmall
  Vals <- Vals3
  Thrs <- Thr1
  Family = "all"
  BitVariant = "pad_ones"
INVARIANTS PaddingZero
