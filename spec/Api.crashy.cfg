SPECIFICATION Spec
CONSTANTS
  Server = "crashy"
  CatalogueFile = ""
INVARIANTS Judged
CHECK_DEADLOCK FALSE
