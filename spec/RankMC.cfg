SPECIFICATION Spec
CONSTANT NIds = 3
INVARIANTS KnnDeterminate TextDeterminate
CHECK_DEADLOCK FALSE
