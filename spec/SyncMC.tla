------------------------------- MODULE SyncMC -------------------------------
EXTENDS Sync
MCOwner == [f \in Files |-> IF f = "f1" THEN 2 ELSE IF f = "f2" THEN 3 ELSE 1]
MCStart == [f \in Files |-> IF f = "f3" THEN 2 ELSE 1]
=============================================================================
