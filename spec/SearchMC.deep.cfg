SPECIFICATION Spec
CONSTANTS
 NFull = 3
 NPage = 3
 Variant = "ok"
INVARIANTS ImplAccepted OraclePins ScoresBind
CHECK_DEADLOCK FALSE
