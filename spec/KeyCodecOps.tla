---------------------------- MODULE KeyCodecOps ----------------------------
(***************************************************************************)
(* Bit-level model of semadb's key and value encodings, parametric in the  *)
(* width, so that the SAME operators are checked exhaustively by TLC on    *)
(* small widths (KeyCodec.tla) and evaluated at the real width on facts    *)
(* logged from the real code (KeyCodecTrace.tla).                          *)
(*                                                                         *)
(* A "byte" is a digit in radix 2^k (k = 8 for the real code, 2..4 in the  *)
(* small models).  A PATTERN is the big-endian byte sequence of a machine  *)
(* word (two's complement int, unsigned, IEEE-754 float with 1 sign bit,   *)
(* eb exponent bits and the rest mantissa).  No operator below ever forms  *)
(* the number denoted by a pattern, so 64-bit patterns stay inside TLC's   *)
(* 32-bit integers; the arithmetic meaning of patterns (ValInt, ValFloat   *)
(* in KeyCodec.tla) is defined                                             *)
(* separately and only evaluated on small widths.                          *)
(*                                                                         *)
(* Transcribed code:                                                       *)
(*   shard/index/inverted/sortable.go  toByteSortable / fromByteSortable   *)
(*   conversion/conversion.go          Uint64ToBytes, Float32ToBytes,      *)
(*                                     EdgeListToBytes (little endian)     *)
(*   conversion/keys.go                NodeKey / NodeIdFromKey             *)
(*   shard/pointstore/pointstore.go    PointKey                            *)
(*   shard/index/text/text.go          termKey / documentKey / IdFromKey   *)
(***************************************************************************)
EXTENDS Integers, Sequences, FiniteSets

P2 == <<1, 2, 4, 8, 16, 32, 64, 128, 256, 512, 1024, 2048, 4096, 8192, 16384, 32768, 65536>>
Pow2(n) == P2[n + 1]

Sgn(x) == IF x < 0 THEN -1 ELSE IF x > 0 THEN 1 ELSE 0

(* ---------------- bits <-> bytes (most significant first) -------------- *)
\* the k bits of one byte
ByteBits(x, k) == [i \in 1..k |-> (x \div Pow2(k - i)) % 2]
\* all bits of a byte sequence
Unpack(bs, k) == [i \in 1..(Len(bs) * k) |-> (bs[((i - 1) \div k) + 1] \div Pow2(k - 1 - ((i - 1) % k))) % 2]

RECURSIVE BitsVal(_, _, _)
BitsVal(b, from, to) == IF from > to THEN 0 ELSE 2 * BitsVal(b, from, to - 1) + b[to]
\* bytes of a bit sequence whose length is a multiple of k
Pack(b, k) == [j \in 1..(Len(b) \div k) |-> BitsVal(b, (j - 1) * k + 1, j * k)]

Reverse(s) == [i \in 1..Len(s) |-> s[Len(s) + 1 - i]]

\* x ^ m on patterns, bit by bit
XorBytes(a, m, k) ==
  LET ba == Unpack(a, k)
      bm == Unpack(m, k)
  IN Pack([i \in 1..Len(ba) |-> (ba[i] + bm[i]) % 2], k)

MinMask(n, k) == [i \in 1..n |-> IF i = 1 THEN Pow2(k - 1) ELSE 0]   \* 0x80 00 .. 00  (math.MinInt64)
AllMask(n, k) == [i \in 1..n |-> Pow2(k) - 1]                        \* 0xff ff .. ff  (math.MaxUint64)
Zeros(n) == [i \in 1..n |-> 0]

TopBit(p, k) == p[1] \div Pow2(k - 1)

(* ---------------- order on byte sequences (bytes.Compare) -------------- *)
RECURSIVE LexFrom(_, _, _)
LexFrom(s, t, i) ==
  IF i > Len(s) THEN (IF i > Len(t) THEN 0 ELSE -1)
  ELSE IF i > Len(t) THEN 1
  ELSE IF s[i] < t[i] THEN -1
  ELSE IF s[i] > t[i] THEN 1
  ELSE LexFrom(s, t, i + 1)
LexRel(s, t) == LexFrom(s, t, 1)
IsPrefix(p, s) == Len(p) <= Len(s) /\ \A i \in 1..Len(p) : p[i] = s[i]

(* ---------------- IEEE-754 classification of a float pattern ----------- *)
\* eb exponent bits after the sign bit; everything below works on bits
ExpAllOnes(b, eb) == \A i \in 2..(1 + eb) : b[i] = 1
MantZero(b, eb) == \A i \in (2 + eb)..Len(b) : b[i] = 0
IsNaN(p, k, eb) == LET b == Unpack(p, k) IN ExpAllOnes(b, eb) /\ ~MantZero(b, eb)
IsInf(p, k, eb) == LET b == Unpack(p, k) IN ExpAllOnes(b, eb) /\ MantZero(b, eb)
\* +0.0 or -0.0: everything but the sign bit is zero
IsZeroF(p, k) == (p[1] = 0 \/ p[1] = Pow2(k - 1)) /\ \A i \in 2..Len(p) : p[i] = 0

(* ---------------- numeric order, structurally, on patterns ------------- *)
\* two's complement: different signs -> the negative one is smaller, same
\* sign -> unsigned order
IntRel(a, b, k) ==
  IF TopBit(a, k) # TopBit(b, k) THEN (IF TopBit(a, k) = 1 THEN -1 ELSE 1) ELSE LexRel(a, b)
UintRel(a, b) == LexRel(a, b)
\* IEEE-754 comparison of non-NaN values: the zeros are equal; sign, then
\* magnitude (exponent|mantissa as unsigned), reversed for negatives
FloatRel(a, b, k) ==
  IF IsZeroF(a, k) /\ IsZeroF(b, k) THEN 0
  ELSE IF TopBit(a, k) # TopBit(b, k) THEN (IF TopBit(a, k) = 1 THEN -1 ELSE 1)
  ELSE IF TopBit(a, k) = 0 THEN LexRel(a, b) ELSE LexRel(b, a)
\* Go's == on non-NaN float64
FloatEq(a, b, k) == a = b \/ (IsZeroF(a, k) /\ IsZeroF(b, k))

(* ---------------- sortable.go ------------------------------------------ *)
\* variants: "ok" = the code as repaired; "negzero" = before the repair (no
\* canonicalisation of -0.0); "noflip" = sign bit of integers not flipped;
\* "le" = keys written little endian
PutBE(p, variant) == IF variant = "le" THEN Reverse(p) ELSE p
GetBE(kb, variant) == IF variant = "le" THEN Reverse(kb) ELSE kb

\* case uint64: binary.BigEndian.PutUint64(buf, v)
EncUint(p, k, variant) == PutBE(p, variant)
DecUint(kb, k, variant) == GetBE(kb, variant)

\* case int64: vv := uint64(v ^ math.MinInt64); BigEndian.PutUint64
EncInt(p, k, variant) ==
  PutBE(IF variant = "noflip" THEN p ELSE XorBytes(p, MinMask(Len(p), k), k), variant)
\* *v = int64(vv) ^ math.MinInt64
DecInt(kb, k, variant) ==
  LET u == GetBE(kb, variant) IN IF variant = "noflip" THEN u ELSE XorBytes(u, MinMask(Len(u), k), k)

\* Go's  v >= 0  on a float: false for NaN, true for both zeros
GeZeroF(p, k, eb) == ~IsNaN(p, k, eb) /\ (TopBit(p, k) = 0 \/ IsZeroF(p, k))
\* if v == 0 { v = 0 }
CanonF(p, k, variant) == IF variant # "negzero" /\ IsZeroF(p, k) THEN Zeros(Len(p)) ELSE p
\* bits := Float64bits(v); if v >= 0 { bits ^= 0x80.. } else { bits ^= 0xff.. }
EncFloat(p, k, eb, variant) ==
  LET c == CanonF(p, k, variant)
  IN PutBE(IF GeZeroF(c, k, eb) THEN XorBytes(c, MinMask(Len(c), k), k) ELSE XorBytes(c, AllMask(Len(c), k), k), variant)
\* if bits&0x80.. != 0 { bits ^= 0x80.. } else { bits ^= 0xff.. }
DecFloat(kb, k, variant) ==
  LET u == GetBE(kb, variant)
  IN IF TopBit(u, k) = 1 THEN XorBytes(u, MinMask(Len(u), k), k) ELSE XorBytes(u, AllMask(Len(u), k), k)

(* ---------------- conversion.go: little-endian value layouts ----------- *)
\* ps = sequence of patterns (big-endian words); result = concatenated LE bytes
RECURSIVE Flatten(_)
Flatten(ss) == IF Len(ss) = 0 THEN <<>> ELSE Head(ss) \o Flatten(Tail(ss))
LEWords(ps) == Flatten([i \in 1..Len(ps) |-> Reverse(ps[i])])
\* the same on a flat big-endian byte list of words of w bytes
LEFlat(flat, w) == [i \in 1..Len(flat) |-> flat[((i - 1) \div w) * w + (w - ((i - 1) % w))]]

(* ---------------- fixed-layout keys ------------------------------------ *)
\* id = big-endian pattern of the id; the codes of the letters are parameters
NodeKey(cn, id, suffix) == <<cn>> \o Reverse(id) \o <<suffix>>
\* NodeIdFromKey(key, suffix): <<ok, id>>; variant "nosuffix" forgets the suffix test
NodeIdFromKey(cn, idLen, key, suffix, variant) ==
  IF Len(key) # idLen + 2 \/ key[1] # cn \/ (variant # "nosuffix" /\ key[Len(key)] # suffix)
  THEN <<FALSE, Zeros(idLen)>>
  ELSE <<TRUE, Reverse(SubSeq(key, 2, Len(key) - 1))>>
PointKey(cp, uuid, suffix) == <<cp>> \o uuid \o <<suffix>>
TermKey(ct, cs, term) == <<ct>> \o term \o <<cs>>
TermFromKey(ct, cs, key) ==
  IF Len(key) < 2 \/ key[1] # ct \/ key[Len(key)] # cs THEN <<FALSE, <<>> >>
  ELSE <<TRUE, SubSeq(key, 2, Len(key) - 1)>>
DocKey(cd, id) == <<cd>> \o Reverse(id)
DocFromKey(cd, idLen, key) ==
  IF Len(key) # idLen + 1 \/ key[1] # cd THEN <<FALSE, Zeros(idLen)>>
  ELSE <<TRUE, Reverse(SubSeq(key, 2, Len(key)))>>

(* ---------------- diskstore scans -------------------------------------- *)
\* keys of a bucket in cursor order
RECURSIVE SortKeys(_)
SortKeys(S) ==
  IF S = {} THEN <<>>
  ELSE LET m == CHOOSE x \in S : \A y \in S : LexRel(x, y) <= 0 IN <<m>> \o SortKeys(S \ {m})

\* bbolt: c.Seek(prefix); for k != nil && HasPrefix(k, prefix); c.Next()
RECURSIVE TakeWhilePrefix(_, _, _)
TakeWhilePrefix(ks, i, p) ==
  IF i > Len(ks) \/ ~IsPrefix(p, ks[i]) THEN <<>> ELSE <<ks[i]>> \o TakeWhilePrefix(ks, i + 1, p)
SeekIdx(ks, k) == IF \E i \in 1..Len(ks) : LexRel(ks[i], k) >= 0
                  THEN CHOOSE i \in 1..Len(ks) : LexRel(ks[i], k) >= 0 /\ \A j \in 1..(i - 1) : LexRel(ks[j], k) < 0
                  ELSE Len(ks) + 1
CursorPrefixScan(S, p) == LET ks == SortKeys(S) IN TakeWhilePrefix(ks, SeekIdx(ks, p), p)

\* bbolt RangeScan(start, end, inclusive); hasS / hasE = bound given
RECURSIVE TakeUntil(_, _, _, _, _)
TakeUntil(ks, i, hasE, e, incl) ==
  IF i > Len(ks) THEN <<>>
  ELSE IF hasE /\ (IF incl THEN LexRel(ks[i], e) > 0 ELSE LexRel(ks[i], e) >= 0) THEN <<>>
  ELSE <<ks[i]>> \o TakeUntil(ks, i + 1, hasE, e, incl)
CursorRangeScan(S, hasS, s, hasE, e, incl) ==
  LET ks == SortKeys(S)
      i0 == IF ~hasS THEN 1 ELSE SeekIdx(ks, s)
      i1 == IF hasS /\ ~incl /\ i0 <= Len(ks) /\ ks[i0] = s THEN i0 + 1 ELSE i0
  IN TakeUntil(ks, i1, hasE, e, incl)

\* what a scan is supposed to visit
PrefixSet(S, p) == {x \in S : IsPrefix(p, x)}
RangeSet(S, hasS, s, hasE, e, incl) ==
  {x \in S : /\ (hasS => IF incl THEN LexRel(x, s) >= 0 ELSE LexRel(x, s) > 0)
             /\ (hasE => IF incl THEN LexRel(x, e) <= 0 ELSE LexRel(x, e) < 0)}
Range(s) == {s[i] : i \in DOMAIN s}
=============================================================================
