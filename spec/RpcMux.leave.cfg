SPECIFICATION Spec
CONSTANTS
  NCalls = 3
  OnErrorBody = "leave"
INVARIANTS TypeOK OwnAnswer NoPhantom Isolation
CHECK_DEADLOCK FALSE
