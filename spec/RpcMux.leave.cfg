SPECIFICATION Spec
CONSTANTS
  NCalls = 3
  OnErrorBody = "leave"
  OnTimeout = "keep"
INVARIANTS TypeOK OwnAnswer NoPhantom Isolation
CHECK_DEADLOCK FALSE
