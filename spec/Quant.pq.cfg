SPECIFICATION Spec
CONSTANTS
  Ids = {1, 2, 3, 4}
  Trigger = 3
  Kind = "product"
  Fixed = FALSE
  Entry = 0
  DeleteBoth = TRUE
INVARIANTS TypeOK NoOrphan Readable TrainedAllQ UntrainedNoQ ProductByV TrainedWhenDue
CHECK_DEADLOCK FALSE
