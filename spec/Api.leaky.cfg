SPECIFICATION Spec
CONSTANTS
  Server = "leaky"
  CatalogueFile = ""
INVARIANTS Judged
CHECK_DEADLOCK FALSE
