SPECIFICATION Spec
CONSTANTS
  Variant = "noflip"
  Models <- ModelsNegInt
INVARIANTS RoundTrip KeyLength OrderIff StructuralOrder FixedKeys ScanOK
CHECK_DEADLOCK FALSE
