SPECIFICATION Spec
CONSTANTS
  Server = "fragile"
  CatalogueFile = ""
INVARIANTS Judged
CHECK_DEADLOCK FALSE
