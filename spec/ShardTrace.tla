----------------------------- MODULE ShardTrace -----------------------------
(***************************************************************************)
(* Trace validation of a real shard against Shard.tla / Docs.tla.          *)
(* One ndjson line per event; a line is consumed only if the corresponding *)
(* spec action is enabled with the logged arguments AND every logged       *)
(* result / projection equals what the model computes.  Acceptance: all    *)
(* lines consumed (POSTCONDITION).                                         *)
(*                                                                         *)
(* Environment events: Reset (new history: schema S, pool relations U,     *)
(* size limit), Fault (the next write runs under an injected storage       *)
(* fault / kill: it may fail, but only as a whole).                        *)
(***************************************************************************)
EXTENDS Docs, Json

CONSTANTS TraceFile,
          KnownFindings   \* names of known findings (known_findings.jsonl) whose
                          \* signature relaxes the spec; a relaxation that is used
                          \* is recorded in kf and reported as KNOWN-FINDING
Trace == ndJsonDeserialize(TraceFile)

VARIABLES pts, nodeOf, free, next, count,   \* Shard.tla
          lim,                              \* size limit of this history
          l, S, U, fault,
          mem,                              \* 1 = in-memory backend
          csz,                              \* shared cache size of this history (0 = off)
          saved,                            \* shard state saved by Fork (what-if trials on a copy)
          vers,                             \* vers[k+1] = point map after k write events of this history
          kf                                \* known-finding signatures matched so far

Sh == INSTANCE Shard

vars == <<pts, nodeOf, free, next, count, lim, l, S, U, fault, mem, csz, saved, vers, kf>>

TraceInit ==
  /\ Sh!ShardInit
  /\ lim = 0 /\ l = 1 /\ S = <<>> /\ U = <<>> /\ fault = FALSE /\ mem = 0 /\ csz = 0 /\ saved = <<>> /\ vers = << <<>> >> /\ kf = {}

E == Trace[l]
IsEvent(name) == /\ l <= Len(Trace)
                 /\ Trace[l].ev = name
                 /\ l' = l + 1
Env == UNCHANGED <<lim, S, U, mem, csz, saved>>
VersKeep == UNCHANGED vers
VersPush == vers' = Append(vers, pts')
AsSet(s) == {s[i] : i \in DOMAIN s}

\* logged projection P = [nodes: Seq(<<id, node>>), free: Seq(node), next, count]
\* (divide and conquer: the recursion depth stays logarithmic for batches of thousands of points)
RECURSIVE MkFn(_, _, _)
MkFn(s, lo, hi) == IF lo > hi THEN <<>>
                   ELSE IF lo = hi THEN (s[lo][1] :> s[lo][2])
                   ELSE LET mid == (lo + hi) \div 2 IN MkFn(s, lo, mid) @@ MkFn(s, mid + 1, hi)
PN(P) == MkFn(P.nodes, 1, Len(P.nodes))
PNodesFunctional(P) == Cardinality({P.nodes[k][1] : k \in DOMAIN P.nodes}) = Len(P.nodes)
PF(P) == AsSet(P.free)

---------------------------------------------------------------------------
TReset ==
  /\ IsEvent("Reset")
  /\ pts' = <<>> /\ nodeOf' = <<>> /\ free' = {} /\ next' = 2 /\ count' = 0
  /\ S' = E.schema /\ U' = E.pool /\ lim' = E.limit /\ mem' = E.mem /\ csz' = E.cache
  /\ fault' = FALSE /\ saved' = <<>> /\ vers' = << <<>> >> /\ UNCHANGED kf

TFault ==
  /\ IsEvent("Fault")
  /\ fault' = TRUE
  /\ UNCHANGED <<pts, nodeOf, free, next, count, kf>> /\ Env /\ VersKeep

\* Known finding "emptykey" (C01/C02): on the file backend a write batch that
\* would add the empty string to a string / stringArray index fails as a whole
\* (bbolt refuses the empty key).  Signature: the batch carries an empty
\* string value for such a property.  Only the *failure* is excused, and only
\* as an all-or-nothing failure.
HasEmptyStr(b) ==
  \E k \in DOMAIN b : \E f \in DOMAIN b[k].doc : \E p \in DOMAIN b[k].doc[f].ix :
     \/ S[p].type = "string" /\ b[k].doc[f].ix[p] = U.empty
     \/ S[p].type = "stringArray" /\ U.empty \in AsSet(b[k].doc[f].ix[p])
KFEmptyKey(b) == "emptykey" \in KnownFindings /\ mem = 0 /\ HasEmptyStr(b)
Note(cond, name) == kf' = IF cond THEN kf \cup {name} ELSE kf
\* Known finding C09-c (the pinned cache has no version check): a search whose snapshot is older than the newest
\* commit, or that runs while a batch is open, creates or attaches the SHARED cache object; the object then holds
\* content of another version and stays in the manager.  A later write batch that attaches it can fail although
\* it is valid ("failed to get node for neighbours: not found").  Signature: a valid batch refused without an
\* injected fault in a forced-schedule behaviour in which the driver saw such an attach (E.risk = 1).
KFStale == "C09-c" \in KnownFindings /\ E.risk = 1 /\ mem = 0 /\ csz # 0

\* a write that reported failure: state unchanged; the logged projection
\* (read from storage after the failure) must still be the old one
Unchanged(P) ==
  /\ PNodesFunctional(P)
  /\ PN(P) = nodeOf /\ PF(P) = free /\ P.next = next /\ P.count = count
  /\ UNCHANGED <<pts, nodeOf, free, next, count>>

TInsert ==
  /\ IsEvent("Insert")
  /\ fault' = FALSE /\ Env
  /\ IF E.ok = 1
     THEN /\ PNodesFunctional(E.P)
          /\ Sh!InsertBatch(E.pts, PN(E.P), PF(E.P), E.P.next)
          /\ count' = E.P.count
          /\ UNCHANGED kf
     ELSE /\ (fault \/ ~Sh!InsertValid(E.pts) \/ KFEmptyKey(E.pts) \/ KFStale)
          /\ Unchanged(E.P)
          /\ Note(~fault /\ Sh!InsertValid(E.pts), IF KFEmptyKey(E.pts) THEN "emptykey" ELSE "C09-c")
  /\ VersPush

\* Several insert requests issued at the same time (the storage engine admits one writer at a time): the outcome
\* must be that of SOME order of them.  The requests of a race share a fresh id, so whichever is first wins and
\* the others must be refused as a whole; E.P is the projection after all of them returned.
RECURSIVE Concat(_, _)
Concat(bs, ks) == IF ks = <<>> THEN <<>> ELSE bs[Head(ks)] \o Concat(bs, Tail(ks))
TInsertRace ==
  /\ IsEvent("InsertRace")
  /\ fault' = FALSE /\ Env
  /\ LET succ == SelectSeq([k \in DOMAIN E.oks |-> k], LAMBDA k : E.oks[k] = 1)
         all == Concat(E.batches, succ)
     IN  /\ PNodesFunctional(E.P)
         /\ Sh!InsertBatch(all, PN(E.P), PF(E.P), E.P.next)     \* accepted requests are pairwise disjoint and new
         /\ count' = E.P.count
         /\ \A k \in DOMAIN E.oks : E.oks[k] = 0 =>
               (~Sh!InsertValid(E.batches[k]) \/ Sh!BIds(E.batches[k]) \cap Sh!BIds(all) # {} \/ KFEmptyKey(E.batches[k]))
         /\ ((\A k \in DOMAIN E.oks : Sh!InsertValid(E.batches[k]) /\ ~KFEmptyKey(E.batches[k])) => Len(succ) >= 1)
         \* (the known finding emptykey excuses a refusal that nothing else explains)
         /\ Note(\E k \in DOMAIN E.oks : E.oks[k] = 0 /\ Sh!InsertValid(E.batches[k]) /\ Sh!BIds(E.batches[k]) \cap Sh!BIds(all) = {}, "emptykey")
  /\ VersPush

\* Write requests of any kind issued at the same time on pairwise DISJOINT id sets: whatever order the single
\* writer lock gives them, each is judged against the state before the race (its ids are touched by nobody else)
\* and the state after all of them is the state after applying them one after the other.
\* (the known finding emptykey excuses a failure, as in TInsert / TUpdate)
RaceExcused(op) == op.ok = 0 /\ op.kind \in {"insert", "update"} /\ KFEmptyKey(op.pts)
                   /\ (IF op.kind = "insert" THEN Sh!InsertValid(op.pts) ELSE ~Sh!UpdOversize(pts, op.pts, lim))
RaceOpOK(op) ==
  CASE op.kind = "insert" -> IF op.ok = 1 THEN Sh!InsertValid(op.pts) ELSE ~Sh!InsertValid(op.pts) \/ KFEmptyKey(op.pts)
    [] op.kind = "update" -> IF op.ok = 1 THEN ~Sh!UpdOversize(pts, op.pts, lim) ELSE Sh!UpdOversize(pts, op.pts, lim) \/ KFEmptyKey(op.pts)
    [] OTHER -> op.ok = 1
RaceApply(P, op) ==
  IF op.ok = 0 THEN P
  ELSE CASE op.kind = "insert" -> [i \in DOMAIN P \cup Sh!BIds(op.pts) |-> IF i \in DOMAIN P THEN P[i] ELSE Sh!DocIn(op.pts, i)]
         [] op.kind = "update" -> Sh!ApplyUpd(P, op.pts)
         [] OTHER -> [i \in DOMAIN P \ AsSet(op.ids) |-> P[i]]
RECURSIVE RaceFold(_, _)
RaceFold(P, ops) == IF ops = <<>> THEN P ELSE RaceFold(RaceApply(P, Head(ops)), Tail(ops))
TWriteRace ==
  /\ IsEvent("WriteRace")
  /\ fault' = FALSE /\ Env
  /\ Note(\E k \in DOMAIN E.ops : RaceExcused(E.ops[k]), "emptykey")
  /\ \A k \in DOMAIN E.ops : RaceOpOK(E.ops[k])
  /\ PNodesFunctional(E.P)
  /\ pts' = RaceFold(pts, E.ops)
  /\ Sh!AllocOK(PN(E.P), PF(E.P), E.P.next, DOMAIN pts')
  /\ nodeOf' = PN(E.P) /\ free' = PF(E.P) /\ next' = E.P.next
  /\ count' = E.P.count /\ E.P.count = Cardinality(DOMAIN pts')
  /\ VersPush

TUpdate ==
  /\ IsEvent("Update")
  /\ fault' = FALSE /\ Env
  /\ IF E.ok = 1
     THEN /\ Sh!UpdateBatch(E.pts, lim)
          \* one entry per requested point that existed (a batch may name a point twice)
          /\ Len(E.updated) = Cardinality({k \in DOMAIN E.pts : E.pts[k].id \in DOMAIN pts})
          /\ AsSet(E.updated) = Sh!UpdatedIds(E.pts)
          /\ PNodesFunctional(E.P)
          /\ PN(E.P) = nodeOf /\ PF(E.P) = free /\ E.P.next = next /\ E.P.count = count
          /\ UNCHANGED kf
     ELSE /\ (fault \/ Sh!UpdOversize(pts, E.pts, lim) \/ KFEmptyKey(E.pts) \/ KFStale)
          /\ Unchanged(E.P)
          /\ Note(~fault /\ ~Sh!UpdOversize(pts, E.pts, lim), IF KFEmptyKey(E.pts) THEN "emptykey" ELSE "C09-c")
  /\ VersPush

TDelete ==
  /\ IsEvent("Delete")
  /\ fault' = FALSE /\ Env
  /\ IF E.ok = 1
     THEN /\ PNodesFunctional(E.P)
          /\ Sh!DeleteBatch(AsSet(E.ids), PN(E.P), PF(E.P), E.P.next)
          /\ count' = E.P.count
          /\ Len(E.deleted) = Cardinality(AsSet(E.deleted))
          /\ AsSet(E.deleted) = AsSet(E.ids) \cap DOMAIN pts
          /\ UNCHANGED kf
     ELSE /\ (fault \/ KFStale)
          /\ Unchanged(E.P)
          /\ Note(~fault, "C09-c")
  /\ VersPush

---------------------------------------------------------------------------
(* Observations: state unchanged, logged answer must equal the model's    *)

Obs == UNCHANGED <<pts, nodeOf, free, next, count, fault, kf>> /\ Env /\ VersKeep

TCount == IsEvent("Count") /\ Obs /\ E.n = Cardinality(DOMAIN pts) /\ E.n = count

\* read by id with select *: exactly the stored documents of the known ids
TGet ==
  /\ IsEvent("Get") /\ Obs
  /\ LET got == {E.docs[k].id : k \in DOMAIN E.docs}
     IN  /\ Len(E.docs) = Cardinality(got)
         /\ got = AsSet(E.ids) \cap DOMAIN pts
         /\ \A k \in DOMAIN E.docs : E.docs[k].f = Visible(pts[E.docs[k].id])

TFilter ==
  /\ IsEvent("Filter") /\ Obs
  /\ Len(E.ids) = Cardinality(AsSet(E.ids))
  /\ AsSet(E.ids) = EvalQ(S, U, pts, E.q)

TFlat ==
  /\ IsEvent("Flat") /\ Obs
  /\ HitsExact(S, U, pts, E.p, E.vec, E.limit, E.w4, E.filter, E.hits, E.tol)

\* graph search: always sound; exact when the driver established an exact regime
TVamana ==
  /\ IsEvent("Vamana") /\ Obs
  /\ IF E.exact = 1
     THEN HitsExact(S, U, pts, E.p, E.vec, E.limit, E.w4, E.filter, E.hits, E.tol)
     ELSE HitsSound(S, U, pts, E.p, E.vec, E.limit, E.w4, E.filter, E.hits, E.tol)

\* the same graph search on a warm and on a cold instance of the same committed
\* data (C08): same distances; the ids may differ only among equal distances
TVamanaPair ==
  /\ IsEvent("VamanaPair") /\ Obs
  /\ Len(E.a) = Len(E.b)
  /\ \A k \in DOMAIN E.a : E.a[k].d = E.b[k].d
  /\ LET A == {E.a[k].id : k \in DOMAIN E.a}
         B == {E.b[k].id : k \in DOMAIN E.b}
         DA(i) == E.a[CHOOSE k \in DOMAIN E.a : E.a[k].id = i].d
         DB(i) == E.b[CHOOSE k \in DOMAIN E.b : E.b[k].id = i].d
     IN  /\ \A i \in A \ B : \E j \in B \ A : DA(i) = DB(j)
         /\ \A j \in B \ A : \E i \in A \ B : DA(i) = DB(j)
  /\ IF E.quant = 1
     THEN \* a trained quantiser decides the distance: membership and order only
          /\ {E.a[k].id : k \in DOMAIN E.a} \subseteq Cands(S, U, pts, E.p, [k |-> "all"])
          /\ Len(E.a) <= E.limit
          /\ \A k \in DOMAIN E.a : k > 1 => E.a[k - 1].d <= E.a[k].d
     ELSE HitsSound(S, U, pts, E.p, E.vec, E.limit, 4, [k |-> "all"], [k \in DOMAIN E.a |-> [id |-> E.a[k].id, d |-> E.a[k].d, h4 |-> 0 - 4 * E.a[k].d]], E.tol)

\* the same flat search warm and cold when a trained quantiser decides the
\* distances (the model does not recompute them): both answers have the same
\* distance profile, differ only among equal distances, come from the
\* candidate set and have the full length
TFlatPair ==
  /\ IsEvent("FlatPair") /\ Obs
  /\ LET cand == Cands(S, U, pts, E.p, E.filter)
         A == {E.a[k].id : k \in DOMAIN E.a}
         B == {E.b[k].id : k \in DOMAIN E.b}
         DA(i) == E.a[CHOOSE k \in DOMAIN E.a : E.a[k].id = i].d
         DB(i) == E.b[CHOOSE k \in DOMAIN E.b : E.b[k].id = i].d
     IN  /\ Len(E.a) = Min2(E.limit, Cardinality(cand)) /\ Len(E.b) = Len(E.a)
         /\ Cardinality(A) = Len(E.a) /\ Cardinality(B) = Len(E.b)
         /\ A \subseteq cand /\ B \subseteq cand
         /\ \A k \in DOMAIN E.a : E.a[k].d = E.b[k].d
         /\ \A k \in DOMAIN E.a : k > 1 => E.a[k - 1].d <= E.a[k].d
         /\ \A i \in A \ B : \E j \in B \ A : DA(i) = DB(j)

TText ==
  /\ IsEvent("Text") /\ Obs
  /\ TextOK(S, U, pts, E.p, AsSet(E.terms), E.op, E.limit, E.w4, E.filter, E.hits, E.tol)

\* Known finding C05-repeat: an update request that names one point twice and changes its text both times.  The
\* text index analyses the changes of a batch on parallel workers and applies them in the order the workers
\* finish, so the index may end up describing the FIRST of the two texts while the stored document holds the
\* second.  Signature: a text query that departs from the model, issued by the driver's probe right after such a
\* request (E.rep = 1, a fact about the driver's own last request); the probe ends the history.
TTextRepeat ==
  /\ IsEvent("Text") /\ E.rep = 1 /\ "C05-repeat" \in KnownFindings
  /\ ~TextOK(S, U, pts, E.p, AsSet(E.terms), E.op, E.limit, E.w4, E.filter, E.hits, E.tol)
  /\ kf' = kf \cup {"C05-repeat"}
  /\ UNCHANGED <<pts, nodeOf, free, next, count, fault>> /\ Env /\ VersKeep

\* persisted similarity graph of property E.p (C10): one node and one vector
\* per live point that has the field plus the entry node 1; edges lead to
\* existing nodes other than their source; out-degree <= R except for the
\* entry node; the recorded maximum bounds all ids in use
\* The transition of the persisted graph over one batch, as Graph.tla allows it
\* (B = before, A = after; D = updated and removed nodes; New = inserted and
\* re-inserted nodes).  A rejected batch leaves the graph as it was.  A batch
\* that only removes nodes is judged exactly (one-level re-linking, rescue of
\* nodes without inbound edge at the entry node), and so is the insertion of a
\* single node (out-edges, then one back edge per chosen neighbour, pruned at
\* the bound); for the rest the edges of every surviving node must come from
\* where the design can take them.
GraphOf(ns) == [n \in {ns[k][1] : k \in DOMAIN ns} |-> AsSet(ns[CHOOSE k \in DOMAIN ns : ns[k][1] = n][2])]
GraphStep ==
  LET B == GraphOf(E.prev)
      A == GraphOf(E.nodes)
      Ins == DOMAIN A \ DOMAIN B
      Del == DOMAIN B \ DOMAIN A
      Upd == IF E.kind = "update" THEN AsSet(E.touched) \cap DOMAIN A \cap DOMAIN B ELSE {}
      D == Upd \cup Del
      New == Ins \cup Upd
      valid == DOMAIN B \ D
      Cand(n) == (B[n] \ D) \cup ((UNION {B[b] : b \in B[n] \cap D}) \ D)
      \* (the scan, and with it the rescue, only runs when something is updated or removed)
      toSave == IF D = {} THEN {} ELSE {m \in valid \ {1} : \A v \in valid : m \notin B[v]}
      Sv(n) == IF n = 1 THEN toSave ELSE {}
      old == (DOMAIN A \cap DOMAIN B) \ Upd
  IN  IF E.ok = 0 THEN \A n \in DOMAIN A \cup DOMAIN B : n \in DOMAIN A /\ n \in DOMAIN B /\ A[n] = B[n]
      ELSE
        \* a placed node has out-edges as soon as there is somebody to point to
        /\ \A n \in New \ {1} : (1 \in DOMAIN B \/ Cardinality(Ins) > 2) => A[n] # {}
        \* where the edges of a surviving node can come from
        /\ \A n \in old :
              A[n] \subseteq (B[n] \ D) \cup Cand(n) \cup New \cup (IF n = 1 THEN (IF Ins = {} THEN toSave ELSE DOMAIN A) ELSE {})
        \* no change without a cause
        /\ \A n \in old :
              (A[n] # B[n] /\ B[n] \cap D = {} /\ A[n] \cap New = {} /\ ~(n = 1 /\ toSave # {}))
                 => (New # {} /\ Cardinality(B[n]) + Cardinality(New) > E.R /\ A[n] \subseteq B[n] /\ A[n] # {})
        \* removal only: exact
        /\ (New = {}) =>
              \A n \in old :
                 IF B[n] \cap D = {} THEN A[n] = B[n] \cup Sv(n)
                 ELSE IF Cardinality(Cand(n)) > E.R
                      THEN /\ Sv(n) \subseteq A[n] /\ A[n] \subseteq (Cand(n) \ {n}) \cup Sv(n)
                           /\ Cardinality(A[n] \ Sv(n)) <= E.R
                           /\ (A[n] \ Sv(n) # {} \/ A[n] \cap (Cand(n) \ {n}) # {})
                      ELSE A[n] = (Cand(n) \ {n}) \cup Sv(n)
        \* one new node on an existing graph: exact
        /\ (Cardinality(Ins) = 1 /\ D = {} /\ 1 \in DOMAIN B) =>
              LET a == CHOOSE x \in Ins : TRUE
              IN  /\ A[a] \subseteq DOMAIN B /\ Cardinality(A[a]) <= E.R
                  /\ \A n \in old :
                        IF n \notin A[a] THEN A[n] = B[n]
                        ELSE IF Cardinality(B[n]) + 1 > E.R
                             THEN A[n] \subseteq B[n] \cup {a} /\ A[n] # {} /\ Cardinality(A[n]) <= E.R
                             ELSE A[n] = B[n] \cup {a}

TGraph ==
  /\ IsEvent("Graph") /\ Obs
  /\ LET want  == {1} \cup {nodeOf[i] : i \in {j \in DOMAIN pts : HasIx(S, pts[j], E.p)}}
         ids   == [k \in DOMAIN E.nodes |-> E.nodes[k][1]]
         nodes == AsSet(ids)
     IN  /\ NoDup(ids) /\ NoDup(E.vecs)
         \* (an index that was never written has no entry node yet)
         /\ (nodes = want \/ (want = {1} /\ nodes = {}))
         /\ AsSet(E.vecs) = nodes
         /\ \A k \in DOMAIN E.nodes :
               LET n == E.nodes[k][1]  es == E.nodes[k][2]
               IN  /\ AsSet(es) \subseteq nodes
                   /\ n \notin AsSet(es)
                   /\ (n # 1 => Len(es) <= E.R)
         /\ \A n \in nodes : n <= Max2(E.max, 1)
  /\ (E.hasprev = 1 => GraphStep)

\* Key-level state of a quantised vector store (Quant.tla): which node ids have a 'v' / a 'q' key in the index
\* bucket, and whether the quantiser's trained state is stored.  Every live point with the field can be read
\* from the bucket alone and nothing else can; once trained every point has its quantised form, before that
\* none has; a product-quantised store is enumerated by 'v'; training happens when, and only when, the store
\* has reached the trigger at the end of some write (the entry node of a graph index counts) and is never undone.
CountW(P, p) == Cardinality({j \in DOMAIN P : HasIx(S, P[j], p)})
TVecKeys ==
  /\ IsEvent("VecKeys") /\ Obs
  /\ LET Wn   == {nodeOf[i] : i \in {j \in DOMAIN pts : HasIx(S, pts[j], E.p)}}
         V    == AsSet(E.v)
         Q    == AsSet(E.q)
         base == IF E.entry = 1 THEN {1} ELSE {}
         due  == \E v \in 1..Len(vers) : CountW(vers[v], E.p) + E.entry >= E.trigger
         tr   == E.trained = 1 \/ E.fixed = 1
     IN  /\ NoDup(E.v) /\ NoDup(E.q)
         /\ V \cup Q \subseteq Wn \cup base
         /\ Wn \subseteq V \cup Q
         /\ IF E.kind = "plain"
            THEN \* no quantiser: full vectors only, nothing is ever trained
                 Q = {} /\ Wn \subseteq V /\ E.trained = 0
            ELSE /\ (tr /\ Wn # {}) => Wn \subseteq Q
                 /\ ~tr => (Q = {} /\ Wn \subseteq V)
                 /\ E.kind = "product" => Wn \subseteq V
                 /\ E.fixed = 0 => (E.trained = 1 <=> due)

\* Persisted state of a text index (read from its bucket): the recorded corpus size, the document entries and
\* the term sets are exactly what the stored documents determine -- one entry (node, length, term frequencies)
\* per point whose field analyses to at least one token, one set per term that occurs, holding the nodes of the
\* documents with that term.
TTextIx ==
  /\ IsEvent("TextIx") /\ Obs
  /\ LET C   == Corpus(S, pts, E.p)
         D   == {[n |-> nodeOf[i], len |-> IxOf(S, pts[i], E.p).len, tf |-> IxOf(S, pts[i], E.p).tf] : i \in C}
         LD  == {[n |-> E.docs[k].n, len |-> E.docs[k].len, tf |-> E.docs[k].tf] : k \in DOMAIN E.docs}
         T   == UNION {DOMAIN IxOf(S, pts[i], E.p).tf : i \in C}
         ES  == {[t |-> t, ids |-> {nodeOf[i] : i \in {j \in C : t \in DOMAIN IxOf(S, pts[j], E.p).tf}}] : t \in T}
         LS  == {[t |-> E.sets[k].t, ids |-> AsSet(E.sets[k].ids)] : k \in DOMAIN E.sets}
     IN  /\ E.n = Cardinality(C)
         /\ Len(E.docs) = Cardinality(LD) /\ LD = D
         /\ Len(E.sets) = Cardinality(LS) /\ LS = ES
         /\ \A k \in DOMAIN E.sets : NoDup(E.sets[k].ids)

\* Persisted state of an inverted index (integer, float, string, string array), read from its bucket: one entry
\* per key that some stored document yields (numbers: the value; strings: the value folded under the index's
\* declared case sensitivity; arrays: every element), holding exactly the nodes of those documents.
KeysOf(doc, p) ==
  LET t == S[p].type  v == IxOf(S, doc, p)
  IN  CASE t \in {"integer", "float"} -> {v}
        [] t = "string" -> {Norm(S, U, p, v)}
        [] t = "stringArray" -> {Norm(S, U, p, v[i]) : i \in DOMAIN v}
        [] OTHER -> {}
TInvIx ==
  /\ IsEvent("InvIx") /\ Obs
  /\ LET H  == {i \in DOMAIN pts : HasIx(S, pts[i], E.p)}
         K  == UNION {KeysOf(pts[i], E.p) : i \in H}
         EX == {[r |-> k, ids |-> {nodeOf[i] : i \in {j \in H : k \in KeysOf(pts[j], E.p)}}] : k \in K}
         LG == {[r |-> E.ents[x].r, ids |-> AsSet(E.ents[x].ids)] : x \in DOMAIN E.ents}
     IN  /\ Len(E.ents) = Cardinality(LG) /\ LG = EX
         /\ \A x \in DOMAIN E.ents : NoDup(E.ents[x].ids)

\* What-if trials (C07): the batch is tried on a copy of the database under an
\* injected fault / kill; Fork saves the model state, Restore brings it back.
TFork ==
  /\ IsEvent("Fork")
  /\ saved' = [pts |-> pts, nodeOf |-> nodeOf, free |-> free, next |-> next, count |-> count]
  /\ UNCHANGED <<pts, nodeOf, free, next, count, fault, kf, lim, S, U, mem, csz, vers>>
TRestore ==
  /\ IsEvent("Restore")
  /\ pts' = saved.pts /\ nodeOf' = saved.nodeOf /\ free' = saved.free /\ next' = saved.next /\ count' = saved.count
  /\ fault' = FALSE
  /\ UNCHANGED <<saved, kf, lim, S, U, mem, csz, vers>>

\* the process was killed while the batch ran (observed after reopening the
\* file): before the commit nothing of the batch may be visible, right after
\* the commit all of it must be
TCrash ==
  /\ IsEvent("Crash")
  /\ fault' = FALSE /\ Env /\ UNCHANGED kf /\ VersKeep
  /\ PNodesFunctional(E.P)
  /\ IF E.applied = 0
     THEN Unchanged(E.P)
     ELSE CASE E.kind = "insert" ->
                 IF Sh!InsertValid(E.pts)
                 THEN Sh!InsertBatch(E.pts, PN(E.P), PF(E.P), E.P.next) /\ count' = E.P.count
                 ELSE Unchanged(E.P)
            [] E.kind = "update" ->
                 IF Sh!UpdOversize(pts, E.pts, lim)
                 THEN Unchanged(E.P)
                 ELSE /\ Sh!UpdateBatch(E.pts, lim)
                      /\ PN(E.P) = nodeOf /\ PF(E.P) = free /\ E.P.next = next /\ E.P.count = count
            [] E.kind = "delete" ->
                 Sh!DeleteBatch(AsSet(E.ids), PN(E.P), PF(E.P), E.P.next) /\ count' = E.P.count

\* A search that ran concurrently with the writer stream (C09).  It began when
\* E.a write batches had returned and ended when E.b had been started, so its
\* snapshot is one of the versions a..b: every returned point was live in one
\* of those committed versions, with exactly the document of that version.
TCSearch ==
  /\ IsEvent("CSearch") /\ Obs
  /\ E.a + 1 >= 1 /\ E.b + 1 <= Len(vers)
  /\ \A k \in DOMAIN E.docs :
        \E v \in (E.a + 1)..(E.b + 1) :
           /\ E.docs[k].id \in DOMAIN vers[v]
           \* select "*" (sel empty) returns the whole document, named top-level fields exactly those present
           /\ LET vis == Visible(vers[v][E.docs[k].id])
              IN  IF Len(E.sel) = 0 THEN vis = E.docs[k].f
                  ELSE E.docs[k].f = [fld \in AsSet(E.sel) \cap DOMAIN vis |-> vis[fld]]

\* Known finding C09-b: with a shared cache (size # 0) a ranking search whose
\* snapshot is older than a batch committed while it ran may attach the shared
\* index cache already updated by that batch; it then meets a node that does not
\* exist in its snapshot and fails spuriously.  Signature: an error of a
\* concurrent RANKING search that overlapped a commit (a < b) on a history with
\* the shared cache on.  Any other search error is not excused.
TErrKnown ==
  /\ IsEvent("Err")
  /\ "C09-b" \in KnownFindings
  /\ E.what = "ConcurrentSearch/rank" /\ E.a < E.b /\ csz # 0 /\ mem = 0
  /\ kf' = kf \cup {"C09-b"}
  /\ UNCHANGED <<pts, nodeOf, free, next, count, fault>> /\ Env /\ VersKeep

\* Known finding C09-c, second face: the stale shared cache object (see KFStale) is attached by a later
\* search, which meets a node that its own snapshot does not have and fails, although no commit overlaps it.
\* Signature: an error "does not exist / not found" of a ranking search inside a forced-schedule behaviour in
\* which the driver saw such an attach (risk = 1), shared cache on.
TErrKnownStale ==
  /\ IsEvent("Err")
  /\ "C09-c" \in KnownFindings
  /\ E.what = "ConcurrentSearch/rank" /\ "risk" \in DOMAIN E /\ E.risk = 1 /\ E.nx = 1 /\ csz # 0 /\ mem = 0
  /\ kf' = kf \cup {"C09-c"}
  /\ UNCHANGED <<pts, nodeOf, free, next, count, fault>> /\ Env /\ VersKeep

\* a concurrent composite request with a sub-query on a property the schema does not have: refused
TBadQuery ==
  /\ IsEvent("BadQuery") /\ E.refused = 1
  /\ UNCHANGED <<pts, nodeOf, free, next, count, fault, kf>> /\ Env /\ VersKeep

\* environment steps with no effect on the abstract state (reopen, evict,
\* switch to a cold copy): the model says nothing may change
TQuiet == IsEvent("Quiet") /\ Obs

TraceNext ==
  \/ TReset \/ TFault \/ TInsert \/ TInsertRace \/ TWriteRace \/ TUpdate \/ TDelete \/ TFork \/ TRestore \/ TCrash
  \/ TCount \/ TGet \/ TFilter \/ TFlat \/ TVamana \/ TVamanaPair \/ TFlatPair \/ TCSearch \/ TErrKnown \/ TErrKnownStale \/ TBadQuery \/ TText \/ TTextRepeat \/ TGraph \/ TVecKeys \/ TTextIx \/ TInvIx \/ TQuiet

TraceSpec == TraceInit /\ [][TraceNext]_vars

\* invariants evaluated at every step of every trace
WF == Sh!ShardWF

\* every line consumed; the findings matched are printed for the orchestrator
\* states of a trace are told apart by the line counter alone (cheap fingerprints)
TraceView == l
TraceAccepted ==
  /\ TLCGet("stats").diameter - 1 = Len(Trace)

\* kf is monotone, so the value in the last state is the union; it is printed
\* by the state constraint below when the last line has been consumed
ReportKF == (l = Len(Trace) + 1) => PrintT(<<"KF", kf>>)
=============================================================================
