SPECIFICATION Spec
CONSTANTS
 Tx = {"t1", "t2", "t3"}
 Names = {"A", "B"}
 MaxSize = 3
 MaxObj = 12
 MaxRelease = 1
 SkipWrittenByName = TRUE
 RecordHist = FALSE
 ProgFamily <- Twice
 CFailFamily <- AnyCFail
VIEW view
INVARIANTS WriterIsolation NoConcurrentRW LocksFreeAtEnd ReadersNeverBlock NoDeadlock
PROPERTY NoScrappedHandout
CHECK_DEADLOCK FALSE
