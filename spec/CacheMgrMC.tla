----------------------------- MODULE CacheMgrMC -----------------------------
(* Program families for CacheMgr.tla *)
EXTENDS CacheMgr
R(n)  == [name |-> n, ro |-> TRUE,  cbFail |-> FALSE, ctorFail |-> FALSE]
W(n)  == [name |-> n, ro |-> FALSE, cbFail |-> FALSE, ctorFail |-> FALSE]
WF(n) == [name |-> n, ro |-> FALSE, cbFail |-> TRUE,  ctorFail |-> FALSE]
RF(n) == [name |-> n, ro |-> TRUE,  cbFail |-> TRUE,  ctorFail |-> FALSE]
RC(n) == [name |-> n, ro |-> TRUE,  cbFail |-> FALSE, ctorFail |-> TRUE]
WC(n) == [name |-> n, ro |-> FALSE, cbFail |-> FALSE, ctorFail |-> TRUE]

\* a few hand-picked program triples (the repo's scenarios and their failure variants)
Fixed == {
  [t1 |-> <<W("A"), R("A"), WF("B")>>, t2 |-> <<R("A"), RC("B"), R("A")>>, t3 |-> <<R("B"), RF("A"), R("B")>>],
  [t1 |-> <<W("A"), W("B")>>,          t2 |-> <<R("A"), R("B")>>,          t3 |-> <<R("B"), R("A")>>],
  [t1 |-> <<W("A"), WC("B"), R("A")>>, t2 |-> <<R("A"), R("A")>>,          t3 |-> <<W("B"), R("A")>>],
  [t1 |-> <<WF("A")>>,                 t2 |-> <<R("A"), R("A"), R("A")>>,  t3 |-> <<W("A"), R("A")>> ]
}
\* a writer writing the SAME name twice (the quantifier of C11 allows it)
Twice == {
  [t1 |-> <<W("A"), R("B"), W("A")>>,  t2 |-> <<R("A"), R("A")>>,          t3 |-> <<R("A"), R("B")>>]
}
\* simulation: every program of <= 3 accesses for the writer, <= 2 for readers
Acc1 == {R("A"), R("B"), W("A"), W("B"), WF("A"), WF("B"), RF("A"), RC("B"), WC("A")}
AccR == {R("A"), R("B"), RF("A"), RF("B"), RC("A")}
SeqsUpTo(T, n) == UNION {[1..k -> T] : k \in 1..n}
NoCFail == {[t \in Tx |-> FALSE]}
AnyCFail == [Tx -> BOOLEAN]
SimFamily == [t1 : SeqsUpTo(Acc1, 3), t2 : SeqsUpTo(AccR, 2), t3 : SeqsUpTo(Acc1 \cup AccR, 2)]
=============================================================================
