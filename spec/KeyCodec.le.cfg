SPECIFICATION Spec
CONSTANTS
  Variant = "le"
  Models <- ModelsNegInt
INVARIANTS RoundTrip KeyLength OrderIff StructuralOrder FixedKeys ScanOK
CHECK_DEADLOCK FALSE
