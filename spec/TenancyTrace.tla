--------------------------- MODULE TenancyTrace ---------------------------
(***************************************************************************)
(* C16 oracle: TLC judges every line logged by `vh tenancy`.                *)
(*                                                                          *)
(* Hist    a fresh node, two users (1, 2), the table of collection names    *)
(*         (index -> length, character class) and the names probed in every *)
(*         observation.                                                     *)
(* Req     one HTTP request of user E.u (api v1 / v2) with its status class *)
(*         and decoded answer, followed by the observations obs[1], obs[2]  *)
(*         of BOTH users taken after it: list collections, get of every     *)
(*         probed name (status, point count per shard), and a select-*      *)
(*         read of all point ids of every collection that exists.           *)
(* Unload  every loaded shard was unloaded (environment step).              *)
(* Fork / CReq / Join   both users issue requests concurrently; a CReq line *)
(*         carries the issuing user's own observation only.                 *)
(*                                                                          *)
(* Model: m[u] is the per-user reference state (collection -> point ->      *)
(* value), moved ONLY by the user's own requests according to the rules     *)
(* below (outcome classes ok / quota 403 / notfound 404 / exists 409 /      *)
(* invalid 400); po[u] is the last raw observation of user u.               *)
(*   Isolation   after a request of u the other user's observation is       *)
(*               IDENTICAL to the one before (raw equality of everything    *)
(*               logged), and identical for both users after Unload / Join; *)
(*   Own model   the requester's observation is the abstraction of the      *)
(*               successor state of m[u]; quota decisions use the user's    *)
(*               own collection / point counts only.                        *)
(* In the concurrent phase only the second part can be stated per line; it  *)
(* implies isolation there: m[u] ignores the other user's requests.         *)
(* Known finding dot-userid (user id "." / ".."): the first line of a       *)
(* history marked dot on which a bystander's observation changes is         *)
(* accepted only if the finding is listed; the rest of that history is then *)
(* accepted unjudged (counted as "unjudged").                               *)
(***************************************************************************)
EXTENDS Integers, Sequences, FiniteSets, TLC, Json

CONSTANTS TraceFile, KnownFindings
Trace == ndJsonDeserialize(TraceFile)

VARIABLES l, kf,
          hist,     \* the Hist line of the current history
          m,        \* <<model state of user 1, of user 2>>
          po,       \* <<last observation of user 1, of user 2>>
          conc,     \* inside a concurrent phase
          taint,    \* the known finding was met in this history: the rest of the history is not judged
          cov, iso  \* coverage: requests per op:class, number of other-user comparisons
vars == <<l, kf, hist, m, po, conc, taint, cov, iso>>

E == Trace[l]
IsEvent(name) == l <= Len(Trace) /\ Trace[l].ev = name /\ l' = l + 1

RECURSIVE SeqSum(_)
SeqSum(s) == IF Len(s) = 0 THEN 0 ELSE Head(s) + SeqSum(Tail(s))
Range(s) == {s[x] : x \in 1..Len(s)}
StrictlyInc(s) == \A x \in 1..Len(s) - 1 : s[x] < s[x + 1]
Restrict(f, S) == [x \in DOMAIN f \cap S |-> f[x]]

\* ---------------------------------------------------------------------------
\* observations
PtsFn(ps) == [i \in {ps[y].i : y \in 1..Len(ps)} |-> ps[CHOOSE y \in 1..Len(ps) : ps[y].i = i].v]
NoPts == PtsFn(<<>>)
Abs(o) ==
  LET ok == {x \in 1..Len(o.cols) : o.cols[x].code = 200}
  IN  [c \in {o.cols[x].c : x \in ok} |-> PtsFn(o.cols[CHOOSE x \in ok : o.cols[x].c = c].pts)]

NameLen(c) == hist.names[c].len
PtsWF(ps) ==
  /\ \A y \in 1..Len(ps) : ps[y].i \in 1..hist.np /\ ps[y].v >= 0 /\ ps[y].v = ps[y].w
  /\ \A y \in 1..Len(ps) - 1 : ps[y].i < ps[y + 1].i
\* an observation is well formed: the answers agree with each other
ObsWF(o) ==
  /\ o.lc = 200
  /\ StrictlyInc(o.list)                                   \* no name twice
  /\ Len(o.cols) = Len(hist.probe)
  /\ \A x \in 1..Len(o.cols) : o.cols[x].c = hist.probe[x]
  /\ Range(o.list) = {o.cols[x].c : x \in {y \in 1..Len(o.cols) : o.cols[y].code = 200}}
  /\ \A x \in 1..Len(o.cols) :
       LET e == o.cols[x]
       IN  /\ \/ e.code = 404 /\ Len(e.k) = 0 /\ Len(e.pts) = 0
              \/ e.code = 200 /\ e.sc = 200 /\ SeqSum(e.k) = Len(e.pts) /\ PtsWF(e.pts)
           /\ hist.v1obs = 1 =>
                /\ e.code1 = (IF NameLen(e.c) > 16 THEN 400 ELSE e.code)
                /\ e.code1 = 200 => e.k1 = e.k
  /\ hist.v1obs = 1 => o.lc1 = 200 /\ o.list1 = o.list

\* ---------------------------------------------------------------------------
\* the per-user reference model
Name(c) == hist.names[c]
CreateValid(api, c) ==
  IF api = "v2" THEN Name(c).len >= 3 /\ Name(c).len <= 24 /\ Name(c).cls = "lower"
  ELSE Name(c).len >= 3 /\ Name(c).len <= 16 /\ Name(c).cls \in {"lower", "mixed"}
UriLenOK(api, c) == Name(c).len >= 3 /\ Name(c).len <= (IF api = "v2" THEN 24 ELSE 16)
Refused == {"invalid", "notfound", "redirect", "other4"}

Batch == E.pts
BIds == {Batch[x].i : x \in 1..Len(Batch)}
Distinct == Cardinality(BIds) = Len(Batch)

\* requests that found their collection: cur = model state before, new = abstraction of the observation after
Found(cur, new, c) ==
  LET P == cur[c]
      Same == new = cur
  IN CASE E.op = "get" ->
            /\ E.cls = "ok" /\ Same
            /\ SeqSum(E.resp.k) = Cardinality(DOMAIN P)
       [] E.op = "delcol" ->
            /\ E.cls = "ok"
            /\ new = Restrict(cur, DOMAIN cur \ {c})
       [] E.op = "insert" ->
            IF Len(Batch) = 0 THEN E.cls = "invalid" /\ Same
            ELSE IF Cardinality(DOMAIN P) + Len(Batch) > E.maxPts
            THEN E.cls = "quota" /\ Same                     \* the user's OWN point count decides
            ELSE IF Distinct /\ BIds \cap DOMAIN P = {}
            THEN /\ E.cls = "ok" /\ E.resp.failed = 0
                 /\ new = [cur EXCEPT ![c] = PtsFn(Batch) @@ P]
            ELSE \* a batch naming an id twice or an id already stored: not judged by this property beyond
                 \* "nothing but this collection changes, stored points stay, new points come from the batch"
                 /\ E.cls = "ok"
                 /\ DOMAIN new = DOMAIN cur
                 /\ \A d \in DOMAIN cur \ {c} : new[d] = cur[d]
                 /\ \A i \in DOMAIN P : i \in DOMAIN new[c] /\ new[c][i] = P[i]
                 /\ \A i \in DOMAIN new[c] \ DOMAIN P : \E x \in 1..Len(Batch) : Batch[x].i = i /\ Batch[x].v = new[c][i]
       [] E.op = "update" ->
            /\ Distinct /\ Len(Batch) >= 1
            /\ E.cls = "ok"
            /\ new = [cur EXCEPT ![c] = [i \in DOMAIN P |-> IF i \in BIds THEN PtsFn(Batch)[i] ELSE P[i]]]
            /\ Range(E.resp.failed) = BIds \ DOMAIN P
       [] E.op = "delpts" ->
            /\ Distinct /\ Len(Batch) >= 1
            /\ E.cls = "ok"
            /\ new = [cur EXCEPT ![c] = Restrict(P, DOMAIN P \ BIds)]
            /\ Range(E.resp.failed) = BIds \ DOMAIN P
       [] E.op = "search" ->
            /\ E.cls = "ok" /\ Same
            /\ IF E.api = "v2"
               THEN /\ PtsWF(E.resp.pts)
                    /\ PtsFn(E.resp.pts) = Restrict(P, BIds)          \* exactly the user's own points
               ELSE \A y \in 1..Len(E.resp.pts) :                       \* approximate index: a subset of them
                      E.resp.pts[y].i \in DOMAIN P /\ E.resp.pts[y].v = P[E.resp.pts[y].i]
       [] OTHER -> FALSE

\* A user id that is not a plain name ("." / ".." would be resolved as a path) may be turned away at the
\* door: then every request of that user is refused (400), the user never owns anything, and there is nothing
\* it could do to the other user.  Decided per history by what the first observation showed.
RefusedObs(o) ==
  /\ o.lc = 400 /\ Len(o.list) = 0
  /\ \A x \in 1..Len(o.cols) : o.cols[x].code = 400 /\ Len(o.cols[x].k) = 0 /\ Len(o.cols[x].pts) = 0
Refd(u) == hist.obs[u].lc = 400

OwnStep(u, o) ==
  IF Refd(u) THEN E.u = u /\ E.cls = "invalid" /\ RefusedObs(o) ELSE
  LET cur == m[u]
      new == Abs(o)
      c == E.c
      Same == new = cur
  IN /\ ObsWF(o)
     /\ E.u = u /\ E.api \in {"v1", "v2"}
     /\ CASE E.op = "create" ->
               IF ~CreateValid(E.api, c) THEN E.cls = "invalid" /\ Same
               ELSE IF c \in DOMAIN cur THEN E.cls = "exists" /\ Same
               ELSE IF Cardinality(DOMAIN cur) >= E.maxCols
               THEN E.cls = "quota" /\ Same                  \* the user's OWN collections decide
               ELSE E.cls = "ok" /\ new = (c :> NoPts) @@ cur
          [] E.op = "list" ->
               /\ E.cls = "ok" /\ Same
               /\ StrictlyInc(E.resp.cols) /\ Range(E.resp.cols) = DOMAIN cur
          [] E.op = "badhdr" -> E.cls = "invalid" /\ Same
          [] OTHER ->
               IF Name(c).cls = "bad" THEN E.cls \in Refused /\ Same
               ELSE IF ~UriLenOK(E.api, c) THEN E.cls = "invalid" /\ Same
               ELSE IF c \notin DOMAIN cur THEN E.cls = "notfound" /\ Same
               ELSE Found(cur, new, c)

\* ---------------------------------------------------------------------------
\* isolation: a user who did not act observes exactly what was observed before.
\* Known finding dot-userid: with a user id "." or ".." (a history marked dot) the shard directories of
\* one user lie inside the collection directory of the other; accepted only when listed, and recorded.
Untouched(w, o) == o = po[w]
Excused(o) == hist.dot = 1 /\ "dot-userid" \in KnownFindings /\ ObsWF(o)
Bystander(w, o) == Untouched(w, o) \/ Excused(o)
\* S = the users whose observation changed although they did not act.  Once the finding has been met the
\* victim's files are gone behind the back of the shard manager and of the shared index cache (later requests
\* of the victim may fail or answer from stale caches): the rest of THAT history is accepted unjudged and counted.
KfOf(S) == IF S = {} \/ taint THEN kf ELSE kf \cup {"dot-userid"}
TaintOf(S) == taint \/ S # {}

Bump(k) == IF k \in DOMAIN cov THEN [cov EXCEPT ![k] = @ + 1] ELSE (k :> 1) @@ cov
Count == IF taint THEN Bump("unjudged") ELSE Bump(E.op \o ":" \o E.cls)

THist ==
  /\ IsEvent("Hist")
  /\ ~conc
  /\ hist' = E
  /\ \A x, y \in 1..Len(E.names) : x # y => E.names[x].s # E.names[y].s
  /\ \A x \in 1..2 :
        \/ E.obs[x].lc = 200 /\ Len(E.obs[x].list) = 0 /\ \A y \in 1..Len(E.obs[x].cols) : E.obs[x].cols[y].code = 404
        \/ E.users[x] \in {".", ".."} /\ RefusedObs(E.obs[x])
  /\ m' = <<Abs(E.obs[1]), Abs(E.obs[2])>>
  /\ po' = E.obs
  /\ taint' = FALSE
  /\ UNCHANGED <<kf, conc, cov, iso>>

TReq ==
  /\ IsEvent("Req")
  /\ ~conc
  /\ LET u == E.u
         w == 3 - E.u
         S == {x \in {w} : ~Untouched(x, E.obs[x])}
     IN /\ taint \/ (OwnStep(u, E.obs[u]) /\ Bystander(w, E.obs[w]))
        /\ m' = [m EXCEPT ![u] = Abs(E.obs[u]), ![w] = Abs(E.obs[w])]
        /\ kf' = KfOf(S) /\ taint' = TaintOf(S)
  /\ po' = E.obs
  /\ cov' = Count /\ iso' = (IF taint THEN iso ELSE iso + 1)
  /\ UNCHANGED <<hist, conc>>

\* Unload, Join: nobody acted, both users observe what they observed last
Quiet ==
  LET S == {x \in 1..2 : ~Untouched(x, E.obs[x])}
  IN /\ taint \/ \A x \in 1..2 : Bystander(x, E.obs[x])
     /\ m' = <<Abs(E.obs[1]), Abs(E.obs[2])>>
     /\ kf' = KfOf(S) /\ taint' = TaintOf(S)
     /\ po' = E.obs
     /\ iso' = (IF taint THEN iso ELSE iso + 2)

TUnload ==
  /\ IsEvent("Unload")
  /\ ~conc
  /\ Quiet
  /\ cov' = Bump(IF taint THEN "unjudged" ELSE "unload")
  /\ UNCHANGED <<hist, conc>>

TFork ==
  /\ IsEvent("Fork")
  /\ ~conc /\ conc' = TRUE
  /\ UNCHANGED <<kf, hist, m, po, taint, cov, iso>>

TCReq ==
  /\ IsEvent("CReq")
  /\ conc
  \* (in a history marked dot the other user may be removing this user's directories at this very moment)
  /\ LET ok == taint \/ OwnStep(E.u, E.o)
     IN /\ ok \/ Excused(E.o)
        /\ kf' = (IF ok THEN kf ELSE kf \cup {"dot-userid"})
        /\ taint' = (taint \/ ~ok)
  /\ m' = [m EXCEPT ![E.u] = Abs(E.o)]
  /\ po' = [po EXCEPT ![E.u] = E.o]
  /\ cov' = Bump(IF taint THEN "unjudged" ELSE "concurrent")
  /\ UNCHANGED <<hist, conc, iso>>

TJoin ==
  /\ IsEvent("Join")
  /\ conc /\ conc' = FALSE
  /\ Quiet
  /\ UNCHANGED <<hist, cov>>

TraceInit == l = 1 /\ kf = {} /\ hist = <<>> /\ m = <<>> /\ po = <<>> /\ conc = FALSE /\ taint = FALSE /\ cov = <<>> /\ iso = 0
TraceNext == THist \/ TReq \/ TUnload \/ TFork \/ TCReq \/ TJoin
TraceSpec == TraceInit /\ [][TraceNext]_vars
TraceView == l

\* the model states of the two users are functions over the probed names only
WF == l > 1 => \A x \in 1..2 : DOMAIN m[x] \subseteq Range(hist.probe)
TraceAccepted == TLCGet("stats").diameter - 1 = Len(Trace)
ReportKF == (l = Len(Trace) + 1) => (PrintT(<<"KF", kf>>) /\ PrintT(<<"COV", iso, cov>>))
=============================================================================
