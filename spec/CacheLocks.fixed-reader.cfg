SPECIFICATION Spec
CONSTANTS TFirst = TRUE
 OtherIs = "reader"
INVARIANTS MutexOK NoDeadlock
PROPERTY Finishes
CHECK_DEADLOCK FALSE
