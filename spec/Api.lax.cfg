SPECIFICATION Spec
CONSTANTS
  Server = "lax"
  CatalogueFile = ""
INVARIANTS Judged
CHECK_DEADLOCK FALSE
