SPECIFICATION Spec
CONSTANTS
  Reqs = {1, 2, 3}
  MaxLS = 3
  MaxDel = 2
  FixLockOrder = TRUE
  GuardUnstore = FALSE
  MaxOpenFail = 1
  StoreBeforeOpen = FALSE
  RecordHist = FALSE
INVARIANTS NoUseAfterClose NeverOpenTwice NoRemoveWhileInUse AfterwardsLoadable NoDeadlock
CHECK_DEADLOCK FALSE
