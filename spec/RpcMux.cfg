SPECIFICATION Spec
CONSTANTS
  NCalls = 3
  OnErrorBody = "skip"
INVARIANTS TypeOK OwnAnswer NoPhantom Isolation
CHECK_DEADLOCK FALSE
