------------------------------- MODULE Kernel -------------------------------
(***************************************************************************)
(* C20: the distance kernels equal their definitions on every length.       *)
(*                                                                          *)
(* Part "sched" -- the control structure of the generated AVX kernels        *)
(* distance/asm/dot.s and distance/asm/euclidean.s (avo programs             *)
(* asm/dot/dot.go, asm/euclidean/euclidean.go; both have the SAME control    *)
(* structure, only the per-element term differs: x*y resp. (x-y)*(x-y)):     *)
(*                                                                          *)
(*     acc[0..Unroll-1] := 0            Unroll = 4 YMM accumulators          *)
(*   blockloop: if rem < Unroll*Lanes goto tail       (CMPQ n,32 ; JL)       *)
(*     acc[a][j] += term(ptr + a*Lanes + j)           Lanes = 8 floats/YMM   *)
(*     ptr += 32 ; rem -= 32 ; goto blockloop                                *)
(*   tail: t := 0                       one XMM register, lane 0 is used     *)
(*   tailloop: if rem = 0 goto reduce                                        *)
(*     t[0] += term(ptr) ; ptr += 1 ; rem -= 1 ; goto tailloop               *)
(*   reduce: acc[0] += acc[1]; acc[0] += acc[2]; acc[0] += acc[3]            *)
(*     top := acc[0][4..7] (VEXTRACTF128) ; r := acc[0][0..3] + top          *)
(*     r += t ; r := hadd(r,r) ; r := hadd(r,r) ; return r[0]                *)
(*                                                                          *)
(* Registers hold BAGS of tokens instead of floats: <<"i",k>> is the term of *)
(* element k, <<"z",q>> the zero a register lane was initialised with.  "+"  *)
(* is bag union, so the returned bag tells exactly which terms and which     *)
(* lanes went into the result and how often.  Over the integers (and over    *)
(* floats whenever every partial sum is exact) the kernel therefore returns  *)
(* the definition  SUM_{k<n} term(k)  iff the returned bag holds every       *)
(* element token and every lane token exactly once.                          *)
(*                                                                          *)
(* Part "bits" -- binaryQuantizer.encode (shard/vectorstore/binary.go) and   *)
(* hammingDistance / jaccardDistance (distance/distance.go) on the packed    *)
(* words.  A word is the set of its set bit positions 0..W-1 (W = 64 in the  *)
(* code); popcount = Cardinality, xor = symmetric difference.               *)
(*                                                                          *)
(* Variant / BitVariant = "real" is the code; the other values are wrong     *)
(* variants used as negative configurations (self-test against vacuity).     *)
(***************************************************************************)
EXTENDS Integers, Sequences, FiniteSets, Bags, TLC

CONSTANTS
  Part,       \* "sched" | "bits"
  Lens,       \* sched: the vector lengths explored
  Unroll,     \* sched: number of vector accumulators (4)
  Lanes,      \* sched: float32 lanes of one accumulator (8)
  Variant,    \* sched: "real" | "tail_late" | "hadd_once" | "block_any" | "drop_acc"
  W,          \* bits: word width (64)
  BitLens,    \* bits: vector lengths explored
  Vals,       \* bits: vector component values
  Thrs,       \* bits: thresholds
  Family,     \* bits: "all" (every vector over Vals) | "hot" (one-hot / constant vectors)
  BitVariant  \* bits: "real" | "ge" | "extra_word" | "pad_ones"

ASSUME Part \in {"sched", "bits"}
ASSUME Variant \in {"real", "tail_late", "hadd_once", "block_any", "drop_acc"}
ASSUME BitVariant \in {"real", "ge", "extra_word", "pad_ones"}

VARIABLES
  \* ---- sched
  n,     \* vector length (constant of one behaviour)
  pc,    \* "block" | "tail" | "reduce" | "done"   ("idle" in the bits part)
  rem,   \* the length register (DX)
  ptr,   \* element index the pointer registers (AX, CX) stand at
  acc,   \* [0..Unroll-1 -> [0..Lanes-1 -> bag]]
  tl,    \* tail register [0..3 -> bag]
  r,     \* result register [0..3 -> bag]
  rs,    \* next instruction of the reduction 1..9
  ret,   \* returned bag
  \* ---- bits
  bl, bx, by, bthr,  \* length, the two vectors (1-based sequences), threshold
  bpc,               \* "start" | "done"   ("idle" in the sched part)
  wx, wy             \* the encoded words: sequences of subsets of 0..W-1
svars == <<n, pc, rem, ptr, acc, tl, r, rs, ret>>
bvars == <<bl, bx, by, bthr, bpc, wx, wy>>
vars == <<svars, bvars>>

\* ------------------------------------------------------------------ sched
BlockItems == Unroll * Lanes
NTok == Unroll * Lanes + 4          \* lane tokens: accumulators, then the 4 lanes of the tail register
Idx(k) == <<"i", k>>
Tok(q) == <<"z", q>>
One(e) == SetToBag({e})
Empty4 == [j \in 0..3 |-> EmptyBag]

SchedInit ==
  /\ n \in Lens /\ pc = "block" /\ rem = n /\ ptr = 0
  /\ acc = [a \in 0..Unroll-1 |-> [j \in 0..Lanes-1 |-> One(Tok(a * Lanes + j))]]   \* VXORPS acc[a]
  /\ tl = Empty4 /\ r = Empty4 /\ rs = 1 /\ ret = EmptyBag

\* one iteration of the block loop: Unroll loads of Lanes elements, one FMA per accumulator
Block ==
  /\ pc = "block"
  /\ IF Variant = "block_any" THEN rem > 0 ELSE rem >= BlockItems
  /\ acc' = [a \in 0..Unroll-1 |-> [j \in 0..Lanes-1 |-> acc[a][j] (+) One(Idx(ptr + a * Lanes + j))]]
  /\ ptr' = ptr + BlockItems /\ rem' = rem - BlockItems
  /\ UNCHANGED <<n, pc, tl, r, rs, ret>>

\* JL tail ; VXORPS tail
EnterTail ==
  /\ pc = "block"
  /\ IF Variant = "block_any" THEN rem <= 0 ELSE rem < BlockItems
  /\ pc' = "tail"
  /\ tl' = [j \in 0..3 |-> One(Tok(Unroll * Lanes + j))]
  /\ IF Variant = "tail_late" /\ rem > 0
       THEN ptr' = ptr + 1 /\ rem' = rem - 1     \* wrong: the scalar loop starts one element late
       ELSE UNCHANGED <<ptr, rem>>
  /\ UNCHANGED <<n, acc, r, rs, ret>>

\* VMOVSS / VFMADD231SS: only lane 0 of the tail register changes
TailStep ==
  /\ pc = "tail" /\ rem # 0
  /\ tl' = [tl EXCEPT ![0] = @ (+) One(Idx(ptr))]
  /\ ptr' = ptr + 1 /\ rem' = rem - 1
  /\ UNCHANGED <<n, pc, acc, r, rs, ret>>

LeaveTail == pc = "tail" /\ rem = 0 /\ pc' = "reduce" /\ UNCHANGED <<n, rem, ptr, acc, tl, r, rs, ret>>

HAdd(v) == [j \in 0..3 |-> IF j % 2 = 0 THEN v[0] (+) v[1] ELSE v[2] (+) v[3]]

\* the reduction, one instruction per step
Reduce ==
  /\ pc = "reduce"
  /\ LET first == IF Variant = "drop_acc" THEN 2 ELSE 1
         nadd == Unroll - 1 IN            \* instructions 1..nadd: VADDPS acc[0], acc[i], acc[0]
       \/ /\ rs <= nadd
          /\ acc' = IF rs >= first
                      THEN [acc EXCEPT ![0] = [j \in 0..Lanes-1 |-> acc[0][j] (+) acc[rs][j]]]
                      ELSE acc
          /\ rs' = rs + 1 /\ UNCHANGED <<r, ret, pc>>
       \/ /\ rs = nadd + 1               \* VEXTRACTF128 + VADDPS result, top, result
          /\ r' = [j \in 0..3 |-> acc[0][j] (+) acc[0][j + 4]]
          /\ rs' = rs + 1 /\ UNCHANGED <<acc, ret, pc>>
       \/ /\ rs = nadd + 2               \* VADDPS result, tail, result
          /\ r' = [j \in 0..3 |-> r[j] (+) tl[j]]
          /\ rs' = rs + 1 /\ UNCHANGED <<acc, ret, pc>>
       \/ /\ rs = nadd + 3               \* VHADDPS
          /\ r' = HAdd(r)
          /\ rs' = IF Variant = "hadd_once" THEN rs + 2 ELSE rs + 1
          /\ UNCHANGED <<acc, ret, pc>>
       \/ /\ rs = nadd + 4               \* VHADDPS
          /\ r' = HAdd(r)
          /\ rs' = rs + 1 /\ UNCHANGED <<acc, ret, pc>>
       \/ /\ rs = nadd + 5               \* MOVSS X0, ret
          /\ ret' = r[0] /\ pc' = "done"
          /\ rs' = rs + 1 /\ UNCHANGED <<acc, r>>
  /\ UNCHANGED <<n, rem, ptr, tl>>

SchedDone == pc = "done" /\ UNCHANGED svars

SchedNext == (Block \/ EnterTail \/ TailStep \/ LeaveTail \/ Reduce \/ SchedDone) /\ UNCHANGED bvars

\* ---- properties of the schedule
Elems(B) == {e \in BagToSet(B) : e[1] = "i"}
AllRegs == {acc[a][j] : a \in 0..Unroll-1, j \in 0..Lanes-1} \cup {tl[j] : j \in 0..3} \cup {r[j] : j \in 0..3}

\* no element outside the slice is ever loaded
InBounds == Part = "sched" => \A B \in AllRegs : \A e \in Elems(B) : e[2] \in 0..n-1

\* loop invariant of both loops
Progress == (Part = "sched" /\ pc \in {"block", "tail"} /\ Variant = "real") => (ptr + rem = n /\ rem >= 0)

\* the result holds the term of every index 0..n-1 exactly once, and nothing else
ExactlyOnce ==
  (Part = "sched" /\ pc = "done") =>
     /\ \A k \in 0..n-1 : CopiesIn(Idx(k), ret) = 1
     /\ \A e \in Elems(ret) : e[2] \in 0..n-1

\* the reduction adds every accumulator lane (and the tail register) exactly once
AllLanesOnce ==
  (Part = "sched" /\ pc = "done") => \A q \in 0..NTok-1 : CopiesIn(Tok(q), ret) = 1

\* the block loop takes exactly n div 32 iterations, the scalar tail n mod 32
SplitRight ==
  (Part = "sched" /\ pc = "reduce" /\ Variant = "real") =>
     /\ BagCardinality(tl[0]) = 1 + (n % BlockItems)
     /\ \A a \in 0..Unroll-1, j \in 0..Lanes-1 : rs = 1 => BagCardinality(acc[a][j]) = 1 + (n \div BlockItems)

\* ------------------------------------------------------------------- bits
Above(v, t) == IF BitVariant = "ge" THEN v >= t ELSE v > t

NumWords(L) == IF BitVariant = "extra_word" THEN L \div W + 1
               ELSE (L \div W) + (IF L % W # 0 THEN 1 ELSE 0)

\* encode: for i, v := range vector { if v > thr { encoded[i/64] |= 1 << (i%64) } }
RECURSIVE EncodeUpTo(_, _, _)
EncodeUpTo(v, t, k) ==    \* the words after the first k loop iterations
  IF k = 0 THEN [w \in 1..NumWords(Len(v)) |-> {}]
  ELSE LET prev == EncodeUpTo(v, t, k - 1)
           i == k - 1 IN
       IF Above(v[k], t) THEN [prev EXCEPT ![i \div W + 1] = @ \cup {i % W}] ELSE prev

Encode(v, t) ==
  LET e == EncodeUpTo(v, t, Len(v)) IN
  IF BitVariant = "pad_ones" /\ Len(v) % W # 0
    THEN [e EXCEPT ![Len(e)] = @ \cup ((Len(v) % W)..(W - 1))]   \* wrong: padding bits left set
    ELSE e

RECURSIVE SumSeq(_)
SumSeq(s) == IF s = <<>> THEN 0 ELSE Head(s) + SumSeq(Tail(s))

SymDiff(A, B) == (A \ B) \cup (B \ A)
\* hammingDistance: sum of popcount(x[i] ^ y[i])
Ham(a, b) == SumSeq([w \in 1..Len(a) |-> Cardinality(SymDiff(a[w], b[w]))])
\* jaccardDistance: 1 - inter/union as the exact fraction <<union - inter, union>>, <<0, 1>> when union = 0
Jac(a, b) ==
  LET inter == SumSeq([w \in 1..Len(a) |-> Cardinality(a[w] \cap b[w])])
      union == SumSeq([w \in 1..Len(a) |-> Cardinality(a[w] \cup b[w])]) IN
  IF union = 0 THEN <<0, 1>> ELSE <<union - inter, union>>

Hot(L) == {[i \in 1..L |-> IF i = h THEN hi ELSE lo] : h \in 0..L, hi \in Vals, lo \in Vals}
Vectors(L) == IF Family = "all" THEN [1..L -> Vals] ELSE Hot(L)
\* second argument in the "hot" family: constant vectors and the one-hot vectors at both ends
HotY(L) == {[i \in 1..L |-> IF i = h THEN hi ELSE lo] : h \in {0, 1, L}, hi \in Vals, lo \in Vals}
VectorsY(L) == IF Family = "all" THEN [1..L -> Vals] ELSE HotY(L)

BitsInit ==
  /\ bl \in BitLens /\ bthr \in Thrs /\ bpc = "start"
  /\ bx \in Vectors(bl) /\ by \in VectorsY(bl)
  /\ wx = <<>> /\ wy = <<>>

BitsEncode == bpc = "start" /\ wx' = Encode(bx, bthr) /\ wy' = Encode(by, bthr) /\ bpc' = "done" /\ UNCHANGED <<bl, bx, by, bthr>>
BitsDone == bpc = "done" /\ UNCHANGED bvars
BitsNext == (BitsEncode \/ BitsDone) /\ UNCHANGED svars

\* ---- the definitions the packed computation must equal
SetOf(v, t) == {i \in 0..Len(v)-1 : v[i + 1] > t}     \* positions above the threshold
BDone == Part = "bits" /\ bpc = "done"

WordCount == BDone => Len(wx) = (bl + W - 1) \div W /\ Len(wy) = Len(wx)
\* bit i lives in word i div W at position i mod W
BitPlace ==
  BDone => \A i \in 0..bl-1 : /\ (i % W \in wx[i \div W + 1]) <=> (bx[i + 1] > bthr)
                             /\ (i % W \in wy[i \div W + 1]) <=> (by[i + 1] > bthr)
\* padding bits of the last word stay zero, no position outside 0..W-1
PaddingZero ==
  BDone => \A w \in 1..Len(wx) : \A p \in wx[w] \cup wy[w] : p \in 0..W-1 /\ (w - 1) * W + p < bl
HammingDef == BDone => Ham(wx, wy) = Cardinality(SymDiff(SetOf(bx, bthr), SetOf(by, bthr)))
JaccardDef ==
  BDone => LET S == SetOf(bx, bthr)
               T == SetOf(by, bthr) IN
           Jac(wx, wy) = IF S \cup T = {} THEN <<0, 1>>
                         ELSE <<Cardinality(S \cup T) - Cardinality(S \cap T), Cardinality(S \cup T)>>
BitSymmetry == BDone => Ham(wx, wy) = Ham(wy, wx) /\ Jac(wx, wy) = Jac(wy, wx) /\ Ham(wx, wx) = 0 /\ Jac(wx, wx)[1] = 0

\* ------------------------------------------------------------ configurations
\* (cfg files cannot write ranges: they substitute these definitions)
LensSmall == 0..320                     \* every length up to ten blocks
LensDeep  == 0..1100
LensSpot  == {511, 512, 513, 1000, 1023, 1024, 1025, 1536, 2047, 2048, 2049, 3000, 4064, 4065, 4095, 4096}
BitLensSmall == 1..5
BitLensMid   == 1..7
BitLensDeep  == 1..6
BitLens64    == {1, 2, 63, 64, 65, 127, 128, 129}
Vals3 == {0, 1, 2}
Vals2 == {0, 1}
Thr1 == {1}
Thr0 == {0}

\* ------------------------------------------------------------------ whole
Idle == /\ n = 0 /\ pc = "idle" /\ rem = 0 /\ ptr = 0 /\ acc = <<>> /\ tl = <<>> /\ r = <<>> /\ rs = 0 /\ ret = EmptyBag
BIdle == /\ bl = 0 /\ bx = <<>> /\ by = <<>> /\ bthr = 0 /\ bpc = "idle" /\ wx = <<>> /\ wy = <<>>

Init == IF Part = "sched" THEN SchedInit /\ BIdle ELSE BitsInit /\ Idle
Next == IF Part = "sched" THEN SchedNext ELSE BitsNext
Spec == Init /\ [][Next]_vars /\ WF_vars(Next)

\* every call returns
Returns == IF Part = "sched" THEN <>(pc = "done") ELSE <>(bpc = "done")
=============================================================================
