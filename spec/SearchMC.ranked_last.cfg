SPECIFICATION Spec
CONSTANTS
 NFull = 2
 NPage = 2
 Variant = "ranked_last"
INVARIANTS ImplAccepted
CHECK_DEADLOCK FALSE
