SPECIFICATION Spec
CONSTANT NIds = 2
INVARIANTS KnnDeterminate TextDeterminate
CHECK_DEADLOCK FALSE
