SPECIFICATION Spec
CONSTANTS Retries = 1
 MaxCrashes = 3
 CountShutdown = FALSE
INVARIANTS TypeOK NilMeansExecuted ResultOnlyAtEnd
PROPERTY Terminates
CHECK_DEADLOCK FALSE
