----------------------------- MODULE CacheLocks -----------------------------
(***************************************************************************)
(* The locks of shard/cache/manager.go when ONE cache transaction is used  *)
(* by several goroutines, as the write pipeline does (one stage per index  *)
(* shares the transaction): the manager mutex M, the transaction mutex T   *)
(* of the writing transaction, and the read/write locks of two caches, X   *)
(* (in the manager already) and Y (created by this write).                 *)
(*                                                                         *)
(*  A   stage of transaction T1 writing X: the existing-cache path         *)
(*  B   stage of T1 writing Y: the new-cache path                          *)
(*  O   the other party on X: either a reader (holds X's read lock, then   *)
(*      runs its deferred prune, which needs M, before it releases X) or   *)
(*      the previous writer about to commit (holds X's write lock, its     *)
(*      commit needs M before it releases X)                               *)
(*                                                                         *)
(* TFirst = FALSE is the pinned order (M, then T inside the new-cache      *)
(* path; T held while waiting for X): TLC finds the three-way deadlock     *)
(* that was observed on the real code.  TFirst = TRUE is the repaired      *)
(* order (a writing access takes T before M): no deadlock, everybody       *)
(* finishes.  CacheMgr.tla (one goroutine per transaction) cannot express  *)
(* this; the schedules are forced on the real manager by `vh cachemgr      *)
(* -stages`.                                                               *)
(***************************************************************************)
EXTENDS Naturals, FiniteSets

CONSTANTS TFirst,      \* lock order of a writing access
          OtherIs      \* "reader" | "writer"

VARIABLES pc,          \* per process
          M, T,        \* holder of the manager / transaction mutex ("" = free)
          Xw, Xr       \* X: write holder ("" = none), set of read holders
vars == <<pc, M, T, Xw, Xr>>
Procs == {"A", "B", "O"}

Init ==
  /\ pc = [p \in Procs |-> "start"]
  /\ M = "" /\ T = ""
  /\ Xw = (IF OtherIs = "writer" THEN "O" ELSE "") /\ Xr = (IF OtherIs = "reader" THEN {"O"} ELSE {})

Lock(m, p) == m = "" /\ m' = p
Go(p, to) == pc' = [pc EXCEPT ![p] = to]

\* ---- stage A: With(X, write), X exists
A1 == /\ pc["A"] = "start"
      /\ IF TFirst THEN Lock(T, "A") /\ Go("A", "m") /\ UNCHANGED <<M, Xw, Xr>>
                   ELSE Lock(M, "A") /\ Go("A", "lookup") /\ UNCHANGED <<T, Xw, Xr>>
A2 == /\ pc["A"] = "m" /\ Lock(M, "A") /\ Go("A", "lookup") /\ UNCHANGED <<T, Xw, Xr>>
A3 == /\ pc["A"] = "lookup" /\ M' = "" /\ UNCHANGED <<Xw, Xr>>      \* found: manager released
      /\ IF TFirst THEN Go("A", "xlock") /\ UNCHANGED T
                   ELSE Go("A", "t") /\ UNCHANGED T
A4 == /\ pc["A"] = "t" /\ Lock(T, "A") /\ Go("A", "xlock") /\ UNCHANGED <<M, Xw, Xr>>
A5 == /\ pc["A"] = "xlock" /\ Xw = "" /\ Xr = {} /\ Xw' = "A"          \* waits here holding T
      /\ T' = "" /\ Go("A", "done") /\ UNCHANGED <<M, Xr>>

\* ---- stage B: With(Y, write), Y is new
B1 == /\ pc["B"] = "start"
      /\ IF TFirst THEN Lock(T, "B") /\ Go("B", "m") /\ UNCHANGED <<M, Xw, Xr>>
                   ELSE Lock(M, "B") /\ Go("B", "create") /\ UNCHANGED <<T, Xw, Xr>>
B2 == /\ pc["B"] = "m" /\ Lock(M, "B") /\ Go("B", "create") /\ UNCHANGED <<T, Xw, Xr>>
B3 == /\ pc["B"] = "create"                                           \* constructor, Y locked (new: immediate)
      /\ IF TFirst THEN M' = "" /\ T' = "" /\ Go("B", "done")        \* record, release both
                   ELSE Go("B", "t") /\ UNCHANGED <<M, T>>            \* still holding M
      /\ UNCHANGED <<Xw, Xr>>
B4 == /\ pc["B"] = "t" /\ Lock(T, "B") /\ Go("B", "rec") /\ UNCHANGED <<M, Xw, Xr>>
B5 == /\ pc["B"] = "rec" /\ T' = "" /\ M' = "" /\ Go("B", "done") /\ UNCHANGED <<Xw, Xr>>

\* ---- the other party: needs the manager before it lets go of X
O1 == /\ pc["O"] = "start" /\ Lock(M, "O") /\ Go("O", "m") /\ UNCHANGED <<T, Xw, Xr>>
O2 == /\ pc["O"] = "m" /\ M' = "" /\ Xw' = (IF Xw = "O" THEN "" ELSE Xw) /\ Xr' = Xr \ {"O"}
      /\ Go("O", "done") /\ UNCHANGED T

Next == A1 \/ A2 \/ A3 \/ A4 \/ A5 \/ B1 \/ B2 \/ B3 \/ B4 \/ B5 \/ O1 \/ O2
Spec == Init /\ [][Next]_vars /\ WF_vars(Next)

AllDone == \A p \in Procs : pc[p] = "done"
NoDeadlock == AllDone \/ ENABLED Next
Finishes == <>AllDone
MutexOK == /\ (Xw # "" => Xr = {})
           /\ M \in Procs \cup {""} /\ T \in {"A", "B", ""}
=============================================================================
