\* C13 design check: every strict score order over 5 server names x every arrangement of
\* every non-empty subset (120 x 325 states); all laws of rendezvous routing hold
SPECIFICATION Spec
CONSTANTS
  N = 5
  Variant = "hrw"
INVARIANTS TypeOK TopKPrefix OrderIndependent AddLaw RemoveLaw Share
PROPERTY StepLaw
CHECK_DEADLOCK FALSE
