------------------------------- MODULE RankMC -------------------------------
(***************************************************************************)
(* Design-level sanity (non-vacuity and determinacy) of the ranking         *)
(* predicates of Docs.tla.  Every assignment of small vectors / texts to a *)
(* few points is an initial state; the invariants say that                  *)
(*  - the canonical answer (sort by distance, cut at limit) satisfies       *)
(*    HitsExact, so the predicate is satisfiable for every input;           *)
(*  - every id sequence accepted by HitsExact has the same distance         *)
(*    profile as the canonical one (the predicate pins the answer up to     *)
(*    ties), and dropping or swapping a non-tied element is rejected;       *)
(*  - likewise for TextOK with tf-idf scores.                               *)
(***************************************************************************)
EXTENDS Docs

CONSTANT NIds
Ids == 1..NIds
MU == [lower |-> <<>>, less |-> <<>>, prefix |-> <<>>, empty |-> 0, hav |-> <<>>,
       log |-> << <<0, -30103, -47712, -60206>>, <<30103, 0, -17609, -30103>>, <<47712, 17609, 0, -12494>> >>]
MS == [v |-> [type |-> "vectorFlat", fld |-> "v", cs |-> 1, metric |-> "euclidean", scale |-> 1, thr2 |-> 1],
       t |-> [type |-> "text", fld |-> "t", cs |-> 1, metric |-> "none", scale |-> 1, thr2 |-> 1]]
Vals == {<<0>>, <<1>>, <<3>>}
Texts == {[tf |-> [a |-> 1], len |-> 1], [tf |-> [a |-> 1, b |-> 2], len |-> 3], [tf |-> <<>>, len |-> 0]}
All == [k |-> "all"]

VARIABLE pts
Fld(p, v) == [c |-> "x", ix |-> [q \in {p} |-> v], d |-> 0, sz |-> 0, bad |-> 0]
Init == \E have \in [Ids -> BOOLEAN], vv \in [Ids -> Vals], tt \in [Ids -> Texts] :
          pts = [k \in Ids |-> IF have[k] THEN [v |-> Fld("v", vv[k]), t |-> Fld("t", tt[k])] ELSE <<>>]
Next == UNCHANGED pts
Spec == Init /\ [][Next]_pts

\* all duplicate-free sequences over a set
RECURSIVE Perms(_)
Perms(T) == IF T = {} THEN {<<>>}
            ELSE UNION {{<<x>> \o s : s \in Perms(T \ {x})} : x \in T}
SubPerms(T) == UNION {Perms(X) : X \in SUBSET T}

Q == <<2>>
D(i) == PDist(MS, MU, pts, "v", Q, i)
MkHits(s) == [k \in DOMAIN s |-> [id |-> s[k], d |-> D(s[k]), h4 |-> 0 - 4 * D(s[k])]]
Sorted(s) == \A k \in DOMAIN s : k > 1 => D(s[k - 1]) <= D(s[k])
Profile(s) == [k \in DOMAIN s |-> D(s[k])]

KnnDeterminate ==
  LET cand == Cands(MS, MU, pts, "v", All)
  IN  \A limit \in 1..(NIds + 1) :
        LET ok == {s \in SubPerms(cand) : HitsExact(MS, MU, pts, "v", Q, limit, 4, All, MkHits(s), 0)}
        IN  /\ ok # {}
            /\ \A s1, s2 \in ok : Profile(s1) = Profile(s2)
            /\ \A s \in ok : Len(s) = Min2(limit, Cardinality(cand)) /\ Sorted(s)
            \* a strictly farther point can never displace a nearer one
            /\ \A s \in ok : \A i \in cand \ Range(s) : \A k \in DOMAIN s : D(i) >= D(s[k])

Terms == {"a", "b"}
Sc(i) == TextScore(MS, MU, pts, "t", Terms, i)
MkText(s) == [k \in DOMAIN s |-> [id |-> s[k], s |-> Sc(s[k]), h4 |-> 4 * Sc(s[k])]]
TextDeterminate ==
  \A op \in {"containsAll", "containsAny"} : \A limit \in 1..(NIds + 1) :
    LET match == TextMatch(MS, MU, pts, "t", Terms, op, All)
        ok == {s \in SubPerms(match) : TextOK(MS, MU, pts, "t", Terms, op, limit, 4, All, MkText(s), 0)}
    IN  /\ ok # {}
        /\ \A s1, s2 \in ok : [k \in DOMAIN s1 |-> Sc(s1[k])] = [k \in DOMAIN s2 |-> Sc(s2[k])]
        \* documents with no tokens are never in the corpus, hence never match
        /\ \A i \in match : IxOf(MS, pts[i], "t").len > 0
=============================================================================
