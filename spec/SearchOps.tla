------------------------------ MODULE SearchOps ------------------------------
(***************************************************************************)
(* Pure operators for property C06: composite queries (_and / _or over     *)
(* ranking and non-ranking sub-queries), hybrid scores, field selection,   *)
(* sorting and paging.  Built on Docs.tla (documents, filters, exact kNN,  *)
(* tf-idf).  Used by SearchMC.tla (design level) and SearchTrace.tla       *)
(* (oracle for the real shard).                                            *)
(*                                                                         *)
(* A SUB-RESULT is a record                                                *)
(*    [set : the ids in the result set,                                    *)
(*     rk  : the ids that carry a ranking (rk \subseteq set),              *)
(*     h   : rk -> hybrid score, integer at scale HScale = 4e5,            *)
(*     t   : rk -> tolerance on h (0 when every contribution is exact),    *)
(*     nc  : rk -> number of ranking sub-queries that contributed,         *)
(*     amb : TRUE iff some ranking leaf below had its cut inside a tie].   *)
(*                                                                         *)
(* The documented order of a result without sort keys is a strict partial  *)
(* order ("definitely before"): ranked before unranked, higher hybrid      *)
(* score before lower; everything else is a tie and ties are free.  With   *)
(* sort keys the order is the lexicographic order of key vectors in which  *)
(* a missing value is larger than every present one.  A page is accepted   *)
(* iff it is a contiguous slice of SOME linearisation of that order, which *)
(* is stated by counting (SliceOK).                                        *)
(***************************************************************************)
EXTENDS Docs

HScale == 400000          \* logged hybrid = round(hybrid * HScale)
DScale == 100000          \* one unit of weight-quarter x integer distance
MissingKey == 1000000     \* key value of a missing sort property (last)

Clamp(x, lo, hi) == IF x < lo THEN lo ELSE IF x > hi THEN hi ELSE x

---------------------------------------------------------------------------
(* 1. Sub-results and their combination                                   *)

NoRank(set) == [set |-> set, rk |-> {}, h |-> <<>>, t |-> <<>>, nc |-> <<>>, amb |-> FALSE]

RECURSIVE SumH(_, _, _)
SumH(subs, i, k) ==
  IF k = 0 THEN 0
  ELSE SumH(subs, i, k - 1) + (IF i \in subs[k].rk THEN subs[k].h[i] ELSE 0)
RECURSIVE SumT(_, _, _)
SumT(subs, i, k) ==
  IF k = 0 THEN 0
  ELSE SumT(subs, i, k - 1) + (IF i \in subs[k].rk THEN subs[k].t[i] ELSE 0)
RECURSIVE SumAbsH(_, _, _)
SumAbsH(subs, i, k) ==
  IF k = 0 THEN 0
  ELSE SumAbsH(subs, i, k - 1) + (IF i \in subs[k].rk THEN Abs(subs[k].h[i]) ELSE 0)
NContrib(subs, i) == Cardinality({k \in DOMAIN subs : i \in subs[k].rk})
RECURSIVE SumNC(_, _, _)
SumNC(subs, i, k) ==
  IF k = 0 THEN 0
  ELSE SumNC(subs, i, k - 1) + (IF i \in subs[k].rk THEN subs[k].nc[i] ELSE 0)

\* rounding allowance of one float32 addition whose operands sum (in absolute
\* value) to m at scale HScale: relative 2^-24, taken with a factor two
AddSlack(m) == m \div 8000000 + 1

\* _or = union, _and = intersection of the sub-result sets; a point ranked by
\* several sub-queries carries the SUM of their contributions; in an _and
\* only rankings inside the intersection survive.  A composite with a single
\* sub-query is that sub-query.
MergeRes(subs, isOr) ==
  IF Len(subs) = 1 THEN subs[1]
  ELSE LET n    == Len(subs)
           all  == UNION {subs[k].set : k \in DOMAIN subs}
           set  == IF isOr THEN all
                   ELSE {i \in all : \A k \in DOMAIN subs : i \in subs[k].set}
           rk   == {i \in set : \E k \in DOMAIN subs : i \in subs[k].rk}
       IN  [set |-> set, rk |-> rk,
            h |-> [i \in rk |-> SumH(subs, i, n)],
            t |-> [i \in rk |-> SumT(subs, i, n)
                                + (NContrib(subs, i) - 1) * AddSlack(SumAbsH(subs, i, n))],
            nc |-> [i \in rk |-> SumNC(subs, i, n)],
            amb |-> \E k \in DOMAIN subs : subs[k].amb]

---------------------------------------------------------------------------
(* 2. Orders and pages                                                    *)

\* x is definitely before y in the documented order without sort keys
HBefore(R, x, y) ==
  \/ x \in R.rk /\ y \notin R.rk
  \/ x \in R.rk /\ y \in R.rk /\ R.h[x] - R.t[x] > R.h[y] + R.t[y]

\* the order in which a single ranking index hands out its hits when its
\* weight is negative (nearest / best first = LOWEST hybrid score first)
HBeforeRev(R, x, y) ==
  \/ x \in R.rk /\ y \notin R.rk
  \/ x \in R.rk /\ y \in R.rk /\ R.h[x] + R.t[x] < R.h[y] - R.t[y]

LexLess(a, b) == \E k \in DOMAIN a : a[k] < b[k] /\ \A j \in 1..(k - 1) : a[j] = b[j]

\* out (a sequence of ids) is positions off+1 .. off+Len(out) of SOME
\* linearisation of the strict order Bef on the set full, cut at lim:
\* for the element at global position g, fewer than g elements are
\* definitely before it and at least g elements are not definitely after it.
SliceOK(full, Bef(_, _), out, off, lim) ==
  /\ Cardinality(Range(out)) = Len(out)
  /\ Range(out) \subseteq full
  /\ Len(out) = Clamp(Cardinality(full) - off, 0, lim)
  /\ \A k \in DOMAIN out :
        LET g == off + k
            e == out[k]
        IN  /\ Cardinality({x \in full : Bef(x, e)}) < g
            /\ g <= Cardinality({x \in full : ~Bef(e, x)})

IdsOf(hits) == [k \in DOMAIN hits |-> hits[k].id]

\* hits : Seq([id, rk, h, ...]).  Every hit is in the result set, is flagged
\* ranked iff the model ranks it, and carries the model's hybrid score.
HitScores(R, hits) ==
  \A k \in DOMAIN hits :
     LET e == hits[k]
     IN  /\ e.id \in R.set
         /\ (e.rk = 1) <=> (e.id \in R.rk)
         /\ e.rk = 1 => Abs(e.h - R.h[e.id]) <= R.t[e.id] + 1
         /\ e.rk = 0 => e.h = 0

\* the reported sequence itself: ranked block first, scores non-increasing
SeqHybrid(hits) ==
  \A k \in 2..Len(hits) :
     /\ hits[k - 1].rk >= hits[k].rk
     /\ (hits[k].rk = 1 => hits[k - 1].h >= hits[k].h)
SeqHybridRev(hits) ==
  \A k \in 2..Len(hits) :
     /\ hits[k - 1].rk >= hits[k].rk
     /\ (hits[k].rk = 1 => hits[k - 1].h <= hits[k].h)
\* kv : id -> key vector
SeqKeys(kv, hits) ==
  \A k \in 2..Len(hits) : ~LexLess(kv[hits[k].id], kv[hits[k - 1].id])

AcceptHybrid(R, hits, off, lim) ==
  /\ HitScores(R, hits)
  /\ SeqHybrid(hits)
  /\ SliceOK(R.set, LAMBDA x, y : HBefore(R, x, y), IdsOf(hits), off, lim)

AcceptHybridRev(R, hits, off, lim) ==
  /\ HitScores(R, hits)
  /\ SeqHybridRev(hits)
  /\ SliceOK(R.set, LAMBDA x, y : HBeforeRev(R, x, y), IdsOf(hits), off, lim)

AcceptKeys(R, kv, hits, off, lim) ==
  /\ HitScores(R, hits)
  /\ SeqKeys(kv, hits)
  /\ SliceOK(R.set, LAMBDA x, y : LexLess(kv[x], kv[y]), IdsOf(hits), off, lim)

---------------------------------------------------------------------------
(* 3. Sort keys on documents.  keys : Seq([p, desc]); only indexed scalar  *)
(* properties have an order the model knows: integer / float ladder ranks  *)
(* (IEEE-equal floats share a rank), strings in byte order (U.less).       *)

StrRank(U, s) == Cardinality({x \in DOMAIN U.less : U.less[x][s] = 1})

SortVal(S, U, doc, key) ==
  IF key.p \in DOMAIN S /\ HasIx(S, doc, key.p)
  THEN LET v == IxOf(S, doc, key.p)
           r == IF S[key.p].type = "string" THEN StrRank(U, v) ELSE v
       IN  IF key.desc = 1 THEN 0 - r ELSE r
  ELSE MissingKey

KeyVec(S, U, doc, keys) == [k \in DOMAIN keys |-> SortVal(S, U, doc, keys[k])]

---------------------------------------------------------------------------
(* 4. Field selection.  Every field of a document carries lv, the leaf     *)
(* decomposition of its stored value: Seq([segs, c]) with segs the path    *)
(* (sequence of map keys, the field name first) of a non-map value and c   *)
(* its canonical JSON.  A nested map is the set of its leaves, so "the     *)
(* selected data is exactly the stored values, nested paths come back      *)
(* nested, a missing path is absent" is one set equation.                  *)
(* sel : Seq([star, segs]).                                                *)

IsPrefix(a, b) == Len(a) <= Len(b) /\ \A k \in DOMAIN a : a[k] = b[k]

LeavesOf(doc) == UNION {Range(doc[f].lv) : f \in DOMAIN doc}

Selected(doc, sel) ==
  {x \in LeavesOf(doc) : \E k \in DOMAIN sel : sel[k].star = 1 \/ IsPrefix(sel[k].segs, x.segs)}

\* a selected path runs THROUGH a stored non-map value (no documented meaning)
Collides(doc, sel) ==
  \E x \in LeavesOf(doc) : \E k \in DOMAIN sel :
     /\ sel[k].star = 0
     /\ Len(x.segs) < Len(sel[k].segs)
     /\ IsPrefix(x.segs, sel[k].segs)

\* hits : Seq([id, out, ...]) with out the leaf decomposition of what came back
HitData(pts, hits, sel) ==
  \A k \in DOMAIN hits :
     /\ hits[k].id \in DOMAIN pts
     /\ Cardinality(Range(hits[k].out)) = Len(hits[k].out)
     /\ Range(hits[k].out) = Selected(pts[hits[k].id], sel)

---------------------------------------------------------------------------
(* 5. Ranking leaves.  q = [k = "flat", n, p, vec, limit, w4, filter, tol] *)
(* or [k = "text", n, p, terms, op, limit, w4, filter, tol]; w4 = 4 x the  *)
(* weight.  badness: distance for vectors, minus the score for text.  The  *)
(* result set of the leaf is a top-`limit` set of its candidates under ANY *)
(* tie-break.  When the cut falls inside a tie group several sets are      *)
(* valid: an answer is explained if SOME valid choice explains it.  The    *)
(* set the same leaf returned when it was run on its own is tried first    *)
(* (cheap witness), then all valid top sets are enumerated (LeafTops).     *)

IsRank(q) == q.k \in {"flat", "text"}

LeafCand(S, U, pts, q) ==
  IF q.k = "text" THEN TextMatch(S, U, pts, q.p, Range(q.terms), q.op, q.filter)
  ELSE Cands(S, U, pts, q.p, q.filter)

LeafBad(S, U, pts, q, i) ==
  IF q.k = "text" THEN 0 - TextScore(S, U, pts, q.p, Range(q.terms), i)
  ELSE PDist(S, U, pts, q.p, q.vec, i)

\* i is better than j beyond the tolerance
StrictBetter(bad, tol, i, j) == bad[i] + 2 * tol < bad[j]

ModelTop(cand, bad, limit) ==
  {i \in cand : Cardinality({j \in cand : bad[j] < bad[i] \/ (bad[j] = bad[i] /\ j < i)}) < limit}

ValidTop(cand, bad, tol, limit, T) ==
  /\ T \subseteq cand
  /\ Cardinality(T) = Min2(limit, Cardinality(cand))
  /\ \A i \in cand \ T : \A j \in T : ~StrictBetter(bad, tol, i, j)

\* members of SOME valid top set
Possible(cand, bad, tol, limit) ==
  {i \in cand : Cardinality({j \in cand : StrictBetter(bad, tol, j, i)}) < limit}

\* ch[n] = the set proposed for the n-th ranking leaf (used only when the cut
\* of that leaf is inside a tie group and the proposal is a valid top set)
LeafRes(S, U, pts, q, ch) ==
  LET cand == LeafCand(S, U, pts, q)
      bad  == [i \in cand |-> LeafBad(S, U, pts, q, i)]
      top  == ModelTop(cand, bad, q.limit)
      amb  == /\ Cardinality(cand) > q.limit
              /\ \E i \in top : \E j \in cand \ top : ~StrictBetter(bad, q.tol, i, j)
      T    == IF amb /\ ValidTop(cand, bad, q.tol, q.limit, ch[q.n]) THEN ch[q.n] ELSE top
      unit == IF q.k = "text" THEN 1 ELSE DScale
  IN  [set |-> T, rk |-> T,
       h |-> [i \in T |-> 0 - q.w4 * bad[i] * unit],
       t |-> [i \in T |-> IF q.k = "text" THEN Abs(q.w4) * q.tol + 2 ELSE Abs(q.w4) * q.tol * unit],
       nc |-> [i \in T |-> 1],
       amb |-> amb]

\* binomial coefficient and the k-element subsets of a finite set
RECURSIVE Binom(_, _)
Binom(n, k) == IF k = 0 \/ k = n THEN 1 ELSE IF k < 0 \/ k > n THEN 0
               ELSE Binom(n - 1, k - 1) + Binom(n - 1, k)
RECURSIVE KSubsets(_, _)
KSubsets(T, k) ==
  IF k = 0 THEN {{}}
  ELSE IF Cardinality(T) < k THEN {}
  ELSE LET x == CHOOSE y \in T : TRUE
       IN  {X \cup {x} : X \in KSubsets(T \ {x}, k - 1)} \cup KSubsets(T \ {x}, k)

\* every valid top set of a ranking leaf; {} when there are too many to list
MaxTops == 300
LeafTops(S, U, pts, q) ==
  LET cand == LeafCand(S, U, pts, q)
      bad  == [i \in cand |-> LeafBad(S, U, pts, q, i)]
      top  == ModelTop(cand, bad, q.limit)
      amb  == /\ Cardinality(cand) > q.limit
              /\ \E i \in top : \E j \in cand \ top : ~StrictBetter(bad, q.tol, i, j)
      poss == Possible(cand, bad, q.tol, q.limit)
      \* members of EVERY valid top set
      sure == {i \in poss : Cardinality({j \in cand \ {i} : ~StrictBetter(bad, q.tol, i, j)}) < q.limit}
      free == poss \ sure
      need == Min2(q.limit, Cardinality(cand)) - Cardinality(sure)
  IN  IF ~amb THEN {top}
      ELSE IF need < 0 \/ Cardinality(free) > 24 \/ Binom(Cardinality(free), need) > MaxTops THEN {}
      ELSE {T \in {sure \cup X : X \in KSubsets(free, need)} :
               ValidTop(cand, bad, q.tol, q.limit, T)}

\* query trees: ranking leaves, filter leaves ("leaf", "id", "all") and
\* "and" / "or" nodes over sub-trees
RECURSIVE Res(_, _, _, _, _)
Res(S, U, pts, q, ch) ==
  CASE IsRank(q) -> LeafRes(S, U, pts, q, ch)
    [] q.k \in {"and", "or"} ->
         MergeRes([j \in DOMAIN q.sub |-> Res(S, U, pts, q.sub[j], ch)], q.k = "or")
    [] OTHER -> NoRank(EvalQ(S, U, pts, q))

\* an upper bound of the result set under every valid tie-break
RECURSIVE UpSet(_, _, _, _)
UpSet(S, U, pts, q) ==
  CASE IsRank(q) ->
         LET cand == LeafCand(S, U, pts, q)
             bad  == [i \in cand |-> LeafBad(S, U, pts, q, i)]
         IN  Possible(cand, bad, q.tol, q.limit)
    [] q.k \in {"and", "or"} ->
         LET sets == [j \in DOMAIN q.sub |-> UpSet(S, U, pts, q.sub[j])]
         IN  IF q.k = "or" THEN UNION {sets[j] : j \in DOMAIN sets}
             ELSE {i \in DOMAIN pts : \A j \in DOMAIN sets : i \in sets[j]}
    [] OTHER -> EvalQ(S, U, pts, q)

\* the ranking leaves of a tree, left to right (the driver numbers them so)
RECURSIVE ConcatAll(_, _)
ConcatAll(ss, k) == IF k = 0 THEN <<>> ELSE ConcatAll(ss, k - 1) \o ss[k]
RECURSIVE RankLeaves(_)
RankLeaves(q) ==
  CASE IsRank(q) -> <<q>>
    [] q.k \in {"and", "or"} ->
         ConcatAll([j \in DOMAIN q.sub |-> RankLeaves(q.sub[j])], Len(q.sub))
    [] OTHER -> <<>>

\* all ways to give every ranking leaf one of its valid top sets (sequences
\* indexed like the leaves); tops[n] = the valid top sets of leaf n
RECURSIVE NChoices(_, _)
NChoices(tops, k) == IF k = 0 THEN 1 ELSE Cardinality(tops[k]) * NChoices(tops, k - 1)
RECURSIVE Choices(_, _)
Choices(tops, k) ==
  IF k = 0 THEN {<<>>}
  ELSE {Append(c, T) : c \in Choices(tops, k - 1), T \in tops[k]}

\* a composite with a single sub-query is that sub-query
RECURSIVE Unwrap(_)
Unwrap(q) == IF q.k \in {"and", "or"} /\ Len(q.sub) = 1 THEN Unwrap(q.sub[1]) ELSE q

=============================================================================
