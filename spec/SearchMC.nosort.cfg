SPECIFICATION Spec
CONSTANTS
 NFull = 2
 NPage = 2
 Variant = "nosort"
INVARIANTS ImplAccepted
CHECK_DEADLOCK FALSE
