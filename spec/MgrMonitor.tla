----------------------------- MODULE MgrMonitor -----------------------------
(***************************************************************************)
(* Property-level monitor for C12, evaluated by TLC on the events recorded  *)
(* while TLC-generated behaviours of ShardMgr.tla are forced on a real      *)
(* cluster.ShardManager (hook H3).  The verdict is tied to these events     *)
(* only: which protocol steps the code took to get there is not judged      *)
(* here (that comparison is reported as drift by the scheduler).            *)
(*                                                                          *)
(*   Opened(ls)  a database handle on the shard file was opened             *)
(*   Closed(ls)  ... closed (by the idle-unload goroutine or by deletion)   *)
(*   RunEnter / RunExit(r, ls, ok)  the request's callback runs on ls; ok   *)
(*               says that touching the shard's storage worked              *)
(*   Return(r, ok, ran)   DoWithShard returned                              *)
(*   Remove      the shard directory is about to be removed                 *)
(*   Probe(ok)   after everything returned, a fresh request                 *)
(*   Stuck       some call did not return (goroutine dump taken)            *)
(***************************************************************************)
EXTENDS Integers, Sequences, FiniteSets, TLC, Json

CONSTANTS TraceFile, KnownFindings
Trace == ndJsonDeserialize(TraceFile)

VARIABLES l, open, running, kf
vars == <<l, open, running, kf>>

TraceInit == l = 1 /\ open = {} /\ running = <<>> /\ kf = {}

E == Trace[l]
IsEvent(name) == l <= Len(Trace) /\ Trace[l].ev = name /\ l' = l + 1

TNew == IsEvent("NewBehaviour") /\ open' = {} /\ running' = <<>> /\ UNCHANGED kf

\* never opened twice at the same time
TOpened == IsEvent("Opened") /\ open = {} /\ open' = {E.ls} /\ UNCHANGED <<running, kf>>

\* never closed while a request is using it
TClosed ==
  /\ IsEvent("Closed") /\ E.ls \in open
  /\ \A r \in DOMAIN running : running[r] # E.ls
  /\ open' = open \ {E.ls} /\ UNCHANGED <<running, kf>>

\* a request runs only against an open shard ...
TRunEnter ==
  /\ IsEvent("RunEnter") /\ E.ls \in open /\ E.ok = 1
  /\ running' = [r \in DOMAIN running \cup {E.r} |-> IF r = E.r THEN E.ls ELSE running[r]]
  /\ UNCHANGED <<open, kf>>

\* ... which is still open, and usable, when the callback finishes
TRunExit ==
  /\ IsEvent("RunExit") /\ E.r \in DOMAIN running /\ running[E.r] = E.ls
  /\ E.ls \in open /\ E.ok = 1
  /\ running' = [r \in DOMAIN running \ {E.r} |-> running[r]]
  /\ UNCHANGED <<open, kf>>

\* a request either ran (and succeeded) or received a clean error
TReturn == IsEvent("Return") /\ (E.ok = 1 <=> E.ran = 1) /\ UNCHANGED <<open, running, kf>>

\* files are never removed while a request uses the shard or a handle is open
TRemove == IsEvent("Remove") /\ open = {} /\ DOMAIN running = {} /\ UNCHANGED <<open, running, kf>>

TDelReturn == IsEvent("DelReturn") /\ E.ok = 1 /\ UNCHANGED <<open, running, kf>>

\* afterwards new requests can load shards again
TProbe == IsEvent("Probe") /\ E.ok = 1 /\ UNCHANGED <<open, running, kf>>

\* an open that fails (the shard file cannot be opened) gives a clean error and leaves nothing behind: once
\* the file is repaired the next request loads the shard (ShardMgr.tla, the failing branch of ReqLoad)
TOpenFail == IsEvent("OpenFail") /\ E.first = 0 /\ E.second = 1 /\ UNCHANGED <<open, running, kf>>

\* (no action consumes "Stuck": every shard-manager call must return)

TraceNext == TNew \/ TOpened \/ TClosed \/ TRunEnter \/ TRunExit \/ TReturn \/ TRemove \/ TDelReturn \/ TProbe \/ TOpenFail
TraceSpec == TraceInit /\ [][TraceNext]_vars

WF == Cardinality(open) <= 1
\* states of a trace are told apart by the line counter alone (cheap fingerprints)
TraceView == l
TraceAccepted == TLCGet("stats").diameter - 1 = Len(Trace)
ReportKF == (l = Len(Trace) + 1) => PrintT(<<"KF", kf>>)
=============================================================================
