SPECIFICATION Spec
CONSTANTS TFirst = TRUE
 OtherIs = "writer"
INVARIANTS MutexOK NoDeadlock
PROPERTY Finishes
CHECK_DEADLOCK FALSE
