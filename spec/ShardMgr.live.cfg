SPECIFICATION LiveSpec
CONSTANTS
  Reqs = {1, 2, 3}
  MaxLS = 3
  MaxDel = 1
  FixLockOrder = TRUE
  GuardUnstore = TRUE
  RecordHist = FALSE
PROPERTY EveryCallReturns
CHECK_DEADLOCK FALSE
