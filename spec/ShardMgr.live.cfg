SPECIFICATION LiveSpec
CONSTANTS
  Reqs = {1, 2, 3}
  MaxLS = 3
  MaxDel = 1
  FixLockOrder = TRUE
  GuardUnstore = TRUE
  MaxOpenFail = 1
  StoreBeforeOpen = FALSE
  RecordHist = FALSE
PROPERTY EveryCallReturns
CHECK_DEADLOCK FALSE
