------------------------------ MODULE WriteTxn ------------------------------
(***************************************************************************)
(* One write batch (shard/shard.go InsertPoints / UpdatePoints /            *)
(* DeletePoints): a storage transaction whose closure starts a pipeline of  *)
(* concurrent stages (producer, per-point transform, dispatcher, one drain  *)
(* per index, flushes, counters) that all issue storage operations on the   *)
(* transaction, merged by utils.MergeErrorsWithContext.                     *)
(*                                                                          *)
(*  - every storage operation may fail (FailAt) or the process may be       *)
(*    killed at it (Crash), before the commit, or right after it;           *)
(*  - the merged error channel reports the FIRST error at once;             *)
(*  - WaitForStages = FALSE is the code as it was pinned: the closure       *)
(*    returned on that first error while other stages were still running    *)
(*    (they then touched a rolled-back transaction: SIGSEGV in bbolt);      *)
(*    TRUE is the repaired protocol: the owner cancels the context and      *)
(*    drains the merged channel, which closes only after every stage ended. *)
(*                                                                          *)
(* disk / cache are abstracted to version numbers: 0 = state before the     *)
(* batch, 1 = all effects of the batch.  A shared cache written by the      *)
(* batch holds version 1 while the transaction is open (under the writer's  *)
(* lock) and must be scrapped if the batch does not commit.                 *)
(***************************************************************************)
EXTENDS Integers, FiniteSets, TLC

CONSTANTS Stages, OpsPerStage, WaitForStages, ScrapOnFail

NoCache == -1

VARIABLES
  tx,        \* "open" | "committed" | "rolledback"
  done,      \* [Stages -> 0..OpsPerStage]  storage operations issued
  st,        \* [Stages -> "run" | "ok" | "err" | "cancelled"]
  firstErr,  \* merged channel reported an error
  cancelled, \* the owner cancelled the context
  closure,   \* "running" | "returnedOk" | "returnedErr"
  disk,      \* committed version 0 / 1
  cache,     \* version held by the shared cache: 0, 1 or NoCache (scrapped / gone)
  reported,  \* what the API call reported: "none" | "ok" | "err"
  crashed,
  touchedAfterEnd   \* a stage issued a storage operation on a finished transaction
vars == <<tx, done, st, firstErr, cancelled, closure, disk, cache, reported, crashed, touchedAfterEnd>>

Init ==
  /\ tx = "open" /\ done = [s \in Stages |-> 0] /\ st = [s \in Stages |-> "run"]
  /\ firstErr = FALSE /\ cancelled = FALSE /\ closure = "running"
  /\ disk = 0 /\ cache = 0 /\ reported = "none" /\ crashed = FALSE /\ touchedAfterEnd = FALSE

Running(s) == st[s] = "run"

\* a stage issues its next storage operation (it writes through the cache)
StageOp(s) ==
  /\ ~crashed /\ Running(s) /\ done[s] < OpsPerStage
  /\ done' = [done EXCEPT ![s] = @ + 1]
  /\ touchedAfterEnd' = (touchedAfterEnd \/ tx # "open")
  /\ cache' = IF tx = "open" /\ cache # NoCache THEN 1 ELSE cache
  /\ UNCHANGED <<tx, st, firstErr, cancelled, closure, disk, reported, crashed>>

\* ... which fails: the stage ends with an error, the merged channel reports it
StageFail(s) ==
  /\ ~crashed /\ Running(s) /\ done[s] < OpsPerStage
  /\ st' = [st EXCEPT ![s] = "err"]
  /\ firstErr' = TRUE
  /\ touchedAfterEnd' = (touchedAfterEnd \/ tx # "open")
  /\ UNCHANGED <<tx, done, cancelled, closure, disk, cache, reported, crashed>>

StageFinish(s) ==
  /\ ~crashed /\ Running(s) /\ done[s] = OpsPerStage
  /\ st' = [st EXCEPT ![s] = "ok"]
  /\ UNCHANGED <<tx, done, firstErr, cancelled, closure, disk, cache, reported, crashed, touchedAfterEnd>>

\* a stage notices the cancelled context at its next channel operation
StageCancel(s) ==
  /\ ~crashed /\ Running(s) /\ cancelled
  /\ st' = [st EXCEPT ![s] = "cancelled"]
  /\ UNCHANGED <<tx, done, firstErr, cancelled, closure, disk, cache, reported, crashed, touchedAfterEnd>>

\* the owner sees the first error: it cancels the context ...
OwnerCancel ==
  /\ ~crashed /\ closure = "running" /\ firstErr /\ ~cancelled
  /\ cancelled' = TRUE
  /\ UNCHANGED <<tx, done, st, firstErr, closure, disk, cache, reported, crashed, touchedAfterEnd>>

\* ... and returns the error: at once (pinned), or after every stage ended
ClosureErr ==
  /\ ~crashed /\ closure = "running" /\ firstErr
  /\ (WaitForStages => (cancelled /\ \A s \in Stages : ~Running(s)))
  /\ closure' = "returnedErr" /\ tx' = "rolledback"
  /\ cancelled' = TRUE     \* deferred cancel()
  /\ UNCHANGED <<done, st, firstErr, disk, cache, reported, crashed, touchedAfterEnd>>

ClosureOk ==
  /\ ~crashed /\ closure = "running" /\ ~firstErr /\ \A s \in Stages : st[s] = "ok"
  /\ closure' = "returnedOk"
  /\ UNCHANGED <<tx, done, st, firstErr, cancelled, disk, cache, reported, crashed, touchedAfterEnd>>

\* storage commit (may be refused) and the cache transaction's Commit(failed)
CommitOk ==
  /\ ~crashed /\ closure = "returnedOk" /\ tx = "open"
  /\ tx' = "committed" /\ disk' = 1 /\ reported' = "ok"
  /\ UNCHANGED <<done, st, firstErr, cancelled, closure, cache, crashed, touchedAfterEnd>>
CommitRefused ==
  /\ ~crashed /\ closure = "returnedOk" /\ tx = "open"
  /\ tx' = "rolledback" /\ reported' = "err"
  /\ cache' = IF ScrapOnFail THEN NoCache ELSE cache
  /\ UNCHANGED <<done, st, firstErr, cancelled, closure, disk, crashed, touchedAfterEnd>>
ReportErr ==
  /\ ~crashed /\ closure = "returnedErr" /\ reported = "none"
  /\ reported' = "err"
  /\ cache' = IF ScrapOnFail THEN NoCache ELSE cache
  /\ UNCHANGED <<tx, done, st, firstErr, cancelled, closure, disk, crashed, touchedAfterEnd>>

\* the process dies at any instant; the caches die with it
Crash ==
  /\ ~crashed /\ crashed' = TRUE /\ cache' = NoCache
  /\ UNCHANGED <<tx, done, st, firstErr, cancelled, closure, disk, reported, touchedAfterEnd>>

Next ==
  \/ \E s \in Stages : StageOp(s) \/ StageFail(s) \/ StageFinish(s) \/ StageCancel(s)
  \/ OwnerCancel \/ ClosureErr \/ ClosureOk \/ CommitOk \/ CommitRefused \/ ReportErr \/ Crash
  \/ UNCHANGED vars
Spec == Init /\ [][Next]_vars /\ WF_vars(Next)

---------------------------------------------------------------------------
\* no stage touches the transaction after the closure returned
NoTouchAfterRollback == ~touchedAfterEnd
\* success reported => all effects durable; failure reported or crash before
\* the commit => nothing durable; a live shared cache never disagrees with disk
\* once the call has reported
AllOrNothing ==
  /\ (reported = "ok" => disk = 1)
  /\ (reported = "err" => disk = 0)
  /\ (disk = 1 => \A s \in Stages : st[s] = "ok")
  /\ ((reported # "none" /\ cache # NoCache) => cache = disk)
\* every call returns (unless the process died)
Returns == <>(reported # "none" \/ crashed)
=============================================================================
