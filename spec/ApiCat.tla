------------------------------- MODULE ApiCat -------------------------------
(***************************************************************************)
(* C18: the MUTATION CATALOGUE of the HTTP API (both versions) and the     *)
(* RULES that judge one observed request.                                  *)
(*                                                                         *)
(* The request schemas are written down as field tables (path, type,       *)
(* required?, documented bounds, enumerated values) per BASE request - a   *)
(* valid request against the reference world the harness seeds.  For       *)
(* every field the mutation kinds of its type are listed together with     *)
(* the LABEL the documented schema gives the mutated request:              *)
(*    reject     it violates the schema / a limit: 4xx and nothing changes *)
(*    accept     it is valid: 2xx and the modelled effect                  *)
(*    either     the documentation leaves it open: anything but 5xx, and   *)
(*               a refusal must leave everything unchanged                 *)
(*    nonfinite  a valid request whose distances / values do not stay      *)
(*               finite (NaN, Inf, overflow): outside the "no 5xx" clause  *)
(*               of the property, still no crash and no damage elsewhere   *)
(* Catalogue is the sequence TLC enumerates: base x field x kind x         *)
(* encoding (+ the envelope mutations: headers, content type, method,      *)
(* path, collection id, whole-body shapes).  Api.tla writes it out as      *)
(* ndjson for the Go driver, which only MATERIALISES the cases; ApiTrace   *)
(* looks every logged case up here again and applies Conforms.             *)
(***************************************************************************)
EXTENDS Integers, Sequences, FiniteSets, TLC

Unb == 2000000000     \* "no documented bound"

Labels == {"reject", "accept", "either", "nonfinite"}
Effects == {"none", "change", "maychange", "addcol", "delcol"}

(* ------------------------------------------------------------------ *)
(* helpers                                                             *)
(* ------------------------------------------------------------------ *)
RECURSIVE Flat(_)
Flat(ss) == IF ss = <<>> THEN <<>> ELSE Head(ss) \o Flat(Tail(ss))
RECURSIVE Dedup(_)
Dedup(s) == IF s = <<>> THEN <<>>
            ELSE LET r == Dedup(Tail(s))
                 IN  IF \E i \in 1..Len(r) : r[i] = Head(s) THEN r ELSE <<Head(s)>> \o r
InSeq(x, s) == \E i \in 1..Len(s) : s[i] = x

(* ------------------------------------------------------------------ *)
(* fields and mutations                                                *)
(* ------------------------------------------------------------------ *)
\* p path ("/" separated, numbers index arrays), t type, req "y" required | "n" optional | "e" undocumented,
\* lo / hi documented bounds (value, length, or tenths for floats), vals accepted enum values,
\* alts extra <<value, label>> pairs, loose: a free-form point field that an index constrains (JSON numbers
\* arrive as float64 there), sp: special mutations appended verbatim
Fld(p, t, req, lo, hi) == [p |-> p, t |-> t, req |-> req, lo |-> lo, hi |-> hi, vals |-> <<>>, alts |-> <<>>,
                           loose |-> FALSE, sp |-> <<>>]
FInt(p, req, lo, hi) == Fld(p, "int", req, lo, hi)
FFloat(p, req, lo, hi) == Fld(p, "float", req, lo, hi)          \* bounds in tenths, Unb = none
FEnum(p, vals, alts) == [Fld(p, "enum", "y", 0, 0) EXCEPT !.vals = vals, !.alts = alts]
FStr(p, req, minlen) == Fld(p, "str", req, minlen, Unb)
FUuid(p, req, emptyok) == Fld(p, "uuid", req, IF emptyok THEN 0 ELSE 1, 0)
FVec(p, req, dim, maxlen) == Fld(p, "vec", req, dim, maxlen)
FList(p, req, lo, hi) == Fld(p, "list", req, lo, hi)
FStrs(p, req, lo) == Fld(p, "strs", req, lo, Unb)
FObj(p, req) == Fld(p, "obj", req, 0, 0)
FBool(p) == Fld(p, "bool", "n", 0, 0)
FFree(p) == Fld(p, "free", "n", 0, 0)
FColId(p, lo, hi, upperok) == [Fld(p, "colid", "y", lo, hi) EXCEPT !.loose = upperok]
Loose(f) == [f EXCEPT !.loose = TRUE]
With(f, sp) == [f EXCEPT !.sp = sp]
Pre(prefix, fs) == [i \in 1..Len(fs) |-> [fs[i] EXCEPT !.p = IF fs[i].p = "" THEN prefix ELSE prefix \o "/" \o fs[i].p]]

\* k kind, a / s arguments, lab label, enc "any" | "json" | "mp", risk 1 = run against the child process,
\* eff effect override ("" = the base's)
Mx(k, a, s, lab, enc, risk, eff) == [k |-> k, a |-> a, s |-> s, lab |-> lab, enc |-> enc, risk |-> risk, eff |-> eff]
M(k, a, s, lab) == Mx(k, a, s, lab, "any", 0, "")
ME(k, a, s, lab, enc) == Mx(k, a, s, lab, enc, 0, "")
MR(k, a, s, lab, enc) == Mx(k, a, s, lab, enc, 1, "")
MEff(k, a, s, lab, eff) == Mx(k, a, s, lab, "any", 0, eff)

ReqLab(f) == CASE f.req = "y" -> "reject" [] f.req = "n" -> "accept" [] OTHER -> "either"
InRange(f, v) == IF v >= f.lo /\ v <= f.hi THEN "accept" ELSE "reject"

Common(f) ==
  << M("missing", 0, "", ReqLab(f)),
     M("null", 0, "", IF f.req = "y" THEN "reject" ELSE "either"),
     M("dupsame", 0, "", "either"),
     M("dupbadfirst", 0, "", "either"),
     M("dupbadlast", 0, "", "either") >>

Wrong(types) == [i \in 1..Len(types) |-> M("type", 0, types[i], "reject")]

IntKinds(f) ==
  LET vs == SelectSeq(Dedup(<<f.lo - 1, f.lo, f.hi, f.hi + 1, -1, 0>>), LAMBDA v : v > -Unb /\ v < Unb)
      lz == IF f.loose THEN "either" ELSE "reject"
      \* beyond int64: no documented bound says how an unbounded integer field treats it
      oz == IF f.loose \/ f.hi = Unb THEN "either" ELSE "reject"
  IN  [i \in 1..Len(vs) |-> M("num", vs[i], "", InRange(f, vs[i]))]
      \o << MR("numstr", 0, "9223372036854775807", IF f.hi = Unb THEN "accept" ELSE "reject", "any"),
            MR("numstr", 0, "9223372036854775808", oz, "any"),
            MR("numstr", 0, "-9223372036854775808", IF f.lo = -Unb THEN "accept" ELSE "reject", "any"),
            MR("numstr", 0, "1e30", lz, "any"),
            M("numstr", 0, "1.5", lz),
            ME("numstr", 0, "1E400", "reject", "json"),
            MR("nan", 0, "", lz, "mp"),
            MR("pinf", 0, "", lz, "mp"),
            MR("ninf", 0, "", lz, "mp"),
            MR("mpuint64", 0, "", oz, "mp") >>
      \o (IF f.loose
          THEN LET ws == <<"fixint", "int8", "int16", "int32", "uint8", "uint16", "uint32">>
               IN  [i \in 1..Len(ws) |-> ME("mpint", 0, ws[i], "accept", "mp")] \o << ME("mpint", 0, "uint64", "either", "mp") >>
          ELSE <<>>)
      \o Wrong(<<"str", "bool", "arr", "obj">>)

\* bounds in tenths; an unbounded float is a value that takes part in arithmetic (weights, thresholds, filter values)
FloatKinds(f) ==
  LET bounded == f.hi # Unb
      vs == IF bounded THEN Dedup(<<f.lo - 1, f.lo, f.hi, f.hi + 1, 0, -10>>) ELSE <<0, -10, 15>>
      nf == IF bounded THEN "reject" ELSE "nonfinite"
  IN  [i \in 1..Len(vs) |-> M("f10", vs[i], "", IF bounded THEN InRange(f, vs[i]) ELSE "accept")]
      \o << MR("nan", 0, "", nf, "mp"), MR("pinf", 0, "", nf, "mp"), MR("ninf", 0, "", nf, "mp"),
            MR("nan32", 0, "", nf, "mp"),
            ME("f64", IF bounded THEN f.hi ELSE 15, "", "accept", "mp"),
            M("numstr", 0, "1e39", IF bounded THEN "reject" ELSE "either"),
            ME("numstr", 0, "1E400", "reject", "json"),
            ME("literal", 0, "NaN", "reject", "json"),
            ME("literal", 0, "Infinity", "reject", "json") >>
      \o Wrong(<<"str", "bool", "arr", "obj">>)

EnumKinds(f) ==
  [i \in 1..Len(f.vals) |-> M("enum", 0, f.vals[i], "accept")]
  \o [i \in 1..Len(f.alts) |-> M("enum", 0, f.alts[i][1], f.alts[i][2])]
  \o << M("enum", 0, "bogus", "reject"), M("enumupper", 0, "", "reject"), M("enum", 0, "", "reject") >>
  \o Wrong(<<"num", "bool", "arr", "obj">>)

\* lo = the index dimension, hi = the documented maximum length of the request field:
\* a vector is acceptable if and only if its length IS the dimension
VecKinds(f) ==
  LET ls == SelectSeq(Dedup(<<0, 1, f.lo - 1, f.lo, f.lo + 1, f.hi, f.hi + 1, 4096, 4097>>), LAMBDA n : n >= 0)
  IN  [i \in 1..Len(ls) |-> M("len", ls[i], "", IF ls[i] = f.lo THEN "accept" ELSE "reject")]
      \o << M("elem", 0, "str", "reject"), M("elem", 0, "null", "either"), M("elem", 0, "arr", "reject"),
            M("elem", 0, "bool", "reject"), M("elem", 0, "obj", "reject"),
            ME("elem", 0, "int", "accept", "json"), ME("elem", 0, "int", "either", "mp"),
            ME("elem", 0, "f64", "accept", "mp"),
            MR("elem", 0, "nan", "nonfinite", "mp"), MR("elem", 0, "pinf", "nonfinite", "mp"),
            MR("elem", 0, "ninf", "nonfinite", "mp"), MR("elem", 0, "nan32", "nonfinite", "mp"),
            MR("elem", 0, "1e39", "nonfinite", "any"), MR("elem", 0, "3e38", "nonfinite", "any"),
            MR("elem", 0, "1e-46", "either", "any"),
            ME("elem", 0, "NaN", "reject", "json") >>
      \o Wrong(<<"str", "num", "bool", "obj">>)

StrKinds(f) ==
  << M("str", 0, "", IF f.lo >= 1 THEN "reject" ELSE "accept"),
     M("strlen", 1, "", IF f.loose THEN "accept" ELSE "either"),
     M("strlen", 10000, "", "either"),
     M("str", 0, "unicode", "either") >>
  \o Wrong(<<"num", "bool", "arr", "obj">>)

UuidKinds(f) ==
  << M("uuid", 0, "bad", "reject"), M("uuid", 0, "short", "reject"), M("uuid", 0, "long", "reject"),
     M("uuid", 0, "upper", "accept"), M("uuid", 0, "urn", "either"), M("uuid", 0, "braces", "either"),
     M("uuid", 0, "nohyphen", "either"),
     M("str", 0, "", IF f.lo = 0 THEN "accept" ELSE "reject") >>
  \o Wrong(<<"num", "bool", "arr", "obj">>)

\* collection id in a creation body: lo..hi characters, lower-case letters and digits (loose: upper case too)
ColIdKinds(f) ==
  << M("idlen", f.lo - 1, "", "reject"), M("idlen", f.lo, "", "accept"),
     M("idlen", f.hi, "", "accept"), M("idlen", f.hi + 1, "", "reject"),
     M("str", 0, "NewCol", IF f.loose THEN "accept" ELSE "reject"),
     M("str", 0, "new-col", "reject"), M("str", 0, "new col", "reject"), M("str", 0, "new.col", "reject"),
     M("str", 0, "new/col", "reject"), M("str", 0, "unicode", "reject"), M("str", 0, "", "reject"),
     M("str", 0, "@existing", "reject") >>
  \o Wrong(<<"num", "bool", "arr", "obj">>)

ListKinds(f) ==
  LET ls == SelectSeq(Dedup(<<0, f.lo, f.hi, f.hi + 1>>), LAMBDA n : n < Unb)
  IN  [i \in 1..Len(ls) |-> M("len", ls[i], "", InRange(f, ls[i]))]
      \o << M("elemtype", 0, "num", "reject"), M("elemtype", 0, "str", "reject"), M("elemtype", 0, "null", "either") >>
      \o Wrong(<<"str", "num", "bool", "obj">>)

StrsKinds(f) ==
  << M("len", 0, "", IF f.lo >= 1 THEN "reject" ELSE "accept"),
     M("len", 1, "", "accept"),
     M("len", 200, "", "either"),
     M("elemtype", 0, "num", "reject"), M("elemtype", 0, "null", "either"), M("elemtype", 0, "arr", "reject") >>
  \o Wrong(<<"str", "num", "bool", "obj">>)

ObjKinds(f) == << M("extra", 0, "", "either") >> \o Wrong(<<"str", "num", "bool", "arr">>)
BoolKinds(f) == << M("bool", 0, "", "accept"), M("bool", 1, "", "accept") >> \o Wrong(<<"str", "num", "arr", "obj">>)
FreeKinds(f) ==
  << M("type", 0, "str", "accept"), M("type", 0, "num", "accept"), M("type", 0, "bool", "accept"),
     M("type", 0, "arr", "accept"), M("type", 0, "obj", "accept"),
     M("deep", 100, "", "accept"), M("deepobj", 100, "", "accept"),
     MR("deep", 9000, "", "either", "any"),
     MR("deep", 20000, "", "either", "any"),
     MR("deep", 3000000, "", "either", "mp"),
     MR("deepobj", 1000000, "", "either", "mp"),
     MR("nan", 0, "", "nonfinite", "mp"), MR("pinf", 0, "", "nonfinite", "mp"),
     M("strlen", 30000, "", "reject") >>    \* larger than the plan's maximum point size

TypeKinds(f) ==
  CASE f.t = "int" -> IntKinds(f)
    [] f.t = "float" -> FloatKinds(f)
    [] f.t = "enum" -> EnumKinds(f)
    [] f.t = "vec" -> VecKinds(f)
    [] f.t = "str" -> StrKinds(f)
    [] f.t = "uuid" -> UuidKinds(f)
    [] f.t = "colid" -> ColIdKinds(f)
    [] f.t = "list" -> ListKinds(f)
    [] f.t = "strs" -> StrsKinds(f)
    [] f.t = "obj" -> ObjKinds(f)
    [] f.t = "bool" -> BoolKinds(f)
    [] f.t = "free" -> FreeKinds(f)

\* free fields have no "wrong" value: null and absence are fine
KindsOf(f) ==
  (IF f.t = "free" THEN << M("missing", 0, "", "accept"), M("null", 0, "", "accept"), M("dupsame", 0, "", "either") >>
   ELSE Common(f))
  \o TypeKinds(f) \o f.sp

(* ------------------------------------------------------------------ *)
(* the reference world (the harness seeds exactly this)                *)
(* ------------------------------------------------------------------ *)
\* v1ok: has a property "vector" of type vectorVamana (what the v1 handlers read)
World ==
  << [u |-> "alice", c |-> "kitchen", v1ok |-> FALSE],
     [u |-> "alice", c |-> "v1col", v1ok |-> TRUE],
     [u |-> "alice", c |-> "edge", v1ok |-> FALSE],
     [u |-> "alice", c |-> "quant", v1ok |-> FALSE],
     [u |-> "bob", c |-> "v1col", v1ok |-> TRUE],
     [u |-> "dave", c |-> "novec", v1ok |-> FALSE],
     [u |-> "dave", c |-> "flatvec", v1ok |-> FALSE],
     [u |-> "dave", c |-> "stray", v1ok |-> FALSE],
     [u |-> "pat", c |-> "v1col", v1ok |-> TRUE],
     [u |-> "tim", c |-> "tiny", v1ok |-> FALSE] >>
V1Ok(u, c) == \E i \in 1..Len(World) : World[i].u = u /\ World[i].c = c /\ World[i].v1ok
UserV1Ok(u) == \A i \in 1..Len(World) : World[i].u = u => World[i].v1ok

(* ------------------------------------------------------------------ *)
(* field tables                                                        *)
(* ------------------------------------------------------------------ *)
Metrics5 == <<"euclidean", "cosine", "dot", "hamming", "jaccard">>
Hav(dim) == << <<"haversine", IF dim = 2 THEN "accept" ELSE "reject">> >>

VamanaParams(dim) ==
  << FInt("vectorSize", "y", 1, 4096),
     FEnum("distanceMetric", Metrics5, Hav(dim)),
     FInt("searchSize", "y", 25, 75),
     FInt("degreeBound", "y", 32, 64),
     FFloat("alpha", "y", 11, 15) >>
FlatParams(dim) ==
  << FInt("vectorSize", "y", 1, 4096),
     FEnum("distanceMetric", Metrics5, Hav(dim)) >>

SchemaFields ==
  << With(FObj("indexSchema", "n"),
          << M("addprop", 0, "_id", "either"), M("addprop", 0, "_and", "either"), M("addprop", 0, "_or", "either"),
             M("addprop", 0, "", "either"), M("addprop", 0, "a..b", "either"), M("addprop", 0, "vec.sub", "either"),
             M("addprop", 0, "_distance", "either"), M("addprop", 0, "unicode", "either"),
             M("addprop", 1, "bad", "reject"), M("addprop", 2, "bad", "reject") >>),
     FObj("indexSchema/vec", "n"),
     FEnum("indexSchema/vec/type", <<"vectorVamana">>,
           << <<"vectorFlat", "reject">>, <<"text", "reject">>, <<"string", "reject">>, <<"stringArray", "reject">>,
              <<"integer", "either">>, <<"float", "either">> >>),
     FObj("indexSchema/vec/vectorVamana", "y") >>
  \o Pre("indexSchema/vec/vectorVamana", VamanaParams(4))
  \o << FEnum("indexSchema/flat/type", <<"vectorFlat">>, << <<"vectorVamana", "reject">>, <<"integer", "either">> >>),
        FObj("indexSchema/flat/vectorFlat", "y") >>
  \o Pre("indexSchema/flat/vectorFlat", FlatParams(3))
  \o << FEnum("indexSchema/txt/type", <<"text">>, << <<"string", "reject">> >>),
        FObj("indexSchema/txt/text", "y"),
        FEnum("indexSchema/txt/text/analyser", <<"standard">>, <<>>),
        FEnum("indexSchema/str/type", <<"string">>, << <<"text", "reject">>, <<"stringArray", "reject">> >>),
        FObj("indexSchema/str/string", "y"),
        FBool("indexSchema/str/string/caseSensitive"),
        FEnum("indexSchema/num/type", <<"integer", "float">>, << <<"string", "reject">> >>),
        FEnum("indexSchema/tags/type", <<"stringArray">>, << <<"string", "reject">> >>),
        FObj("indexSchema/tags/stringArray", "y"),
        FBool("indexSchema/tags/stringArray/caseSensitive"),
        FObj("indexSchema/pq/vectorFlat/quantizer", "n"),
        FEnum("indexSchema/pq/vectorFlat/quantizer/type", <<"product", "none">>, << <<"binary", "reject">> >>),
        FObj("indexSchema/pq/vectorFlat/quantizer/product", "y"),
        FInt("indexSchema/pq/vectorFlat/quantizer/product/numCentroids", "y", 2, 256),
        With(FInt("indexSchema/pq/vectorFlat/quantizer/product/numSubVectors", "y", 2, Unb),
             << M("num", 3, "", "either"), M("num", 8, "", "accept"), M("num", 9, "", "either") >>),
        FInt("indexSchema/pq/vectorFlat/quantizer/product/triggerThreshold", "y", 1000, 10000),
        FEnum("indexSchema/bq/vectorVamana/quantizer/type", <<"binary", "none">>, << <<"product", "reject">> >>),
        FObj("indexSchema/bq/vectorVamana/quantizer/binary", "y"),
        FInt("indexSchema/bq/vectorVamana/quantizer/binary/triggerThreshold", "n", 0, 50000),
        FEnum("indexSchema/bq/vectorVamana/quantizer/binary/distanceMetric", <<"hamming", "jaccard">>,
              << <<"euclidean", "reject">> >>) >>

V2CreateFields == << FColId("id", 3, 24, FALSE) >> \o SchemaFields

V1CreateFields ==
  << FColId("id", 3, 16, TRUE),
     FInt("vectorSize", "y", 1, 4096),
     FEnum("distanceMetric", <<"euclidean", "cosine", "dot">>,
           << <<"hamming", "reject">>, <<"jaccard", "reject">>, <<"haversine", "reject">> >>) >>

\* one point of the kitchen collection (vec: vamana 4, flat: flat 3, txt text, str string, num integer,
\* flt float, tags stringArray, nest.n integer, deep.a.b integer); idreq: update (the id is required and must exist)
KitchenPoint(idreq) ==
  << FObj("", IF idreq THEN "y" ELSE "n"),      \* the insert request carries two points, the update one
     With(FUuid("_id", IF idreq THEN "y" ELSE "n", FALSE),
          IF idreq THEN << MEff("uuid", 0, "unknown", "accept", "none") >>
          ELSE << M("uuid", 0, "existing", "either"), M("uuid", 0, "dupinbatch", "either") >>),
     FVec("vec", "n", 4, 4096),
     FVec("flat", "n", 3, 4096),
     Loose(FStr("txt", "n", 0)),
     With(Loose(FStr("str", "n", 0)), << M("str", 0, "_delete", "either") >>),
     Loose(FInt("num", "n", -Unb, Unb)),
     With(Loose(FFloat("flt", "n", -Unb, Unb)), << ME("num", 5, "", "accept", "json"), ME("num", 5, "", "either", "mp") >>),
     With(FStrs("tags", "n", 0), << M("elemstr", 0, "", "accept") >>),
     FObj("nest", "n"),
     Loose(FInt("nest/n", "n", -Unb, Unb)),
     FObj("deep", "n"),
     FObj("deep/a", "n"),
     Loose(FInt("deep/a/b", "n", -Unb, Unb)),
     With(FFree("extra"),
          << M("addprop", 0, "_distance", "either"), M("addprop", 0, "_score", "either"), M("addprop", 0, "", "either"),
             M("addprop", 0, "a.b", "either"), M("addprop", 0, "unicode", "either") >>) >>

V2InsertFields == << FList("points", "y", 1, 10000) >> \o Pre("points/0", KitchenPoint(FALSE))
V2UpdateFields == << FList("points", "y", 1, 100) >> \o Pre("points/0", KitchenPoint(TRUE))
DeleteFields ==
  << FList("ids", "y", 1, 100),
     With(FUuid("ids/0", "y", FALSE), << MEff("uuid", 0, "unknown", "accept", "none") >>) >>

EdgeInsertFields == << FVec("points/0/one", "n", 1, 4096), FVec("points/0/max", "n", 4096, 4096) >>
QuantInsertFields ==
  << FVec("points/0/h", "n", 16, 4096),
     With(FVec("points/0/g", "n", 2, 4096), << M("elem", 0, "1000", "either") >>) >>

V1PointFields(upd) ==
  << FObj("points/0", "y"),
     With(FUuid("points/0/id", IF upd THEN "y" ELSE "n", ~upd),
          IF upd THEN << MEff("uuid", 0, "unknown", "accept", "none") >> ELSE << M("uuid", 0, "existing", "either") >>),
     FVec("points/0/vector", "y", 4, 2000),
     FFree("points/0/metadata") >>
V1InsertFields == << FList("points", "y", 1, 10000) >> \o V1PointFields(FALSE)
V1UpdateFields == << FList("points", "y", 1, 100) >> \o V1PointFields(TRUE)
V1SearchFields == << FVec("vector", "y", 4, 2000), FInt("limit", "n", 0, 75) >>

(* ---- v2 search ---- *)
PropSpecials(self) ==
  LET others == SelectSeq(<<"vec", "flat", "txt", "str", "num", "flt", "tags">>, LAMBDA x : x # self)
  IN  [i \in 1..Len(others) |-> M("str", 0, others[i], "reject")]
      \o << M("str", 0, "nosuch", "reject"), M("str", 0, "_id", "reject"),
            M("str", 0, "_and", "reject"), M("str", 0, "_or", "reject") >>

QProp(q, self) == With(FStr(q \o "/property", "y", 1), PropSpecials(self))
QVamana(q, qreq, prop, dim) ==
  << FObj(q, qreq), QProp(q, prop), FObj(q \o "/vectorVamana", "y"),
     FVec(q \o "/vectorVamana/vector", "y", dim, 4096),
     FEnum(q \o "/vectorVamana/operator", <<"near">>, << <<"equals", "reject">>, <<"containsAll", "reject">> >>),
     FInt(q \o "/vectorVamana/searchSize", "y", 25, 75),
     FInt(q \o "/vectorVamana/limit", "y", 1, 75),
     FFloat(q \o "/vectorVamana/weight", "n", -Unb, Unb) >>
QFlat(q, qreq, prop, dim) ==
  << FObj(q, qreq), QProp(q, prop), FObj(q \o "/vectorFlat", "y"),
     FVec(q \o "/vectorFlat/vector", "y", dim, 4096),
     FEnum(q \o "/vectorFlat/operator", <<"near">>, << <<"equals", "reject">> >>),
     FInt(q \o "/vectorFlat/limit", "y", 1, 75),
     FFloat(q \o "/vectorFlat/weight", "n", -Unb, Unb) >>
QText(q, qreq) ==
  << FObj(q, qreq), QProp(q, "txt"), FObj(q \o "/text", "y"),
     FStr(q \o "/text/value", "y", 1),
     FEnum(q \o "/text/operator", <<"containsAll", "containsAny">>, << <<"equals", "reject">>, <<"near", "reject">> >>),
     FInt(q \o "/text/limit", "y", 1, 75),
     FFloat(q \o "/text/weight", "n", -Unb, Unb) >>
CmpOps == <<"equals", "notEquals", "greaterThan", "greaterThanOrEquals", "lessThan", "lessThanOrEquals", "inRange">>
QString(q, qreq) ==
  << FObj(q, qreq), QProp(q, "str"), FObj(q \o "/string", "y"),
     FStr(q \o "/string/value", "y", 1),
     FEnum(q \o "/string/operator", CmpOps \o <<"startsWith">>, << <<"near", "reject">>, <<"containsAny", "reject">> >>),
     FStr(q \o "/string/endValue", "n", 0) >>
QInteger(q, qreq, prop) ==
  << FObj(q, qreq), QProp(q, prop), FObj(q \o "/integer", "y"),
     FInt(q \o "/integer/value", "e", -Unb, Unb),
     FEnum(q \o "/integer/operator", CmpOps, << <<"startsWith", "reject">>, <<"near", "reject">> >>),
     FInt(q \o "/integer/endValue", "n", -Unb, Unb) >>
QFloat(q, qreq) ==
  << FObj(q, qreq), QProp(q, "flt"), FObj(q \o "/float", "y"),
     FFloat(q \o "/float/value", "e", -Unb, Unb),
     FEnum(q \o "/float/operator", CmpOps, << <<"startsWith", "reject">>, <<"containsAll", "reject">> >>),
     FFloat(q \o "/float/endValue", "n", -Unb, Unb) >>
QStringArray(q, qreq) ==
  << FObj(q, qreq), QProp(q, "tags"), FObj(q \o "/stringArray", "y"),
     FStrs(q \o "/stringArray/value", "y", 1),
     FEnum(q \o "/stringArray/operator", <<"containsAll", "containsAny">>, << <<"equals", "reject">> >>) >>
QIdStr(q) ==
  << FObj(q \o "/string", "y"),
     With(FUuid(q \o "/string/value", "y", FALSE), << M("uuid", 0, "unknown", "accept") >>),
     FEnum(q \o "/string/operator", <<"equals">>, << <<"notEquals", "reject">>, <<"startsWith", "reject">>, <<"inRange", "reject">> >>) >>
QIdArr(q) ==
  << FObj(q \o "/stringArray", "y"),
     With(FStrs(q \o "/stringArray/value", "y", 1), << M("elemstr", 0, "baduuid", "reject"), M("elemstr", 0, "unknownuuid", "accept") >>),
     FEnum(q \o "/stringArray/operator", <<"containsAny">>, << <<"containsAll", "reject">> >>) >>

SelectSpecials ==
  << M("strs", 0, "*", "accept"), M("strs", 0, "nosuch", "accept"), M("strs", 0, "vec", "accept"),
     M("strs", 0, "_id", "accept"), M("strs", 0, "nest.n", "accept"), M("strs", 0, "nest|nest.n", "accept"),
     M("strs", 0, "extra.k", "accept"), M("strs", 0, "nosuch.deeper", "accept"),
     M("strs", 0, "num.x", "accept"), M("strs", 0, "nest.n.z", "accept"), M("strs", 0, "str.x.y", "accept"),
     M("strs", 0, "tags.0", "accept"), M("strs", 0, "flt.x", "accept"), M("strs", 0, "vec.0", "accept"),
     M("strs", 0, "txt.x", "accept"), M("strs", 0, "extra.k.0", "accept"), M("strs", 0, "_id.x", "accept"),
     M("strs", 0, "num|num.x", "accept"), M("strs", 0, "nest.n|nest", "accept"),
     M("strs", 0, "", "either"), M("strs", 0, ".", "either"), M("strs", 0, "nest.", "either"),
     M("strs", 0, ".nest", "either"), M("strs", 0, "*|num", "either"), M("strs", 0, "num|*", "either"),
     M("strs", 0, "unicode", "either") >>
SortSpecials ==
  << M("str", 0, "nosuch", "either"), M("str", 0, "vec", "either"), M("str", 0, "tags", "either"),
     M("str", 0, "nest", "either"), M("str", 0, "nest.n", "either"), M("str", 0, "extra", "either"),
     M("str", 0, "str", "accept"), M("str", 0, "_distance", "either"), M("str", 0, "_id", "either") >>
SearchTail ==
  << With(FStrs("select", "n", 0), SelectSpecials),
     FList("sort", "n", 0, 10),
     FObj("sort/0", "n"),
     With(FStr("sort/0/property", "y", 1), SortSpecials),
     FBool("sort/0/descending"),
     FInt("offset", "n", 0, Unb),
     FInt("limit", "y", 1, 100) >>

AndFields ==
  << With(FStr("query/property", "y", 1), << M("str", 0, "_or", "reject"), M("str", 0, "nosuch", "reject"), M("str", 0, "str", "reject") >>),
     With(FList("query/_and", "y", 1, Unb),
          << MR("nestq", 1000, "_and", "either", "any"), MR("nestq", 9000, "_and", "either", "any"),
             MR("nestq", 20000, "_and", "either", "mp") >>) >>
  \o QString("query/_and/0", "n") \o QInteger("query/_and/1", "n", "num")
OrFields ==
  << With(FStr("query/property", "y", 1), << M("str", 0, "_and", "reject"), M("str", 0, "nosuch", "reject") >>),
     FList("query/_or", "y", 1, Unb) >>
  \o QVamana("query/_or/0", "n", "vec", 4) \o QText("query/_or/1", "n")

(* ------------------------------------------------------------------ *)
(* base requests                                                       *)
(* ------------------------------------------------------------------ *)
\* ep endpoint, var variant (the Go driver holds the concrete valid request of that name), u / col addressed user and
\* collection ("" = none), lab label of the unmutated request, eff its effect on the target u/col,
\* body: has a request body, env: generate the envelope mutations, fields
B(ep, var, u, col, lab, eff, body, env, fields) ==
  [ep |-> ep, var |-> var, u |-> u, col |-> col, lab |-> lab, eff |-> eff, body |-> body, env |-> env, fields |-> fields]

Bases ==
  << \* ---------------- v2
     B("v2.ping", "ping", "alice", "", "accept", "none", FALSE, TRUE, <<>>),
     B("v2.list", "list", "alice", "", "accept", "none", FALSE, TRUE, <<>>),
     B("v2.create", "kitchen", "alice", "*", "accept", "addcol", TRUE, TRUE, V2CreateFields),
     B("v2.create", "noschema", "alice", "*", "accept", "addcol", TRUE, FALSE, <<>>),
     B("v2.create", "quotafull", "tim", "*", "reject", "addcol", TRUE, FALSE, <<>>),
     B("v2.get", "get", "alice", "kitchen", "accept", "none", FALSE, TRUE, <<>>),
     B("v2.delcol", "delcol", "alice", "quant", "accept", "delcol", FALSE, TRUE, <<>>),
     B("v2.insert", "kitchen", "alice", "kitchen", "accept", "change", TRUE, TRUE, V2InsertFields),
     B("v2.insert", "edge", "alice", "edge", "accept", "change", TRUE, FALSE, EdgeInsertFields),
     B("v2.insert", "quant", "alice", "quant", "accept", "change", TRUE, FALSE, QuantInsertFields),
     \* "emb" is a vectorFlat of size 2 whose schema entry also carries a stray vectorVamana block of size 4
     B("v2.insert", "stray", "dave", "stray", "accept", "change", TRUE, FALSE, << FVec("points/0/emb", "n", 2, 4096) >>),
     B("v2.insert", "quotafull", "tim", "tiny", "reject", "change", TRUE, FALSE, <<>>),
     B("v2.insert", "toolarge", "tim", "tiny", "reject", "change", TRUE, FALSE, <<>>),
     B("v2.update", "kitchen", "alice", "kitchen", "accept", "change", TRUE, TRUE, V2UpdateFields),
     B("v2.update", "grow", "tim", "tiny", "either", "maychange", TRUE, FALSE, <<>>),
     B("v2.delpts", "kitchen", "alice", "kitchen", "accept", "change", TRUE, TRUE, DeleteFields),
     B("v2.search", "vamana", "alice", "kitchen", "accept", "none", TRUE, TRUE, QVamana("query", "y", "vec", 4) \o SearchTail),
     B("v2.search", "flat", "alice", "kitchen", "accept", "none", TRUE, FALSE, QFlat("query", "y", "flat", 3)),
     B("v2.search", "text", "alice", "kitchen", "accept", "none", TRUE, FALSE, QText("query", "y")),
     B("v2.search", "string", "alice", "kitchen", "accept", "none", TRUE, FALSE, QString("query", "y") \o SearchTail),
     B("v2.search", "strrange", "alice", "kitchen", "accept", "none", TRUE, FALSE, <<>>),
     B("v2.search", "strrangebad", "alice", "kitchen", "reject", "none", TRUE, FALSE, <<>>),
     B("v2.search", "strrangeeq", "alice", "kitchen", "reject", "none", TRUE, FALSE, <<>>),
     B("v2.search", "integer", "alice", "kitchen", "accept", "none", TRUE, FALSE, QInteger("query", "y", "num")),
     B("v2.search", "intrangebad", "alice", "kitchen", "reject", "none", TRUE, FALSE, <<>>),
     B("v2.search", "nested", "alice", "kitchen", "accept", "none", TRUE, FALSE, <<>>),
     B("v2.search", "float", "alice", "kitchen", "accept", "none", TRUE, FALSE, QFloat("query", "y")),
     B("v2.search", "fltrangebad", "alice", "kitchen", "reject", "none", TRUE, FALSE, <<>>),
     B("v2.search", "strarr", "alice", "kitchen", "accept", "none", TRUE, FALSE, QStringArray("query", "y")),
     B("v2.search", "idstr", "alice", "kitchen", "accept", "none", TRUE, FALSE, QIdStr("query")),
     B("v2.search", "idarr", "alice", "kitchen", "accept", "none", TRUE, FALSE, QIdArr("query")),
     B("v2.search", "and", "alice", "kitchen", "accept", "none", TRUE, FALSE, AndFields),
     B("v2.search", "or", "alice", "kitchen", "accept", "none", TRUE, FALSE, OrFields),
     B("v2.search", "vamfilter", "alice", "kitchen", "accept", "none", TRUE, FALSE,
       QInteger("query/vectorVamana/filter", "n", "num")),
     B("v2.search", "vamfiltervec", "alice", "kitchen", "accept", "none", TRUE, FALSE,
       QFlat("query/vectorVamana/filter", "n", "flat", 3)),
     B("v2.search", "flatfilter", "alice", "kitchen", "accept", "none", TRUE, FALSE, QString("query/vectorFlat/filter", "n")),
     B("v2.search", "flatfiltervec", "alice", "kitchen", "accept", "none", TRUE, FALSE,
       QVamana("query/vectorFlat/filter", "n", "vec", 4)),
     B("v2.search", "textfiltervec", "alice", "kitchen", "accept", "none", TRUE, FALSE,
       QFlat("query/text/filter", "n", "flat", 3)),
     B("v2.search", "andvec", "alice", "kitchen", "either", "none", TRUE, FALSE,
       << FVec("query/_and/0/vectorFlat/vector", "y", 3, 4096), FVec("query/_and/1/vectorVamana/vector", "y", 4, 4096) >>),
     B("v2.search", "edge1", "alice", "edge", "accept", "none", TRUE, FALSE, << FVec("query/vectorVamana/vector", "y", 1, 4096) >>),
     B("v2.search", "edgemax", "alice", "edge", "accept", "none", TRUE, FALSE, << FVec("query/vectorFlat/vector", "y", 4096, 4096) >>),
     B("v2.search", "ham", "alice", "quant", "accept", "none", TRUE, FALSE, << FVec("query/vectorFlat/vector", "y", 16, 4096) >>),
     B("v2.search", "geo", "alice", "quant", "accept", "none", TRUE, FALSE,
       << With(FVec("query/vectorFlat/vector", "y", 2, 4096), << M("elem", 0, "1000", "either") >>) >>),
     B("v2.search", "onv1col", "alice", "v1col", "accept", "none", TRUE, FALSE, << FVec("query/vectorVamana/vector", "y", 4, 4096) >>),
     \* ---------------- v1
     B("v1.ping", "ping", "bob", "", "accept", "none", FALSE, TRUE, <<>>),
     B("v1.list", "list", "bob", "", "accept", "none", FALSE, TRUE, <<>>),
     B("v1.create", "create", "bob", "*", "accept", "addcol", TRUE, TRUE, V1CreateFields),
     B("v1.get", "get", "alice", "v1col", "accept", "none", FALSE, TRUE, <<>>),
     B("v1.delcol", "delcol", "bob", "v1col", "accept", "delcol", FALSE, TRUE, <<>>),
     B("v1.insert", "insert", "alice", "v1col", "accept", "change", TRUE, TRUE, V1InsertFields),
     B("v1.update", "update", "alice", "v1col", "accept", "change", TRUE, TRUE, V1UpdateFields),
     \* pat's collection was created under a larger plan; the limits of the plan the request carries apply
     B("v1.insert", "downgraded", "pat", "v1col", "reject", "change", TRUE, FALSE, <<>>),
     B("v1.insert", "downquota", "pat", "v1col", "reject", "change", TRUE, FALSE, <<>>),
     B("v1.delpts", "delpts", "alice", "v1col", "accept", "change", TRUE, TRUE, DeleteFields),
     B("v1.search", "search", "alice", "v1col", "accept", "none", TRUE, TRUE, V1SearchFields),
     \* ---------------- v1 requests that meet a collection created through v2 (no "vector" vamana property)
     B("v1.list", "mixeduser", "dave", "", "accept", "none", FALSE, FALSE, <<>>),
     B("v1.get", "novec", "dave", "novec", "accept", "none", FALSE, FALSE, <<>>),
     B("v1.get", "flatvec", "dave", "flatvec", "accept", "none", FALSE, FALSE, <<>>),
     B("v1.search", "novec", "dave", "novec", "either", "none", TRUE, FALSE, <<>>),
     B("v1.insert", "novec", "dave", "novec", "either", "maychange", TRUE, FALSE, <<>>),
     B("v1.update", "novec", "dave", "novec", "either", "maychange", TRUE, FALSE, <<>>),
     B("v1.delpts", "novec", "dave", "novec", "either", "maychange", TRUE, FALSE, <<>>),
     B("v1.delcol", "flatvec", "dave", "flatvec", "accept", "delcol", FALSE, FALSE, <<>>) >>

(* ---- envelope mutations of a base ---- *)
IsV1(b) == SubSeq(b.ep, 1, 2) = "v1"
EnvKinds(b) ==
  LET bodyrej == IF b.body THEN "reject" ELSE "accept"
      bodyeither == IF b.body THEN "either" ELSE "accept"
      colhi == IF IsV1(b) THEN 16 ELSE 24
  IN  << M("hdr", 0, "nouser", "reject"), M("hdr", 0, "emptyuser", "reject"), M("hdr", 0, "noplan", "reject"),
         M("hdr", 0, "badplan", "reject"), M("hdr", 0, "emptyplan", "reject"),
         M("hdr", 0, "longuser", "either"), M("hdr", 0, "weirduser", "either"),
         M("ct", 0, "missing", bodyrej), M("ct", 0, "text/plain", bodyrej),
         M("ct", 0, "application/x-www-form-urlencoded", bodyrej),
         M("ct", 0, "swap", bodyrej), M("ct", 0, "charset", bodyeither), M("ct", 0, "upper", bodyeither),
         M("ct", 0, "x-msgpack", bodyeither),
         M("method", 0, "PATCH", IF b.ep \in {"v1.ping", "v2.ping"} THEN "either" ELSE "reject"), M("method", 0, "OPTIONS", "either"), M("method", 0, "HEAD", "either"),
         M("path", 0, "trailing", "either"), M("path", 0, "unknown", "reject"), M("path", 0, "v3", "reject"),
         M("path", 0, "double", "either"), M("path", 0, "query", "either") >>
      \o (IF b.col \notin {"", "*"}
          THEN << M("col", 0, "nosuchcol", "reject"), M("col", 2, "len", "reject"), M("col", colhi, "len", "reject"),
                  M("col", colhi + 1, "len", "reject"), M("col", 0, "otheruser", "reject"),
                  M("col", 0, "KITCHEN", "reject"), M("col", 0, "kit%20chen", "reject"), M("col", 0, "kit.chen", "reject"),
                  M("col", 0, "unicode", "reject") >>
          ELSE <<>>)
      \o (IF b.body
          THEN << M("body", 0, "empty", "reject"), M("body", 0, "null", "reject"), M("body", 0, "arr", "reject"),
                  M("body", 0, "str", "reject"), M("body", 0, "num", "reject"), M("body", 0, "true", "reject"),
                  M("body", 0, "trunc", "reject"), M("body", 0, "trail", "either"), ME("body", 0, "bom", "either", "json"),
                  ME("body", 0, "ws", "accept", "json"), M("body", 0, "two", "either"),
                  MR("body", 100000, "deeparr", "reject", "any"), MR("body", 5000000, "deeparr", "reject", "mp"),
                  MR("body", 1000000, "deepobj", "reject", "mp"),
                  MR("body", 32, "hugefield", "either", "any"), MR("body", 32, "hugepad", "either", "json"),
                  MR("body", 0, "mpbiglen", "reject", "mp"), MR("body", 0, "mpbigmap", "reject", "mp"),
                  MR("body", 0, "mpbigstr", "reject", "mp"), MR("body", 0, "mpext", "reject", "mp") >>
          ELSE << M("body", 0, "garbage", "accept") >>)

(* ------------------------------------------------------------------ *)
(* the catalogue                                                       *)
(* ------------------------------------------------------------------ *)
Encs(b, m) == IF ~b.body THEN <<"json">>
              ELSE IF m.enc = "any" THEN <<"json", "mp">> ELSE <<m.enc>>

MkCase(b, p, t, m, enc) ==
  [ep |-> b.ep, var |-> b.var, u |-> b.u, col |-> b.col, p |-> p, t |-> t, k |-> m.k, a |-> m.a, s |-> m.s, enc |-> enc,
   lab |-> m.lab, eff |-> IF m.eff = "" THEN b.eff ELSE m.eff, risk |-> m.risk]

CasesOfMut(b, p, t, m) == LET es == Encs(b, m) IN [e \in 1..Len(es) |-> MkCase(b, p, t, m, es[e])]
CasesOfField(b, f) == LET ks == KindsOf(f) IN Flat([j \in 1..Len(ks) |-> CasesOfMut(b, f.p, f.t, ks[j])])
CasesOfBase(b) ==
  CasesOfMut(b, "", "base", M("id", 0, "", b.lab))
  \o Flat([i \in 1..Len(b.fields) |-> CasesOfField(b, b.fields[i])])
  \o (IF b.env THEN LET ks == EnvKinds(b) IN Flat([j \in 1..Len(ks) |-> CasesOfMut(b, "", "env", ks[j])]) ELSE <<>>)

RawCatalogue == Flat([i \in 1..Len(Bases) |-> CasesOfBase(Bases[i])])
Catalogue == [i \in 1..Len(RawCatalogue) |-> [cid |-> i] @@ RawCatalogue[i]]
NCases == Len(Catalogue)
Descr(c) == <<c.ep, c.var, c.p, c.k, c.a, c.s, c.enc>>

(* ------------------------------------------------------------------ *)
(* rules: what one observation of a case must look like                *)
(* ------------------------------------------------------------------ *)
\* An observation o: status (0 = no response), crashed (the server process died), aborted (connection closed without a
\* response / handler panicked past the recovery middleware), pre / post: the state digests before and after, each a
\* sequence of [u, c, d] (user, collection, digest of everything readable about it) sorted by (u, c).
Class(o) == o.status \div 100
NoCrash(o) == o.crashed = 0 /\ o.aborted = 0 /\ o.status >= 100 /\ o.status <= 599
Unchanged(o) == o.pre = o.post
Ent(s, u, c) == {i \in 1..Len(s) : s[i].u = u /\ s[i].c = c}
Has(s, u, c) == Ent(s, u, c) # {}
DigOf(s, u, c) == s[CHOOSE i \in Ent(s, u, c) : TRUE].d
IsTarget(e, c) == e.u = c.u /\ e.c = c.col
\* everything but the target collection is as before; no collection appears or disappears
OthersSame(c, o) ==
  /\ \A i \in 1..Len(o.pre) : ~IsTarget(o.pre[i], c) => InSeq(o.pre[i], o.post)
  /\ \A j \in 1..Len(o.post) : ~IsTarget(o.post[j], c) => InSeq(o.post[j], o.pre)
NewEntries(o) == {j \in 1..Len(o.post) : ~Has(o.pre, o.post[j].u, o.post[j].c)}
\* the effect a 2xx answer to a valid request must have
EffectOK(c, o) ==
  CASE c.eff = "none" -> Unchanged(o)
    [] c.eff = "change" -> /\ OthersSame(c, o)
                           /\ Has(o.pre, c.u, c.col) /\ Has(o.post, c.u, c.col)
                           /\ DigOf(o.pre, c.u, c.col) # DigOf(o.post, c.u, c.col)
    [] c.eff = "maychange" -> OthersSame(c, o) /\ Has(o.post, c.u, c.col)
    [] c.eff = "addcol" -> /\ \A i \in 1..Len(o.pre) : InSeq(o.pre[i], o.post)
                           /\ Cardinality(NewEntries(o)) = 1
                           /\ \A j \in NewEntries(o) : o.post[j].u = c.u
    [] c.eff = "delcol" -> /\ OthersSame(c, o)
                           /\ Has(o.pre, c.u, c.col) /\ ~Has(o.post, c.u, c.col)
\* what a request may touch at most (used when the label leaves the answer open)
DamageBounded(c, o) ==
  CASE c.eff = "none" -> Unchanged(o)
    [] c.eff \in {"change", "maychange"} -> OthersSame(c, o) /\ Has(o.post, c.u, c.col)
    [] c.eff = "addcol" -> /\ \A i \in 1..Len(o.pre) : InSeq(o.pre[i], o.post)
                           /\ Cardinality(NewEntries(o)) <= 1
                           /\ \A j \in NewEntries(o) : o.post[j].u = c.u
    [] c.eff = "delcol" -> OthersSame(c, o)

\* MessagePack numbers whose wire width differs from the width of the Go field they are decoded into (float64 for
\* a float32 field: query vectors, v1 vectors, alpha, weight; int8 / int16 / uint8 / uint16 / fixint in an
\* integer-indexed point field) are refused with 400 by the pinned code.  The property forbids a 5xx or a crash for
\* a valid request, not a refusal that changes nothing, so these cases are judged by the `either` rule.
WireWidth(c) ==
  /\ c.enc = "mp" /\ c.lab = "accept"
  /\ \/ c.k = "elem" /\ c.s = "f64" /\ c.t = "vec" /\ c.ep \notin {"v2.insert", "v2.update"}
     \/ c.k = "f64" /\ c.t = "float"
     \/ c.k = "mpint" /\ c.s \in {"fixint", "int8", "int16", "uint8", "uint16"} /\ c.ep \in {"v2.insert", "v2.update"}
Conforms(c, o) ==
  /\ NoCrash(o)
  /\ CASE c.lab = "reject" -> Class(o) = 4 /\ Unchanged(o)
       [] c.lab = "accept" /\ ~WireWidth(c) -> Class(o) = 2 /\ EffectOK(c, o)
       [] c.lab = "either" \/ WireWidth(c) -> /\ Class(o) \in {2, 3, 4}
                                              /\ Class(o) # 2 => Unchanged(o)
                                              /\ Class(o) = 2 => DamageBounded(c, o)
       [] c.lab = "nonfinite" -> /\ Class(o) \in {3, 4} => Unchanged(o)
                                 /\ DamageBounded(c, o)

\* the rule for seeded random bodies / byte-level mutations of the valid body of base case c
RandConforms(c, nonfinite, o) ==
  Conforms([c EXCEPT !.lab = IF nonfinite = 1 THEN "nonfinite" ELSE "either"], o)

(* ------------------------------------------------------------------ *)
(* sanity of the tables (checked by TLC at start-up of Api.tla)        *)
(* ------------------------------------------------------------------ *)
HaveKinds == {<<Catalogue[i].ep, Catalogue[i].var, Catalogue[i].p, Catalogue[i].k>> : i \in 1..NCases}
VecDims == UNION {{<<Bases[b].ep, Bases[b].var, Bases[b].fields[f].p, Bases[b].fields[f].lo>> :
                       f \in {g \in 1..Len(Bases[b].fields) : Bases[b].fields[g].t = "vec"}} : b \in 1..Len(Bases)}
CatalogueWF ==
  /\ \A i \in 1..NCases :
        LET c == Catalogue[i]
        IN  /\ c.lab \in Labels /\ c.eff \in Effects /\ c.enc \in {"json", "mp"} /\ c.risk \in {0, 1}
            \* the length clause of the property: a vector is accepted iff its length is the index dimension
            /\ (c.t = "vec" /\ c.k = "len") => (c.lab = "accept" <=> <<c.ep, c.var, c.p, c.a>> \in VecDims)
  \* descriptors identify cases
  /\ Cardinality({Descr(Catalogue[i]) : i \in 1..NCases}) = NCases
  \* every typed field has its absence, a wrong type and a duplicate key in the catalogue
  /\ \A b \in 1..Len(Bases) : \A f \in 1..Len(Bases[b].fields) :
        LET fl == Bases[b].fields[f]
            has(k) == <<Bases[b].ep, Bases[b].var, fl.p, k>> \in HaveKinds
        IN  has("missing") /\ has("dupsame") /\ (fl.t # "free" => has("type") /\ has("null"))
=============================================================================
