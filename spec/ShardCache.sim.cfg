SPECIFICATION SimSpec
CONSTANTS
 Readers = {"r1","r2"}
 Keys = {"k1","k2","k3"}
 MaxVer = 2
 MaxObj = 4
 Defect_SharedBucketHandle = TRUE
 Defect_NoVersionCheck = TRUE
 AllowEvict = TRUE
 Defect_ReaderUnlocked = FALSE
INVARIANTS PrintBehaviour
CHECK_DEADLOCK FALSE
