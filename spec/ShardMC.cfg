SPECIFICATION DSpec
CONSTANTS
  Ids = {1, 2, 3}
  DocsU <- MCDocs
  UpdU <- MCUpd
  MaxBatch = 2
  MaxSteps = 4
  Limit = 1100
INVARIANTS ShardWF
PROPERTIES OnlyInsertAdds NodeStable
CHECK_DEADLOCK FALSE
