---------------------------- MODULE SearchTrace ----------------------------
(***************************************************************************)
(* Trace validation for property C06 on top of ShardTrace.tla.             *)
(*                                                                         *)
(* The module EXTENDS ShardTrace: the write batches of the history are     *)
(* replayed on the reference model of the shard by ShardTrace's own        *)
(* actions (TraceSpec, TraceNext, WF, TraceView, TraceAccepted, ReportKF   *)
(* are ShardTrace's, unchanged).  A search request is logged as an         *)
(* observation line  ev = "Quiet", what = "Search" | "SearchRob" :         *)
(* ShardTrace's TQuiet consumes it and thereby states that the model state *)
(* does not change; the answer is judged by the state invariant C06Search  *)
(* below, evaluated in the state in which the line is the next one to be   *)
(* consumed (so TLC reports the offending line itself).  The state view    *)
(* is ShardTrace's  TraceView == l .                                       *)
(*                                                                         *)
(* (Why not a TSearch action of an own TraceNext: a module that EXTENDS    *)
(* ShardTrace cannot redefine TraceNext / TraceSpec / ReportKF, the names  *)
(* vlib.tlc_trace hard-wires; with INSTANCE ShardTrace TLC no longer       *)
(* caches the constant Trace inside the instance and re-reads the trace    *)
(* file for every sub-expression: 2 lines/s.)                              *)
(*                                                                         *)
(* Verdict of a Search line (operators of SearchOps.tla):                  *)
(*   judged    the page is a contiguous slice of a linearisation of the    *)
(*             documented order of the model's result, with the model's    *)
(*             hybrid scores and exactly the selected stored values;       *)
(*   kf        as judged, but in the order of known finding C06-singleton; *)
(*   unjudged  some ranking leaf had its cut inside a tie group with too   *)
(*             many valid top sets to enumerate, and the weaker checks     *)
(*             that hold under every tie-break passed;                     *)
(*   reject    otherwise: the invariant is violated at this line.          *)
(* TLC is the oracle; the driver logs abstracted inputs and what the real  *)
(* shard returned.  Counters are kept in TLC registers (one worker) and    *)
(* printed with the last line.                                             *)
(***************************************************************************)
EXTENDS ShardTrace, SearchOps

IsSearchLine(what) == l <= Len(Trace) /\ E.ev = "Quiet" /\ E.what = what

---------------------------------------------------------------------------
\* checks that hold under every tie-break of the ranking leaves
Weak(q, sel, sort, off, limit, hits, revOK) ==
  LET up  == UpSet(S, U, pts, q)
      ids == IdsOf(hits)
      kvw == [i \in up |-> KeyVec(S, U, pts[i], sort)]
  IN  /\ Cardinality(Range(ids)) = Len(ids)
      /\ Range(ids) \subseteq up
      /\ Len(hits) <= limit
      /\ Len(hits) <= Max2(0, Cardinality(up) - off)
      /\ HitData(pts, hits, sel)
      /\ IF sort # <<>> THEN SeqKeys(kvw, hits)
         ELSE (SeqHybrid(hits) \/ (revOK /\ SeqHybridRev(hits)))

\* the answer against ONE model result R (one choice of top sets)
Core(R, q, sel, sort, off, limit, hits) ==
  LET top   == Unwrap(q)
      neg   == IsRank(top) /\ top.w4 < 0
      data  == HitData(pts, hits, sel)
      kv    == [i \in R.set |-> KeyVec(S, U, pts[i], sort)]
      main  == IF sort # <<>> THEN AcceptKeys(R, kv, hits, off, limit)
               ELSE AcceptHybrid(R, hits, off, limit)
      rev   == sort = <<>> /\ neg /\ AcceptHybridRev(R, hits, off, limit)
  IN  CASE data /\ main -> "judged"
        \* a ranking query that is not composite: the order of its index
        [] data /\ rev /\ IsRank(q) -> "judged"
        \* known finding: a composite with ONE ranking sub-query of negative
        \* weight comes back lowest hybrid score first
        [] data /\ rev /\ ~IsRank(q) /\ "C06-singleton" \in KnownFindings -> "kf"
        [] OTHER -> "reject"

MaxChoices == 600

\* [v |-> verdict, c |-> the choice of top sets used].  First the witness (what
\* every ranking leaf returned on its own); if that does not explain the answer
\* and some cut is inside a tie group, every combination of valid top sets; if
\* there are too many to list, the checks that hold under every tie-break.
\* (The model result itself is never put into a tuple or record: its score
\* functions are closures, which TLC would expand at a prohibitive cost.)
Verdict(q, hints, sel, sort, off, limit, hits) ==
  LET ch0 == [n \in DOMAIN hints |-> Range(hints[n])]
      R0  == Res(S, U, pts, q, ch0)
      v0  == Core(R0, q, sel, sort, off, limit, hits)
  IN  IF v0 # "reject" \/ ~R0.amb THEN [v |-> v0, c |-> ch0]
      ELSE LET lvs  == RankLeaves(q)
               tops == [n \in DOMAIN lvs |-> LeafTops(S, U, pts, lvs[n])]
               nch  == NChoices(tops, Len(lvs))
               ok   == /\ \A n \in DOMAIN lvs : lvs[n].n = n
                       /\ nch > 0 /\ nch <= MaxChoices
               good == {c \in Choices(tops, Len(lvs)) :
                          Core(Res(S, U, pts, q, c), q, sel, sort, off, limit, hits) # "reject"}
               top  == Unwrap(q)
           IN  IF ok
               THEN IF good = {} THEN [v |-> "reject", c |-> ch0]
                    ELSE LET c1 == CHOOSE c \in good : TRUE
                         IN  [v |-> Core(Res(S, U, pts, q, c1), q, sel, sort, off, limit, hits), c |-> c1]
               ELSE IF Weak(q, sel, sort, off, limit, hits, IsRank(top) /\ top.w4 < 0)
                    THEN [v |-> "unjudged", c |-> ch0]
                    ELSE [v |-> "reject", c |-> ch0]

---------------------------------------------------------------------------
\* counters (TLC registers)
Counters == <<"judged", "kf", "unjudged", "paged", "sorted", "summed", "mixed", "tiecut", "multipage",
              "rob_collide_err", "rob_collide_ok", "rob_free_ok", "rob_amb_err">>
Reg(name) == 100 + CHOOSE k \in DOMAIN Counters : Counters[k] = name
Bump(names) == \A k \in DOMAIN Counters :
                  Counters[k] \in names => TLCSet(100 + k, TLCGet(100 + k) + 1)
ResetCounters == \A k \in DOMAIN Counters : TLCSet(100 + k, 0)
RECURSIVE CounterList(_)
CounterList(k) == IF k = 0 THEN <<>> ELSE CounterList(k - 1) \o <<Counters[k], TLCGet(100 + k)>>

\* coverage facts about a judged line (counted, never judged)
Facts(R, sort, off, limit, hits) ==
  (IF off > 0 /\ hits # <<>> THEN {"paged"} ELSE {})
  \cup (IF sort # <<>> /\ Len(hits) > 1 THEN {"sorted"} ELSE {})
  \cup (IF \E k \in DOMAIN hits : hits[k].id \in R.rk /\ R.nc[hits[k].id] > 1 THEN {"summed"} ELSE {})
  \cup (IF R.rk # {} /\ R.rk # R.set THEN {"mixed"} ELSE {})
  \cup (IF R.amb THEN {"tiecut"} ELSE {})
  \cup (IF Cardinality(R.set) > limit THEN {"multipage"} ELSE {})

JudgeSearch ==
  LET vr == Verdict(E.q, E.hints, E.sel, E.sort, E.off, E.limit, E.hits)
      v  == vr.v
      R  == Res(S, U, pts, E.q, vr.c)
  IN  /\ v # "reject"
      /\ (v = "kf" => PrintT(<<"KF", {"C06-singleton"}>>))
      /\ Bump({v} \cup (IF v = "unjudged" THEN {"tiecut"} ELSE Facts(R, E.sort, E.off, E.limit, E.hits)))

\* robustness group: the select list runs through a stored scalar / array (no
\* documented meaning).  An error is explained by such a collision on some
\* point of the result set; without a collision the request is an ordinary one.
JudgeRob ==
  LET ch0 == [n \in DOMAIN E.hints |-> Range(E.hints[n])]
      R   == Res(S, U, pts, E.q, ch0)
      col == \E i \in R.set : Collides(pts[i], E.sel)
  IN  IF E.err = 1
      THEN /\ (col \/ R.amb)
           /\ Bump({IF col THEN "rob_collide_err" ELSE "rob_amb_err"})
      ELSE IF col THEN Bump({"rob_collide_ok"})
           ELSE /\ Verdict(E.q, E.hints, E.sel, E.sort, E.off, E.limit, E.hits).v # "reject"
                /\ Bump({"rob_free_ok"})

C06Search ==
  /\ (l = 1 => ResetCounters)
  /\ (IsSearchLine("Search") => JudgeSearch)
  /\ (IsSearchLine("SearchRob") => JudgeRob)
  /\ (l = Len(Trace) + 1 => PrintT(<<"C06">> \o CounterList(Len(Counters))))

\* diagnostic only (not part of any check): stops at the first unjudged line
C06NoUnjudged ==
  IsSearchLine("Search") =>
     Verdict(E.q, E.hints, E.sel, E.sort, E.off, E.limit, E.hits).v # "unjudged"
=============================================================================
