SPECIFICATION Spec
CONSTANTS
  Part = "bits"
  Lens <- LensSmall
  Unroll = 4
  Lanes = 8
  Variant = "real"
  W = 4
  BitLens <- BitLensDeep
  Vals <- Vals3
  Thrs <- Thr1
  Family = "all"
  BitVariant = "real"
INVARIANTS WordCount BitPlace PaddingZero HammingDef JaccardDef BitSymmetry
PROPERTY Returns
