SPECIFICATION Spec
CONSTANTS
  Variant = "ok"
  Models <- ModelsDeep
INVARIANTS RoundTrip KeyLength OrderIff StructuralOrder FixedKeys ScanOK
CHECK_DEADLOCK FALSE
