\* NEGATIVE: the user id '.' is admitted: its collection 'a' lives in the directory that holds all collections of user 'a' -> deleting it removes them: Isolation must fail
SPECIFICATION Spec
CONSTANTS
  UserAlpha = {"a", "."}
  UserMaxLen = 2
  AllowDotIds = TRUE
  ColAlpha = {"a"}
  UriSlash = FALSE
  ColMaxLen = 2
  Points = {1}
  MaxCols1 = 1
  MaxCols2 = 2
  MaxPts = 1
  Sids = {s1, s2, s3}
  ScanDelim = TRUE
  DirMode = "usercol"
  QuotaMode = "prefix"
INVARIANTS TypeOK Isolation
SYMMETRY SidPerm
CHECK_DEADLOCK FALSE
