------------------------------- MODULE Graph -------------------------------
(***************************************************************************)
(* Design of one write batch of the Vamana index                           *)
(* (shard/index/vamana: vamana.go insertUpdateDelete, insert.go, prune.go, *)
(* node.go EdgeScan), with every distance-dependent choice left open:      *)
(* the visited set of a greedy search is any set of nodes reachable from   *)
(* the entry node, a robust prune keeps any non-empty subset of at most R  *)
(* candidates.  What remains is the structure the property (C10) is about. *)
(*                                                                         *)
(*  phase "ins"   fresh ids are inserted by concurrent workers: a node is  *)
(*                placed with its out-edges (InsPlace), then each chosen   *)
(*                neighbour receives the back edge under its own lock      *)
(*                (BackEdge), pruning itself when it is at the bound       *)
(*  phase "scan"  D = updated + deleted ids: every other node with an edge *)
(*                into D is re-linked one level deep; nodes that had no    *)
(*                inbound edge from outside D are attached to the entry    *)
(*  phase "del"   deleted nodes are removed                                *)
(*  phase "upd"   updated ids are re-inserted one by one (fresh node       *)
(*                object: the stale out-edges disappear)                   *)
(*  phase "idle"  flush: the invariants of C10 must hold here              *)
(***************************************************************************)
EXTENDS Naturals, FiniteSets, TLC

CONSTANTS MaxId,     \* node ids 1..MaxId, 1 = entry node
          R,         \* degree bound
          Slack,     \* 0 = the code as pinned; 1 = back edges are added up to R + 1 (off by one)
          SplitBack  \* FALSE = the code as pinned: room test and append under one lock; TRUE = the worker looks at the
                     \* neighbour's edge count, lets go of the lock and appends later without looking again (seeded C10-I)

Start == 1
Ids == 1..MaxId

VARIABLES nodes,    \* ids with a stored vector
          edges,    \* placed node -> set of ids (the node store)
          maxId,    \* recorded maximum node id
          phase,
          todoIns,  \* fresh ids waiting for a worker
          back,     \* inserting node -> neighbours that still have to receive the back edge
          upd, del, \* updated / deleted ids of the running batch
          room      \* SplitBack: pairs <<a, b>> for which worker a has seen room at neighbour b and not yet appended
vars == <<nodes, edges, maxId, phase, todoIns, back, upd, del, room>>

Placed == DOMAIN edges
Max(a, b) == IF a > b THEN a ELSE b

\* nodes reachable from the entry node along placed nodes
RECURSIVE ReachFrom(_, _)
ReachFrom(seen, frontier) ==
  IF frontier = {} THEN seen
  ELSE LET nxt == (UNION {edges[n] : n \in frontier \cap Placed}) \ (seen \cup frontier)
       IN  ReachFrom(seen \cup frontier, nxt)
Reach == ReachFrom({}, {Start})

\* any outcome of a robust prune of node a over candidate set c
Prunes(a, c) == {s \in SUBSET (c \ {a}) : s # {} /\ Cardinality(s) <= R}

Init ==
  /\ nodes = {Start} /\ edges = [n \in {Start} |-> {}] /\ maxId = 0
  /\ phase = "idle" /\ todoIns = {} /\ back = <<>> /\ upd = {} /\ del = {} /\ room = {}

\* a batch: fresh ids, updated ids, deleted ids (pairwise disjoint; the shard
\* never hands the entry node's id to a point)
Begin ==
  /\ phase = "idle"
  /\ \E ins \in SUBSET (Ids \ nodes), u \in SUBSET (nodes \ {Start}) :
     \E d \in SUBSET (nodes \ ({Start} \cup u)) :
        /\ ins \cup u \cup d # {}
        /\ todoIns' = ins /\ upd' = u /\ del' = d
  /\ phase' = "ins" /\ back' = <<>>
  /\ UNCHANGED <<nodes, edges, maxId, room>>

\* insertSinglePoint, first half: vector stored, greedy search, robust prune, node placed
InsPlace(a) ==
  /\ phase = "ins" /\ a \in todoIns
  /\ \E vis \in SUBSET (Reach \cap Placed) :
        /\ Start \in vis
        /\ \E out \in Prunes(a, vis) :
              /\ edges' = [n \in Placed \cup {a} |-> IF n = a THEN out ELSE edges[n]]
              /\ back' = [n \in DOMAIN back \cup {a} |-> IF n = a THEN out ELSE back[n]]
  /\ nodes' = nodes \cup {a} /\ maxId' = Max(maxId, a)
  /\ todoIns' = todoIns \ {a}
  /\ UNCHANGED <<phase, upd, del, room>>

\* second half, one neighbour at a time under that neighbour's lock
BackEdge(a, b) ==
  /\ phase \in {"ins", "upd"} /\ a \in DOMAIN back /\ b \in back[a] /\ <<a, b>> \notin room
  /\ (SplitBack => Cardinality(edges[b]) + 1 > R + Slack)     \* (with SplitBack only the prune path stays atomic)
  /\ IF Cardinality(edges[b]) + 1 > R + Slack
     THEN \E s \in Prunes(b, edges[b] \cup {a}) : edges' = [edges EXCEPT ![b] = s]
     ELSE edges' = [edges EXCEPT ![b] = @ \cup {a}]
  /\ back' = [back EXCEPT ![a] = @ \ {b}]
  /\ UNCHANGED <<nodes, maxId, phase, todoIns, upd, del, room>>

\* SplitBack: the look at the neighbour's edge count ...
BackPeek(a, b) ==
  /\ SplitBack /\ phase \in {"ins", "upd"} /\ a \in DOMAIN back /\ b \in back[a] /\ <<a, b>> \notin room
  /\ Cardinality(edges[b]) + 1 <= R + Slack
  /\ room' = room \cup {<<a, b>>}
  /\ UNCHANGED <<nodes, edges, maxId, phase, todoIns, back, upd, del>>
\* ... and, later, the append without a second look
BackAppend(a, b) ==
  /\ <<a, b>> \in room
  /\ edges' = [edges EXCEPT ![b] = @ \cup {a}]
  /\ back' = [back EXCEPT ![a] = @ \ {b}]
  /\ room' = room \ {<<a, b>>}
  /\ UNCHANGED <<nodes, maxId, phase, todoIns, upd, del>>

Quiet == todoIns = {} /\ \A a \in DOMAIN back : back[a] = {}

InsDone ==
  /\ phase = "ins" /\ Quiet
  /\ phase' = (IF upd \cup del = {} THEN "idle" ELSE "scan") /\ back' = <<>>
  /\ (upd \cup del = {} => upd' = {} /\ del' = {})
  /\ (upd \cup del # {} => UNCHANGED <<upd, del, room>>)
  /\ UNCHANGED <<nodes, edges, maxId, todoIns, room>>

\* removeInboundEdges: EdgeScan, pruneDeleteNeighbour for every node with an edge into D, rescue
\* candidates of node a: its surviving neighbours plus, one level deep, the
\* surviving neighbours of its neighbours in D
Cand(D, a) == (edges[a] \ D) \cup ((UNION {edges[b] : b \in edges[a] \cap D}) \ D)

\* every way of re-linking the nodes in todo (they do not influence each other:
\* each reads its own edges and those of nodes in D)
Relink(D, a) == IF Cardinality(Cand(D, a)) > R THEN Prunes(a, Cand(D, a)) ELSE {Cand(D, a) \ {a}}
RECURSIVE Relinks(_, _)
Relinks(D, todo) ==
  IF todo = {} THEN {<<>>}
  ELSE LET a == CHOOSE x \in todo : TRUE
       IN  {[n \in DOMAIN g \cup {a} |-> IF n = a THEN s ELSE g[n]] : g \in Relinks(D, todo \ {a}), s \in Relink(D, a)}

Scan ==
  /\ phase = "scan"
  /\ LET D == upd \cup del
         valid == Placed \ D
         toPrune == {a \in valid : edges[a] \cap D # {}}
         hasInbound == UNION {edges[a] : a \in valid}
         toSave == {n \in valid : n \notin hasInbound /\ n # Start}
     IN  \E f \in Relinks(D, toPrune) :
            /\ edges' = [n \in Placed |->
                           LET e == IF n \in toPrune THEN f[n] ELSE edges[n]
                           IN  IF n = Start THEN e \cup toSave ELSE e]
  /\ phase' = "del"
  /\ UNCHANGED <<nodes, maxId, todoIns, back, upd, del, room>>

Delete ==
  /\ phase = "del"
  /\ nodes' = nodes \ del
  /\ edges' = [n \in Placed \ del |-> edges[n]]
  /\ phase' = "upd" /\ del' = {}
  /\ UNCHANGED <<maxId, todoIns, back, upd, room>>

\* re-insertion of an updated point (single threaded: place, then its back edges, then the next)
UpdPlace(a) ==
  /\ phase = "upd" /\ a \in upd /\ Quiet
  /\ \E vis \in SUBSET (Reach \cap Placed) :
        /\ Start \in vis
        /\ \E out \in Prunes(a, vis) :
              /\ edges' = [edges EXCEPT ![a] = out]
              /\ back' = [n \in {a} |-> out]
  /\ upd' = upd \ {a}
  /\ UNCHANGED <<nodes, maxId, phase, todoIns, del, room>>

UpdDone ==
  /\ phase = "upd" /\ upd = {} /\ Quiet
  /\ phase' = "idle" /\ back' = <<>>
  /\ UNCHANGED <<nodes, edges, maxId, todoIns, upd, del, room>>

Next ==
  \/ Begin \/ InsDone \/ Scan \/ Delete \/ UpdDone
  \/ \E a \in Ids : InsPlace(a) \/ UpdPlace(a)
  \/ \E a, b \in Ids : BackEdge(a, b) \/ BackPeek(a, b) \/ BackAppend(a, b)
Spec == Init /\ [][Next]_vars

----------------------------------------------------------------------------
TypeOK ==
  /\ nodes \subseteq Ids /\ Placed \subseteq nodes /\ Start \in Placed
  /\ \A n \in Placed : edges[n] \subseteq Ids
  /\ phase \in {"idle", "ins", "scan", "del", "upd"}

\* C10 at rest: one node per stored vector, edges lead to existing other nodes,
\* the bound holds except at the entry node, the recorded maximum bounds all ids
AtRest ==
  phase = "idle" =>
    /\ Placed = nodes
    /\ \A n \in Placed : edges[n] \subseteq nodes \ {n}
    /\ \A n \in Placed \ {Start} : Cardinality(edges[n]) <= R
    /\ \A n \in nodes \ {Start} : n <= maxId

\* the bound holds at every moment, not only at rest
BoundAlways == \A n \in Placed \ {Start} : Cardinality(edges[n]) <= R

\* a greedy search (also the ones inside the batch) never steps onto a node
\* that is not there: every node reachable from the entry node has a node
\* object, and so do its neighbours
SearchSafe == \A n \in Reach : n \in Placed /\ edges[n] \subseteq Placed

\* NOT an invariant of the design (Graph.reach.cfg): a point can end up with no
\* path from the entry node (the rescue looks at inbound edges before the
\* re-linking, which may drop them)
AllReachable == phase = "idle" => nodes \subseteq Reach
=============================================================================
