SPECIFICATION SimSpec
CONSTANTS
  Reqs = {1, 2, 3}
  MaxLS = 3
  MaxDel = 2
  FixLockOrder = TRUE
  GuardUnstore = TRUE
  MaxOpenFail = 0
  StoreBeforeOpen = FALSE
  RecordHist = TRUE
INVARIANTS PrintBehaviour
CHECK_DEADLOCK FALSE
