SPECIFICATION Spec
CONSTANTS
  Variant = "ok"
  Models <- ModelsQuick
INVARIANTS RoundTrip KeyLength OrderIff StructuralOrder FixedKeys ScanOK
CHECK_DEADLOCK FALSE
