SPECIFICATION Spec
CONSTANTS
  Ids = {1, 2, 3}
  Shards = {1, 2}
  Servers = {1, 2}
  MaxPerShard = 2
  MsgWhenPartial = FALSE
INVARIANTS ExactlyOnce FailedExact NotFoundOnlyIfComplete WithinLimit
CHECK_DEADLOCK FALSE
