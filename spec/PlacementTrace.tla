--------------------------- MODULE PlacementTrace ---------------------------
(***************************************************************************)
(* C15 oracle: TLC judges every line logged by `vh placement`.              *)
(*                                                                          *)
(* Case      one call of the REAL cluster.distributePoints (hook): the      *)
(*           logged output must stand in the relation ValidAssignment to    *)
(*           the logged input (any valid assignment is accepted; whether it *)
(*           equals the transcription Dist is counted as coverage only).    *)
(* Node      a fresh single-server cluster node with per-shard maxima.      *)
(* Create / Insert / DeleteCol   one request against that node, with its     *)
(*           outcome and the state observed afterwards: for every user the  *)
(*           collections and the point count of every shard.                *)
(*                                                                          *)
(* The model state `st` is the set of [u, c, k] (user, collection, sequence *)
(* of shard point counts) and must equal what is observed after each line.  *)
(***************************************************************************)
EXTENDS PlacementRel, TLC, Json

CONSTANTS TraceFile, KnownFindings
Trace == ndJsonDeserialize(TraceFile)

IdLen == 16   \* a point occupies its data plus the 16 bytes of its id

VARIABLES l, kf,
          st,        \* model state of the current node
          lim,       \* per-shard point-count maximum of the current node
          cases, same,   \* Case lines seen / of those equal to the transcription
          early      \* requests refused with "quota" although within quota (accepted, reported)
vars == <<l, kf, st, lim, cases, same, early>>

TraceInit == l = 1 /\ kf = {} /\ st = {} /\ lim = 0 /\ cases = 0 /\ same = 0 /\ early = 0

E == Trace[l]
IsEvent(name) == l <= Len(Trace) /\ Trace[l].ev = name /\ l' = l + 1

RECURSIVE SeqSum(_)
SeqSum(s) == IF Len(s) = 0 THEN 0 ELSE Head(s) + SeqSum(Tail(s))

\* ---------------------------------------------------------------------------
\* unit level
CaseIn == [sh |-> E.sh, pts |-> [p \in 1..Len(E.d) |-> E.d[p] + IdLen], maxZ |-> E.maxZ, maxC |-> E.maxC]
CaseOut == [asg |-> [x \in 1..Len(E.asg) |-> [s |-> E.asg[x].s, lo |-> E.asg[x].lo, hi |-> E.asg[x].hi]],
            created |-> E.created]

TCase ==
  /\ IsEvent("Case")
  /\ Pre(CaseIn) = TRUE                \* the driver stays inside the stated precondition
  /\ E.err = 0 /\ E.diverged = 0       \* the call returns an assignment
  \* (= TRUE: evaluated as a value, TLC would otherwise split the disjunctions inside as actions)
  /\ ValidAssignment(CaseIn, CaseOut) = TRUE
  /\ cases' = cases + 1
  /\ same' = IF SameOutput(CaseOut, Dist(CaseIn)) THEN same + 1 ELSE same
  /\ UNCHANGED <<kf, st, lim, early>>

\* ---------------------------------------------------------------------------
\* end to end
Obs == {[u |-> E.state[x].u, c |-> E.state[x].c, k |-> E.state[x].k] : x \in 1..Len(E.state)}
ColsOf(S, u) == {r \in S : r.u = u}
Has(S, u, c) == \E r \in S : r.u = u /\ r.c = c
Rec(S, u, c) == CHOOSE r \in S : r.u = u /\ r.c = c
\* one entry per (user, collection)
Functional(S) == \A r1, r2 \in S : (r1.u = r2.u /\ r1.c = r2.c) => r1 = r2

TNode ==
  /\ IsEvent("Node")
  /\ E.maxC >= 1
  /\ st' = {} /\ lim' = E.maxC
  /\ UNCHANGED <<kf, cases, same, early>>

\* A creation beyond the user's collection quota (or of an existing name) is refused and changes
\* nothing; within the quota it adds an empty collection (a refusal that changes nothing is
\* accepted there as well, and counted).
TCreate ==
  /\ IsEvent("Create")
  /\ Functional(Obs)
  /\ IF E.res = "error"                 \* an internal error is not judged here beyond "no effect" (the check reports it)
     THEN Obs = st /\ UNCHANGED early
     ELSE IF Has(st, E.u, E.c)
     THEN E.res = "exists" /\ Obs = st /\ UNCHANGED early
     ELSE IF Cardinality(ColsOf(st, E.u)) >= E.maxCols
     THEN E.res = "quota" /\ Obs = st /\ UNCHANGED early
     ELSE \/ E.res = "ok" /\ Obs = st \cup {[u |-> E.u, c |-> E.c, k |-> <<>>]} /\ UNCHANGED early
          \/ E.res = "quota" /\ Obs = st /\ early' = early + 1
  /\ st' = Obs
  /\ UNCHANGED <<kf, lim, cases, same>>

\* Several creation requests of one user at the same moment (names may repeat).  In whatever order the node
\* served them: a name is created by at most one request, exactly the created names appear (empty), "exists" is
\* only said of a name that is there afterwards, a name that was there is never created again, and the user does
\* not end up above the quota (nor with more collections than before, if the quota was already exceeded by a
\* changed plan).  A refusal for the quota that changes nothing is accepted as in TCreate.
TCreateRace ==
  /\ IsEvent("CreateRace")
  /\ Functional(Obs)
  /\ LET R == 1..Len(E.reqs)
         okNames == {E.reqs[x].c : x \in {y \in R : E.reqs[y].res = "ok"}}
         had == Cardinality(ColsOf(st, E.u))
     IN  /\ \A x \in R : E.reqs[x].res \in {"ok", "exists", "quota"}
         /\ \A x, y \in R : (x # y /\ E.reqs[x].c = E.reqs[y].c) => ~(E.reqs[x].res = "ok" /\ E.reqs[y].res = "ok")
         /\ \A c \in okNames : ~Has(st, E.u, c)
         /\ \A x \in R : E.reqs[x].res = "exists" => (Has(st, E.u, E.reqs[x].c) \/ E.reqs[x].c \in okNames)
         /\ \A x \in R : Has(st, E.u, E.reqs[x].c) => E.reqs[x].res = "exists"
         /\ Obs = st \cup {[u |-> E.u, c |-> c, k |-> <<>>] : c \in okNames}
         /\ Cardinality(okNames) <= (IF E.maxCols > had THEN E.maxCols - had ELSE 0)
         /\ early' = early + Cardinality({x \in R : E.reqs[x].res = "quota" /\ had + Cardinality(okNames) < E.maxCols})
  /\ st' = Obs
  /\ UNCHANGED <<kf, lim, cases, same>>

TDeleteCol ==
  /\ IsEvent("DeleteCol")
  /\ Has(st, E.u, E.c) /\ E.res = "ok"
  /\ Obs = st \ {Rec(st, E.u, E.c)}
  /\ st' = Obs
  /\ UNCHANGED <<kf, lim, cases, same, early>>

\* failed ranges: inside the batch, pairwise disjoint, each naming a different shard of the collection
FailedWF(f, n, nshards) ==
  /\ \A x \in 1..Len(f) : 0 <= f[x].lo /\ f[x].lo < f[x].hi /\ f[x].hi <= n /\ f[x].s \in 1..nshards
  /\ \A x, y \in 1..Len(f) : x # y => (f[x].s # f[y].s /\ (f[x].hi <= f[y].lo \/ f[y].hi <= f[x].lo))
FailedPts(f) == SeqSum([x \in 1..Len(f) |-> f[x].hi - f[x].lo])

NothingPlaced == E.w = E.pre

\* an internal error (not judged beyond this): no point count changes, shards opened meanwhile are empty
InsertErr(before, after) ==
  /\ E.res = "error" /\ NothingPlaced
  /\ Len(after) >= Len(before)
  /\ \A s \in 1..Len(after) : after[s] = (IF s <= Len(before) THEN before[s] ELSE 0)

\* Where every point of the batch went.  Positions 0..n-1 are those of the id-sorted batch (reference order logged
\* by the harness); E.pre / E.w list per position the shards holding that id before / after the request, E.dup
\* marks ids occurring twice in the batch.  Judged are the CLEAN positions: a new id, once in the batch.
Clean(p) == Len(E.pre[p + 1]) = 0 /\ E.dup[p + 1] = 0
InFailed(p) == \E x \in 1..Len(E.failed) : E.failed[x].lo <= p /\ p < E.failed[x].hi
Placed(p) == Clean(p) /\ ~InFailed(p)
PlacedOK(nshards) ==
  /\ Len(E.w) = E.n /\ Len(E.pre) = E.n /\ Len(E.dup) = E.n
  \* every point went to exactly one shard; the points of a failed range to none
  /\ \A p \in 0..E.n - 1 : Clean(p) =>
        IF InFailed(p) THEN Len(E.w[p + 1]) = 0 ELSE Len(E.w[p + 1]) = 1 /\ E.w[p + 1][1] \in 1..nshards
  \* a shard holds a contiguous range of the id-sorted batch (cubic: judged on batches of up to 200 points; the
  \* thousand-point batches of the "big" histories are there for the count identity and the failed ranges)
  /\ E.n <= 200 => \A p, q \in 0..E.n - 1 : (p < q /\ Placed(p) /\ Placed(q) /\ E.w[p + 1] = E.w[q + 1]) =>
        \A r \in p + 1..q - 1 : Placed(r) => E.w[r + 1] = E.w[p + 1]

InsertOK(before, after) ==
  /\ E.res = "ok"
  /\ PlacedOK(Len(after)) = TRUE
  /\ Len(after) >= Len(before)                                       \* shards are only added
  /\ \A s \in 1..Len(before) : after[s] >= before[s]
  /\ \A s \in 1..Len(after) : after[s] <= lim                        \* no shard above its maximum
  /\ FailedWF(E.failed, E.n, Len(after))
  /\ \A x \in 1..Len(E.failed) :                                     \* a failed range left its shard as it was
       LET s == E.failed[x].s IN after[s] = (IF s <= Len(before) THEN before[s] ELSE 0)
  /\ SeqSum(after) = SeqSum(before) + E.n - FailedPts(E.failed)      \* the count identity

TInsert ==
  /\ IsEvent("Insert")
  /\ Functional(Obs)
  /\ Has(st, E.u, E.c) /\ Has(Obs, E.u, E.c)
  /\ LET old == Rec(st, E.u, E.c)
         new == Rec(Obs, E.u, E.c)
     IN /\ Obs \ {new} = st \ {old}                                  \* nothing else is touched
        /\ IF SeqSum(old.k) + E.n > E.maxPts
           THEN E.res = "quota" /\ new = old /\ NothingPlaced /\ UNCHANGED early   \* beyond the point quota: refused, no effect
           ELSE \/ InsertOK(old.k, new.k) /\ UNCHANGED early
                \/ InsertErr(old.k, new.k) /\ UNCHANGED early
                \/ E.res = "quota" /\ new = old /\ NothingPlaced /\ early' = early + 1
  /\ st' = Obs
  /\ UNCHANGED <<kf, lim, cases, same>>

\* An insert request (fresh ids only) while one shard of the collection cannot be opened.  What the other
\* shards hold still counts: beyond the point quota the request is refused or fails, and nothing changes.
\* Within the quota it may fail without effect, or place points (never more than it was given, never above a
\* shard's maximum, never into the shard that could not be opened).
TSickInsert ==
  /\ IsEvent("SickInsert")
  /\ Functional(Obs)
  /\ Has(st, E.u, E.c) /\ Has(Obs, E.u, E.c)
  /\ LET old == Rec(st, E.u, E.c)
         new == Rec(Obs, E.u, E.c)
     IN /\ Obs \ {new} = st \ {old}
        /\ IF SeqSum(old.k) + E.n > E.maxPts
           THEN E.res \in {"quota", "error"} /\ new = old
           ELSE \/ E.res \in {"quota", "error"} /\ new = old
                \/ /\ E.res = "ok" /\ Len(new.k) >= Len(old.k)
                   /\ \A s \in 1..Len(old.k) : new.k[s] >= old.k[s]
                   /\ E.sick <= Len(old.k) => new.k[E.sick] = old.k[E.sick]
                   /\ \A s \in 1..Len(new.k) : new.k[s] <= lim \/ (s <= Len(old.k) /\ new.k[s] = old.k[s])
                   /\ SeqSum(new.k) <= SeqSum(old.k) + E.n
  /\ st' = Obs
  /\ UNCHANGED <<kf, lim, cases, same, early>>

TraceNext == TCase \/ TNode \/ TCreate \/ TCreateRace \/ TDeleteCol \/ TInsert \/ TSickInsert
TraceSpec == TraceInit /\ [][TraceNext]_vars

\* no shard of the model state is above the per-shard maximum
WF == \A r \in st : \A s \in 1..Len(r.k) : r.k[s] <= lim
TraceAccepted == TLCGet("stats").diameter - 1 = Len(Trace)
ReportKF == (l = Len(Trace) + 1) => (PrintT(<<"KF", kf>>) /\ PrintT(<<"COV", cases, same, early>>))
=============================================================================
