SPECIFICATION Spec
CONSTANTS
  Stages = {s1, s2, s3}
  OpsPerStage = 2
  WaitForStages = TRUE
  ScrapOnFail = TRUE
INVARIANTS NoTouchAfterRollback AllOrNothing
PROPERTY Returns
CHECK_DEADLOCK FALSE
