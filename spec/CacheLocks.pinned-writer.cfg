SPECIFICATION Spec
CONSTANTS TFirst = FALSE
 OtherIs = "writer"
INVARIANTS MutexOK NoDeadlock
PROPERTY Finishes
CHECK_DEADLOCK FALSE
