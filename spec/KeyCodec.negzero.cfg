SPECIFICATION Spec
CONSTANTS
  Variant = "negzero"
  Models <- ModelsNegFloat
INVARIANTS RoundTrip KeyLength OrderIff StructuralOrder FixedKeys ScanOK
CHECK_DEADLOCK FALSE
