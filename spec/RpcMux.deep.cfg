SPECIFICATION Spec
CONSTANTS
  NCalls = 5
  OnErrorBody = "skip"
INVARIANTS TypeOK OwnAnswer NoPhantom Isolation
CHECK_DEADLOCK FALSE
