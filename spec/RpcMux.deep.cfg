SPECIFICATION Spec
CONSTANTS
  NCalls = 5
  OnErrorBody = "skip"
  OnTimeout = "keep"
INVARIANTS TypeOK OwnAnswer NoPhantom Isolation
CHECK_DEADLOCK FALSE
