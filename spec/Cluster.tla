------------------------------- MODULE Cluster -------------------------------
(***************************************************************************)
(* Design of the multi-shard fan-out (cluster/actions.go): a collection's   *)
(* points are partitioned over shards placed on servers; update / delete    *)
(* ask EVERY shard, each answers with the ids it processed, the coordinator *)
(* reports as failed the requested ids nobody processed, with the message   *)
(* "not found" iff every shard answered; search merges per-shard prefixes.  *)
(* One server may be down.  MsgWhenPartial = TRUE is the deliberately wrong *)
(* variant that says "not found" although a shard did not answer.           *)
(***************************************************************************)
EXTENDS Integers, FiniteSets, Sequences, TLC

CONSTANTS Ids, Shards, Servers, MaxPerShard, MsgWhenPartial

VARIABLES live,      \* [Shards -> SUBSET Ids]  ids held by each shard
          srv,       \* [Shards -> Servers]
          down,      \* a server that is unavailable, or 0
          last       \* last response: [op, req, failed, notfound, found]
vars == <<live, srv, down, last>>

Init == /\ live = [s \in Shards |-> {}] /\ srv \in [Shards -> Servers] /\ down = 0
        /\ last = [op |-> "none", req |-> {}, failed |-> {}, notfound |-> FALSE, found |-> {}, complete |-> TRUE]

All == UNION {live[s] : s \in Shards}
Up(s) == srv[s] # down
Answering == {s \in Shards : Up(s)}

\* insert fresh ids into the first shard with room (placement is C15's business)
Insert(i) ==
  /\ i \notin All /\ down = 0
  /\ \E s \in Shards : /\ Cardinality(live[s]) < MaxPerShard
                       /\ \A t \in Shards : t < s => Cardinality(live[t]) >= MaxPerShard
                       /\ live' = [live EXCEPT ![s] = @ \cup {i}]
  /\ last' = [op |-> "insert", req |-> {i}, failed |-> {}, notfound |-> FALSE, found |-> {}, complete |-> TRUE]
  /\ UNCHANGED <<srv, down>>

Respond(op, req) ==
  LET processed == UNION {req \cap live[s] : s \in Answering}
      complete  == Answering = Shards
  IN  [op |-> op, req |-> req, failed |-> req \ processed,
       notfound |-> (complete \/ MsgWhenPartial) /\ (req \ processed # {}), found |-> processed,
       complete |-> complete]

Update(req) == /\ last' = Respond("update", req) /\ UNCHANGED <<live, srv, down>>
Delete(req) ==
  /\ last' = Respond("delete", req)
  /\ live' = [s \in Shards |-> IF Up(s) THEN live[s] \ req ELSE live[s]]
  /\ UNCHANGED <<srv, down>>
Search(req) ==   \* an _id search: fails if a shard cannot answer
  /\ Answering = Shards
  /\ last' = [op |-> "search", req |-> req, failed |-> {}, notfound |-> FALSE, found |-> req \cap All, complete |-> TRUE]
  /\ UNCHANGED <<live, srv, down>>
GoDown == down = 0 /\ \E x \in Servers : down' = x /\ UNCHANGED <<live, srv, last>>

Next == \/ \E i \in Ids : Insert(i)
        \/ \E req \in SUBSET Ids : Update(req) \/ Delete(req) \/ Search(req)
        \/ GoDown
Spec == Init /\ [][Next]_vars

\* a stored point lives in exactly one shard
ExactlyOnce == \A s, t \in Shards : s # t => live[s] \cap live[t] = {}
\* failed = requested ids that no shard processed; what is unreachable is failed, never "not found"
FailedExact ==
  last.op \in {"update", "delete"} =>
    /\ last.failed \cap last.found = {}
    /\ last.failed \cup last.found = last.req
NotFoundOnlyIfComplete == last.notfound => last.complete
WithinLimit == \A s \in Shards : Cardinality(live[s]) <= MaxPerShard
=============================================================================
