SPECIFICATION Spec
CONSTANTS
  MaxExisting = 3
  ShardFills <- DeepFills
  MaxPts = 5
  PointSizes = {1, 2}
  SizeLimits = {1, 2, 3, 4, 5, 6}
  CountLimits = {1, 2, 3}
  Variant = "real"
INVARIANTS Terminates InvWellFormed InvPartition InvCountLimit InvSizeLimit InvFresh InvValid InvFunctional InvShape
CHECK_DEADLOCK FALSE
