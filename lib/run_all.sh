#!/bin/bash
# run_all.sh <tier> <seed> [ids...]: run the claimed checks one after another on the current tree,
# one line per check (rc, wall seconds).  Takes /var/tmp/verif.lock per check so that it never
# overlaps with lib/seed_detect.sh (which patches /repo and rebuilds the harness).
TIER=${1:-quick}; SEED=${2:-1}; shift 2
IDS="$@"
[ -z "$IDS" ] && IDS=$(python3 -c "import json; print(' '.join(c['property_id'] for c in json.load(open('/verif/MANIFEST.json'))['checks']))")
mkdir -p /var/tmp/verif-runs
LOG=/var/tmp/verif-runs/$TIER-$SEED.log
for P in $IDS; do
  T0=$(date +%s)
  flock /var/tmp/verif.lock -c "cd /verif && timeout 14400 ./check $P --tier $TIER --seed $SEED > /var/tmp/verif-runs/$TIER-$SEED-$P.out 2>&1"; RC=$?
  echo "$P tier=$TIER seed=$SEED rc=$RC wall=$(( $(date +%s) - T0 ))s viol=$(grep -c '^VIOLATION' /var/tmp/verif-runs/$TIER-$SEED-$P.out)" | tee -a $LOG
done
