"""C20: distance functions equal their definitions on every vector length.

Design level : spec/Kernel.tla  (block / tail / reduce schedule of the AVX kernels with the real
               constants, bit packing of the binary quantiser, hamming / jaccard as set cardinalities)
Conformance  : `vh kernel` drives the real functions on generated integer-valued vectors of every length
               1..4096 (unaligned sub-slices, guard pages, garbage around the slices) and TLC recomputes
               every result from the logged abstract input (spec/KernelTrace.tla)."""
import json
import os

import props
import vlib
from props import prop, drive_and_validate, binding_selftest, Inconclusive

props.META["C20"] = dict(
    technique="TLC model checking of the kernel schedule / bit packing (Kernel.tla) + exact generated cases on the real "
              "kernels with TLC as oracle (KernelTrace.tla)",
    design_ref="DESIGN.md 5 C20",
    text="For every length 1..4096 the AVX kernels (called through the exported dispatchers and directly), the pure-Go "
         "loops, the binary quantiser's packing and hamming / jaccard return exactly the value of their definition on "
         "integer-valued inputs whose sums are exact in float32 in any order, for unaligned sub-slices, slices ending at "
         "an unmapped page and with garbage around them, and d(x,y) = d(y,x) bit for bit also on arbitrary floats; the "
         "schedule that makes this true for all inputs (each index consumed once, each lane reduced once, no read "
         "outside the slice) is model checked with the real constants.",
    note="Trusted: the pattern expansion in the driver is the twin of Vec in KernelTrace.tla; float32 arithmetic on "
         "integers below 2^24 is exact. NOT covered: agreement up to rounding on arbitrary reals / subnormals / large "
         "magnitudes (numeric accuracy is outside TLA+; a float64 comparison is reported as exploration evidence only); "
         "the product quantiser; haversine values (C04's table) - only its symmetry.")

SCHED_NEG = [("Kernel.taillate.cfg", "ExactlyOnce", "scalar tail loop starting one element late"),
             ("Kernel.haddonce.cfg", "AllLanesOnce", "only one horizontal add in the reduction"),
             ("Kernel.dropacc.cfg", "AllLanesOnce", "reduction forgets accumulator 1"),
             ("Kernel.blockany.cfg", "InBounds", "block loop entered whenever elements remain (reads past the slice)")]
BITS_NEG = [("Kernel.bitsge.cfg", "BitPlace", "threshold compared with >= instead of >"),
            ("Kernel.bitsextra.cfg", "WordCount", "one word too many when the length is a multiple of the word size"),
            ("Kernel.bitspad.cfg", "PaddingZero", "padding bits of the last word left set")]


def design_phase(res, tier):
    """All design-level TLC runs (positive and negative configurations) side by side."""
    pos = ["Kernel.cfg", "Kernel.spot.cfg", "Kernel.bits.cfg", "Kernel.bitsmid.cfg", "Kernel.bits64.cfg"]
    if tier == "thorough":
        pos += ["Kernel.deep.cfg", "Kernel.bitsdeep.cfg"]
    neg = SCHED_NEG + BITS_NEG if tier == "thorough" else [SCHED_NEG[0], SCHED_NEG[1], SCHED_NEG[3], BITS_NEG[0], BITS_NEG[2]]
    jobs = [("pos", c, None, None) for c in pos] + [("neg", c, inv, what) for c, inv, what in neg]

    def one(job):
        kind, cfg, inv, what = job
        return job, vlib.tlc_model_check("Kernel", cfg, workers=4, timeout=900, heap="4g",
                                         name=("neg-" if kind == "neg" else "") + cfg.replace(".cfg", ""))

    for (kind, cfg, inv, what), r in vlib.pmap(one, jobs, workers=6):
        if kind == "pos":
            if not r["ok"]:
                raise Inconclusive(f"design spec Kernel/{cfg} failed TLC: {r['error']}\n{r['raw'][-2500:]}")
            res.add("states", r["distinct"])
            res.add("transitions", r["generated"])
            res.coverage.setdefault("design_runs", []).append(
                {"module": "Kernel", "cfg": cfg, "distinct": r["distinct"], "generated": r["generated"],
                 "depth": r["depth"], "wall_s": r["wall_s"]})
        else:
            if r["ok"] or f"Invariant {inv} is violated" not in (r["raw"] or ""):
                raise Inconclusive(f"design self-test failed: Kernel/{cfg} should violate {inv}\n{(r['raw'] or '')[-1500:]}")
            res.coverage.setdefault("design_selftests", []).append(f"{what}: TLC reports {inv} violated ({cfg})")


def plan(tier, seed):
    runs = []

    def add(name, mode, lens, per, s, impl="dispatch"):
        runs.append({"name": name, "timeout": 900, "tlc_timeout": 1500,
                     "args": ["-mode", mode, "-impl", impl, "-lens", lens, "-per", per, "-seed", seed * 1000 + s]})
    if tier == "quick":
        # every length 1..4096 through the dispatcher (asm on this CPU) and the asm kernels directly
        for r in range(4):
            add(f"float-asm-{r}", "float", f"1-4096@4+{r}", 3, r)
        # the pure-Go loops: every length as well
        for r in range(2):
            add(f"float-pure-{r}", "float", f"1-4096@2+{r}", 2, 10 + r, impl="pure")
        # bit metrics: every length 1..4096
        for r in range(4):
            add(f"bits-{r}", "bits", f"1-4096@4+{r}", 1, 20 + r)
        add("sym-asm", "sym", "1-70,edges,rand:100", 1, 30)
        add("sym-pure", "sym", "1-70,rand:100", 1, 31, impl="pure")
    else:
        for r in range(16):
            add(f"float-asm-{r}", "float", f"1-4096@8+{r % 8}", 12, r)
        for r in range(8):
            add(f"float-pure-{r}", "float", f"1-4096@4+{r % 4}", 6, 40 + r, impl="pure")
        for r in range(16):
            add(f"bits-{r}", "bits", f"1-4096@8+{r % 8}", 5, 60 + r)
        add("bits-edges", "bits", "1-200,wedges", 8, 90)
        for r in range(3):
            add(f"sym-asm-{r}", "sym", f"1-4096@3+{r}", 3, 100 + r)
        add("sym-pure", "sym", "1-4096@2+1", 2, 110, impl="pure")
    return runs


def case_key(e):
    return json.dumps([e["ev"], e["n"], e.get("x"), e.get("y"), e.get("lay"), e.get("ox"), e.get("oy"), e.get("met"),
                       e.get("route"), e.get("td"), e.get("tn"), e.get("class"), e.get("r") if e["ev"] == "S" else None],
                      sort_keys=True)


@prop("C20", "model_checking")
def c20(res, tier, seed, replay):
    if replay:
        props.replay_run(res, replay, default_module="KernelTrace")
        return
    vlib.build_harness()
    design_phase(res, tier)
    results = drive_and_validate(res, plan(tier, seed), module="KernelTrace", cmd="kernel")

    # what was exercised (measured from the traces and the drivers' own summaries)
    cases, distinct = 0, set()
    lens = {"F-asm": set(), "F-pure": set(), "B": set(), "S": set()}
    nres = 0
    impls = {}
    fuzz = {"cases": 0, "outliers": 0, "max_error_over_bound_permille": 0, "samples": []}
    kinds = {}
    for r in results:
        if r["rc"] != 0 or not os.path.exists(r["trace"]):
            continue
        impl = None
        with open(r["trace"]) as f:
            for line in f:
                e = json.loads(line)
                if e["ev"] == "Meta":
                    impl = e["impl"]
                    impls[r["run"]["name"]] = impl
                    continue
                cases += 1
                nres += len(e["r"]) * (2 if e["ev"] == "S" else 1)
                distinct.add(case_key(e))
                lens.setdefault("F-" + str(impl) if e["ev"] == "F" else e["ev"], set()).add(e["n"])
        try:
            st = json.loads(r["stdout"].strip().splitlines()[-1])
        except Exception:
            raise Inconclusive(f"driver {r['run']['name']} printed no summary")
        for k, v in st["kinds"].items():
            kinds[k] = kinds.get(k, 0) + v
        fuzz["cases"] += st["fuzz_cases"]
        fuzz["outliers"] += st["fuzz_outliers"]
        fuzz["max_error_over_bound_permille"] = max(fuzz["max_error_over_bound_permille"], st["fuzz_max_ratio_permille"])
        if st["fuzz_sample"]:
            fuzz["samples"].append(st["fuzz_sample"])
    for r in results:
        name = r["run"]["name"]
        if r["rc"] == 0 and "-asm" in name and impls.get(name) != "asm":
            raise Inconclusive("this CPU does not select the AVX kernels (no AVX2 / FMA): the vectorised code was not exercised")
    res.coverage["evaluations"] = cases
    res.coverage["distinct_nontrivial"] = len(distinct)
    res.coverage["results_checked"] = nres
    res.coverage["lengths_covered"] = {k: len(v) for k, v in lens.items()}
    res.coverage["lengths_missing_1_4096"] = {k: 4096 - len(lens[k]) for k in ("F-asm", "F-pure", "B")}
    res.coverage["case_kinds"] = kinds
    res.coverage["implementation_per_run"] = impls
    res.coverage["float_exploration_not_model_based"] = dict(
        fuzz, what="arbitrary float32 inputs (normal, 1e10..1e15, subnormal, 1e-25..1e-19, mixed, signed zeros): result vs a "
                   "float64 reference within the forward error bound gamma_(n+3) * sum|terms| of summation in any order; "
                   "computed by the driver, NOT by the model - evidence only, not part of the verdict")
    for r in results[:1] + [x for x in results if x["run"]["name"].startswith("bits")][:1] + \
            [x for x in results if x["run"]["name"].startswith("sym")][:1]:
        if os.path.exists(r["trace"]):
            props.sample_from_trace(res, r["trace"], ("F", "B", "S"), cap=2)
    if fuzz["outliers"] and not res.violations:
        raise Inconclusive(f"float exploration (not model based) saw {fuzz['outliers']} results outside the rounding error "
                           f"bound: {fuzz['samples'][:3]} - needs a human look")

    # binding self-tests: one logged field corrupted, TLC must reject
    fl = [r for r in results if r["run"]["name"].startswith("float")]
    bt = [r for r in results if r["run"]["name"].startswith("bits")]
    sy = [r for r in results if r["run"]["name"].startswith("sym")]

    def mut_float(e):
        if e["ev"] == "F" and e["n"] >= 33:
            e["r"][1]["v"] += 1
            return True
        return False
    binding_selftest(res, fl, mut_float, module="KernelTrace", what="one float kernel result (order yx) off by one")

    def mut_class(e):
        if e["ev"] == "F" and e["lay"] == "guard":
            e["r"][0]["c"] = "fault"
            return True
        return False
    binding_selftest(res, fl, mut_class, module="KernelTrace", what="a result reported as a memory fault")

    def mut_word(e):
        if e["ev"] == "B" and e["n"] > 64 and e["n"] % 64 != 1:
            # the bit of the last component
            b = (e["n"] - 1) % 64
            e["wx"][-1][b // 16] ^= 1 << (b % 16)
            return True
        return False
    binding_selftest(res, bt, mut_word, module="KernelTrace", what="bit of the last component flipped in a persisted word")

    def mut_ham(e):
        if e["ev"] == "B" and e["met"] == "hamming":
            e["r"][0]["v"] += 1
            return True
        return False
    binding_selftest(res, bt, mut_ham, module="KernelTrace", what="hamming distance off by one")

    def mut_jac(e):
        if e["ev"] == "B" and e["met"] == "jaccard" and any(x["v"] not in (0, 100000) for x in e["r"]):
            for x in e["r"]:
                if x["f"] == "sp" and x["o"] in ("xy", "yx"):
                    x["v"] += 3
            return True
        return False
    binding_selftest(res, bt, mut_jac, module="KernelTrace", what="jaccard distance off by 3e-5 (both orders)")

    def mut_sym(e):
        if e["ev"] == "S":
            e["r"][0]["yx"][1] ^= 1
            return True
        return False
    binding_selftest(res, sy, mut_sym, module="KernelTrace", what="last mantissa bit of d(y,x) flipped")

    res.coverage["rule"] = (
        "one case = (length, value pattern of x, value pattern of y, memory layout); per length a structural case (distinct "
        "weights on first / last element, first element of the scalar tail, last element of the last 32-block) plus seeded "
        "draws from hash / ramp / alternating / single-lane / zero / constant / literal / one-hot patterns with mixed signs, "
        "magnitudes bounded so that all sums are exact; layouts: sub-slice at offset 0..8 behind a 32-byte aligned address "
        "inside NaN / 1e30 / Inf garbage, or slice ending exactly at a PROT_NONE page; every case is evaluated by euclidean, "
        "dot, cosine (exported) and asm.SquaredEuclideanDistance, asm.Dot (direct) in orders (x,y), (y,x), sometimes (x,x); "
        "a second family of runs forces the pure-Go loops (GODEBUG=cpu.avx2=off). Bit cases: binary quantiser on a memory "
        "bucket with the threshold implied by the metric name (0.5), given explicitly (-1.5 .. 5) or learned by Fit (mean "
        "of 2..4 points), components just below / at / above the threshold, structural bit positions (0, 63, 64, n-1, word "
        "edges); distances through DistanceFromFloat, DistanceFromPoint, a reopened store and GetBitDistanceFn on the "
        "persisted words placed inside garbage words; TLC recomputes packing, padding and cardinalities. distinct_nontrivial "
        "counts distinct (inputs, layout) tuples; quick covers every length 1..4096 once for asm and bits, thorough several times")
    res.assumptions += [
        "float32 arithmetic (add, multiply, fused multiply-add) on integers whose partial sums stay below 2^24 is exact, "
        "so equality with the integer definition is the right demand for these inputs",
        "agreement 'up to floating-point rounding' on arbitrary reals, subnormals and large magnitudes is NOT decided by the "
        "model (numeric accuracy); only bit-exact symmetry is checked on such inputs",
        "the kernel schedule model (Kernel.tla) was transcribed by hand from distance/asm/*.s and the avo generators",
        "vectors of different lengths (the kernels use len(x) only) and the product quantiser are outside this check",
    ]
