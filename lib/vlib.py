"""Shared machinery of the /verif checks: scratch space, harness build, TLC
model checking, TLC trace validation, known findings, evidence files.

Verdict discipline (DESIGN.md section 6): exit 0 = held on everything explored
(KNOWN-FINDING lines allowed); exit 1 + VIOLATION line = the real code did
something the specification cannot explain; exit 2 = inconclusive (build
failure, TLC error, timeout, vacuity, failed self-test)."""
import atexit
import json
import os
import re
import shutil
import subprocess
import sys
import tempfile
import time
from concurrent.futures import ThreadPoolExecutor

VERIF = os.path.dirname(os.path.dirname(os.path.abspath(__file__)))
REPO = os.environ.get("VERIF_REPO", "/repo")
SPEC = os.path.join(VERIF, "spec")
HARNESS = os.path.join(VERIF, "harness")
OUT = os.path.join(VERIF, "out")
# (development only: lib/seed_detect_par.sh points runs against seeded changes somewhere else, so that the committed
# evidence always comes from the unchanged tree; no registered command sets this)
EVIDENCE = os.environ.get("VERIF_EVIDENCE_DIR") or os.path.join(VERIF, "evidence")
KNOWN = os.path.join(VERIF, "known_findings.jsonl")
NCPU = os.cpu_count() or 4


class Inconclusive(Exception):
    pass


# --------------------------------------------------------------------------
# scratch space (outside /repo and /verif, removed at exit)

_scratch = None


def scratch():
    global _scratch
    if _scratch is None:
        base = os.environ.get("VERIF_SCRATCH", "/var/tmp")
        os.makedirs(base, exist_ok=True)
        _scratch = tempfile.mkdtemp(prefix="verif-", dir=base)
        atexit.register(lambda: shutil.rmtree(_scratch, ignore_errors=True))
    return _scratch


def subdir(name):
    d = os.path.join(scratch(), name)
    os.makedirs(d, exist_ok=True)
    return d


# --------------------------------------------------------------------------
# Go toolchain and harness build (always from /repo's current working tree)

def go_env():
    env = dict(os.environ)
    env.update({"GOFLAGS": "-mod=mod", "GOPROXY": "off", "GOSUMDB": "off", "GOTOOLCHAIN": "local",
                "CGO_ENABLED": "0"})
    return env


def go_bin():
    cands = []
    modcache = os.environ.get("GOMODCACHE", "/root/go/pkg/mod")
    cands.append(os.path.join(modcache, "golang.org/toolchain@v0.0.1-go1.24.3.linux-amd64/bin/go"))
    for name in ("go1.26.8", "go1.26", "go"):
        p = shutil.which(name)
        if p:
            cands.append(p)
    for c in cands:
        if os.path.exists(c):
            return c
    raise Inconclusive("no go toolchain found")


_vh = None


def build_harness():
    """go build -tags verif of /verif/harness against /repo (replace directive)."""
    global _vh
    if _vh:
        return _vh
    if os.environ.get("VERIF_VH"):
        # development only (lib/seed_detect_par.sh): a harness already built against a scratch worktree
        # that carries a seeded change; no registered command sets this
        _vh = os.environ["VERIF_VH"]
        log("harness: prebuilt " + _vh)
        return _vh
    out = os.path.join(scratch(), "vh")
    # go.sum of the harness = go.sum of the repo (same dependency set)
    try:
        shutil.copy(os.path.join(REPO, "go.sum"), os.path.join(HARNESS, "go.sum"))
    except OSError:
        pass
    t0 = time.time()
    p = subprocess.run([go_bin(), "build", "-tags", "verif", "-o", out, "./cmd/vh"], cwd=HARNESS,
                       env=go_env(), capture_output=True, text=True)
    if p.returncode != 0:
        raise Inconclusive("harness build failed:\n" + p.stdout + p.stderr)
    _vh = out
    log(f"harness built in {time.time() - t0:.1f}s")
    return out


def log(msg):
    print(f"[check] {msg}", flush=True)


def run_vh(args, timeout=600, cwd=None, env=None):
    """Run the harness; returns (returncode, stdout, stderr)."""
    vh = build_harness()
    e = dict(os.environ)
    if env:
        e.update(env)
    try:
        p = subprocess.run([vh] + [str(a) for a in args], capture_output=True, text=True, timeout=timeout,
                           cwd=cwd or scratch(), env=e)
    except subprocess.TimeoutExpired:
        return (124, "", "timeout")
    return (p.returncode, p.stdout, p.stderr)


# --------------------------------------------------------------------------
# TLC

TLC_JAR = "/opt/veriftools/tla/tla2tools.jar"
_NOISE = re.compile(r"^(Parsing|Semantic processing|Linting) ")


def _tlc_cmd(extra_java=None, heap="4g"):
    cm = "/opt/veriftools/tla/CommunityModules-deps.jar"
    cp = TLC_JAR
    # the tlc wrapper on PATH already has the community modules; use it when present
    w = shutil.which("tlc")
    if w and not extra_java and heap is None:
        return [w]
    jars = [TLC_JAR]
    for j in ("/opt/veriftools/tla/CommunityModules-deps.jar", "/opt/veriftools/tla/CommunityModules.jar"):
        if os.path.exists(j):
            jars.append(j)
    cmd = ["java", "-XX:+UseParallelGC", f"-Xmx{heap}", "-Xss512m"]
    if extra_java:
        cmd += extra_java
    cmd += ["-cp", ":".join(jars), "tlc2.TLC"]
    return cmd


def _stage_spec(workdir, modules=None):
    for f in os.listdir(SPEC):
        if f.endswith(".tla") or f.endswith(".cfg"):
            shutil.copy(os.path.join(SPEC, f), workdir)


def parse_tlc(out):
    r = {"generated": None, "distinct": None, "depth": None, "error": None, "ok": False, "printed": []}
    m = re.search(r"(\d[\d,]*) states generated, (\d[\d,]*) distinct states found", out)
    if m:
        r["generated"] = int(m.group(1).replace(",", ""))
        r["distinct"] = int(m.group(2).replace(",", ""))
    m = re.search(r"The depth of the complete state graph search is (\d+)", out)
    if m:
        r["depth"] = int(m.group(1))
    if "Model checking completed. No error has been found." in out:
        r["ok"] = True
    else:
        m = re.search(r"^Error: (.*)$", out, re.M)
        r["error"] = m.group(1) if m else "unknown"
    return r


def tlc_model_check(module, cfg, workers=None, timeout=1800, heap="8g", name=None, extra=None):
    """Exhaustive TLC run of spec/<module>.tla with spec/<cfg>. Returns parsed result + raw output."""
    wd = subdir("mc-" + (name or cfg.replace(".cfg", "")))
    _stage_spec(wd)
    workers = workers or min(NCPU, 16)
    cmd = _tlc_cmd(heap=heap) + ["-workers", str(workers), "-metadir", os.path.join(wd, "md"),
                                   "-config", cfg] + (extra or []) + [module + ".tla"]
    t0 = time.time()
    try:
        p = subprocess.run(cmd, cwd=wd, capture_output=True, text=True, timeout=timeout)
    except subprocess.TimeoutExpired:
        raise Inconclusive(f"TLC timeout on {module}/{cfg}")
    out = p.stdout + p.stderr
    r = parse_tlc(out)
    r["wall_s"] = round(time.time() - t0, 1)
    r["raw"] = "\n".join(l for l in out.splitlines() if not _NOISE.match(l))
    shutil.rmtree(os.path.join(wd, "md"), ignore_errors=True)
    return r


def tlc_trace(module, trace_path, known=(), timeout=900, extra_constants=None, name=None, heap="3g", invariants=("WF",)):
    """Validate one ndjson trace against spec/<module>.tla (a *Trace spec).

    Returns dict(accepted, lines, matched (longest accepted prefix), kf (set of
    known-finding names used), raw)."""
    wd = subdir("tv-" + (name or os.path.basename(trace_path)))
    _stage_spec(wd)
    local = os.path.join(wd, "trace.ndjson")
    if os.path.abspath(trace_path) != local:
        shutil.copy(trace_path, local)
    with open(local) as f:
        nlines = sum(1 for _ in f)
    kfset = "{" + ", ".join('"%s"' % k for k in sorted(known)) + "}"
    cfg = ["SPECIFICATION TraceSpec", "CONSTANTS", ' TraceFile = "trace.ndjson"', f" KnownFindings = {kfset}"]
    for k, v in (extra_constants or {}).items():
        cfg.append(f" {k} = {v}")
    for inv in invariants:
        cfg.append(f"INVARIANT {inv}")
    if "TraceView ==" in open(os.path.join(wd, module + ".tla")).read():
        cfg.append("VIEW TraceView")
    cfg += ["CONSTRAINT ReportKF", "POSTCONDITION TraceAccepted", "CHECK_DEADLOCK FALSE"]
    with open(os.path.join(wd, "Trace.cfg"), "w") as f:
        f.write("\n".join(cfg) + "\n")
    cmd = _tlc_cmd(heap=heap) + ["-workers", "1", "-metadir", os.path.join(wd, "md"), "-config", "Trace.cfg",
                                   module + ".tla"]
    t0 = time.time()
    try:
        p = subprocess.run(cmd, cwd=wd, capture_output=True, text=True, timeout=timeout)
    except subprocess.TimeoutExpired:
        raise Inconclusive(f"TLC timeout validating {trace_path}")
    out = p.stdout + p.stderr
    r = parse_tlc(out)
    res = {"lines": nlines, "accepted": False, "matched": 0, "kf": set(), "wall_s": round(time.time() - t0, 1),
           "invariant": None}
    res["raw"] = "\n".join(l for l in out.splitlines() if not _NOISE.match(l))
    for m in re.finditer(r'<<"KF", \{(.*?)\}>>', out):
        for k in re.findall(r'"([^"]+)"', m.group(1)):
            res["kf"].add(k)
    if r["depth"] is not None:
        res["matched"] = r["depth"] - 1
    if r["ok"]:
        res["accepted"] = True
    else:
        err = r["error"] or ""
        if "Postcondition" in err and r["depth"] is not None:
            res["matched"] = r["depth"] - 1
        elif "Invariant" in err:
            m = re.search(r"Invariant (\S+) is violated", out)
            res["invariant"] = m.group(1) if m else "?"
            # the trace printed by TLC ends in the violating state; l - 1 lines were consumed
            ls = re.findall(r"/\\ l = (\d+)", out)
            if ls:
                res["matched"] = int(ls[-1]) - 1
        else:
            raise Inconclusive("TLC failed on trace " + trace_path + ":\n" + res["raw"][-3000:])
    shutil.rmtree(os.path.join(wd, "md"), ignore_errors=True)
    return res


def read_line(path, n):
    with open(path) as f:
        for i, l in enumerate(f, 1):
            if i == n:
                return l.rstrip("\n")
    return None


# --------------------------------------------------------------------------
# known findings

def load_known():
    """Returns (findings: {property: {name: entry}}, fixed: [entry])."""
    findings, fixed = {}, []
    if os.path.exists(KNOWN):
        with open(KNOWN) as f:
            for line in f:
                line = line.strip()
                if not line or line.startswith("#"):
                    continue
                e = json.loads(line)
                if e.get("kind") == "finding":
                    for p in e["properties"]:
                        findings.setdefault(p, {})[e["name"]] = e
                else:
                    fixed.append(e)
    return findings, fixed


# --------------------------------------------------------------------------
# parallel helpers

def pmap(fn, items, workers=None):
    workers = workers or max(1, min(NCPU, len(items) or 1))
    with ThreadPoolExecutor(max_workers=workers) as ex:
        return list(ex.map(fn, items))


# --------------------------------------------------------------------------
# result of one property check

class Result:
    def __init__(self, pid, tier, seed, level):
        self.pid, self.tier, self.seed, self.level = pid, tier, seed, level
        self.coverage = {"samples": []}
        self.assumptions = []
        self.violations = []   # list of (replay_path, description)
        self.known = {}        # name -> what
        self.t0 = time.time()
        self.notes = []

    def add(self, key, n):
        self.coverage[key] = self.coverage.get(key, 0) + n

    def sample(self, s, cap=6):
        if len(self.coverage["samples"]) < cap:
            self.coverage["samples"].append(s)

    def violation(self, desc, files=None, meta=None):
        d = os.path.join(OUT, self.pid, f"seed{self.seed}-{len(self.violations) + 1}")
        shutil.rmtree(d, ignore_errors=True)
        os.makedirs(d, exist_ok=True)
        for src in files or []:
            if os.path.exists(src):
                shutil.copy(src, d)
        with open(os.path.join(d, "violation.json"), "w") as f:
            json.dump({"property": self.pid, "seed": self.seed, "tier": self.tier, "what": desc, "meta": meta or {}},
                      f, indent=1)
        self.violations.append((d, desc))
        return d

    def finish(self):
        ev = {
            "property_id": self.pid, "tier": self.tier, "seed": self.seed, "level": self.level,
            "coverage": self.coverage, "assumptions": self.assumptions,
            "wall_s": round(time.time() - self.t0, 1), "violations": len(self.violations),
        }
        if self.known:
            ev["coverage"]["known_findings_matched"] = sorted(self.known)
        if self.notes:
            ev["coverage"]["notes"] = self.notes
        os.makedirs(EVIDENCE, exist_ok=True)
        with open(os.path.join(EVIDENCE, f"{self.pid}.json"), "w") as f:
            json.dump(ev, f, indent=1, default=str)
        # every finding listed for this property is printed; whether this run
        # actually exercised its signature is said too
        listed, _ = load_known()
        for name, e in sorted(listed.get(self.pid, {}).items()):
            tag = "matched in this run" if name in self.known else "listed, signature not met in this run"
            print(f"KNOWN-FINDING: property={self.pid} {name} ({tag}): {e['what']}")
        for d, desc in self.violations:
            print(f"VIOLATION property={self.pid} replay={d}")
            print(f"  {desc}")
        return 1 if self.violations else 0


def tlc_simulate(module, cfg, num, depth, seed, timeout=600, name=None):
    """Run TLC in simulation mode; the spec prints finished behaviours as
    'BEHAVIOUR <json>' lines (ToJson of its history variable). Returns the list
    of decoded behaviours (duplicates removed, order kept)."""
    wd = subdir("sim-" + (name or cfg.replace(".cfg", "")))
    _stage_spec(wd)
    cmd = _tlc_cmd(heap="4g") + ["-workers", "1", "-simulate", f"num={num}", "-depth", str(depth), "-seed", str(seed),
                                  "-metadir", os.path.join(wd, "md"), "-config", cfg, module + ".tla"]
    try:
        p = subprocess.run(cmd, cwd=wd, capture_output=True, text=True, timeout=timeout)
    except subprocess.TimeoutExpired:
        raise Inconclusive(f"TLC simulation timeout on {module}/{cfg}")
    out = p.stdout + p.stderr
    seen, res = set(), []
    for line in out.splitlines():
        if line.startswith('"BEHAVIOUR '):
            js = line[len('"BEHAVIOUR '):].rstrip()
            if js.endswith('"'):
                js = js[:-1]
            js = js.replace('\\"', '"')
            if js not in seen:
                seen.add(js)
                res.append(json.loads(js))
    if not res:
        raise Inconclusive(f"TLC simulation of {module}/{cfg} produced no behaviour:\n" + out[-2000:])
    shutil.rmtree(os.path.join(wd, "md"), ignore_errors=True)
    return res
