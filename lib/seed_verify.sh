#!/bin/bash
# seed_verify.sh <seed-dir> : confirm a seeded change independently in a scratch worktree:
# compiles, passes the existing suite, demo fails with / passes without the change.
# usage: seed_verify.sh /tmp/seed-C01/A
set -u
SD=$1
export GOFLAGS=-mod=mod GOPROXY=off GOSUMDB=off GOTOOLCHAIN=local CGO_ENABLED=0
GO=/root/go/pkg/mod/golang.org/toolchain@v0.0.1-go1.24.3.linux-amd64/bin/go
WT=$(mktemp -d /tmp/wt-verify-XXXX)
git -C /repo worktree add -q --detach "$WT" HEAD || exit 2
trap 'git -C /repo worktree remove --force "$WT" >/dev/null 2>&1' EXIT
cd "$WT"
PKGS="./shard/... ./utils/... ./cluster/... ./models/... ./httpapi/... ./diskstore/... ./conversion/... ./distance/..."
# where does the demo go?
DEMO=$(ls $SD/demo_test.go $SD/demo*.go 2>/dev/null | head -1)
PKGDIR=$(head -3 "$DEMO" | grep -o '\(shard\|utils\|cluster\|models\|httpapi\|diskstore\|conversion\|distance\)[a-zA-Z0-9_/]*' | head -1)
PKGDIR=${PKGDIR%/zz_seed_demo_test}; PKGDIR=${PKGDIR%/}
echo "demo=$DEMO pkgdir=$PKGDIR"
git apply "$SD/patch.diff" || { echo "RESULT apply-failed"; exit 1; }
$GO build $PKGS || { echo "RESULT build-failed"; exit 1; }
if $GO test -vet=off -count=1 $PKGS > suite.log 2>&1; then SUITE=pass; else SUITE=fail; fi
cp "$DEMO" "$PKGDIR/zz_seed_demo_test.go"
if $GO test -vet=off -count=1 ./$PKGDIR/ -run 'Seed|seed|SEED' > demo_with.log 2>&1; then WITH=pass; else WITH=fail; fi
git apply -R "$SD/patch.diff"
if $GO test -vet=off -count=1 ./$PKGDIR/ -run 'Seed|seed|SEED' > demo_without.log 2>&1; then WITHOUT=pass; else WITHOUT=fail; fi
echo "RESULT suite_with_change=$SUITE demo_with_change=$WITH demo_without_change=$WITHOUT"
grep -h "^--- FAIL\|^FAIL\|^ok" suite.log | grep -v "^ok" | head -5
tail -3 demo_with.log | cut -c1-300
