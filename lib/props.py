"""Per-property decision procedures (DESIGN.md section 5)."""
import json
import os
import random
import re
import shutil

import vlib
from vlib import Inconclusive, log

REGISTRY = {}
META = {}   # per-property manifest metadata contributed by plug-in modules (props_*.py)


def prop(pid, level):
    def deco(fn):
        REGISTRY[pid] = (fn, level)
        return fn
    return deco


# ==========================================================================
# Shard family: drive a real shard, validate the trace with ShardTrace.tla

CRASH_RE = re.compile(r"(panic:|fatal error:|SIGSEGV|unexpected signal|goroutine \d+ \[running\])")


def known_names(pid):
    findings, _ = vlib.load_known()
    return findings.get(pid, {})


def summarize_event(line, cap=700):
    try:
        e = json.loads(line)
    except Exception:
        return line[:cap]
    s = json.dumps(e, sort_keys=True)
    return s if len(s) <= cap else s[:cap] + "..."


def drive_and_validate(res, runs, module="ShardTrace", cmd="shard", workers=None, invariants=("WF",)):
    """runs: list of dict(name=..., args=[...]). Drives the real code (one
    process per run), validates every trace with TLC. Registers violations and
    known findings on res. Returns the list of per-run results."""
    kn = known_names(res.pid)
    vlib.build_harness()

    def one(run):
        name = run["name"]
        out = os.path.join(vlib.subdir("traces"), name + ".ndjson")
        rc, so, se = vlib.run_vh([cmd] + run["args"] + ["-out", out, "-dir", vlib.subdir("db-" + name)],
                                 timeout=run.get("timeout", 400))
        r = {"run": run, "trace": out, "rc": rc, "stderr": se, "stdout": so}
        if rc != 0:
            return r
        r["tv"] = vlib.tlc_trace(module, out, known=kn.keys(), name=name, invariants=invariants,
                                 timeout=run.get("tlc_timeout", 900))
        return r

    results = vlib.pmap(one, runs, workers=workers or max(2, vlib.NCPU // 2))
    for r in results:
        run = r["run"]
        if r["rc"] != 0:
            se = r["stderr"]
            if CRASH_RE.search(se):
                errf = os.path.join(vlib.subdir("traces"), run["name"] + ".stderr")
                with open(errf, "w") as f:
                    f.write(se)
                first = next((ln for ln in se.splitlines() if CRASH_RE.search(ln)), "")
                res.violation(f"driver process crashed inside the code under test (rc={r['rc']}) in run {run['name']}: "
                              + first[:300],
                              files=[r["trace"], errf], meta={"cmd": cmd, "args": run["args"]})
                continue
            raise Inconclusive(f"driver {run['name']} failed rc={r['rc']}: {se[-2000:]}")
        tv = r["tv"]
        res.add("traces_validated_against_impl", 1)
        res.add("trace_events", tv["lines"])
        for k in tv["kf"]:
            if k in kn:
                res.known[k] = kn[k]["what"]
            else:
                raise Inconclusive(f"spec reported unknown finding name {k}")
        if not tv["accepted"]:
            n = tv["matched"] + 1
            line = vlib.read_line(r["trace"], n) or ""
            why = f"invariant {tv['invariant']} violated after" if tv["invariant"] else "no spec action explains"
            res.violation(f"trace {run['name']}: {why} line {n}/{tv['lines']}: {summarize_event(line)}",
                          files=[r["trace"]], meta={"cmd": cmd, "args": run["args"], "line": n,
                                                    "module": module})
    return results


def corrupt_trace(src, dst, mutate):
    """Copy src to dst applying mutate(event) -> bool (True once mutated) to the first applicable line."""
    done = False
    with open(src) as f, open(dst, "w") as g:
        for line in f:
            if not done:
                e = json.loads(line)
                if mutate(e):
                    done = True
                    line = json.dumps(e) + "\n"
            g.write(line)
    return done


def binding_selftest(res, results, mutate, module="ShardTrace", what="", invariants=("WF",)):
    """Corrupt one logged field of an accepted trace; TLC must reject it."""
    kn = known_names(res.pid)
    for r in results:
        if r.get("tv") and r["tv"]["accepted"]:
            dst = os.path.join(vlib.subdir("traces"), "selftest-" + r["run"]["name"] + ".ndjson")
            if not corrupt_trace(r["trace"], dst, mutate):
                continue
            tv = vlib.tlc_trace(module, dst, known=kn.keys(), name="selftest", invariants=invariants)
            if tv["accepted"]:
                raise Inconclusive(f"binding self-test failed: corrupted trace ({what}) was accepted")
            res.coverage.setdefault("binding_selftests", []).append(
                f"{what}: corrupted copy of {r['run']['name']} rejected at line {tv['matched'] + 1}")
            return
    if res.violations:
        return  # nothing was accepted because the code under test misbehaves: the verdict stands
    raise Inconclusive("binding self-test could not run (no accepted trace with an applicable line)")


def design_check(res, module, cfg, name=None, timeout=1800, heap="8g"):
    r = vlib.tlc_model_check(module, cfg, timeout=timeout, heap=heap, name=name)
    if not r["ok"]:
        raise Inconclusive(f"design spec {module}/{cfg} failed TLC: {r['error']}\n{r['raw'][-2500:]}")
    res.add("states", r["distinct"])
    res.add("transitions", r["generated"])
    res.coverage.setdefault("design_runs", []).append(
        {"module": module, "cfg": cfg, "distinct": r["distinct"], "generated": r["generated"], "depth": r["depth"],
         "wall_s": r["wall_s"]})
    return r


def sample_from_trace(res, path, evs, cap=3):
    n = 0
    with open(path) as f:
        for line in f:
            e = json.loads(line)
            if e["ev"] in evs:
                res.sample(summarize_event(line, 500))
                n += 1
                if n >= cap:
                    return


def replay_run(res, replay, default_module="ShardTrace", invariants=("WF",)):
    meta = json.load(open(os.path.join(replay, "violation.json")))["meta"]
    run = {"name": "replay", "args": meta["args"]}
    return drive_and_validate(res, [run], module=meta.get("module", default_module), cmd=meta.get("cmd", "shard"),
                              invariants=invariants)


# --------------------------------------------------------------------------
CACHES = [("-1", "unl"), ("0", "off"), ("3000", "tiny")]


@prop("C01", "model_checking")
def c01(res, tier, seed, replay):
    if replay:
        replay_run(res, replay)
        return
    design_check(res, "ShardMC", "ShardMC.cfg" if tier == "quick" else "ShardMC.deep.cfg")
    hist, batches, nseeds = (6, 30, 1) if tier == "quick" else (40, 50, 6)
    runs = []
    for s in range(nseeds):
        for cfgname in ("scalars", "none", "kitchen"):
            for cache, ctag in CACHES:
                runs.append({"name": f"crud-{cfgname}-{ctag}-{s}",
                             "args": ["-mode", "crud", "-repeat-upd", "-config", cfgname, "-cache", cache, "-seed", seed * 100 + s,
                                      "-hist", hist, "-batches", batches]})
        # every index kind of the kitchen schema written side by side on a slow disk (storage reads of the write
        # transaction take 0.2 ms): what one stage prepares stays prepared long enough for another to disturb it
        runs.append({"name": f"crud-kitchen-slowdisk-{s}",
                     "args": ["-mode", "crud", "-config", "kitchen", "-cache", "0", "-slowget-us", 200, "-seed", seed * 100 + 55 + s,
                              "-hist", 3 if tier == "quick" else 8, "-batches", 12]})
        runs.append({"name": f"crud-scalars-mem-{s}",
                     "args": ["-mode", "crud", "-config", "scalars", "-mem", "-seed", seed * 100 + 50 + s,
                              "-hist", hist, "-batches", batches]})
    results = drive_and_validate(res, runs)
    for r in results[:1]:
        sample_from_trace(res, r["trace"], ("Insert", "Update", "Delete", "Get"), cap=4)

    def mut(e):
        if e["ev"] == "Get" and e["docs"]:
            d = e["docs"][0]["f"]
            if d:
                k = sorted(d)[0]
                d[k] = d[k] + "X"
                return True
        return False
    binding_selftest(res, results, mut, what="one field of one returned document altered")

    def mut2(e):
        if e["ev"] == "Count":
            e["n"] += 1
            return True
        return False
    binding_selftest(res, results, mut2, what="reported point count off by one")
    res.coverage["rule"] = ("random histories of insert/update/delete batches over 12 ids (fresh, repeated, deleted, "
                            "unknown, duplicated ids; nested / extra / indexed / oversized fields) on real shards under "
                            "schemas none/scalars/kitchen, caches unlimited/off/tiny, bbolt and memory backends; after every "
                            "batch the API results, the persisted id bookkeeping (hook H1), the point count and a select-* "
                            "read of all 12 ids are validated line by line by TLC against Shard.tla")
    res.assumptions += ["documents are encoded as the HTTP layer does (msgpack of a map)",
                        "update batches never repeat an id inside one batch (meaning not fixed by the property)"]


@prop("C02", "model_checking")
def c02(res, tier, seed, replay):
    if replay:
        replay_run(res, replay)
        return
    design_check(res, "FilterMC", "FilterMC.cfg")
    hist, batches, every, nseeds = (2, 12, 4, 2) if tier == "quick" else (6, 24, 1, 6)
    runs = []
    for s in range(nseeds):
        for cache, ctag in CACHES[:2] if tier == "quick" else CACHES:
            runs.append({"name": f"filter-{ctag}-{s}",
                         "args": ["-mode", "filter", "-config", "scalars", "-cache", cache, "-seed", seed * 100 + s,
                                  "-hist", hist, "-batches", batches, "-panel-every", every]})
        runs.append({"name": f"filter-mem-{s}",
                     "args": ["-mode", "filter", "-config", "scalars", "-mem", "-seed", seed * 100 + 70 + s,
                              "-hist", hist, "-batches", batches, "-panel-every", every]})
    # dedicated histories in which indexed strings are drawn uniformly, "" included
    runs.append({"name": "filter-emptystr", "args": ["-mode", "filter", "-config", "scalars-empty", "-seed", seed * 100 + 99,
                                                     "-hist", 2, "-batches", 10, "-panel-every", 5, "-sample", 300]})
    results = drive_and_validate(res, runs)
    for r in results[:1]:
        sample_from_trace(res, r["trace"], ("Filter",), cap=4)

    def mut(e):
        if e["ev"] == "Filter" and e["ids"]:
            e["ids"] = e["ids"][1:]
            return True
        return False
    binding_selftest(res, results, mut, what="one id dropped from a filter answer")

    def mut_inv(e):
        # a node that stays in the persisted set of a value no stored document has any more
        if e["ev"] == "InvIx" and e["ents"] and e["ents"][0]["ids"]:
            e["ents"][0]["ids"] = sorted(e["ents"][0]["ids"] + [max(e["ents"][0]["ids"]) + 40])
            return True
        return False
    binding_selftest(res, [r for r in results if "mem" not in r["run"]["name"]], mut_inv,
                     what="a stale node id added to the logged persisted set of an inverted index")
    res.coverage["rule"] = ("the full operator x ladder/pool-value panel (equals..inRange, startsWith, containsAll/Any, _id; "
                            "14 int64 / 15 float64 / 17 string boundary values incl. min/max int64, -0.0, subnormals, +-Inf, "
                            "empty / non-ASCII / case-variant / prefix-related strings) plus random _and/_or trees of depth <= 3 "
                            "is evaluated on a real shard after write batches that change, add and remove indexed fields; TLC "
                            "recomputes every answer from the model state and requires set equality")
    res.assumptions += ["queries are restricted to those accepted by models.Query.Validate / ValidateSchema"]


# --------------------------------------------------------------------------
METRICS = ["euclidean", "dot", "cosine", "hamming", "jaccard", "haversine"]


def rank_design(res, tier):
    design_check(res, "RankMC", "RankMC.quick.cfg" if tier == "quick" else "RankMC.cfg")


def mut_hit_distance(ev):
    def mut(e):
        if e["ev"] == ev and len(e.get("hits", [])) >= 1:
            e["hits"][0]["d"] += 3
            return True
        return False
    return mut


def mut_drop_first_hit(ev):
    def mut(e):
        if e["ev"] == ev and len(e.get("hits", [])) >= 2 and e["hits"][0].get("d", e["hits"][0].get("s")) != \
                e["hits"][-1].get("d", e["hits"][-1].get("s")):
            e["hits"] = e["hits"][1:]
            return True
        return False
    return mut


@prop("C04", "model_checking")
def c04(res, tier, seed, replay):
    if replay:
        replay_run(res, replay)
        return
    rank_design(res, tier)
    # key-level life cycle of a quantised vector store (what a cold read finds): Quant.tla
    for cfg in ("Quant.bin.cfg", "Quant.binfixed.cfg", "Quant.pq.cfg", "Quant.graph.cfg"):
        design_check(res, "Quant", cfg)
    expect_design_violation(res, "Quant", "Quant.neg.cfg", "NoOrphan",
                            "removing a point removes only the key it is 'stored under': the full-vector key of a point stored before the training stays behind")
    hist, batches, rank, nseeds = (3, 20, 4, 1) if tier == "quick" else (8, 25, 8, 4)
    runs = []
    for s in range(nseeds):
        for m in METRICS:
            for cache, ctag in (CACHES if tier == "thorough" else CACHES[::2]):
                runs.append({"name": f"flat-{m}-{ctag}-{s}",
                             "args": ["-mode", "cache", "-repeat-upd", "-config", f"flat-{m}", "-cache", cache, "-seed", seed * 100 + s,
                                      "-hist", hist, "-batches", batches, "-rank", rank, "-panel-every", 0]})
    # trained quantisers (product: >= 1000 points; learned binary threshold): the model does not recompute
    # the quantised distance, the warm and the cold answer are compared with each other (FlatPair)
    for s in range(1 if tier == "quick" else 3):
        runs.append({"name": f"flat-pq-{s}", "timeout": 900,
                     "args": ["-mode", "cache", "-insert-only", "-config", "flat-pq", "-nids", 3000, "-maxbatch", 300, "-seed", seed * 100 + 80 + s, "-hist", 1,
                              "-batches", 16, "-rank", 3, "-panel-every", 0]})
        for ci, (cache, ctag) in enumerate(CACHES[::2]):
            runs.append({"name": f"flat-binlearn-{ctag}-{s}",
                         "args": ["-mode", "cache", "-repeat-upd", "-config", "flat-binlearn", "-cache", cache, "-seed", seed * 100 + 90 + s + 2 * ci + 2, "-hist", 4,
                                  "-batches", 14, "-rank", 3, "-panel-every", 0]})
    results = drive_and_validate(res, runs)
    for r in results[:2]:
        sample_from_trace_nonempty(res, r["trace"], "Flat", cap=2)
    binding_selftest(res, results, mut_hit_distance("Flat"), what="reported distance of the first hit altered")
    binding_selftest(res, results, mut_drop_first_hit("Flat"), what="nearest hit dropped from an answer")

    def mut_orphan(e):
        # a full-vector key of a node that holds no live point
        if e["ev"] == "VecKeys" and e["v"]:
            e["v"] = sorted(e["v"] + [max(e["v"] + e["q"]) + 7])
            return True
        return False
    binding_selftest(res, [r for r in results if "binlearn" in r["run"]["name"] or "pq" in r["run"]["name"]], mut_orphan,
                     what="an orphan full-vector key added to the logged keys of a quantised store")
    res.coverage["rule"] = ("random write histories on flat indexes under all six metrics (integer-valued vectors so that "
                            "distances are exact integers; unit vectors for cosine; haversine against a float64 reference "
                            "table; jaccard within 2e-4); after every batch flat queries (limits 1..75, weights, no / id / leaf / "
                            "tree pre-filters) are answered warm, after eviction and cold on a copy of the file; TLC requires "
                            "each answer to be the exact k nearest (any tie-break) with the right distances and hybrid scores")
    res.assumptions += ["with a trained quantiser (product, learned binary threshold) the quantised distance is not recomputed by the model: "
                        "warm and cold answers are compared with each other and with the model's candidate set and length",
                        "cosine is judged on unit vectors only (the index computes 1 - dot)"]


def sample_from_trace_nonempty(res, path, ev, cap=2):
    n = 0
    with open(path) as f:
        for line in f:
            if f'"ev":"{ev}"' in line:
                e = json.loads(line)
                if e.get("hits") or e.get("ids") or e.get("nodes"):
                    res.sample(summarize_event(line, 600))
                    n += 1
                    if n >= cap:
                        return


@prop("C05", "model_checking")
def c05(res, tier, seed, replay):
    if replay:
        replay_run(res, replay)
        return
    rank_design(res, tier)
    hist, batches, rank, nseeds = (3, 14, 8, 2) if tier == "quick" else (10, 30, 12, 6)
    runs = []
    for s in range(nseeds):
        for cache, ctag in CACHES[:2]:
            runs.append({"name": f"text-{ctag}-{s}",
                         "args": ["-mode", "cache", "-repeat-upd", "-config", "text", "-cache", cache, "-seed", seed * 100 + s,
                                  "-hist", hist, "-batches", batches, "-rank", rank, "-panel-every", 0]})
        runs.append({"name": f"text-mem-{s}",
                     "args": ["-mode", "rank", "-config", "text", "-mem", "-seed", seed * 100 + 40 + s,
                              "-hist", hist, "-batches", batches, "-rank", rank]})
        # the two text indexes of the configuration are written side by side; on a slow disk (every storage read of a write
        # transaction takes 0.3 ms) what one of them prepares stays prepared long enough for the other to disturb it
        runs.append({"name": f"text-slowdisk-{s}",
                     "args": ["-mode", "rank", "-config", "text", "-cache", "0", "-slowget-us", 300, "-seed", seed * 100 + 60 + s,
                              "-hist", 2 if tier == "quick" else 6, "-batches", 10, "-rank", 3]})
    results = drive_and_validate(res, runs)
    for r in results[:2]:
        sample_from_trace_nonempty(res, r["trace"], "Text", cap=2)

    def mut(e):
        if e["ev"] == "Text" and e["hits"]:
            e["hits"][0]["s"] += 40
            e["hits"][0]["h4"] += 40 * e["w4"]
            return True
        return False
    binding_selftest(res, results, mut, what="tf-idf score of the first hit altered by 4e-4")
    binding_selftest(res, results, mut_drop_first_hit("Text"), what="best hit dropped from an answer")
    res.coverage["rule"] = ("histories that insert, rewrite, blank out (stop words / punctuation only) and delete two text fields "
                            "(one nested); queries multi-term, repeated-term, mixed case, unicode, unknown terms, both operators, "
                            "limits 1..75, weights, pre-filters; token multisets from bleve's standard analyser; TLC recomputes match "
                            "set, corpus size, document frequencies and scaled-integer tf-idf and checks order and the top-limit cut")
    res.assumptions += ["scores compared within 8e-5 absolute (float32 arithmetic vs scaled integers)",
                        "queries that analyse to zero terms are only required not to fail"]


@prop("C03", "model_checking")
def c03(res, tier, seed, replay):
    if replay:
        replay_run(res, replay)
        return
    rank_design(res, tier)
    runs = []
    nseeds = 1 if tier == "quick" else 4
    for s in range(nseeds):
        for m in METRICS:
            # small universes: exact regimes (insert-only / small filters) and mixed histories
            runs.append({"name": f"vam-io-{m}-{s}",
                         "args": ["-mode", "rank", "-config", f"vamana-{m}", "-insert-only", "-seed", seed * 100 + s,
                                  "-hist", 3 if tier == "quick" else 10, "-batches", 6, "-rank", 8]})
            runs.append({"name": f"vam-mix-{m}-{s}",
                         "args": ["-mode", "rank", "-config", f"vamana-{m}", "-seed", seed * 100 + 20 + s,
                                  "-hist", 2 if tier == "quick" else 8, "-batches", 14 if tier == "quick" else 30, "-rank", 6]})
        # longer mixed histories: vector updates derived from the stored vector (the same again, negated, orthogonal)
        for m in ("dot", "euclidean"):
            runs.append({"name": f"vam-upd-{m}-{s}",
                         "args": ["-mode", "rank", "-config", f"vamana-{m}", "-seed", seed * 100 + 30 + s,
                                  "-hist", 2 if tier == "quick" else 6, "-batches", 40, "-rank", 4]})
        # every write batch starts on a cold cache (cache off) and storage reads are slow: the insert workers of a batch
        # overlap in their read-throughs; insert-only small collections, so every answer must be exact
        for k in range(2):
            runs.append({"name": f"vam-coldpar-{s}-{k}",
                         "args": ["-mode", "rank", "-insert-only", "-config", "vamana-euclidean", "-nids", 24, "-cache", "0", "-slowget-us", 1000,
                                  "-maxbatch", 12, "-seed", seed * 100 + 35 + 50 * k + s, "-hist", 8 if tier == "quick" else 30, "-batches", 4, "-rank", 4]})
        # learned binary quantiser under a graph index: warm answers against cold ones, key-level life cycle
        runs.append({"name": f"vam-binlearn-{s}",
                     "args": ["-mode", "cache", "-config", "vamana-binlearn", "-cache", "-1", "-seed", seed * 100 + 38 + s,
                              "-hist", 2 if tier == "quick" else 6, "-batches", 12, "-rank", 3, "-panel-every", 0]})
        # index built with search size 25, queries with up to 75: 30 points (more than the build window, fewer than the
        # query window) and boundary-size id filters on 300 ids
        runs.append({"name": f"vam-win25-io-{s}",
                     "args": ["-mode", "rank", "-config", "vamana-win25", "-nids", 30, "-maxbatch", 12, "-insert-only", "-seed", seed * 100 + 40 + s,
                              "-hist", 3 if tier == "quick" else 10, "-batches", 6, "-rank", 10]})
        runs.append({"name": f"vam-win25-big-{s}",
                     "args": ["-mode", "rank", "-config", "vamana-win25", "-nids", 300, "-maxbatch", 80, "-seed", seed * 100 + 45 + s,
                              "-hist", 1 if tier == "quick" else 3, "-batches", 20, "-rank", 24]})
        # larger graphs: soundness (never dead / out-of-filter / duplicate / entry node, right distances, order)
        for m in (["euclidean", "hamming"] if tier == "quick" else METRICS[:5]):
            runs.append({"name": f"vam-big-{m}-{s}",
                         "args": ["-mode", "rank", "-config", f"vamana-{m}", "-nids", 300 if tier == "quick" else 500,
                                  "-maxbatch", 80, "-seed", seed * 100 + 60 + s, "-hist", 1 if tier == "quick" else 3,
                                  "-batches", 25 if tier == "quick" else 60, "-rank", 24]})
    results = drive_and_validate(res, runs)
    for r in results[:2]:
        sample_from_trace_nonempty(res, r["trace"], "Vamana", cap=2)
    binding_selftest(res, results, mut_hit_distance("Vamana"), what="reported distance of the first hit altered")

    def mut(e):
        if e["ev"] == "Vamana" and e["exact"] == 1 and len(e["hits"]) >= 2 and e["hits"][0]["d"] != e["hits"][-1]["d"]:
            e["hits"] = e["hits"][1:]
            return True
        return False
    binding_selftest(res, results, mut, what="nearest hit dropped from an exact-regime answer")
    ex = 0
    tot = 0
    for r in results:
        if os.path.exists(r["trace"]):
            with open(r["trace"]) as f:
                for line in f:
                    if '"ev":"Vamana"' in line:
                        tot += 1
                        if '"exact":1' in line:
                            ex += 1
    res.coverage["vamana_queries"] = tot
    res.coverage["vamana_queries_in_exact_regime"] = ex
    if ex == 0:
        raise Inconclusive("no graph query fell into an exact regime (vacuous)")
    res.coverage["rule"] = ("graph searches (limits 1..75, search sizes 25..75, weights, no / id / leaf / tree pre-filters) after "
                            "histories with inserts, vector updates, vector removal, deletes and node-id reuse under all six "
                            "metrics, on universes of 12 ids (exact regimes: insert-only history, or a pre-filter) and 150-400 ids "
                            "(soundness: only live in-filter holders, no duplicate, no entry node, <= limit, distances right and "
                            "non-decreasing, hybrid = -weight*distance); a search error on a quiescent shard is a violation")
    res.assumptions += ["quantised distances (product / learned binary) are not exercised", "cosine judged on unit vectors"]


@prop("C10", "model_checking")
def c10(res, tier, seed, replay):
    if replay:
        replay_run(res, replay)
        return
    design_check(res, "ShardMC", "ShardMC.cfg")
    # the batch algorithm of the graph index with every distance-dependent choice left open
    design_check(res, "Graph", "Graph.cfg" if tier == "quick" else "Graph.deep.cfg", timeout=3000, heap="12g")
    expect_design_violation(res, "Graph", "Graph.neg.cfg", "BoundAlways", "back edges added up to the degree bound + 1")
    expect_design_violation(res, "Graph", "Graph.split.cfg", "BoundAlways",
                            "an insert worker looks at a neighbour's edge count, releases its lock and appends later without a second look")
    expect_design_violation(res, "Graph", "Graph.reach.cfg", "AllReachable",
                            "documented design observation: the structure alone does not keep every node reachable from the entry node "
                            "(pruning may drop the only inbound edge); reachability is not part of C10")
    runs = []
    nseeds = 1 if tier == "quick" else 4
    for s in range(nseeds):
        for m, nids, mb, hist, batches in ([("euclidean", 12, 5, 4, 25), ("euclidean", 120, 40, 2, 30), ("hamming", 60, 20, 2, 25),
                                            ("dot", 200, 64, 1, 30)] if tier == "quick" else
                                           [("euclidean", 12, 5, 12, 40), ("euclidean", 150, 40, 6, 60), ("hamming", 80, 30, 6, 50),
                                            ("dot", 400, 100, 3, 60), ("cosine", 40, 12, 6, 40), ("jaccard", 100, 30, 4, 50)]):
            for cache, ctag in CACHES[:1] if tier == "quick" else CACHES:
                runs.append({"name": f"graph-{m}-{nids}-{ctag}-{s}",
                             "args": ["-mode", "graph", "-repeat-upd", "-config", f"vamana-{m}", "-nids", nids, "-maxbatch", mb, "-cache", cache,
                                      "-seed", seed * 100 + s, "-hist", hist, "-batches", batches, "-rank", 2]})
        # saturated neighbourhoods (24 dimensions, few component values): the degree bound is actually reached
        runs.append({"name": f"graph-dense-io-{s}", "timeout": 900,
                     "args": ["-mode", "graph", "-insert-only", "-config", "vamana-dense", "-nids", 600 if tier == "quick" else 1200, "-maxbatch", 150,
                              "-seed", seed * 100 + 70 + s, "-hist", 1 if tier == "quick" else 3, "-batches", 8, "-rank", 1]})
        runs.append({"name": f"graph-dense-mix-{s}", "timeout": 900,
                     "args": ["-mode", "graph", "-config", "vamana-dense", "-nids", 400 if tier == "quick" else 900, "-maxbatch", 150,
                              "-seed", seed * 100 + 75 + s, "-hist", 1 if tier == "quick" else 3, "-batches", 30, "-rank", 1]})
    results = drive_and_validate(res, runs)
    for r in results[1:2]:
        sample_from_trace_nonempty(res, r["trace"], "Graph", cap=1)
    atbound = 0
    for r in results:
        if "dense" in r["run"]["name"] and os.path.exists(r["trace"]):
            with open(r["trace"]) as f:
                for line in f:
                    if '"ev":"Graph"' in line:
                        e = json.loads(line)
                        atbound = max(atbound, sum(1 for n in e["nodes"] if n[0] != 1 and len(n[1]) >= e["R"]))
    res.coverage["most_nodes_at_the_degree_bound_in_one_graph"] = atbound
    if atbound == 0 and not res.violations:
        raise Inconclusive("no node reached the degree bound in the dense runs (vacuous bound check)")

    def mut(e):
        if e["ev"] == "Graph" and len(e["nodes"]) >= 3:
            # an edge to a node that does not exist
            e["nodes"][1][1] = e["nodes"][1][1] + [e["max"] + 5]
            return True
        return False
    binding_selftest(res, results, mut, what="dangling edge added to the logged graph")

    def mut2(e):
        if e["ev"] == "Insert" and e["ok"] == 1 and len(e["P"]["nodes"]) >= 2:
            e["P"]["nodes"][0][1] = e["P"]["nodes"][1][1]
            return True
        return False
    binding_selftest(res, results, mut2, what="two live points given the same node id in the logged projection")

    def mut3(e):
        # a removal-only batch after which an untouched node lost an edge
        if e["ev"] == "Graph" and e.get("hasprev") == 1 and e["ok"] == 1 and e["kind"] == "delete":
            before = {n[0]: n[1] for n in e["prev"]}
            now = {n[0] for n in e["nodes"]}
            if set(before) - now:
                for n in e["nodes"]:
                    if n[0] != 1 and n[1] and sorted(n[1]) == sorted(before.get(n[0], [])) and set(n[1]) <= now:
                        n[1] = n[1][1:]
                        return True
        return False
    binding_selftest(res, results, mut3, what="an edge of an untouched node dropped over a removal-only batch (graph transition)")
    kinds = {}
    for r in results:
        if not os.path.exists(r["trace"]):
            continue
        with open(r["trace"]) as f:
            for line in f:
                if '"ev":"Graph"' not in line:
                    continue
                e = json.loads(line)
                if not e.get("hasprev"):
                    continue
                before = {n[0] for n in e["prev"]}
                now = {n[0] for n in e["nodes"]}
                upd = (set(e["touched"]) & before & now) if e["kind"] == "update" else set()
                k = ("rejected" if not e["ok"] else "removal_only_exact" if (before - now) and not (now - before) and not upd else
                     "single_insert_exact" if len(now - before) == 1 and not (before - now) and not upd and 1 in before else
                     "no_change" if before == now and not upd else "mixed_bounds")
                kinds[k] = kinds.get(k, 0) + 1
    res.coverage["graph_transitions_by_rule"] = kinds
    res.coverage["rule"] = ("after every write batch (insert / update / delete mixes, vector removal and re-addition, id reuse, "
                            "batches up to 100 points, graphs up to 400 nodes, degree bound 32) the persisted graph, vector keys, "
                            "recorded maximum node id, node-id table, free list and counters are dumped through hook H1 and TLC "
                            "evaluates GraphWF and ShardWF on every line, and judges the transition from the graph before the batch to the "
                            "graph after it against Graph.tla's batch (rejected batch: identical; removal only and single insertion: exact; "
                            "otherwise every edge must come from where the design can take it and nothing changes without a cause)")
    res.assumptions += ["degree bounds below 32 cannot be configured through validation and are not exercised"]


# ==========================================================================
# C12: shard manager (ShardMgr.tla design + forced schedules + MgrMonitor.tla)

def expect_design_violation(res, module, cfg, invariant, what):
    """Design-level binding self-test: with one switch flipped TLC must find the expected violation."""
    r = vlib.tlc_model_check(module, cfg, name="neg-" + cfg, timeout=900)
    if r["ok"] or invariant not in (r["raw"] or ""):
        raise Inconclusive(f"design self-test failed: {module}/{cfg} should violate {invariant}")
    res.coverage.setdefault("design_selftests", []).append(f"{what}: TLC reports {invariant} violated ({cfg})")


def write_behaviours(behs, path):
    with open(path, "w") as f:
        for b in behs:
            f.write(json.dumps(b) + "\n")


@prop("C12", "model_checking")
def c12(res, tier, seed, replay):
    vlib.build_harness()
    if replay and "behaviours" not in json.load(open(os.path.join(replay, "violation.json")))["meta"]:
        replay_run(res, replay, default_module="BackupTrace")
        return
    if replay:
        meta = json.load(open(os.path.join(replay, "violation.json")))["meta"]
        behs = [json.loads(l) for l in open(os.path.join(replay, meta["behaviours"]))]
        runs = [("backupfail" if meta.get("backupfail") else "replay", behs, meta.get("backups", False))]
    else:
        design_check(res, "ShardMgr", "ShardMgr.cfg")
        design_check(res, "ShardMgr", "ShardMgr.live.cfg")
        expect_design_violation(res, "ShardMgr", "ShardMgr.pinned.cfg", "NoDeadlock",
                                "lock order of the idle-unload goroutine as it was before the repair")
        expect_design_violation(res, "ShardMgr", "ShardMgr.noguard.cfg", "NeverOpenTwice",
                                "repair without the 'only remove our own entry' guard")
        expect_design_violation(res, "ShardMgr", "ShardMgr.deadentry.cfg", "AfterwardsLoadable",
                                "the entry is put into the store before the shard file is opened: a failed open leaves a dead entry")
        n = 400 if tier == "quick" else 6000
        behs = vlib.tlc_simulate("ShardMgr", "ShardMgr.sim.cfg", n, 120, seed)
        res.coverage["behaviours_generated"] = len(behs)
        half = len(behs) // 2
        runs = [("plain", behs[:half], False), ("backups", behs[half:], True), ("stress", [], False),
                # the same behaviours with a backup copy that fails every time (file name beyond PATH_MAX)
                ("backupfail", behs[half:half + (60 if tier == "quick" else 600)], True)]
    tot_drift = 0
    for name, bs, backups in runs:
        bf = os.path.join(vlib.subdir("traces"), f"mgr-{name}.behaviours")
        write_behaviours(bs, bf)
        out = os.path.join(vlib.subdir("traces"), f"mgr-{name}.ndjson")
        args = ["mgr", "-out", out, "-dir", vlib.subdir("mgr-" + name), "-step-ms", "1500"]
        if name == "stress":
            args += ["-stress", 300 if tier == "quick" else 4000, "-seed", seed]
        else:
            args += ["-behaviours", bf]
        if backups:
            args.append("-backups")
        if name == "backupfail":
            args.append("-backupfail")
        rc, so, se = vlib.run_vh(args, timeout=3000)
        if rc != 0:
            if CRASH_RE.search(se):
                errf = out + ".stderr"
                open(errf, "w").write(se)
                first = next((ln for ln in se.splitlines() if CRASH_RE.search(ln)), "")
                res.violation(f"shard manager replay crashed: {first[:200]}", files=[bf, errf],
                              meta={"behaviours": os.path.basename(bf), "backups": backups, "backupfail": name == "backupfail"})
                continue
            raise Inconclusive(f"mgr driver failed rc={rc}: {se[-1500:]}")
        stats = json.loads(so.strip().splitlines()[-1])
        tot_drift += stats["drifted"]
        res.add("behaviours_replayed", stats["behaviours"])
        res.add("stress_rounds", stats.get("stress_rounds", 0))
        res.coverage.setdefault("drift_samples", []).extend((stats.get("drift_samples") or [])[:2])
        # an unconfirmed stuck (some participant not parked on a lock) is inconclusive
        with open(out) as f:
            for line in f:
                if '"ev":"Stuck"' in line and json.loads(line).get("confirmed") != 1:
                    raise Inconclusive("a call did not return but the goroutine dump does not show every participant "
                                       "parked on a lock: " + line[:400])
        tv = vlib.tlc_trace("MgrMonitor", out, known=known_names(res.pid).keys(), name="mgr-" + name)
        res.add("traces_validated_against_impl", stats["behaviours"] + stats.get("stress_rounds", 0))
        res.add("trace_events", tv["lines"])
        if not tv["accepted"]:
            n = tv["matched"] + 1
            line = vlib.read_line(out, n) or ""
            # the behaviour the offending line belongs to
            beh = None
            with open(out) as f:
                for i, ln in enumerate(f, 1):
                    if i > n:
                        break
                    if '"ev":"NewBehaviour"' in ln:
                        beh = json.loads(ln)
            dumps = [os.path.join(vlib.subdir("mgr-" + name), x) for x in os.listdir(vlib.subdir("mgr-" + name)) if x.endswith(".dump")][:1]
            res.violation(f"shard manager ({name}): no monitor action explains line {n}: {summarize_event(line)} "
                          f"in behaviour {beh['b'] if beh else '?'}: {' '.join(beh['steps']) if beh else ''}"[:1500],
                          files=[bf, out] + dumps, meta={"behaviours": os.path.basename(bf), "backups": backups, "backupfail": name == "backupfail", "line": n})
        else:
            sample_from_trace(res, out, ("NewBehaviour",), cap=1)
            results = [{"run": {"name": "mgr-" + name}, "trace": out, "tv": tv}]
            if name in ("plain", "replay"):
                def mut(e):
                    if e["ev"] == "Closed":
                        e["ev"] = "Skip"
                        return True
                    return False
                # dropping a Closed event must make a later Opened / Remove unacceptable
                try:
                    binding_selftest(res, results, lambda e: e["ev"] == "Closed" and not e.update({"ls": e["ls"] + 7}),
                                     module="MgrMonitor", what="identity of a closed shard altered")
                except Inconclusive:
                    raise
    res.coverage["behaviours_with_protocol_drift"] = tot_drift
    if not replay:
        # what the idle routine does besides unloading: backups (rotation rule and content of every backup file)
        design_check(res, "Backup", "Backup.cfg")
        design_check(res, "Backup", "Backup.f1.cfg")
        expect_design_violation(res, "Backup", "Backup.neg.cfg", "FreshWhenTaken", "rotation removes from the wrong end")
        bruns = []
        for i, (freq, count) in enumerate([(1, 1), (1, 2), (2, 3)] if tier == "quick" else [(1, 1), (1, 3), (2, 1), (1, 2), (2, 3), (3, 2)]):
            bruns.append({"name": f"backup-f{freq}-c{count}", "timeout": 900,
                          "args": ["-mode", "backup", "-config", "scalars-ne" if i % 2 == 0 else "kitchen", "-backup-freq", freq, "-backup-count", count,
                                   "-seed", seed * 100 + 30 + i, "-hist", 1 if tier == "quick" else 3, "-batches", 45 if tier == "quick" else 90]})
        bres = drive_and_validate(res, bruns, module="BackupTrace", workers=6)
        ncalls = 0
        for r in bres:
            if os.path.exists(r["trace"]):
                with open(r["trace"]) as f:
                    ncalls += sum(1 for line in f if '"ev":"BBackup"' in line)
        res.coverage["backup_calls_validated"] = ncalls

        def bmut(e):
            if e["ev"] == "BBackup" and e["files"]:
                e["files"][-1]["dig"] = "n0-corrupt"
                return True
            return False
        binding_selftest(res, bres, bmut, module="BackupTrace", what="content digest of the newest backup file altered")
    res.coverage["rule"] = ("TLC checks ShardMgr.tla exhaustively (3 requests, 2 deletions, timer at any time; safety, deadlock "
                            "freedom, liveness under fairness) and, in simulation mode, generates behaviours that are forced on a "
                            "real cluster.ShardManager through the H3 yield points (idle timer fired on demand, with and without "
                            "backups); the recorded open/close/run/remove/return events are validated by TLC against MgrMonitor.tla; "
                            "a call that never returns is confirmed by a goroutine dump; a final probe request must succeed. Backups (taken by the same idle routine): "
                            "Backup.tla (rotation rule) is model-checked and real Shard.Backup calls interleaved with write batches and pauses are "
                            "validated by TLC against it (files present, and each file opened as a shard holds the content of the version it was taken at)")
    res.assumptions += ["one shard directory; requests are forced at the granularity of the H3 yield points",
                        "protocol-level disagreement between code and ShardMgr.tla with all monitors passing is reported as drift, not as a violation"]


# ==========================================================================
# C07: all-or-nothing write batches (WriteTxn.tla design + fault enumeration)

@prop("C07", "fault_enumeration")
def c07(res, tier, seed, replay):
    if replay:
        replay_run(res, replay)
        return
    design_check(res, "WriteTxn", "WriteTxn.cfg")
    expect_design_violation(res, "WriteTxn", "WriteTxn.pinned.cfg", "NoTouchAfterRollback",
                            "closure returns on the first error while stages still run (the pinned behaviour)")
    expect_design_violation(res, "WriteTxn", "WriteTxn.noscrap.cfg", "AllOrNothing",
                            "shared caches not scrapped when the batch does not commit")
    runs = []
    if tier == "quick":
        plan = [("kitchen", "-1", "unl", 2, 6, 8, 2), ("kitchen", "3000", "tiny", 1, 6, 6, 1), ("scalars-ne", "-1", "unl", 1, 6, 6, 1),
                ("vamana-euclidean", "-1", "unl", 1, 6, 8, 1), ("text", "0", "off", 1, 5, 6, 1)]
    else:
        plan = [("kitchen", "-1", "unl", 6, 10, 0, 6), ("kitchen", "3000", "tiny", 4, 10, 0, 4), ("kitchen", "0", "off", 3, 10, 0, 3),
                ("scalars-ne", "-1", "unl", 4, 10, 0, 4), ("vamana-euclidean", "-1", "unl", 4, 10, 0, 4), ("vamana-hamming", "3000", "tiny", 3, 8, 0, 3),
                ("flat-jaccard", "-1", "unl", 3, 8, 0, 3), ("text", "-1", "unl", 4, 10, 0, 4)]
    for i, (cfgname, cache, ctag, hist, batches, maxf, kills) in enumerate(plan):
        runs.append({"name": f"fault-{cfgname}-{ctag}", "timeout": 2400, "tlc_timeout": 2400,
                     "args": ["-mode", "fault", "-config", cfgname, "-cache", cache, "-seed", seed * 100 + i, "-hist", hist,
                              "-batches", batches, "-max-faults", maxf, "-kills", kills, "-rank", 1, "-sample", 25]})
    # large batches rejected late (an existing id among ~60 new ones) on cold caches: stages must have stopped
    # before the transaction is rolled back
    for s in range(3 if tier == "quick" else 10):
        runs.append({"name": f"fault-bigreject-{s}", "timeout": 1200, "tlc_timeout": 2400,
                     "args": ["-mode", "fault", "-config", "vamana-euclidean", "-nids", 400, "-maxbatch", 60, "-cache", "0", "-seed", seed * 100 + 70 + s,
                              "-hist", 1, "-batches", 10, "-max-faults", 4, "-kills", 0, "-rank", 1, "-sample", 10]})
    # inserts of 1300..2600 points at once (the API takes 10000), every other one refused at its last point, with faults and
    # kills early, in the middle and at the end: nothing of a batch that did not commit may stay
    for s in range(1 if tier == "quick" else 4):
        runs.append({"name": f"fault-biginsert-{s}", "timeout": 1800, "tlc_timeout": 2400,
                     "args": ["-mode", "fault", "-insert-only", "-config", "none" if s % 2 == 0 else "scalars-ne", "-nids", 9000, "-maxbatch", 2600,
                              "-cache", "-1", "-seed", seed * 100 + 90 + s, "-hist", 1, "-batches", 3 if tier == "quick" else 4,
                              "-max-faults", 4 if tier == "quick" else 8, "-kills", 1 if tier == "quick" else 3, "-rank", 0, "-sample", 5]})
    # points that are an id without any data bytes, every storage operation of every batch failed in turn
    for s in range(2 if tier == "quick" else 6):
        runs.append({"name": f"fault-nodata-{s}", "timeout": 1200, "tlc_timeout": 1800,
                     "args": ["-mode", "fault", "-config", "none-nodata", "-cache", "-1", "-seed", seed * 100 + 95 + s, "-hist", 2 if tier == "quick" else 4,
                              "-batches", 8, "-max-faults", 0, "-kills", 1, "-rank", 0, "-sample", 10]})
    results = drive_and_validate(res, runs)
    nf = nk = nfail = 0
    distinct = set()
    for r in results:
        if not os.path.exists(r["trace"]):
            continue
        prev = None
        with open(r["trace"]) as f:
            for line in f:
                if '"ev":"Fault"' in line:
                    nf += 1
                    e = json.loads(line)
                    prev = (r["run"]["name"], e["kind"], e["k"])
                elif '"ev":"Crash"' in line:
                    nk += 1
                    e = json.loads(line)
                    distinct.add((r["run"]["name"], "kill", e["kind"], e["at"]))
                    res.sample(summarize_event(line, 300), cap=3)
                elif prev and ('"ev":"Insert"' in line or '"ev":"Update"' in line or '"ev":"Delete"' in line):
                    e = json.loads(line)
                    if e["ok"] == 0:
                        nfail += 1
                    distinct.add(prev + (e["ev"], len(e.get("pts", e.get("ids", [])))))
                    if len(res.coverage["samples"]) < 2 and e["ok"] == 0 and e.get("pts"):
                        res.sample({"fault": prev[1:], "batch": summarize_event(line, 300)})
                    prev = None
    res.coverage["evaluations"] = nf + nk
    res.coverage["distinct_nontrivial"] = len(distinct)
    res.coverage["fault_points_failed"] = nfail
    res.coverage["kill_points"] = nk
    if nf < 5 or nk < 2:
        raise Inconclusive("fault enumeration exercised too few fault / kill points")

    def mut(e):
        # pretend a failed batch left one more point behind
        if e["ev"] == "Count" and mut.armed:
            e["n"] += 1
            return True
        if e["ev"] == "Fault":
            mut.armed = True
        return False
    mut.armed = False
    binding_selftest(res, results, mut, what="point count after an injected fault off by one")
    res.coverage["rule"] = ("for every batch of random histories (all index types, rejections by duplicate / existing id, oversized "
                            "merged document, wrong field type) the batch is first tried on copies of the database with the k-th "
                            "fallible storage operation (bucket open, put, delete, scan) failing, with the commit refused, and in a "
                            "child process killed at the k-th operation, before the commit and right after it; after each trial the "
                            "warm instance and the reopened file answer the point reads, filter / ranking panels and graph dump, and "
                            "TLC accepts only 'unchanged' (failure, kill before commit) or 'all effects' (success, kill after commit). "
                            "A case = (configuration, fault kind, k, batch kind, batch size); quick samples k, thorough takes every k")
    res.assumptions += ["storage reads through Bucket.Get cannot fail in the diskstore interface (no error result): only bucket opens, "
                        "puts, deletes and scans are fault points",
                        "torn writes inside bbolt's commit are not modelled (third party)",
                        "the memory backend has no rollback and is outside this property"]



# --------------------------------------------------------------------------
# plug-in modules: lib/props_*.py register further properties with @props.prop
# and may add their manifest metadata to props.META
def _load_plugins():
    import glob
    import importlib
    here = os.path.dirname(os.path.abspath(__file__))
    for f in sorted(glob.glob(os.path.join(here, "props_*.py"))):
        importlib.import_module(os.path.basename(f)[:-3])


_load_plugins()
