"""Per-property decision procedures (DESIGN.md section 5)."""
import json
import os
import random
import re
import shutil

import vlib
from vlib import Inconclusive, log

REGISTRY = {}


def prop(pid, level):
    def deco(fn):
        REGISTRY[pid] = (fn, level)
        return fn
    return deco


# ==========================================================================
# Shard family: drive a real shard, validate the trace with ShardTrace.tla

CRASH_RE = re.compile(r"(panic:|fatal error:|SIGSEGV|unexpected signal|goroutine \d+ \[running\])")


def known_names(pid):
    findings, _ = vlib.load_known()
    return findings.get(pid, {})


def summarize_event(line, cap=700):
    try:
        e = json.loads(line)
    except Exception:
        return line[:cap]
    s = json.dumps(e, sort_keys=True)
    return s if len(s) <= cap else s[:cap] + "..."


def drive_and_validate(res, runs, module="ShardTrace", cmd="shard", workers=None, invariants=("WF",)):
    """runs: list of dict(name=..., args=[...]). Drives the real code (one
    process per run), validates every trace with TLC. Registers violations and
    known findings on res. Returns the list of per-run results."""
    kn = known_names(res.pid)
    vlib.build_harness()

    def one(run):
        name = run["name"]
        out = os.path.join(vlib.subdir("traces"), name + ".ndjson")
        rc, so, se = vlib.run_vh([cmd] + run["args"] + ["-out", out, "-dir", vlib.subdir("db-" + name)],
                                 timeout=run.get("timeout", 900))
        r = {"run": run, "trace": out, "rc": rc, "stderr": se, "stdout": so}
        if rc != 0:
            return r
        r["tv"] = vlib.tlc_trace(module, out, known=kn.keys(), name=name, invariants=invariants,
                                 timeout=run.get("tlc_timeout", 900))
        return r

    results = vlib.pmap(one, runs, workers=workers or max(2, vlib.NCPU // 2))
    for r in results:
        run = r["run"]
        if r["rc"] != 0:
            se = r["stderr"]
            if CRASH_RE.search(se):
                errf = os.path.join(vlib.subdir("traces"), run["name"] + ".stderr")
                with open(errf, "w") as f:
                    f.write(se)
                res.violation(f"driver process crashed inside the code under test (rc={r['rc']}) in run {run['name']}: "
                              + se.strip().splitlines()[0][:300],
                              files=[r["trace"], errf], meta={"cmd": cmd, "args": run["args"]})
                continue
            raise Inconclusive(f"driver {run['name']} failed rc={r['rc']}: {se[-2000:]}")
        tv = r["tv"]
        res.add("traces_validated_against_impl", 1)
        res.add("trace_events", tv["lines"])
        for k in tv["kf"]:
            if k in kn:
                res.known[k] = kn[k]["what"]
            else:
                raise Inconclusive(f"spec reported unknown finding name {k}")
        if not tv["accepted"]:
            n = tv["matched"] + 1
            line = vlib.read_line(r["trace"], n) or ""
            why = f"invariant {tv['invariant']} violated after" if tv["invariant"] else "no spec action explains"
            res.violation(f"trace {run['name']}: {why} line {n}/{tv['lines']}: {summarize_event(line)}",
                          files=[r["trace"]], meta={"cmd": cmd, "args": run["args"], "line": n,
                                                    "module": module})
    return results


def corrupt_trace(src, dst, mutate):
    """Copy src to dst applying mutate(event) -> bool (True once mutated) to the first applicable line."""
    done = False
    with open(src) as f, open(dst, "w") as g:
        for line in f:
            if not done:
                e = json.loads(line)
                if mutate(e):
                    done = True
                    line = json.dumps(e) + "\n"
            g.write(line)
    return done


def binding_selftest(res, results, mutate, module="ShardTrace", what="", invariants=("WF",)):
    """Corrupt one logged field of an accepted trace; TLC must reject it."""
    kn = known_names(res.pid)
    for r in results:
        if r.get("tv") and r["tv"]["accepted"]:
            dst = os.path.join(vlib.subdir("traces"), "selftest-" + r["run"]["name"] + ".ndjson")
            if not corrupt_trace(r["trace"], dst, mutate):
                continue
            tv = vlib.tlc_trace(module, dst, known=kn.keys(), name="selftest", invariants=invariants)
            if tv["accepted"]:
                raise Inconclusive(f"binding self-test failed: corrupted trace ({what}) was accepted")
            res.coverage.setdefault("binding_selftests", []).append(
                f"{what}: corrupted copy of {r['run']['name']} rejected at line {tv['matched'] + 1}")
            return
    raise Inconclusive("binding self-test could not run (no accepted trace with an applicable line)")


def design_check(res, module, cfg, name=None, timeout=1800, heap="8g"):
    r = vlib.tlc_model_check(module, cfg, timeout=timeout, heap=heap, name=name)
    if not r["ok"]:
        raise Inconclusive(f"design spec {module}/{cfg} failed TLC: {r['error']}\n{r['raw'][-2500:]}")
    res.add("states", r["distinct"])
    res.add("transitions", r["generated"])
    res.coverage.setdefault("design_runs", []).append(
        {"module": module, "cfg": cfg, "distinct": r["distinct"], "generated": r["generated"], "depth": r["depth"],
         "wall_s": r["wall_s"]})
    return r


def sample_from_trace(res, path, evs, cap=3):
    n = 0
    with open(path) as f:
        for line in f:
            e = json.loads(line)
            if e["ev"] in evs:
                res.sample(summarize_event(line, 500))
                n += 1
                if n >= cap:
                    return


def replay_run(res, replay, default_module="ShardTrace", invariants=("WF",)):
    meta = json.load(open(os.path.join(replay, "violation.json")))["meta"]
    run = {"name": "replay", "args": meta["args"]}
    return drive_and_validate(res, [run], module=meta.get("module", default_module), cmd=meta.get("cmd", "shard"),
                              invariants=invariants)


# --------------------------------------------------------------------------
CACHES = [("-1", "unl"), ("0", "off"), ("3000", "tiny")]


@prop("C01", "model_checking")
def c01(res, tier, seed, replay):
    if replay:
        replay_run(res, replay)
        return
    design_check(res, "ShardMC", "ShardMC.cfg" if tier == "quick" else "ShardMC.deep.cfg")
    hist, batches, nseeds = (6, 30, 1) if tier == "quick" else (40, 50, 6)
    runs = []
    for s in range(nseeds):
        for cfgname in ("scalars", "none", "kitchen"):
            for cache, ctag in CACHES:
                runs.append({"name": f"crud-{cfgname}-{ctag}-{s}",
                             "args": ["-mode", "crud", "-config", cfgname, "-cache", cache, "-seed", seed * 100 + s,
                                      "-hist", hist, "-batches", batches]})
        runs.append({"name": f"crud-scalars-mem-{s}",
                     "args": ["-mode", "crud", "-config", "scalars", "-mem", "-seed", seed * 100 + 50 + s,
                              "-hist", hist, "-batches", batches]})
    results = drive_and_validate(res, runs)
    for r in results[:1]:
        sample_from_trace(res, r["trace"], ("Insert", "Update", "Delete", "Get"), cap=4)

    def mut(e):
        if e["ev"] == "Get" and e["docs"]:
            d = e["docs"][0]["f"]
            if d:
                k = sorted(d)[0]
                d[k] = d[k] + "X"
                return True
        return False
    binding_selftest(res, results, mut, what="one field of one returned document altered")

    def mut2(e):
        if e["ev"] == "Count":
            e["n"] += 1
            return True
        return False
    binding_selftest(res, results, mut2, what="reported point count off by one")
    res.coverage["rule"] = ("random histories of insert/update/delete batches over 12 ids (fresh, repeated, deleted, "
                            "unknown, duplicated ids; nested / extra / indexed / oversized fields) on real shards under "
                            "schemas none/scalars/kitchen, caches unlimited/off/tiny, bbolt and memory backends; after every "
                            "batch the API results, the persisted id bookkeeping (hook H1), the point count and a select-* "
                            "read of all 12 ids are validated line by line by TLC against Shard.tla")
    res.assumptions += ["documents are encoded as the HTTP layer does (msgpack of a map)",
                        "update batches never repeat an id inside one batch (meaning not fixed by the property)"]


@prop("C02", "model_checking")
def c02(res, tier, seed, replay):
    if replay:
        replay_run(res, replay)
        return
    design_check(res, "FilterMC", "FilterMC.cfg")
    hist, batches, every, nseeds = (2, 12, 4, 2) if tier == "quick" else (6, 24, 1, 6)
    runs = []
    for s in range(nseeds):
        for cache, ctag in CACHES[:2] if tier == "quick" else CACHES:
            runs.append({"name": f"filter-{ctag}-{s}",
                         "args": ["-mode", "filter", "-config", "scalars", "-cache", cache, "-seed", seed * 100 + s,
                                  "-hist", hist, "-batches", batches, "-panel-every", every]})
        runs.append({"name": f"filter-mem-{s}",
                     "args": ["-mode", "filter", "-config", "scalars", "-mem", "-seed", seed * 100 + 70 + s,
                              "-hist", hist, "-batches", batches, "-panel-every", every]})
    # dedicated histories in which indexed strings are drawn uniformly, "" included
    runs.append({"name": "filter-emptystr", "args": ["-mode", "filter", "-config", "scalars-empty", "-seed", seed * 100 + 99,
                                                     "-hist", 2, "-batches", 10, "-panel-every", 5, "-sample", 300]})
    results = drive_and_validate(res, runs)
    for r in results[:1]:
        sample_from_trace(res, r["trace"], ("Filter",), cap=4)

    def mut(e):
        if e["ev"] == "Filter" and e["ids"]:
            e["ids"] = e["ids"][1:]
            return True
        return False
    binding_selftest(res, results, mut, what="one id dropped from a filter answer")
    res.coverage["rule"] = ("the full operator x ladder/pool-value panel (equals..inRange, startsWith, containsAll/Any, _id; "
                            "14 int64 / 15 float64 / 17 string boundary values incl. min/max int64, -0.0, subnormals, +-Inf, "
                            "empty / non-ASCII / case-variant / prefix-related strings) plus random _and/_or trees of depth <= 3 "
                            "is evaluated on a real shard after write batches that change, add and remove indexed fields; TLC "
                            "recomputes every answer from the model state and requires set equality")
    res.assumptions += ["queries are restricted to those accepted by models.Query.Validate / ValidateSchema"]
