#!/bin/bash
# seed_detect.sh <seed-dir> <tier> <check ids...>: apply a seeded change to /repo, run the check(s), undo.
SD=$1; TIER=$2; shift 2
# never overlap with lib/run_all.sh (shared /repo working tree and harness build)
if [ -z "$VERIF_LOCKED" ]; then exec env VERIF_LOCKED=1 flock /var/tmp/verif.lock "$0" "$SD" "$TIER" "$@"; fi
cd /repo || exit 2
git diff --quiet || { echo "repo dirty"; exit 2; }
git apply "$SD/patch.diff" || { echo "apply failed"; exit 2; }
trap 'git -C /repo checkout -- . ' EXIT
for P in "$@"; do
  cd /verif && timeout 3000 ./check $P --tier $TIER > /tmp/seed-detect-$P.log 2>&1; RC=$?
  echo "check=$P tier=$TIER rc=$RC $(grep -c '^VIOLATION' /tmp/seed-detect-$P.log) violation(s)"
  grep -A1 "^VIOLATION\|^INCONCLUSIVE" /tmp/seed-detect-$P.log | cut -c1-300 | head -4
done
